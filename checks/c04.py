# C04 -- every input set is processed exactly once; every item reaches every consumer.
import random, re
from tools import vlib, t3
from tools import ks

MODULE = "PropC04"
THEOREMS = ["C04_code_conforms", "C04_tasks_are_zip", "C04_emitted_exactly_once", "C04_complete", "C04_deterministic", "C04_files_deterministic", "C04_zip_equation", "C04_reference_evaluator_zips", "C04_port_merge", "C04_port_closes_with_last", "C04_port_complete", "C04_port_progress", "C04_nonvacuous", "C04_cone_conforms", "C04_shared_ip_views", "C04_shared_ip_timing_dependent_refuted", "C04_private_copy_deterministic", "C04_shared_ip_nonvacuous"]


def special_shapes(rng, i):
    """shapes the random generator reaches rarely: port-less process, FromStr longer than the buffer, long chains, wide fan-out, single-port fan-in"""
    kind = i % 8
    buf = rng.choice([1, 2, 3])
    sp = t3.Spec(maxtasks=rng.randint(1, 4), bufsize=buf)
    L = buf + rng.randint(0, 3)
    if kind == 0:      # a process without ports runs exactly once, feeding a chain
        a = sp.proc(t3.Proc("solo", kind="write", outs=[("o", "solo.txt")]))
        sp.proc(t3.Proc("next", kind="cattok", ins=[("a", [(a, "o")])], outs=[("o", "{i:a}.next")]))
    elif kind == 1:    # FromStr parameter stream longer than the buffer
        vals = ["w%d" % j for j in range(L + 2)]
        a = sp.proc(t3.Proc("par", kind="write", pars=[("q", ("V", vals))], outs=[("o", "par.{p:q}.txt")]))
        sp.proc(t3.Proc("use", kind="cat", ins=[("a", [(a, "o")])], outs=[("o", "{i:a}.use")]))
    elif kind == 2:    # a chain with more tasks per process than buffer slots (issue 81 shape)
        paths = ["c%d.txt" % j for j in range(L + 3)]
        for p in paths:
            sp.files[p] = p + "\n"
        up = (sp.src("src", paths), "out")
        for d in range(rng.randint(2, 5)):
            up = (sp.proc(t3.Proc("ch%d" % d, kind="cattok", ins=[("a", [up])], outs=[("o", "{i:a}.c%d" % d)])), "o")
    elif kind == 3:    # fan-out of one out-port to several consumers, then a join of two of them (diamond)
        paths = ["d%d.txt" % j for j in range(L)]
        for p in paths:
            sp.files[p] = p + "\n"
        s = sp.src("src", paths)
        a = sp.proc(t3.Proc("left", kind="cattok", ins=[("a", [(s, "out")])], outs=[("o", "{i:a}.left")]))
        b = sp.proc(t3.Proc("right", kind="cattok", ins=[("a", [(s, "out")])], outs=[("o", "{i:a}.right")]))
        sp.proc(t3.Proc("extra", kind="cat", ins=[("a", [(s, "out")])], outs=[("o", "{i:a}.extra")]))
        sp.proc(t3.Proc("join", kind="cat", ins=[("x", [(a, "o")]), ("y", [(b, "o")])], outs=[("o", "{i:x}.joined")]))
    elif kind == 7:    # parameter values that differ only in letter case or punctuation, default output names: one task and one file each
        vals = rng.sample(["C", "c", "N", "n", "chrX", "chrx", "a_b", "A_B", "a.b", "a-b"], rng.randint(3, 6))
        a = sp.proc(t3.Proc("mk", kind="write", pars=[("atom", ("V", vals))], outs=[("o", None)]))
        sp.proc(t3.Proc("use", kind="cat", ins=[("a", [(a, "o")])], outs=[("o", "{i:a}.use")]))
    elif kind == 6:    # a sub-stream: every item sent into the adapter reaches the joining task, which runs once
        L2 = rng.choice([1, 2, buf + 1, buf + 4])
        paths = ["m%d.txt" % j for j in range(L2)]
        for p in paths:
            sp.files[p] = p + "\n"
        s = sp.src("src", paths)
        pre = sp.proc(t3.Proc("pre", kind="cattok", ins=[("a", [(s, "out")])], outs=[("o", "{i:a}.pre")], sleep=rng.choice([None, "sleep 0.02"])))
        j = sp.s2s("s2s", pre, "o")
        sp.proc(t3.Proc("joiner", kind="cattok", ins=[("a", [(j, "substream")])], outs=[("o", "joined.txt")], join={"a": rng.choice([" ", ","])}))
        sp.proc(t3.Proc("beside", kind="cat", ins=[("a", [(pre, "o")])], outs=[("o", "{i:a}.beside")]))
    elif kind == 5:    # independent multi-slot processes competing for a pool that partial allocations could exhaust
        sp = t3.Spec(maxtasks=rng.choice([2, 3, 4]), bufsize=buf)
        c = rng.randint(2, sp.max)
        for k in range(rng.randint(2, 4)):
            a = sp.proc(t3.Proc("gen%d" % k, kind="write", pars=[("q", ("V", ["v%d" % j for j in range(L)]))], outs=[("o", "gen%d.{p:q}.txt" % k)], cores=c))
            sp.proc(t3.Proc("use%d" % k, kind="cat", ins=[("a", [(a, "o")])], outs=[("o", "{i:a}.use")], cores=rng.randint(1, sp.max)))
        sp.force_yield = True
    else:              # fan-in of two upstreams into the single port of a process
        pa = ["fa%d.txt" % j for j in range(L)]
        pb = ["fb%d.txt" % j for j in range(rng.randint(0, L))]
        for p in pa + pb:
            sp.files[p] = p + "\n"
        s1 = sp.src("srca", pa)
        s2 = sp.src("srcb", pb)
        m = sp.proc(t3.Proc("merge", kind="cattok", ins=[("a", [(s1, "out"), (s2, "out")])], outs=[("o", "{i:a}.m")]))
        sp.proc(t3.Proc("after", kind="cat", ins=[("a", [(m, "o")])], outs=[("o", "{i:a}.after")]))
    return sp


def case(args):
    seed, i = args
    rng = random.Random(seed * 100003 + i)
    if i % 3 == 0:
        sp = special_shapes(rng, i // 3)
    else:
        sp = t3.gen_workflow(rng, maxlen=rng.choice([4, 5, 6]), fanin=False)
    if rng.random() < 0.4:     # tasks that take several of the concurrency slots each
        for p in sp.procs():
            p.cores = rng.randint(1, sp.max)
    ys = (rng.randint(1, 10**6), rng.choice([50, 300, 2000])) if rng.random() < 0.5 or getattr(sp, "force_yield", False) else None
    gmp = rng.choice([None, 1, 2])
    if getattr(sp, "force_yield", False):
        # the schedule matters here: several delay seeds for the same workflow
        for k in range(6):
            r = t3.success_case(sp, yield_seed=(ys[0] + k, rng.choice([50, 300, 1000])), gomaxprocs=gmp, replays=("net", "tasks", "port"))
            if r["problems"]:
                break
        return r
    return t3.success_case(sp, yield_seed=ys, gomaxprocs=gmp, replays=("net", "tasks", "port"))


def empty_param_case(args):
    """a parameter stream that contains the empty string (a legal value: a blank line of a parameter file, "" in FromStr), on a
    port the command does not mention (the value is used in the output name only): one task per value, none lost, every
    output reaches the downstream process"""
    seed, i = args
    rng = random.Random(seed * 100019 + i)
    sp = t3.Spec(maxtasks=rng.randint(1, 3), bufsize=rng.choice([1, 2, 128]))
    n = rng.randint(2, 5)
    vals = ["v%d" % j for j in range(n)]
    vals[rng.randrange(0, n - 1)] = ""          # not the last one
    if rng.random() < 0.5:
        src = ("V", vals)
    else:
        src = ("U", sp.psrc("names", vals))
    hello = sp.proc(t3.RawProc("hello", "echo hi > {o:out}", ins=[], pars=[("name", src)], outs=[("out", "hello_{p:name}.txt")]))
    sp.proc(t3.RawProc("copy", "cat {i:in} > {o:out}", ins=[("in", [(hello, "out")])], outs=[("out", "{i:in}.copy")]))
    sc = t3.Scratch()
    try:
        sc.plant(sp.files)
        impl = t3.run_impl(sc, sp, timeout=30)
        problems = []
        if impl["timed_out"]:
            problems.append(("hang", "the workflow does not terminate (values %r)" % vals))
        elif impl["rc"] != 0 or not impl["returned"]:
            problems.append(("unexpected-failure", "exit %s: %s" % (impl["rc"], impl["stderr"][-200:])))
        else:
            want = {"hello_%s.txt" % v: "hi\n" for v in vals}
            want.update({"hello_%s.txt.copy" % v: "hi\n" for v in vals})
            got = {p: c for p, c in t3.data_files(impl["fs"]).items()}
            missing = sorted(set(want) - set(got))
            if missing:
                problems.append(("input-set-lost", "parameter values %r: no task ran for %s (outputs missing: %s)" % (vals, sorted({m.split(".")[0] for m in missing}), missing[:4])))
            extra = sorted(set(got) - set(want))
            if extra:
                problems.append(("unexpected-output", "files nobody should have written: %s" % extra[:4]))
        return {"spec": sp.text(), "bufsize": sp.bufsize, "problems": problems, "ntasks": 2 * n, "rc": impl["rc"], "stderr": impl["stderr"][-300:],
                "yield": None, "wall": impl["wall"]}
    finally:
        sc.close()


def resumed_case(args):
    """a partially completed workflow is resumed: the outputs of some later tasks of a process exist, an earlier one has to be
    executed (and is slow); a downstream process pairs that stream with a parameter stream by position -- the input sets, and
    hence the files, are those of a run from scratch"""
    seed, i = args
    rng = random.Random(seed * 100043 + i)
    sp = t3.Spec(maxtasks=rng.randint(2, 4), bufsize=rng.choice([1, 2, 128]))
    L = rng.randint(3, 6)
    paths = ["r%d.txt" % j for j in range(L)]
    for p in paths:
        sp.files[p] = p + "\n"
    s = sp.src("src", paths)
    slow = 'sleep 0.$(( $(echo {i:a|basename} | tr -dc 0-9) == 0 ? 2 : 0 ))1'
    cp = sp.proc(t3.Proc("cp", kind="cat", ins=[("a", [(s, "out")])], outs=[("o", "{i:a}.cp")], sleep=slow))
    sp.proc(t3.Proc("pair", kind="cattok", ins=[("a", [(cp, "o")])], pars=[("q", ("V", ["k%d" % j for j in range(L)]))], outs=[("o", "{i:a}.{p:q}.pair")]))
    for j in range(1, L):
        if rng.random() < 0.7:
            sp.files[paths[j] + ".cp"] = sp.files[paths[j]]          # what the first run had produced
    return t3.success_case(sp, yield_seed=(rng.randint(1, 10**6), 300) if rng.random() < 0.3 else None, replays=("net", "tasks", "port"))


def tagger_sibling_case(args):
    """one out-port fanned out to a tagging component (MapToTags) and, directly, to a process whose default output name
    contains the tags of its input: MapToTags adds the tags to the very IP object the sibling received, so whether the
    sibling's task is formed before or after decides its output's name (finding D24, recorded).  The workflow is run several
    times under different schedules; the sets of files are compared"""
    seed, i = args
    rng = random.Random(seed * 100057 + i)
    hx = t3.hx
    sp = t3.Spec(maxtasks=4, bufsize=rng.choice([1, 128]))
    L = rng.randint(1, 3)
    paths = ["g%d.txt" % j for j in range(L)]
    for p in paths:
        sp.files[p] = p + "\n"
    s = sp.src("src", paths)
    make = sp.proc(t3.Proc("make", kind="cattok", ins=[("a", [(s, "out")])], outs=[("o", "{i:a}.made")]))
    sp.raw("COMP maptags %s %s %d %s" % (hx("tagger"), hx("sample"), make, hx("o")))
    sp.proc(t3.Proc("direct", kind="cat", ins=[("y", [(make, "o")])], outs=[("o", None)]))
    seen = {}
    problems = []
    runs = 0
    last = None
    while runs < 12 and (runs < 4 or len(seen) < 2):
        sc = t3.Scratch()
        try:
            sc.plant(sp.files)
            impl = t3.run_impl(sc, sp, timeout=60, yield_seed=(rng.randint(1, 10**6), 2000) if runs % 2 else None)
            last = impl
            runs += 1
            if impl["rc"] != 0 or not impl["returned"]:
                problems.append(("unexpected-failure", "exit %s: %s" % (impl["rc"], impl["stderr"][-200:])))
                break
            files = t3.data_files(impl["fs"])
            seen.setdefault(tuple(sorted(files.items())), 0)
            seen[tuple(sorted(files.items()))] += 1
        finally:
            sc.close()
    known = []
    if len(seen) > 1 and not problems:
        # the recorded finding: the runs differ in nothing but the presence of the tag piece in the names of the sibling's outputs
        strip = lambda name: re.sub(r"\.y\.sample_[^.]*(\.[^.]*)*?\.made(?=\.o$)", "", name)
        norm = {tuple(sorted((strip(n), c) for n, c in fs)) for fs in seen}
        if len(norm) == 1:
            known.append("tagger-beside-sibling-consumer")
        else:
            a, b = list(seen)[:2]
            problems.append(("timing-dependent-files", "the same workflow on the same inputs produced different sets of files in different runs: %s" % sorted(set(a) ^ set(b))[:4]))
    return {"spec": sp.text(), "bufsize": sp.bufsize, "problems": problems, "known": known, "distinct_file_sets": len(seen), "runs": runs, "ntasks": 2 * L,
            "rc": last["rc"] if last else None, "stderr": (last["stderr"][-200:] if last else ""), "yield": None, "wall": last["wall"] if last else 0}


def long_queue_case(args):
    """several hundred tasks of one process started and not yet forwarded (the oldest one is slow, the stream is several times
    the channel buffer): every item the process emits reaches the downstream process, exactly once"""
    seed, i = args
    rng = random.Random(seed * 100069 + i)
    N = rng.choice([600, 640, 700])
    sp = t3.Spec(maxtasks=8, bufsize=128)
    vals = ["v%03d" % j for j in range(N)]
    mk = sp.proc(t3.RawProc("mk", "[ {p:q} = v000 ] && sleep 4 ; echo {p:q} > {o:o}", ins=[], pars=[("q", ("V", vals))], outs=[("o", "mk/{p:q}.txt")]))
    sp.proc(t3.RawProc("cp", "cat {i:a} > {o:o}", ins=[("a", [(mk, "o")])], outs=[("o", "cp/{i:a|basename}")]))
    sc = t3.Scratch()
    try:
        sc.plant(sp.files)
        impl = t3.run_impl(sc, sp, timeout=300, hooks_on=False)
        problems = []
        if impl["timed_out"]:
            problems.append(("hang", "%d tasks behind a slow oldest one: the run does not terminate" % N))
        elif impl["rc"] != 0 or not impl["returned"]:
            problems.append(("unexpected-failure", "exit %s: %s" % (impl["rc"], impl["stderr"][-200:])))
        else:
            files = t3.data_files(impl["fs"])
            lost = [v for v in vals if files.get("mk/%s.txt" % v) == v + "\n" and files.get("cp/%s.txt" % v) != v + "\n"]
            nomk = [v for v in vals if files.get("mk/%s.txt" % v) != v + "\n"]
            if nomk:
                problems.append(("input-set-lost", "%d parameter values: no (complete) output of mk for %s" % (N, nomk[:3])))
            if lost:
                problems.append(("item-lost", "%d tasks of one process in flight behind a slow oldest one: %d of the files it produced never reached the downstream process (no task ran for them): %s" % (N, len(lost), lost[:3])))
        return {"spec": sp.text()[:3000], "bufsize": sp.bufsize, "problems": problems, "ntasks": 2 * N, "rc": impl["rc"], "stderr": impl["stderr"][-300:],
                "yield": None, "wall": impl["wall"]}
    finally:
        sc.close()


def run(rep, tier, seed):
    proved = vlib.prove(rep, MODULE, THEOREMS)
    ok, msg = vlib.build_ocaml()
    if not ok:
        raise RuntimeError("extraction/driver build failed: " + msg[-1500:])
    n = 150 if tier == "quick" else 3000
    results = t3.run_many(case, [(seed, i) for i in range(n)])
    results += t3.run_many(resumed_case, [(seed, i) for i in range(n // 12)])
    results += t3.run_many(empty_param_case, [(seed, i) for i in range(n // 12)])
    results += t3.run_many(long_queue_case, [(seed, i) for i in range(1 if tier == "quick" else 4)], workers=1)
    results += t3.run_many(ks.ks_case, [(seed, i, ("determinism",)) for i in range(n // 10)])
    kf = vlib.known_findings("C04")
    nd24 = 0
    for r in t3.run_many(tagger_sibling_case, [(seed, i) for i in range(2 if tier == "quick" else 10)], workers=2):
        if r.get("known"):
            nd24 += 1
            if any(f["kind"] == "tagger-beside-sibling-consumer" for f in kf):
                rep.known_finding("an out-port fanned out to MapToTags and, directly, to a process with a default (tag-dependent) output name: MapToTags tags the shared IP in place, so the sibling's output name -- the set of files of the workflow -- depends on timing")
            else:
                r["problems"].append(("timing-dependent-files", "a tagging component beside a sibling consumer makes the set of files depend on timing"))
        results.append(r)
    rep.notes["tagger_sibling_runs_with_differing_file_sets"] = nd24
    t3.report_t3(rep, MODULE, proved, results, "T3 workflows vs WfModel")
    rep.cov["evaluations"] = len(results)
    rep.cov["distinct_nontrivial"] = len({r["spec"] for r in results if r["ntasks"] >= 2})
    rep.cov["rule"] = "random acyclic workflows (1-2 file sources, optional parameter source / FromStr, 1-5 processes with 1-2 in-ports, 1-2 outputs, SetOut patterns or default names) and special shapes (port-less process, FromStr and chains longer than the buffer, diamonds with fan-out, single-port fan-in, independent multi-slot processes, a sub-stream joined by one task, parameter streams containing the empty string on a port used in the output name only, resumed workflows in which later tasks of a process are skipped while an earlier, slow one executes and a downstream process pairs the stream with parameters), SCIPIPE_BUFSIZE in {1,2,3,128}, maxConcurrentTasks 1-4, CoresPerTask 1..max in 40% of the runs, GOMAXPROCS in {default,1,2}, seeded delays at the hook points in half of the runs; each run on the real library, compared with the Coq reference evaluator: exit status, exact file set and bytes, multiset of executed task keys; non-trivial = at least two executed tasks"
    rep.cov["rule"] += "; plus kitchen-sink workflows (tools/ks.py: random workflows decorated with tagging components, sub-streams, Concatenator / FileSplitter, streamed pairs, component parameter feeders, Go-function and multi-core processes, RunTo) judged by the model-free determinism (two schedules) oracle"
    rep.cov["samples"] = [results[0]["spec"], results[1]["spec"]]
    rep.notes["input_distribution"] = {"runs": len(results), "tasks_executed_total": sum(r["ntasks"] for r in results),
                                       "with_delays": sum(1 for r in results if r["yield"]), "bufsize_hist": {str(b): sum(1 for r in results if r["bufsize"] == b) for b in (1, 2, 3, 128)},
                                       "max_wall_s": round(max(r["wall"] for r in results), 2)}
    rep.assump += ["commands are deterministic functions of their inputs (H-cmd)", "Go channels are FIFO with the stated capacity (H-chan)",
                   "the theorems cover merge-free balanced graphs; single-port fan-in and parameter ports are covered by the correspondence only"]


def replay(r):
    return t3.replay_generic(r)
