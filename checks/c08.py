# C08 -- outputs leave a process in the order its inputs arrived.
import os, random
from tools import vlib, t3
from tools.vlib import unhx

MODULE = "PropC08"
THEOREMS = ["C08_code_conforms", "C08_process_order", "C08_creation_is_arrival_order", "C08_final_order", "C08_fanin_order", "C08_cone_conforms"]


def build_burst(rng, i):
    """many started tasks of one process waiting at the same time, after a few were already forwarded: the first k inputs
    arrive and leave at once, the other 17-37 arrive together in a burst (their upstream tasks all sleep, in parallel, and are
    then forwarded back to back) while each task of the process under test takes a while"""
    sp = t3.Spec(maxtasks=64, bufsize=rng.choice([1, 128]))
    k = rng.randint(1, 5)
    L = k + rng.randint(17, 37)
    paths = ["s%02d.txt" % j for j in range(L)]
    for p in paths:
        sp.files[p] = p + "\n"
    s = sp.src("src", paths)
    gate = 'sleep 0.$(( $(echo {i:a|basename} | tr -dc 0-9 | sed "s/^0*//;s/^$/0/") < %d ? 0 : 4 ))' % k
    p0 = sp.proc(t3.Proc("p0", kind="cat", ins=[("a", [(s, "out")])], outs=[("o", "{i:a}.p0")], sleep=gate))
    a = sp.proc(t3.Proc("p1", kind="cattok", ins=[("a", [(p0, "o")])], outs=[("o", "{i:a}.p1")], sleep="sleep 0.0%d" % rng.randint(2, 6)))
    recs = [(sp.raw("REC %s %d %s" % (vlib.hx("rec_p1_o"), a, vlib.hx("o"))), a, "o")]
    return sp, recs


def build(rng, i):
    if i % 8 == 7:
        return build_burst(rng, i)
    buf = rng.choice([1, 2, 3, 128]) if i % 4 != 1 else rng.choice([1, 2])
    sp = t3.Spec(maxtasks=rng.choice([2, 4, 8]), bufsize=buf)
    L = rng.randint(2, 7) if i % 4 != 1 else rng.randint(5, 8)
    paths = ["s%02d.txt" % j for j in range(L)]
    for p in paths:
        sp.files[p] = p + "\n"
    s = sp.src("src", paths)
    # durations: a pseudo-random function of the task key, or strictly decreasing so that later tasks finish first
    salt = rng.randint(0, 999)
    if i % 4 == 1:
        # quick tasks, one slow one in the middle: a burst of sends, a pause, then more sends
        sleep = 'sleep 0.0$(( $(echo {i:a|basename} | tr -dc 0-9 | sed "s/^0*//;s/^$/0/") == %d ? 60 : 1 ))' % rng.randint(2, 4)
    elif i % 2 == 0:
        sleep = 'sleep 0.0$(( ( $(echo "%d {i:a}" | cksum | cut -d" " -f1) %% 9 ) + 1 ))' % salt
    else:
        sleep = 'sleep 0.$(( 30 - 4 * $(echo {i:a|basename} | tr -dc 0-9 | sed "s/^0*//;s/^$/0/" | cut -c1-1) ))'
    recs = []
    a = sp.proc(t3.Proc("p1", kind="cattok", ins=[("a", [(s, "out")])], outs=[("o", "{i:a}.p1"), ("o2", "{i:a}.p1b")], sleep=sleep))
    recs.append((sp.raw("REC %s %d %s" % (vlib.hx("rec_p1_o"), a, vlib.hx("o"))), a, "o"))
    recs.append((sp.raw("REC %s %d %s" % (vlib.hx("rec_p1_o2"), a, vlib.hx("o2"))), a, "o2"))
    if i % 4 == 1:
        # fan-out of one out-port to a fast and a slow consumer, buffers smaller than the stream, a pause between completions
        # (the slow consumer's buffer is full at one send and has room again at a later one)
        recs.append((sp.raw("REC %s %d %s" % (vlib.hx("rec_p1_o_slow%d" % rng.choice([40, 80, 150])), a, vlib.hx("o"))), a, "o"))
    if rng.random() < 0.7:
        b = sp.proc(t3.Proc("p2", kind="cat", ins=[("a", [(a, "o")])], outs=[("o", "{i:a}.p2")], sleep=sleep if rng.random() < 0.5 else None))
        recs.append((sp.raw("REC %s %d %s" % (vlib.hx("rec_p2_o"), b, vlib.hx("o"))), b, "o"))
    return sp, recs


def order_check(recs):
    def chk(sp, model, impl, sc):
        problems = []
        if impl["rc"] != 0:
            return problems
        for (idx, node, port) in recs:
            name = unhx(sp.nodes[idx][1].split()[1])
            p = os.path.join(sc.work, "REC." + name)
            got = [unhx(l.split()[1]) for l in open(p).read().splitlines() if l.startswith("IP ")] if os.path.exists(p) else None
            procname = sp.nodes[node][1].name
            want = [o[2] for t in model["tasks"] if t["proc"] == procname for o in t["outs"] if o[0] == port]
            if got != want:
                problems.append(("order", "out-port %s.%s emitted %s, arrival order demands %s" % (procname, port, got, want)))
        return problems
    return chk


def case(args):
    seed, i = args
    rng = random.Random(seed * 104729 + i)
    sp, recs = build(rng, i)
    if i % 3 == 2:
        # a partially completed workflow that is resumed: outputs of some non-first input sets already exist, so their
        # tasks are skipped at once while earlier tasks are still running
        base = t3.run_model(sp.text())
        tasks = [t for t in base["tasks"] if t["proc"] == "p1"]
        for t in tasks[1:]:
            if rng.random() < 0.6:
                for port, st, path in t["outs"]:
                    sp.files[path] = "ALREADY-THERE %s\n" % path
    ys = (rng.randint(1, 10**6), 300) if rng.random() < 0.3 else None
    r = t3.success_case(sp, yield_seed=ys, extra_check=order_check(recs), replays=("net", "port"))
    # completion order really was different from creation order?
    return r


def repeated_input_case(args):
    """the same input set reaches a process twice: its first task has finished (its output exists) but still waits in the
    queue behind an older, slow task when the repeat arrives, followed by a different input.  The out-port emits in arrival
    order: slow', a', a', c' (the repeat is skipped and keeps its place)"""
    seed, i = args
    rng = random.Random(seed * 104743 + i)
    sp = t3.Spec(maxtasks=rng.choice([3, 4, 8]), bufsize=rng.choice([1, 2, 128]))
    names = ["slow.txt", "a.txt", "a.txt", "c.txt"] + (["a.txt", "d.txt"] if rng.random() < 0.5 else [])
    for p in set(names):
        sp.files[p] = p + "\n"
    s = sp.src("src", names)
    pause = rng.choice([400, 600])
    delays = [0, 0, pause, 0] + ([pause, 0] if len(names) > 4 else [])
    pc = sp.raw("COMP pace %s %d %s %s" % (vlib.hx("pace"), s, vlib.hx("out"), " ".join(str(d) for d in delays)))
    # the task of slow.txt takes longer than all pauses together; the others are quick
    sleep = 'sleep $(( $(echo {i:a|basename} | grep -c slow) * 2 )).1'
    a = sp.proc(t3.Proc("p1", kind="cattok", ins=[("a", [(pc, "out")])], outs=[("o", "{i:a}.p1")], sleep=sleep))
    sp.raw("REC %s %d %s" % (vlib.hx("rec_p1_o"), a, vlib.hx("o")))
    sc = t3.Scratch()
    try:
        sc.plant(sp.files)
        impl = t3.run_impl(sc, sp, timeout=60)
        problems = []
        if impl["rc"] != 0 or not impl["returned"]:
            problems.append(("unexpected-failure", "exit %s: %s" % (impl["rc"], impl["stderr"][-200:])))
        else:
            p = os.path.join(sc.work, "REC.rec_p1_o")
            got = [unhx(l.split()[1]) for l in open(p).read().splitlines() if l.startswith("IP ")] if os.path.exists(p) else None
            want = [n + ".p1" for n in names]
            if got != want:
                problems.append(("order", "inputs arrived as %s (a repeated input set among them); out-port p1.o emitted %s, arrival order demands %s" % (names, got, want)))
        return {"spec": sp.text(), "bufsize": sp.bufsize, "problems": problems, "ntasks": len(names), "rc": impl["rc"], "stderr": impl["stderr"][-200:], "yield": None, "wall": impl["wall"]}
    finally:
        sc.close()


def grouped_case(args):
    """a grouping component (written against the public API) sends one sub-stream carrier per batch, in order, and completes
    the batches in another order (an early batch is completed late); a process merges each batch through a joined in-port.
    Its outputs leave in the order the batches arrived -- and each holds exactly its own members, in order (C18)"""
    seed, i = args
    rng = random.Random(seed * 104759 + i)
    hx = vlib.hx
    sp = t3.Spec(maxtasks=rng.choice([2, 4]), bufsize=rng.choice([1, 2, 128]))
    G = rng.randint(2, 4)
    groups, spec = [], []
    delays = [rng.choice([0, 100, 300, 600]) for _ in range(G)]
    delays[0] = max(delays) + 300          # the first batch is completed last
    for g in range(G):
        carrier = "batch_%d.group" % g
        sp.files[carrier] = "carrier %d\n" % g
        members = []
        for m in range(rng.randint(0, 3) if g else rng.randint(1, 3)):
            q = "data/g%d/m%d.txt" % (g, m)
            sp.files[q] = "content of %s\n" % q
            members.append(q)
        groups.append((carrier, members))
        spec.append("%s %d %d %s" % (hx(carrier), delays[g], len(members), " ".join(hx(q) for q in members)))
    gr = sp.raw("COMP groups %s %d %s" % (hx("grouper"), G, " ".join(spec)))
    # a RAW node has no Proc object: wire the joiner by hand
    mg = sp.proc(t3.RawProc("merge", "cat {i:b|join: } /dev/null > {o:o}", ins=[("b", [(gr, "groups")])], outs=[("o", "{i:b}.merged")], join={"b": " "}))
    sp.raw("REC %s %d %s" % (hx("rec_merge_o"), mg, hx("o")))
    sc = t3.Scratch()
    try:
        sc.plant(sp.files)
        impl = t3.run_impl(sc, sp, timeout=60)
        problems = []
        if impl["rc"] != 0 or not impl["returned"]:
            problems.append(("unexpected-failure", "exit %s: %s" % (impl["rc"], impl["stderr"][-200:])))
        else:
            p = os.path.join(sc.work, "REC.rec_merge_o")
            got = [unhx(l.split()[1]) for l in open(p).read().splitlines() if l.startswith("IP ")] if os.path.exists(p) else None
            want = [c + ".merged" for c, _ in groups]
            if got != want:
                problems.append(("order", "batches arrived as %s (completed after %s ms); out-port merge.o emitted %s" % ([c for c, _ in groups], delays, got)))
            files = t3.data_files(impl["fs"])
            for c, ms in groups:
                exp = "".join(sp.files[q] for q in ms)
                if files.get(c + ".merged") != exp:
                    problems.append(("joined-content", "the task for %s (members %s) produced %r, its members concatenate to %r" % (c, ms, files.get(c + ".merged"), exp)))
                    break
        return {"spec": sp.text(), "bufsize": sp.bufsize, "problems": problems[:2], "ntasks": G, "rc": impl["rc"], "stderr": impl["stderr"][-200:], "yield": None, "wall": impl["wall"]}
    finally:
        sc.close()


def run(rep, tier, seed):
    proved = vlib.prove(rep, MODULE, THEOREMS)
    ok, msg = vlib.build_ocaml()
    if not ok:
        raise RuntimeError("extraction/driver build failed: " + msg[-1500:])
    n = 48 if tier == "quick" else 800
    results = t3.run_many(case, [(seed, i) for i in range(n)])
    results += t3.run_many(repeated_input_case, [(seed, i) for i in range(n // 8)])
    results += t3.run_many(grouped_case, [(seed, i) for i in range(n // 8)])
    t3.report_t3(rep, MODULE, proved, results, "T3 recorder order")
    rep.cov["evaluations"] = len(results)
    rep.cov["distinct_nontrivial"] = len({r["spec"] for r in results if r["ntasks"] >= 3})
    rep.cov["rule"] = "a source of 2-7 files feeds a two-output process whose task durations are a pseudo-random function of the input or strictly decreasing (later tasks finish first), optionally followed by a second process; recorder components on every out-port log the received paths; the logged sequence must equal the outputs of the tasks in arrival order; a paced stream in which one input set arrives twice (its first task finished but still queued behind a slow older one) followed by a different one; maxConcurrentTasks in {2,4,8}, SCIPIPE_BUFSIZE in {1,2,3,128}; in one run of eight, 1-5 inputs pass and then 17-37 more arrive in a burst, so that many started tasks wait at once after some were already forwarded; non-trivial = at least three tasks"
    rep.cov["samples"] = [results[0]["spec"]]
    rep.notes["input_distribution"] = {"runs": len(results), "tasks_executed_total": sum(r["ntasks"] for r in results)}
    rep.assump += ["H-chan: Go channels are FIFO"]


def replay(r):
    return t3.replay_generic(r)
