# C17 -- streaming outputs deliver the producer's bytes through a FIFO and leave no trace.
import json, os, random
from tools import vlib, t3

MODULE = "PropC17"
THEOREMS = ["C17_code_conforms", "C17_bytes", "C17_progress", "C17_terminates", "C17_rerun_untouched", "C17_rerun_drained", "C17_drain_concurrent_progress", "C17_drain_sequential_refuted_before_repair", "C17_pairs_bytes", "C17_pairs_rerun_untouched", "C17_pairs_progress", "C17_pairs_maximal", "C17_pairs_terminate", "C17_pairs_example", "C17_pairs_too_few_slots_refuted", "C17_run_ok", "C17_one_slot_refuted", "C17_audit_race_refuted", "C17_rerun_without_drain_refuted", "C17_cone_conforms"]


def case(args):
    seed, i = args
    rng = random.Random(seed * 236887691 + i)
    n = rng.randint(1, 3)
    sp = t3.Spec(maxtasks=2 * n + rng.randint(0, 2), bufsize=rng.choice([1, 2, 128]))
    sizes = [rng.choice([0, 1, 100, 4096, 65535, 65536, 65537, 200000]) if i % 3 == 0 else rng.randint(1, 300) for _ in range(n)]
    paths = []
    for j, sz in enumerate(sizes):
        p = "big%d.dat" % j
        sp.files[p] = "".join(rng.choice("abcdefgh\n") for _ in range(min(sz, 64))) * (sz // 64 + 1)
        sp.files[p] = sp.files[p][:sz]
        paths.append(p)
    s = sp.src("src", paths)
    delay = ["sleep 0.0%d" % rng.randint(1, 5), None]
    rng.shuffle(delay)
    # the producer writes in one piece, or in two pieces with a pause in between (the reader sees a short read meanwhile)
    two = (i % 3 == 1)
    # where the stream lives: beside the input, in a sub-directory that does not exist yet, or outside the working directory
    # (parent-relative, directory not existing yet)
    spat = rng.choice(["{i:a}.stream", "{i:a}.stream", "st/new/{i:a}.stream", "../stq%d/{i:a|basename}.stream" % (i % 7)])
    prod = sp.proc(t3.Proc("prod", kind="cattok" if two else "cat", ins=[("a", [(s, "out")])], outs=[("o", spat)], stream_outs=["o"], sleep=delay[0],
                           pause="sleep 0.1" if two else None))
    chain = rng.random() < 0.3
    if chain:   # a chain of two streaming stages
        mid = sp.proc(t3.Proc("mid", kind="cat", ins=[("a", [(prod, "o")])], outs=[("o", "{i:a}.mid")], stream_outs=["o"]))
        sp.max += n
        cons_up = (mid, "o")
    else:
        cons_up = (prod, "o")
    cons_ins = [("a", [cons_up])]
    if i % 4 == 3 and not chain:
        # the consumer has a second in-port: a second streamed input, or an ordinary file
        paths2 = []
        for j in range(n):
            sp.files["side%d.dat" % j] = "side %d\n" % j
            paths2.append("side%d.dat" % j)
        s2 = sp.src("src2", paths2)
        second_streams = rng.random() < 0.6
        p2 = sp.proc(t3.Proc("prod2", kind="cat", ins=[("a", [(s2, "out")])], outs=[("o", "{i:a}.second")], stream_outs=["o"] if second_streams else []))
        cons_ins.append(("b", [(p2, "o")]))
        sp.max += n
    sp.proc(t3.Proc("cons", kind="cat", ins=cons_ins, outs=[("o", "{i:a|basename}.cons")], sleep=delay[1]))
    model = t3.run_model(sp.text())
    sc = t3.Scratch()
    try:
        sc.plant(sp.files)
        impl = t3.run_impl(sc, sp, timeout=60)
        problems = t3.compare_success(sp, model, impl) if (model["status"] == "done" and not model["failed"]) else [("model", "model fails")]
        known = []
        if not problems:
            stream_paths = [o[2] for t in model["tasks"] for o in t["outs"] if o[1]]
            for p in stream_paths:
                if p in impl["fs"]:
                    problems.append(("stream-left-trace", "a %s exists at the streaming output path %r after the run" % ({"f": "regular file", "p": "FIFO", "d": "directory"}[impl["fs"][p][0]], p)))
                if p + ".fifo" in impl["fs"]:
                    problems.append(("fifo-left", "the pipe %r.fifo was not removed" % p))
            # the consumer's audit record names the producing task as upstream
            for t in model["tasks"]:
                if t["proc"] != "cons":
                    continue
                out = t["outs"][0][2]
                rec = json.loads(impl["fs"][out + ".audit.json"][1])
                inp = t["ins"][0][2][0]
                upr = rec.get("Upstream", {}).get(inp)
                want = "mid" if chain else "prod"
                if upr is None:
                    problems.append(("upstream-key-missing", "the consumer's audit record has no Upstream entry for the streamed input %r" % inp))
                elif upr.get("ProcessName") != want:
                    if upr.get("ProcessName") == "":
                        known.append("empty-upstream")
                    else:
                        problems.append(("upstream-wrong", "Upstream[%r] names process %r, expected %r" % (inp, upr.get("ProcessName"), want)))
            # history: complete run, then run again: terminates, consumer outputs untouched
            before = {p: (v[2], v[3], v[1]) for p, v in impl["fs"].items() if p.endswith(".cons")}
            impl2 = t3.run_impl(sc, sp, timeout=30)
            if impl2["timed_out"]:
                problems.append(("rerun-hangs", "re-running the completed streaming workflow does not terminate"))
            elif impl2["rc"] != 0:
                problems.append(("rerun-fails", "re-running the completed streaming workflow exits %s: %s" % (impl2["rc"], impl2["stderr"][-200:])))
            else:
                after = {p: (v[2], v[3], v[1]) for p, v in impl2["fs"].items() if p.endswith(".cons")}
                if before != after:
                    problems.append(("rerun-touches-consumer-output", "the consumer's outputs changed on re-run"))
                lo = t3.leftovers(impl2["fs"])
                if lo:
                    problems.append(("rerun-leftovers", "temp dirs / FIFOs left after the re-run: %s" % lo[:3]))
        return {"spec": sp.text(with_files=False), "bufsize": sp.bufsize, "problems": problems, "known": known, "ntasks": len(model["tasks"]), "rc": impl["rc"],
                "stderr": impl["stderr"][-300:], "yield": None, "wall": impl["wall"], "sizes": sizes, "chain": chain}
    finally:
        sc.close()


def runto_branch_case(args):
    """a streaming out-port connected to two consumers of which RunTo keeps one: the remaining consumer receives exactly and
    completely the producer's bytes (nobody else reads the pipe), the other branch does not run, no trace is left"""
    seed, i = args
    rng = random.Random(seed * 236887699 + i)
    n = rng.randint(1, 2)
    sp = t3.Spec(maxtasks=2 * n + 2, bufsize=rng.choice([1, 128]))
    paths = []
    for j in range(n):
        p = "rb%d.dat" % j
        sz = rng.choice([1000, 70000, 200000, 600000])
        sp.files[p] = ("".join(rng.choice("abcdefgh\n") for _ in range(97)) * (sz // 97 + 1))[:sz]
        paths.append(p)
    s = sp.src("src", paths)
    prod = sp.proc(t3.Proc("prod", kind="cattok", ins=[("a", [(s, "out")])], outs=[("o", "{i:a}.stream")], stream_outs=["o"], pause="sleep 0.05"))
    keep = sp.proc(t3.Proc("cons", kind="cat", ins=[("a", [(prod, "o")])], outs=[("o", "{i:a|basename}.cons")]))
    sp.proc(t3.Proc("alt", kind="cat", ins=[("a", [(prod, "o")])], outs=[("o", "{i:a|basename}.alt")]))
    sp.runto = [keep]
    sp.runto_mode = rng.choice(["N", "R", "P"])
    sc = t3.Scratch()
    try:
        sc.plant(sp.files)
        impl = t3.run_impl(sc, sp, timeout=60)
        problems = []
        if impl["timed_out"]:
            problems.append(("hang", "RunTo(cons) on a stream with two consumers does not terminate"))
        elif impl["rc"] != 0 or not impl["returned"]:
            problems.append(("unexpected-failure", "exit %s: %s" % (impl["rc"], impl["stderr"][-200:])))
        else:
            files = t3.data_files(impl["fs"])
            for p in paths:
                want = sp.files[p] + "tok_prod\n"
                got = files.get(p + ".stream.cons")
                if got != want:
                    problems.append(("stream-bytes", "the remaining consumer of %s.stream received %d bytes, the producer wrote %d" % (p, len(got or ""), len(want))))
            if any(k.startswith("alt") for k in t3.started_keys(impl["trace"])):
                problems.append(("runto-executes-other", "RunTo(cons) executed the cut-off consumer"))
            lo = t3.leftovers(impl["fs"]) + [p for p in impl["fs"] if p.endswith(".stream")]
            if lo:
                problems.append(("stream-left-trace", "left after the run: %s" % lo[:3]))
        return {"spec": sp.text(with_files=False), "bufsize": sp.bufsize, "problems": problems[:3], "known": [], "ntasks": 2 * n, "rc": impl["rc"], "stderr": impl["stderr"][-300:],
                "yield": None, "wall": impl["wall"], "sizes": [len(sp.files[p]) for p in paths], "chain": False}
    finally:
        sc.close()


def two_streams_case(args):
    """a producer with two streaming out-ports (or a streaming and a regular one) and a consumer that reads both: bytes,
    nothing at the stream paths, no FIFO left, and the completed workflow can be run again"""
    seed, i = args
    rng = random.Random(seed * 236887721 + i)
    n = rng.randint(1, 3)
    sp = t3.Spec(maxtasks=2 * n + rng.randint(0, 2), bufsize=rng.choice([1, 128]))
    paths = []
    for j in range(n):
        p = "ts%d.dat" % j
        sp.files[p] = ("payload %d " % j) * rng.choice([1, 200, 9000])
        paths.append(p)
    s = sp.src("src", paths)
    both = True     # a streaming and a regular output of one task into one consumer cannot work by design: finding D23 (C05)
    prod = sp.proc(t3.Proc("prod", kind="cat", ins=[("a", [(s, "out")])], outs=[("o", "{i:a}.s1"), ("o2", "{i:a}.s2")], stream_outs=["o", "o2"] if both else ["o"]))
    sp.proc(t3.Proc("cons", kind="cat", ins=[("a", [(prod, "o")]), ("b", [(prod, "o2")])], outs=[("o", "{i:a|basename}.cons")]))
    model = t3.run_model(sp.text())
    sc = t3.Scratch()
    try:
        sc.plant(sp.files)
        impl = t3.run_impl(sc, sp, timeout=60)
        problems = t3.compare_success(sp, model, impl) if (model["status"] == "done" and not model["failed"]) else [("model", "model fails")]
        if not problems:
            for p in paths:
                for ext, st in ((".s1", True), (".s2", both)):
                    if st and (p + ext) in impl["fs"]:
                        problems.append(("stream-left-trace", "something exists at the streaming output path %r after the run" % (p + ext)))
                    if (p + ext + ".fifo") in impl["fs"]:
                        problems.append(("fifo-left", "the pipe %r.fifo was not removed" % (p + ext)))
            impl2 = t3.run_impl(sc, sp, timeout=30)
            if impl2["timed_out"]:
                problems.append(("rerun-hangs", "re-running the completed workflow does not terminate"))
            elif impl2["rc"] != 0:
                problems.append(("rerun-fails", "re-running the completed workflow exits %s: %s" % (impl2["rc"], impl2["stderr"][-200:])))
            elif t3.leftovers(impl2["fs"]):
                problems.append(("rerun-leftovers", "temp dirs / FIFOs left after the re-run: %s" % t3.leftovers(impl2["fs"])[:3]))
        return {"spec": sp.text(with_files=False), "bufsize": sp.bufsize, "problems": problems[:3], "known": [], "ntasks": 2 * n, "rc": impl["rc"], "stderr": impl["stderr"][-300:],
                "yield": None, "wall": impl["wall"], "sizes": [len(sp.files[p]) for p in paths], "chain": False}
    finally:
        sc.close()


def modifier_stream_case(args):
    """a streaming out-port (and the consumer's in-port) written with path modifiers in the command pattern -- `{os:o|%.dat}`,
    `{i:a|%.dat}`: they apply to the pipe's path, which ends in .fifo, so a `%` suffix that names the data file's extension
    takes nothing away; producer and consumer meet on the pipe the process created: bytes arrive, nothing is left"""
    seed, i = args
    rng = random.Random(seed * 236887739 + i)
    n = rng.randint(1, 3)
    sp = t3.Spec(maxtasks=2 * n + rng.randint(0, 2), bufsize=rng.choice([1, 128]))
    paths = []
    for j in range(n):
        p = "ms%d.dat" % j
        sp.files[p] = ("payload %d " % j) * rng.choice([1, 200, 9000])
        paths.append(p)
    s = sp.src("src", paths)
    pm = rng.choice(["|%.dat", "|%.st.dat", "|%.fifo.x", ""])
    cm = rng.choice(["|%.dat", ""])
    prod = sp.proc(t3.RawProc("prod", "cat {i:a} > {os:o%s}" % pm, ins=[("a", [(s, "out")])], outs=[("o", "{i:a|%.dat}.st.dat")], stream_outs=["o"]))
    sp.proc(t3.RawProc("cons", "cat {i:a%s} > {o:o}" % cm, ins=[("a", [(prod, "o")])], outs=[("o", "{i:a|basename}.cons")]))
    sc = t3.Scratch()
    try:
        sc.plant(sp.files)
        impl = t3.run_impl(sc, sp, timeout=30)
        problems = []
        if impl["timed_out"] or "all goroutines are asleep" in impl["stderr"]:
            problems.append(("hang", "producer `cat {i:a} > {os:o%s}`, consumer `cat {i:a%s} > {o:o}`: the run does not terminate" % (pm, cm)))
        elif impl["rc"] != 0 or not impl["returned"]:
            problems.append(("unexpected-failure", "producer `{os:o%s}`, consumer `{i:a%s}`: exit %s: %s" % (pm, cm, impl["rc"], impl["stderr"][-200:])))
        else:
            files = t3.data_files(impl["fs"])
            for p in paths:
                got = files.get(p[:-4] + ".st.dat.cons")
                if got != sp.files[p]:
                    problems.append(("stream-bytes", "the consumer of %s.st.dat received %s bytes, the producer wrote %d" % (p[:-4], None if got is None else len(got), len(sp.files[p]))))
                    break
        lo = [q for q in impl["fs"] if q.endswith(".fifo") or ".fifo" in os.path.basename(q) or os.path.basename(q).startswith("_scipipe_tmp")]
        if lo and not problems:
            problems.append(("leftovers", "left after the run: %s" % sorted(lo)[:3]))
        st = [q for q in impl["fs"] if q.endswith(".st.dat") or q.endswith(".st")]
        if st and not problems:
            problems.append(("stream-left-trace", "something exists at / near the streaming output path: %s" % st[:2]))
        return {"spec": sp.text(with_files=False), "bufsize": sp.bufsize, "problems": problems[:3], "known": [], "ntasks": 2 * n, "rc": impl["rc"], "stderr": impl["stderr"][-300:],
                "yield": None, "wall": impl["wall"], "sizes": [len(sp.files[p]) for p in paths], "chain": False}
    finally:
        sc.close()


def run(rep, tier, seed):
    proved = vlib.prove(rep, MODULE, THEOREMS)
    ok, msg = vlib.build_ocaml()
    if not ok:
        raise RuntimeError("extraction/driver build failed: " + msg[-1500:])
    n = 36 if tier == "quick" else 600
    results = t3.run_many(case, [(seed, i) for i in range(n)])
    results += t3.run_many(two_streams_case, [(seed, i) for i in range(n // 4)])
    results += t3.run_many(modifier_stream_case, [(seed, i) for i in range(n // 6)])
    results += t3.run_many(runto_branch_case, [(seed, i) for i in range(n // 4)])
    kf = vlib.known_findings("C17")
    nk = 0
    for r in results:
        if r["known"]:
            nk += 1
            if any(f["kind"] == "consumer-audit-before-producer-audit" for f in kf):
                rep.known_finding("the consumer's Upstream entry for a streamed input is an empty record when the consumer writes its audit log before the producer's record is set on the shared IP")
            else:
                r["problems"].append(("upstream-empty", "the consumer's Upstream entry for the streamed input is an empty record"))
    rep.notes["runs_with_empty_upstream_record"] = nk
    t3.report_t3(rep, MODULE, proved, results, "T3 streaming pairs / chains / re-run")
    rep.cov["evaluations"] = len(results) * 2
    rep.cov["distinct_nontrivial"] = len({r["spec"] + str(r["sizes"]) for r in results})
    rep.cov["rule"] = "n in 1..3 streamed items with maxConcurrentTasks >= 2n, payloads from 0 bytes to 200000 bytes (around the 64 KiB pipe buffer in a third of the runs), producer-first or consumer-first delays, pairs and two-stage streaming chains: the consumer's bytes, the file set and the command texts equal the reference evaluator's; nothing at the stream path, no FIFO left; the consumer's audit record has an Upstream entry for the stream naming the producer; a producer with two streaming out-ports (or a streaming and a regular one) read by one consumer; a stream with two consumers of which RunTo keeps one (the kept consumer gets all bytes); then the workflow is run again in place (30 s bound): exit 0, consumer outputs keep inode / mtime / bytes, no leftovers"
    rep.cov["samples"] = [results[0]["spec"]]
    rep.notes["input_distribution"] = {"runs": len(results), "chains": sum(1 for r in results if r["chain"]), "payload_sizes": sorted({s for r in results for s in r["sizes"]})[:40]}
    rep.assump += ["the kernel's FIFO semantics (modelled, not verified)", "maxConcurrentTasks >= 2n (the property's guard; the single-slot deadlock is a refuted lemma)"]


def replay(r):
    return t3.replay_generic(r)
