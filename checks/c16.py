# C16 -- only fully wired workflows run; RunTo executes exactly the upstream closure.
import copy, random
from tools import vlib, t3

MODULE = "PropC16"
THEOREMS = ["C16_code_conforms", "C16_refuses_before_start", "C16_driver_is_checked", "C16_started_are_checked", "C16_unready_refused", "C16_ready_runs", "C16_driver_unchecked_refuted_before_repair", "C16_ready_flag", "C16_dangling_drained", "C16_closure", "C16_runto_exact", "C16_closed_upward", "C16_example", "C16_cone_conforms", "C16_sink_concurrent_progress", "C16_sink_terminates", "C16_sink_nonvacuous", "C16_sink_in_turn_refuted"]


def unconnected_case(args):
    seed, i = args
    rng = random.Random(seed * 179424673 + i)
    sp = t3.gen_workflow(rng, maxlen=3, nproc=rng.randint(1, 4))
    procs = sp.procs()
    p = rng.choice(procs)
    which = rng.choice(["in", "param"])
    if i % 4 == 3:
        # the unconnected port belongs to a process without out-ports (which replaces the sink as the driver of the run)
        idxs = [k for k, n in enumerate(sp.nodes) if n[0] == "PROC"]
        u = rng.choice(idxs)
        p = t3.Proc("leafz", kind="cat", ins=[("x", [(u, sp.nodes[u][1].outs[0][0])])], outs=[])
        sp.proc(p)
        if which == "in":
            p.ins.append(("y", [(u, sp.nodes[u][1].outs[0][0])]))
    if which == "param":
        p.pars = list(p.pars) + [("zz", ("N",))]
    else:
        k = rng.randrange(len(p.ins))
        p.ins[k] = (p.ins[k][0], [])
    model = t3.run_model(sp.text())
    sc = t3.Scratch()
    try:
        sc.plant(sp.files)
        impl = t3.run_impl(sc, sp, timeout=30)
        problems = []
        if model["status"] != "notready":
            problems.append(("model", "model does not refuse: %s" % model["status"]))
        if impl["timed_out"]:
            problems.append(("unwired-hangs", "a workflow with an unconnected %s-port hangs" % which))
        elif impl["rc"] == 0:
            problems.append(("unwired-runs", "a workflow with an unconnected %s-port of process %s ran (exit 0)" % (which, p.name)))
        if t3.started_keys(impl["trace"]):
            problems.append(("unwired-executes", "commands were executed although a port is unconnected: %s" % t3.started_keys(impl["trace"])[:3]))
        new = [f for f in t3.data_files(impl["fs"]) if f not in sp.files]
        if new:
            problems.append(("unwired-writes", "files were created although a port is unconnected: %s" % new[:3]))
        return {"spec": sp.text(), "bufsize": sp.bufsize, "problems": problems, "ntasks": 0, "rc": impl["rc"], "stderr": impl["stderr"][-200:], "yield": None, "wall": impl["wall"], "kind": "unconnected-" + which}
    finally:
        sc.close()


def runto_case(args):
    seed, i = args
    rng = random.Random(seed * 198491317 + i)
    if i % 5 == 4:
        # FromStr feeders with more values than the buffer holds, and a RunTo target downstream of them (shape of D8)
        sp = t3.Spec(maxtasks=2, bufsize=rng.choice([1, 2]))
        vals = ["w%d" % j for j in range(sp.bufsize + rng.randint(2, 6))]
        a = sp.proc(t3.Proc("feed", kind="write", pars=[("q", ("V", vals))], outs=[("o", "feed.{p:q}.txt")]))
        b = sp.proc(t3.Proc("mid", kind="cattok", ins=[("a", [(a, "o")])], outs=[("o", "{i:a}.mid")]))
        sp.proc(t3.Proc("other", kind="cat", ins=[("a", [(b, "o")])], outs=[("o", "{i:a}.other")]))
        sp.runto = [rng.choice([a, b])]
    elif i % 5 == 1:
        # a non-tree closure: A feeds B and C, both feed the target D; C has a second producer E that is reachable only
        # through C (a file port or a parameter port).  Whatever order the ports are visited in, E belongs to the closure
        sp = t3.Spec(maxtasks=rng.randint(1, 3), bufsize=rng.choice([1, 2, 128]))
        L = rng.randint(1, 3)
        pa, pe = ["da%d.txt" % j for j in range(L)], ["de%d.txt" % j for j in range(L)]
        for p in pa + pe:
            sp.files[p] = p + "\n"
        sa = sp.src("srca", pa)
        A = sp.proc(t3.Proc("A", kind="cattok", ins=[("a", [(sa, "out")])], outs=[("o", "{i:a}.A")]))
        B = sp.proc(t3.Proc("B", kind="cattok", ins=[("a", [(A, "o")])], outs=[("o", "{i:a}.B")]))
        if rng.random() < 0.5:
            se = sp.src("srce", pe)
            E = sp.proc(t3.Proc("E", kind="cattok", ins=[("a", [(se, "out")])], outs=[("o", "{i:a}.E")]))
            C = sp.proc(t3.Proc("C", kind="cattok", ins=[("x", [(A, "o")]), ("y", [(E, "o")])], outs=[("o", "{i:x}.C")]))
        else:
            E = sp.psrc("E", ["ev%d" % j for j in range(L)])
            C = sp.proc(t3.Proc("C", kind="cattok", ins=[("x", [(A, "o")])], pars=[("q", ("U", E)), ("r", ("V", ["rv%d" % j for j in range(L)]))], outs=[("o", "{i:x}.C.{p:q}")]))
        D = sp.proc(t3.Proc("D", kind="cat", ins=[("b", [(B, "o")]), ("c", [(C, "o")])], outs=[("o", "{i:b}.D")]))
        sp.proc(t3.Proc("other", kind="cat", ins=[("a", [(A, "o")])], outs=[("o", "{i:a}.other")]))
        sp.runto = [D]
        sp.runto_mode = rng.choice(["N", "R", "P"])
        for attempt in range(5):          # the visiting order is Go's map iteration: several runs
            r = t3.success_case(sp, timeout=60)
            r["kind"] = "runto-nontree-closure"
            if r["problems"]:
                break
        return r
    elif i % 5 == 2:
        # process names that contain regular-expression metacharacters, beside processes whose names the pattern would match
        sp = t3.Spec(maxtasks=rng.randint(1, 3), bufsize=rng.choice([1, 2, 128]))
        paths = ["m%d.txt" % j for j in range(rng.randint(1, 3))]
        for p in paths:
            sp.files[p] = p + "\n"
        s = sp.src("src", paths)
        fam = rng.choice([["filter.v2", "filter_v2", "filterxv2"], ["align+", "align", "alignn"], ["cnt[ab]", "cnta", "cntb"], ["x|y", "x", "y"], ["st(e)p", "step", "st(e)p2"]])
        idx = []
        for k, name in enumerate(fam):
            idx.append(sp.proc(t3.Proc(name, kind="cattok", tok="tok%d" % k, ins=[("a", [(s, "out")])], outs=[("o", "{i:a}.out%d" % k)])))
        sp.runto = [idx[0]]
        sp.runto_mode = "N"
        r = t3.success_case(sp, timeout=60)
        r["kind"] = "runto-N-metachar-names"
        return r
    else:
        sp = t3.gen_workflow(rng, maxlen=3, nproc=rng.randint(2, 6))
        idxs = [k for k, n in enumerate(sp.nodes) if n[0] == "PROC"]
        sp.runto = sorted(rng.sample(idxs, rng.randint(1, min(2, len(idxs)))))
        if i % 5 == 3:
            # a process without out-ports that is NOT upstream of any target (port-less, or fed by a parameter feeder, or
            # fed by a process of the workflow): none of its commands may run
            kind = rng.choice(["portless", "params", "fed"])
            if kind == "portless":
                sp.proc(t3.Proc("side", kind="write", outs=[], extra=["side.log"]))
            elif kind == "params":
                sp.proc(t3.Proc("side", kind="write", pars=[("q", ("V", ["x", "y"]))], outs=[], extra=["side.log"]))
            else:
                sp.proc(t3.Proc("side", kind="cat", ins=[("a", [(idxs[-1], sp.nodes[idxs[-1]][1].outs[0][0])])], outs=[]))
                if idxs[-1] in sp.runto:
                    sp.runto = [idxs[0]]
    sp.runto_mode = rng.choice(["N", "N", "R", "P"])
    r = t3.success_case(sp, timeout=60)
    r["kind"] = "runto-" + sp.runto_mode
    return r


def drain_case(args):
    """out-ports nobody consumes -- a file out-port and a parameter out-port at the same time, one of them carrying more
    items than the buffer holds after the other has closed -- are drained: the run completes"""
    seed, i = args
    rng = random.Random(seed * 198491329 + i)
    sp = t3.Spec(maxtasks=rng.randint(1, 3), bufsize=rng.choice([1, 2]))
    long_n = sp.bufsize + rng.randint(3, 7)
    short_n = rng.randint(0, 1)
    if i % 2 == 0:
        nfiles, nvals = short_n, long_n
    else:
        nfiles, nvals = long_n, short_n
    paths = ["d%02d.txt" % j for j in range(nfiles)]
    for p in paths:
        sp.files[p] = p + "\n"
    s = sp.src("src", paths)
    sp.proc(t3.Proc("leaf", kind="cattok", ins=[("a", [(s, "out")])], outs=[("o", "{i:a}.leaf")]))     # its out-port dangles
    sp.psrc("loose", ["u%d" % j for j in range(nvals)])                                                     # a parameter source nobody reads
    r = t3.success_case(sp, timeout=40)
    r["kind"] = "drain-both-kinds"
    return r


def lockstep_case(args):
    """a component that emits a parameter and a file in lock-step; the files feed the process that is run, the parameters go
    nowhere (Run) or to a process outside the closure (RunTo): the unconsumed parameter port has to be drained while the
    files flow, for streams longer than the buffer"""
    seed, i = args
    rng = random.Random(seed * 198491347 + i)
    sp = t3.Spec(maxtasks=rng.randint(1, 3), bufsize=rng.choice([1, 2, 3]))
    n = sp.bufsize + rng.randint(3, 8)
    g = sp.raw("COMP pairgen %s %d" % (vlib.hx("gen"), n))
    u = sp.proc(t3.Proc("use", kind="cattok", ins=[("a", [(g, "out")])], outs=[("o", "{i:a}.use")]))
    runto = (i % 2 == 1)
    if runto:
        sp.proc(t3.Proc("other", kind="write", pars=[("q", ("U", g))], outs=[("o", "other.{p:q}.txt")]))
        sp.runto = [u]
    sc = t3.Scratch()
    try:
        impl = t3.run_impl(sc, sp, timeout=40)
        problems = []
        if impl["timed_out"] or "all goroutines are asleep" in impl["stderr"]:
            problems.append(("undrained-port-blocks", "a parameter out-port nobody consumes (%s) was not drained: the run hangs after %d of %d tasks" % (
                "cut by RunTo" if runto else "unconnected", len(t3.started_keys(impl["trace"])), n)))
        elif impl["rc"] != 0:
            problems.append(("unexpected-failure", "exit %s: %s" % (impl["rc"], impl["stderr"][-200:])))
        else:
            made = sorted(p for p in t3.data_files(impl["fs"]) if p.endswith(".use"))
            if len(made) != n:
                problems.append(("closure-incomplete", "%d of %d tasks of the process that was run produced their output" % (len(made), n)))
            if any(k.startswith("other") for k in t3.started_keys(impl["trace"])):
                problems.append(("outside-closure-executed", "a command of a process outside the closure ran"))
        return {"spec": sp.text(), "bufsize": sp.bufsize, "problems": problems, "ntasks": n, "rc": impl["rc"], "stderr": impl["stderr"][-200:], "yield": None,
                "wall": impl["wall"], "kind": "lockstep-" + ("runto" if runto else "run")}
    finally:
        sc.close()


def component_command_case(args):
    """bundled components that run a command or read a file of their own (CommandToParams, FileToParamsReader) are processes
    like any other: outside the upstream closure of a RunTo target, or in a workflow that Run refuses, their command is not
    executed"""
    seed, i = args
    rng = random.Random(seed * 198491329 + i)
    hx = vlib.hx
    sp = t3.Spec(maxtasks=rng.randint(1, 3), bufsize=rng.choice([1, 2, 128]))
    L = rng.randint(1, 3)
    paths = ["k%d.txt" % j for j in range(L)]
    for p in paths:
        sp.files[p] = p + "\n"
    s = sp.src("src", paths)
    a = sp.proc(t3.Proc("prep", kind="cattok", ins=[("a", [(s, "out")])], outs=[("o", "{i:a}.prep")]))
    lister = sp.raw("COMP c2p %s %s" % (hx("lister"), hx("echo ran >> lister.ran; echo v1; echo v2")))
    mode = ["runto", "unwired-in", "unwired-param", "full"][i % 4]
    side = t3.Proc("side", kind="write", pars=[("q", ("U", lister))], outs=[("o", "side.{p:q}.txt")])
    sp.proc(side)
    if mode == "runto":
        sp.runto = [a]
        sp.runto_mode = rng.choice(["N", "R", "P"])
    elif mode == "unwired-in":
        sp.proc(t3.Proc("loose", kind="cat", ins=[("x", [])], outs=[("o", "{i:x}.loose")]))
    elif mode == "unwired-param":
        side.pars = list(side.pars) + [("zz", ("N",))]
    sc = t3.Scratch()
    try:
        sc.plant(sp.files)
        impl = t3.run_impl(sc, sp, timeout=30)
        problems = []
        ran = "lister.ran" in impl["fs"]
        files = t3.data_files(impl["fs"])
        if mode == "runto":
            if impl["rc"] != 0 or not impl["returned"]:
                problems.append(("unexpected-failure", "RunTo(prep) fails: %s" % impl["stderr"][-200:]))
            if ran:
                problems.append(("runto-executes-other", "RunTo(prep) executed the command of the CommandToParams component 'lister', which is not upstream of prep"))
            if any(f.startswith("side.") for f in files):
                problems.append(("runto-executes-other", "RunTo(prep) executed tasks of 'side'"))
            if [p for p in paths if p + ".prep" not in files]:
                problems.append(("runto-incomplete", "RunTo(prep) did not produce all outputs of prep"))
        elif mode == "full":
            want = set(p + ".prep" for p in paths) | {"side.v1.txt", "side.v2.txt"}
            if impl["rc"] != 0 or not want <= set(files):
                problems.append(("unexpected-failure", "the fully wired workflow fails or misses outputs %s: %s" % (sorted(want - set(files))[:3], impl["stderr"][-200:])))
            if not ran:
                problems.append(("component-not-run", "the CommandToParams component did not run its command"))
        else:
            if impl["timed_out"]:
                problems.append(("unwired-hangs", "a workflow with an unconnected port hangs"))
            elif impl["rc"] == 0:
                problems.append(("unwired-runs", "a workflow with an unconnected port ran (exit 0)"))
            if ran:
                problems.append(("unwired-executes", "Run refused the workflow (an unconnected port), but the command of the CommandToParams component had been executed"))
            if t3.started_keys(impl["trace"]) or any(f not in sp.files and f != "lister.ran" for f in files):
                problems.append(("unwired-executes", "commands were executed although a port is unconnected"))
        return {"spec": sp.text(), "bufsize": sp.bufsize, "problems": problems, "ntasks": L, "rc": impl["rc"], "stderr": impl["stderr"][-200:], "yield": None, "wall": impl["wall"], "kind": "component-" + mode}
    finally:
        sc.close()


def dangling_stream(args):
    return t3.dangling_stream_case(args[0], args[1], "drain-stream")


def regex_case(args):
    """RunToRegex with several patterns, some with inline flags, unanchored or overlapping: the processes run are those whose
    name matches one of the patterns (each pattern on its own), plus everything upstream of them -- nothing else"""
    seed, i = args
    import re
    rng = random.Random(seed * 198491347 + i)
    sp = t3.Spec(maxtasks=rng.randint(1, 3), bufsize=rng.choice([1, 2, 128]))
    paths = ["g%d.txt" % j for j in range(rng.randint(1, 2))]
    for p in paths:
        sp.files[p] = p + "\n"
    s = sp.src("src", paths)
    A = sp.proc(t3.Proc("Align_reads", kind="cattok", tok="tA", ins=[("a", [(s, "out")])], outs=[("o", "{i:a}.aligned")]))
    Q = sp.proc(t3.Proc("QC_trimmed", kind="cattok", tok="tQ", ins=[("a", [(A, "o")])], outs=[("o", "{i:a}.qc")]))
    R = sp.proc(t3.Proc("qc_raw", kind="cattok", tok="tR", ins=[("a", [(s, "out")])], outs=[("o", "{i:a}.rawqc")]))
    X = sp.proc(t3.Proc("align_extra", kind="cattok", tok="tX", ins=[("a", [(s, "out")])], outs=[("o", "{i:a}.extra")]))
    sp.proc(t3.Proc("report", kind="cat", tok="tP", ins=[("x", [(Q, "o")]), ("y", [(R, "o")])], outs=[("o", "{i:x}.report")]))
    up = {"Align_reads": [], "QC_trimmed": ["Align_reads"], "qc_raw": [], "align_extra": [], "report": ["QC_trimmed", "qc_raw"]}
    pats = rng.choice([["(?i)^align_r", "^QC_"], ["^QC_", "(?i)^ALIGN_READS$"], ["(?i)^qc_raw$", "^Align"], ["^QC", "^QC_t"], ["raw$"], ["(?i)^QC_T", "^align_"]])
    matched = {n for n in up if any(re.search(p, n) for p in pats)}
    want = set()
    def close(n):
        if n not in want:
            want.add(n)
            for u in up[n]:
                close(u)
    for n in matched:
        close(n)
    sp.raw("RUNTO X " + " ".join(vlib.hx(p) for p in pats))
    sc = t3.Scratch()
    try:
        sc.plant(sp.files)
        impl = t3.run_impl(sc, sp, timeout=30)
        problems = []
        if impl["rc"] != 0 or not impl["returned"]:
            problems.append(("unexpected-failure", "RunToRegex(%s) fails: %s" % (pats, impl["stderr"][-200:])))
        else:
            ran = {k.split(" ")[0] for k in t3.started_keys(impl["trace"])}
            if ran != want:
                problems.append(("runto-closure", "RunToRegex(%s): processes %s executed commands, the upstream closure of the matching processes %s is %s" % (pats, sorted(ran), sorted(matched), sorted(want))))
        return {"spec": sp.text(), "bufsize": sp.bufsize, "problems": problems, "ntasks": len(want), "rc": impl["rc"], "stderr": impl["stderr"][-200:], "yield": None, "wall": impl["wall"], "kind": "runto-regex-patterns"}
    finally:
        sc.close()


def run(rep, tier, seed):
    proved = vlib.prove(rep, MODULE, THEOREMS)
    ok, msg = vlib.build_ocaml()
    if not ok:
        raise RuntimeError("extraction/driver build failed: " + msg[-1500:])
    n = 60 if tier == "quick" else 1000
    results = t3.run_many(unconnected_case, [(seed, i) for i in range(n)])
    results += t3.run_many(runto_case, [(seed, i) for i in range(n)])
    results += t3.run_many(drain_case, [(seed, i) for i in range(n // 4)])
    results += t3.run_many(lockstep_case, [(seed, i) for i in range(n // 5)])
    results += t3.run_many(dangling_stream, [(seed, i) for i in range(n // 5)])
    results += t3.run_many(regex_case, [(seed, i) for i in range(n // 5)])
    results += t3.run_many(component_command_case, [(seed, i) for i in range(n // 5)])
    t3.report_t3(rep, MODULE, proved, results, "T3 unconnected ports / RunTo")
    rep.cov["evaluations"] = len(results)
    rep.cov["distinct_nontrivial"] = len({r["spec"] for r in results})
    rep.cov["rule"] = "unconnected: a random workflow in which one in-port loses its connection or one extra parameter port is created and never connected -- must exit non-zero, execute no command, create no file; RunToRegex with several literal patterns (inline flags, unanchored, overlapping): exactly the closure of the processes each pattern matches on its own; RunTo: non-tree closures (a diamond whose one branch has a further producer, file or parameter, reachable only through it; five runs each); process names containing regular-expression metacharacters beside names such a pattern would match; random workflows run to 1-2 random target processes by name, by regular expression or by process value, plus FromStr feeders longer than the buffer upstream of the target -- executed tasks and files must be exactly those of the upstream closure as computed by the reference evaluator; drain: a streaming out-port that nobody consumes or whose consumer RunTo cuts off -- the run must complete and leave no FIFO; a dangling file out-port and an unread parameter source together, one of them longer than the buffer after the other has closed -- the run must complete; lock-step: a component emitting a parameter and a file alternately, the parameters unconsumed or cut off by RunTo, more pairs than the buffer holds -- all tasks of the process that is run must execute; component: a CommandToParams component whose command leaves a mark, outside the closure of a RunTo target / in a refused workflow / in a fully wired one -- the mark must appear only in the last; every case distinct"
    rep.cov["samples"] = [results[0]["spec"], results[-1]["spec"]]
    kinds = {}
    for r in results:
        kinds[r["kind"]] = kinds.get(r["kind"], 0) + 1
    rep.notes["input_distribution"] = {"by_kind": kinds}
    rep.assump += ["acyclic workflow graphs"]


def replay(r):
    return t3.replay_generic(r)
