# C16 -- only fully wired workflows run; RunTo executes exactly the upstream closure.
import copy, random
from tools import vlib, t3

MODULE = "PropC16"
THEOREMS = ["C16_code_conforms", "C16_refuses_before_start", "C16_driver_is_checked", "C16_started_are_checked", "C16_unready_refused", "C16_ready_runs", "C16_driver_unchecked_refuted_before_repair", "C16_ready_flag", "C16_dangling_drained", "C16_closure", "C16_runto_exact", "C16_closed_upward", "C16_example"]


def unconnected_case(args):
    seed, i = args
    rng = random.Random(seed * 179424673 + i)
    sp = t3.gen_workflow(rng, maxlen=3, nproc=rng.randint(1, 4))
    procs = sp.procs()
    p = rng.choice(procs)
    which = rng.choice(["in", "param"])
    if i % 4 == 3:
        # the unconnected port belongs to a process without out-ports (which replaces the sink as the driver of the run)
        idxs = [k for k, n in enumerate(sp.nodes) if n[0] == "PROC"]
        u = rng.choice(idxs)
        p = t3.Proc("leafz", kind="cat", ins=[("x", [(u, sp.nodes[u][1].outs[0][0])])], outs=[])
        sp.proc(p)
        if which == "in":
            p.ins.append(("y", [(u, sp.nodes[u][1].outs[0][0])]))
    if which == "param":
        p.pars = list(p.pars) + [("zz", ("N",))]
    else:
        k = rng.randrange(len(p.ins))
        p.ins[k] = (p.ins[k][0], [])
    model = t3.run_model(sp.text())
    sc = t3.Scratch()
    try:
        sc.plant(sp.files)
        impl = t3.run_impl(sc, sp, timeout=30)
        problems = []
        if model["status"] != "notready":
            problems.append(("model", "model does not refuse: %s" % model["status"]))
        if impl["timed_out"]:
            problems.append(("unwired-hangs", "a workflow with an unconnected %s-port hangs" % which))
        elif impl["rc"] == 0:
            problems.append(("unwired-runs", "a workflow with an unconnected %s-port of process %s ran (exit 0)" % (which, p.name)))
        if t3.started_keys(impl["trace"]):
            problems.append(("unwired-executes", "commands were executed although a port is unconnected: %s" % t3.started_keys(impl["trace"])[:3]))
        new = [f for f in t3.data_files(impl["fs"]) if f not in sp.files]
        if new:
            problems.append(("unwired-writes", "files were created although a port is unconnected: %s" % new[:3]))
        return {"spec": sp.text(), "bufsize": sp.bufsize, "problems": problems, "ntasks": 0, "rc": impl["rc"], "stderr": impl["stderr"][-200:], "yield": None, "wall": impl["wall"], "kind": "unconnected-" + which}
    finally:
        sc.close()


def runto_case(args):
    seed, i = args
    rng = random.Random(seed * 198491317 + i)
    if i % 5 == 4:
        # FromStr feeders with more values than the buffer holds, and a RunTo target downstream of them (shape of D8)
        sp = t3.Spec(maxtasks=2, bufsize=rng.choice([1, 2]))
        vals = ["w%d" % j for j in range(sp.bufsize + rng.randint(2, 6))]
        a = sp.proc(t3.Proc("feed", kind="write", pars=[("q", ("V", vals))], outs=[("o", "feed.{p:q}.txt")]))
        b = sp.proc(t3.Proc("mid", kind="cattok", ins=[("a", [(a, "o")])], outs=[("o", "{i:a}.mid")]))
        sp.proc(t3.Proc("other", kind="cat", ins=[("a", [(b, "o")])], outs=[("o", "{i:a}.other")]))
        sp.runto = [rng.choice([a, b])]
    else:
        sp = t3.gen_workflow(rng, maxlen=3, nproc=rng.randint(2, 6))
        idxs = [k for k, n in enumerate(sp.nodes) if n[0] == "PROC"]
        sp.runto = sorted(rng.sample(idxs, rng.randint(1, min(2, len(idxs)))))
        if i % 5 == 3:
            # a process without out-ports that is NOT upstream of any target (port-less, or fed by a parameter feeder, or
            # fed by a process of the workflow): none of its commands may run
            kind = rng.choice(["portless", "params", "fed"])
            if kind == "portless":
                sp.proc(t3.Proc("side", kind="write", outs=[], extra=["side.log"]))
            elif kind == "params":
                sp.proc(t3.Proc("side", kind="write", pars=[("q", ("V", ["x", "y"]))], outs=[], extra=["side.log"]))
            else:
                sp.proc(t3.Proc("side", kind="cat", ins=[("a", [(idxs[-1], sp.nodes[idxs[-1]][1].outs[0][0])])], outs=[]))
                if idxs[-1] in sp.runto:
                    sp.runto = [idxs[0]]
    sp.runto_mode = rng.choice(["N", "N", "R", "P"])
    r = t3.success_case(sp, timeout=60)
    r["kind"] = "runto-" + sp.runto_mode
    return r


def drain_case(args):
    """out-ports nobody consumes -- a file out-port and a parameter out-port at the same time, one of them carrying more
    items than the buffer holds after the other has closed -- are drained: the run completes"""
    seed, i = args
    rng = random.Random(seed * 198491329 + i)
    sp = t3.Spec(maxtasks=rng.randint(1, 3), bufsize=rng.choice([1, 2]))
    long_n = sp.bufsize + rng.randint(3, 7)
    short_n = rng.randint(0, 1)
    if i % 2 == 0:
        nfiles, nvals = short_n, long_n
    else:
        nfiles, nvals = long_n, short_n
    paths = ["d%02d.txt" % j for j in range(nfiles)]
    for p in paths:
        sp.files[p] = p + "\n"
    s = sp.src("src", paths)
    sp.proc(t3.Proc("leaf", kind="cattok", ins=[("a", [(s, "out")])], outs=[("o", "{i:a}.leaf")]))     # its out-port dangles
    sp.psrc("loose", ["u%d" % j for j in range(nvals)])                                                     # a parameter source nobody reads
    r = t3.success_case(sp, timeout=40)
    r["kind"] = "drain-both-kinds"
    return r


def run(rep, tier, seed):
    proved = vlib.prove(rep, MODULE, THEOREMS)
    ok, msg = vlib.build_ocaml()
    if not ok:
        raise RuntimeError("extraction/driver build failed: " + msg[-1500:])
    n = 60 if tier == "quick" else 1000
    results = t3.run_many(unconnected_case, [(seed, i) for i in range(n)])
    results += t3.run_many(runto_case, [(seed, i) for i in range(n)])
    results += t3.run_many(drain_case, [(seed, i) for i in range(n // 4)])
    t3.report_t3(rep, MODULE, proved, results, "T3 unconnected ports / RunTo")
    rep.cov["evaluations"] = len(results)
    rep.cov["distinct_nontrivial"] = len({r["spec"] for r in results})
    rep.cov["rule"] = "unconnected: a random workflow in which one in-port loses its connection or one extra parameter port is created and never connected -- must exit non-zero, execute no command, create no file; RunTo: random workflows run to 1-2 random target processes by name, by regular expression or by process value, plus FromStr feeders longer than the buffer upstream of the target -- executed tasks and files must be exactly those of the upstream closure as computed by the reference evaluator; drain: a dangling file out-port and an unread parameter source together, one of them longer than the buffer after the other has closed -- the run must complete; every case distinct"
    rep.cov["samples"] = [results[0]["spec"], results[-1]["spec"]]
    kinds = {}
    for r in results:
        kinds[r["kind"]] = kinds.get(r["kind"], 0) + 1
    rep.notes["input_distribution"] = {"by_kind": kinds}
    rep.assump += ["acyclic workflow graphs"]


def replay(r):
    return t3.replay_generic(r)
