# C06 -- concurrently executing tasks never exceed maxConcurrentTasks.
import random
from tools import vlib, t3

MODULE = "PropC06"
THEOREMS = ["C06_code_conforms", "C06_order_facts", "C06_slots_never_exceeded", "C06_invariant_form", "C06_nonvacuous", "C06_in_workflow", "C06_cone_conforms"]


class BgProc(t3.Proc):
    """the command leaves part of its work to a background job that keeps the command's standard output and error open (no
    `wait`): the job belongs to the execution of the command -- exec.Cmd.Wait returns when it has let go of the pipe -- and is
    covered by the task's slots; it is the job that logs the end of the interval"""
    def pattern(self):
        key = self.key_pattern()
        ins = " ".join("{i:%s}" % port for port, _ in self.ins)
        body = ("cat " + ins + " && " if ins else "") + "echo " + self.tok
        return ('echo "S %s" $(date +%%s%%N) >> "$VERIF_TRACE" && { ( %s ; echo "E %s" $(date +%%s%%N) >> "$VERIF_TRACE" ) & } && ( %s ) > {o:%s}'
                % (key, self.sleep or "sleep 0.05", key, body, self.outs[0][0]))


def build(rng):
    mx = rng.randint(1, 6)
    sp = t3.Spec(maxtasks=mx, bufsize=rng.choice([1, 2, 128]))
    L = rng.randint(3, 8)
    paths = ["s%02d.txt" % j for j in range(L)]
    for p in paths:
        sp.files[p] = p + "\n"
    s = sp.src("src", paths)
    cores = {}
    for b in range(rng.randint(1, 4)):      # several processes compete, different core counts
        c = rng.randint(1, mx)
        name = "p%d" % b
        cores[name] = c
        gof = rng.random() < 0.15
        # a third of the shell processes run a multi-line script whose first line is a comment
        cls = t3.CommentProc if (not gof and rng.random() < 0.35) else t3.Proc
        if not gof and rng.random() < 0.2:
            cls = BgProc
        sp.proc(cls(name, kind="cattok", ins=[("a", [(s, "out")])], outs=[("o", "{i:a}.%s" % name)], cores=c,
                    sleep="sleep 0.0%d" % rng.randint(2, 6), gofunc=gof))
    return sp, cores, mx


def build_streaming(rng):
    """streaming producers, their FIFO consumers and unrelated tasks compete for few slots: a FIFO reader that arrives
    while the slots are taken has to wait like everybody else"""
    L = rng.randint(1, 2)
    # every streamed item needs its producer and its consumer at the same time: with L producers holding L slots a consumer
    # still has to find one (the guard of C17); fewer slots than L + 1 can deadlock by design
    mx = L + 1 + rng.randint(0, 2)
    sp = t3.Spec(maxtasks=mx, bufsize=rng.choice([1, 128]))
    paths = ["q%02d.txt" % j for j in range(L)]
    for p in paths:
        sp.files[p] = p + "\n"
    s = sp.src("src", paths)
    cores = {"prod": 1, "cons": 1}
    pr = sp.proc(t3.Proc("prod", kind="cattok", ins=[("a", [(s, "out")])], outs=[("o", "{i:a}.st")], stream_outs=["o"], sleep="sleep 0.0%d" % rng.randint(3, 8)))
    sp.proc(t3.Proc("cons", kind="cat", ins=[("a", [(pr, "o")])], outs=[("o", "{i:a}.cons")], sleep="sleep 0.0%d" % rng.randint(1, 5)))
    hp = ["h%02d.txt" % j for j in range(rng.randint(3, 6))]
    for p in hp:
        sp.files[p] = p + "\n"
    hs = sp.src("hsrc", hp)
    for b in range(rng.randint(1, 2)):
        name = "hog%d" % b
        cores[name] = 1
        sp.proc(t3.Proc(name, kind="cattok", ins=[("a", [(hs, "out")])], outs=[("o", "{i:a}.%s" % name)], sleep="sleep 0.0%d" % rng.randint(3, 9)))
    return sp, cores, mx


def overlap(trace, cores):
    """max over time of the summed cores of commands between their S and E trace lines (a lower bound of true usage)"""
    ev = []
    for s, key, ts in trace:
        c = cores.get(key.split(" ")[0], 1)
        ev.append((ts, 0 if s == "E" else 1, c if s == "S" else -c))
    ev.sort()
    cur = best = 0
    for ts, _, d in ev:
        cur += d
        best = max(best, cur)
    return best


def token_replay(hooks, mx):
    """deposit events are logged after the deposit, removal events before the removal: at every prefix of the log
    deposits - removals is at most the number of tokens in the channel, hence at most max"""
    cur = worst = 0
    for ts, name, n, keys, gid in hooks:
        if name == "slots.deposited":
            cur += 1
        elif name == "slots.removing":
            cur -= 1
        worst = max(worst, cur)
    return worst


def case(args):
    seed, i = args
    rng = random.Random(seed * 86028121 + i)
    sp, cores, mx = build(rng) if i % 4 != 3 else build_streaming(rng)
    if i % 3 == 1 and i % 4 != 3:
        # a partially completed workflow that is resumed: some tasks are skipped while others hold slots
        base = t3.run_model(sp.text())
        for t in base["tasks"]:
            if rng.random() < 0.4:
                for port, st, path in t["outs"]:
                    sp.files[path] = "ALREADY-THERE\n"
    maxseen = {}
    def chk(sp_, model, impl, sc):
        problems = []
        o = overlap(impl["trace"], cores)
        tk = token_replay(impl["hooks"], mx)
        maxseen["o"], maxseen["t"] = o, tk
        if o > mx:
            problems.append(("slots-exceeded", "commands with %d cores in total were executing at one instant, maxConcurrentTasks is %d" % (o, mx)))
        if tk > mx:
            problems.append(("tokens-exceeded", "%d tokens deposited and not yet removed, capacity is %d" % (tk, mx)))
        return problems
    ys = (rng.randint(1, 10**6), rng.choice([100, 1000])) if rng.random() < 0.5 else None
    r = t3.success_case(sp, yield_seed=ys, extra_check=chk, gomaxprocs=rng.choice([None, 1]), replays=("slots",))
    r["max"], r["overlap"], r["tokens"] = mx, maxseen.get("o", 0), maxseen.get("t", 0)
    return r


def run(rep, tier, seed):
    proved = vlib.prove(rep, MODULE, THEOREMS)
    ok, msg = vlib.build_ocaml()
    if not ok:
        raise RuntimeError("extraction/driver build failed: " + msg[-1500:])
    n = 64 if tier == "quick" else 1200
    results = t3.run_many(case, [(seed, i) for i in range(n)])
    t3.report_t3(rep, MODULE, proved, results, "T3 overlap of command intervals / token log")
    rep.cov["evaluations"] = len(results)
    rep.cov["distinct_nontrivial"] = len({r["spec"] for r in results if r["ntasks"] >= 3})
    rep.cov["rule"] = "1-4 processes with CoresPerTask drawn from 1..max compete for max in 1..6 slots on 3-8 simultaneously ready items each (shell and Go-function tasks, commands sleep 20-60 ms), seeded delays at the slot hook points in half of the runs; monitors: weighted overlap of the command intervals logged by the commands themselves (a lower bound of true usage) <= max, and deposits-minus-removals in the hook log <= max at every prefix; plus the generic comparison with the reference evaluator; non-trivial = at least three tasks"
    rep.cov["samples"] = [results[0]["spec"]]
    rep.notes["input_distribution"] = {"runs": len(results), "runs_reaching_full_capacity": sum(1 for r in results if r["overlap"] == r["max"]),
                                       "max_hist": {str(m): sum(1 for r in results if r["max"] == m) for m in range(1, 7)}, "tasks": sum(r["ntasks"] for r in results)}
    rep.assump += ["H-chan: a buffered Go channel of capacity n holds at most n items; the mutex is mutual exclusion"]


def replay(r):
    return t3.replay_generic(r)
