# C03 -- restart after a crash converges to the uninterrupted result.
import os, random, shutil
from tools import vlib, t3
from tools import ks

MODULE = "PropC03"
THEOREMS = ["C03_code_conforms", "C03_complete_is_result", "C03_converges", "C03_any_history", "C03_any_history_run", "C03_no_reexecution", "C03_refuses_leftovers", "C03_midfinalize_refuted", "C03_cone_conforms"]


def workflows(rng, k):
    sp = t3.Spec(maxtasks=rng.randint(1, 3), bufsize=rng.choice([1, 2, 128]))
    L = rng.randint(1, 3)
    if k % 4 == 0:
        # several tasks of one process in flight, the oldest the slowest: at many kill instants a later task is final while
        # an earlier one is not, so that the resumed run re-executes an early task and skips later ones
        L, sp.max = rng.randint(2, 3), rng.randint(2, 3)
    paths = ["in%d.txt" % j for j in range(L)]
    for p in paths:
        sp.files[p] = "content of %s\n" % p
    s = sp.src("src", paths)
    two = (k % 2 == 0)          # every other workflow has a task with two outputs (the shape of finding D2)
    outs = [("o", rng.choice(["{i:a}.w", "sub/{i:a|basename}.w"]))] + ([("o2", "{i:a}.w2")] if two else [])
    empty = (k % 2 == 1)        # every other workflow has a task whose (correct, finalized) output is an empty file
    if empty:
        sp.files[paths[0]] = ""
    a = sp.proc(t3.Proc("w", kind="cat" if empty else "cattok", ins=[("a", [(s, "out")])], outs=outs,
                        sleep='sleep 0.$(( $(echo {i:a|basename} | tr -dc 0-9) == 0 ? 1 : 0 ))1' if k % 4 == 0 else "sleep 0.01"))
    g = sp.proc(t3.Proc("g", kind="cattok", ins=[("a", [(a, "o")])], outs=[("o", "{i:a}.g")], gofunc=(k % 3 == 0)))
    if two:
        sp.proc(t3.Proc("z", kind="cat", ins=[("x", [(g, "o")]), ("y", [(a, "o2")])], outs=[("o", "{i:x}.z")]))
    else:
        sp.proc(t3.Proc("z", kind="cat", ins=[("x", [(g, "o")])], outs=[("o", "{i:x}.z")]))
    return sp


def cleanup(work):
    for root, dirs, files in os.walk(work, topdown=True):
        for d in list(dirs):
            if d.startswith("_scipipe_tmp"):
                shutil.rmtree(os.path.join(root, d), ignore_errors=True)
                dirs.remove(d)
        for f in files:
            if f.endswith(".fifo"):
                os.remove(os.path.join(root, f))


def mid_finalize(model, fs, planted):
    """the shape of finding D2: some task has part, but not all, of its declared outputs / additional files at their final paths"""
    real = t3.data_files(fs)
    for t in model["tasks"]:
        outs = [os.path.normpath(p) for port, st, p in t["outs"] if not st]
        have = [p for p in outs if p in real and p not in planted]
        if have and len(have) < len(outs):
            return t["key"]
    return None


def history_case(args):
    (sp, model), point, seed, second = args
    sc = t3.Scratch()
    try:
        sc.plant(sp.files)
        crashed = t3.run_impl(sc, sp, crash="%s:%d" % point, timeout=60)
        problems = []
        rstats = {}
        def replayed(impl, files, leftover_dirs=(), crash=None):
            # the event log of this run replayed through the task machine, started from the files the run found
            sp2 = t3.Spec(sp.max, sp.bufsize); sp2.nodes = sp.nodes; sp2.files = dict(files)
            m2 = t3.run_model(sp2.text())
            if m2["status"] != "done":
                return []
            r2 = {}
            out = t3.replay_problems(sp2, m2, impl, ("tasks",), stats=r2, crash=crash, leftover_dirs=leftover_dirs)
            for k, v in r2.items():
                rstats[k] = (rstats.get(k, 0) + v) if isinstance(v, int) else v
            return out
        problems += replayed(crashed, sp.files, crash=point)
        after_crash = crashed["fs"]
        d2 = mid_finalize(model, after_crash, sp.files)
        final_before = {p: (v[2], v[3], v[1]) for p, v in after_crash.items()
                        if v[0] == "f" and p in {os.path.normpath(o[2]) for t in model["tasks"] for o in t["outs"]}}
        left = t3.leftovers(after_crash)
        # 1. re-run without cleaning up: must not adopt leftovers
        rer = t3.run_impl(sc, sp, timeout=60)
        problems += replayed(rer, t3.data_files(after_crash), leftover_dirs=[p for p in left if os.path.basename(p).startswith("_scipipe_tmp")])
        if [p for p in left if os.path.basename(p).startswith("_scipipe_tmp")]:
            # some task of the re-run meets its own temp dir unless its outputs are already final: it then must refuse
            # every task is formed again by the re-run, so the task that owns a left-over temp dir is reached: the run must stop
            if rer["timed_out"]:
                problems.append(("rerun-hangs", "the re-run with left-over temp dirs does not terminate"))
            elif rer["rc"] == 0:
                problems.append(("leftovers-adopted", "the re-run found left-over temp dirs %s and still exited with status 0 instead of stopping" % [p for p in left if os.path.basename(p).startswith("_scipipe_tmp")][:2]))
            problems += [(k, "after re-run with leftovers: " + m) for k, m in t3.atomicity_problems(sp, model, rer["fs"])]
        # optionally: crash the recovery run as well (nested crash)
        cleanup(sc.work)
        if second:
            t3.run_impl(sc, sp, crash="%s:%d" % second, timeout=60)
            d2 = d2 or mid_finalize(model, t3.snapshot_dir(sc.work), sp.files)
            cleanup(sc.work)
        # 2. clean up, run again: completes with the uninterrupted result, without re-executing finalized tasks
        before_fin = t3.data_files(t3.snapshot_dir(sc.work))
        fin = t3.run_impl(sc, sp, timeout=60)
        problems += replayed(fin, before_fin)
        conv = t3.compare_success(sp, model, fin)
        conv = [c for c in conv if c[0] != "tasks-differ"]
        done_before = {t["key"] for t in model["tasks"] if t["outs"] and all(os.path.normpath(o[2]) in final_before for o in t["outs"] if not o[1])}
        reexec = done_before & set(t3.started_keys(fin["trace"])) if not second else set()
        if reexec:
            conv.append(("re-executed", "tasks whose outputs were final at the crash were executed again: %s" % sorted(reexec)[:3]))
        for p, st in final_before.items():
            v = fin["fs"].get(p)
            if v and (v[2], v[3], v[1]) != st and not second:
                conv.append(("finalized-file-changed", "file %r finalized before the crash was modified by the re-run" % p))
        return {"replay": rstats, "spec": sp.text(), "bufsize": sp.bufsize, "problems": problems, "conv": conv, "d2": d2, "point": point, "second": second, "rc": fin["rc"],
                "stderr": fin["stderr"][-300:], "yield": None, "ntasks": len(model["tasks"]), "wall": crashed["wall"], "refused": rer["rc"] != 0, "leftovers": len(left)}
    finally:
        sc.close()


def dir_history_case(args):
    """a task whose declared output is a directory with several files in it, and a consumer of that directory: kill at a hook
    point of its finalisation (or anywhere else), remove the temp dirs, run again: the files of the uninterrupted run -- the
    directory appears at its final path complete or not at all"""
    (sp, ref_files, point, seed) = args
    sc = t3.Scratch()
    try:
        sc.plant(sp.files)
        t3.run_impl(sc, sp, crash="%s:%d" % point, timeout=60)
        cleanup(sc.work)
        fin = t3.run_impl(sc, sp, timeout=60)
        problems = []
        if fin["rc"] != 0 or not fin["returned"]:
            problems.append(("restart-fails", "killed at %s:%d, temp dirs removed, run again: exit %s: %s" % (point[0], point[1], fin["rc"], fin["stderr"][-200:])))
        else:
            got = t3.data_files(fin["fs"])
            if got != ref_files:
                diff = sorted(set(got) ^ set(ref_files)) or [p for p in got if got[p] != ref_files.get(p)]
                problems.append(("restart-differs", "killed at %s:%d, temp dirs removed, run again: files / contents differ from the uninterrupted run: %s" % (point[0], point[1], diff[:4])))
        return {"replay": {}, "spec": sp.text(), "bufsize": sp.bufsize, "problems": problems, "conv": [], "d2": None, "point": point, "second": None, "rc": fin["rc"],
                "stderr": fin["stderr"][-300:], "yield": None, "ntasks": 2, "wall": fin["wall"], "refused": False, "leftovers": 0}
    finally:
        sc.close()


def other_device_history_case(args):
    """the declared output lies on another file system than the working directory (results -> scratch storage).  History: the
    program is killed at the first moment the output can be seen at its final path with fewer bytes than it will have (if that
    moment never comes the run just ends), temp dirs are removed, the workflow is run again.  The outcome -- exit status, size
    of the output, what the consumer computed from it -- is that of an uninterrupted run in a fresh directory"""
    seed, i = args
    rng = random.Random(seed * 2750159 + i)
    size = rng.choice([150, 250, 400]) * 1000 * 1000
    sp = t3.Spec(maxtasks=2, bufsize=128)
    big = sp.proc(t3.RawProc("big", "head -c %d /dev/zero > {o:o}" % size, ins=[], outs=[("o", "results/big.bin")]))
    sp.proc(t3.RawProc("count", "wc -c < {i:a} | tr -d ' ' > {o:o}", ins=[("a", [(big, "o")])], outs=[("o", "count.txt")]))
    def outcome(sc, r):
        try:
            cnt = open(os.path.join(sc.work, "count.txt")).read().strip()
        except OSError:
            cnt = None
        return ("exit 0" if r["rc"] == 0 else "exit non-zero", r["final_size"], cnt)
    others = []
    try:
        ref = None
        sc = t3.Scratch()
        try:
            o = t3.other_device_dir()
            if o is None:
                return {"replay": {}, "spec": "", "bufsize": 0, "problems": [], "conv": [], "d2": None, "point": None, "second": None, "rc": 0, "stderr": "", "yield": None,
                        "ntasks": 0, "wall": 0, "refused": False, "leftovers": 0}
            others.append(o)
            os.symlink(o, os.path.join(sc.work, "results"))
            ref = outcome(sc, t3.watched_run(sc, sp, "results/big.bin", size))
        finally:
            sc.close()
        sc = t3.Scratch()
        try:
            o = t3.other_device_dir()
            others.append(o)
            os.symlink(o, os.path.join(sc.work, "results"))
            r1 = t3.watched_run(sc, sp, "results/big.bin", size, kill_on_partial=True)
            cleanup(sc.work)
            r2 = t3.watched_run(sc, sp, "results/big.bin", size)
            got = outcome(sc, r2)
        finally:
            sc.close()
        problems = []
        if got != ref:
            problems.append(("restart-differs", "output on another file system; %s, temp dirs removed, run again: (exit, size of results/big.bin, count.txt) = %s, the uninterrupted run gives %s" % (
                "killed when results/big.bin was visible with %s of %d bytes" % (r1["smallest_seen"], size) if r1["killed"] else "first run not interrupted (the output was never visible incomplete)", got, ref)))
        return {"replay": {}, "spec": sp.text(), "bufsize": sp.bufsize, "problems": problems, "conv": [], "d2": None, "point": ("observer", 1) if r1["killed"] else None, "second": None,
                "rc": r2["rc"], "stderr": r2["out"][-300:], "yield": None, "ntasks": 2, "wall": 1.0, "refused": False, "leftovers": 0}
    finally:
        for o in others:
            shutil.rmtree(o, ignore_errors=True)


def dir_workflow(rng):
    sp = t3.Spec(maxtasks=rng.randint(1, 2), bufsize=128)
    L = rng.randint(1, 2)
    paths = ["dh%d.txt" % j for j in range(L)]
    for p in paths:
        sp.files[p] = p + "\n"
    s = sp.src("src", paths)
    a = sp.proc(t3.RawProc("mkparts", "mkdir {o:parts} && for k in 1 2 3 4; do cat {i:a} > {o:parts}/p$k.txt; echo $k >> {o:parts}/p$k.txt; done",
                           ins=[("a", [(s, "out")])], outs=[("parts", "{i:a}.parts")]))
    sp.proc(t3.RawProc("sum", "cat {i:d}/p1.txt {i:d}/p2.txt {i:d}/p3.txt {i:d}/p4.txt > {o:o}", ins=[("d", [(a, "parts")])], outs=[("o", "{i:d}.sum")]))
    return sp


def run(rep, tier, seed):
    proved = vlib.prove(rep, MODULE, THEOREMS)
    ok, msg = vlib.build_ocaml()
    if not ok:
        raise RuntimeError("extraction/driver build failed: " + msg[-1500:])
    rng = random.Random(seed)
    nwf = 2 if tier == "quick" else 16
    cases = []
    for k in range(nwf):
        sp = workflows(rng, k)
        model = t3.run_model(sp.text())
        pts, ref = t3.hook_points(sp, sample_others=6, rng=rng)
        if ref["rc"] != 0:
            rep.violation("reference run of a C03 workflow fails: %s" % ref["stderr"][-300:], {"kind": "unexpected-failure", "spec": sp.text()})
        for pt in pts:
            cases.append(((sp, model), pt, seed, None))
        for pt in rng.sample(pts, min(len(pts), 12 if tier == "quick" else 60)):
            cases.append(((sp, model), pt, seed, rng.choice(pts)))
    results = t3.run_many(history_case, cases)
    results += t3.run_many(ks.ks_case, [(seed, i, ("crash",)) for i in range(24 if tier == "quick" else 400)])
    dcases = []
    for k in range(1 if tier == "quick" else 6):
        dsp = dir_workflow(rng)
        dpts, dref = t3.hook_points(dsp, prefixes=("exec.", "fin."), rng=rng)
        if dref["rc"] != 0:
            rep.violation("reference run of the directory-output workflow fails: %s" % dref["stderr"][-300:], {"kind": "unexpected-failure", "spec": dsp.text()})
        fpts = [p for p in dpts if p[0].startswith("fin.")]
        opts = [p for p in dpts if not p[0].startswith("fin.")]
        dcases += [(dsp, t3.data_files(dref["fs"]), pt, seed) for pt in fpts + rng.sample(opts, min(len(opts), 10))]
    results += t3.run_many(dir_history_case, dcases)
    results += t3.run_many(other_device_history_case, [(seed, i) for i in range(2 if tier == "quick" else 8)], workers=2)
    kf = vlib.known_findings("C03")
    d2_listed = any(f["kind"] == "crash-between-renames-of-one-task" for f in kf)
    nd2 = 0
    for r in results:
        if r["conv"]:
            if r["d2"] and d2_listed:
                nd2 += 1
                rep.known_finding("a kill between the renames of one task's outputs (multi-output task or additional files) leaves part of its outputs final; the re-run skips the task and the rest never appears")
            else:
                r["problems"] = r["problems"] + r["conv"]
    rep.notes["nonconverging_histories_in_known_shape"] = nd2
    t3.report_t3(rep, MODULE, proved, results, "T3 crash / re-run / cleanup / re-run histories")
    rep.cov["evaluations"] = len(results) * 3
    rep.cov["distinct_nontrivial"] = len({(r["spec"], r["point"], r["second"]) for r in results})
    rep.cov["rule"] = "histories on workflows with single- and two-output tasks, a directory-valued output (killed at every finalisation hook point), a Go-function task and a join: kill the process group at every hit of every hook point of Task.Execute / FinalizePaths / Process.Run / createTasks / runProcs (plus sampled port / slot points); re-run without cleaning (must refuse or complete, never adopt leftovers, finalized files stay correct); remove temp dirs and FIFOs; optionally crash the recovery run at a second point and clean again; run again: must exit 0 with exactly the file set and bytes of the uninterrupted run, without executing tasks whose outputs were final, and without touching their files"
    rep.cov["rule"] += "; plus kitchen-sink workflows (tools/ks.py: random workflows decorated with tagging components, sub-streams, Concatenator / FileSplitter, streamed pairs, component parameter feeders, Go-function and multi-core processes, RunTo) judged by the model-free crash / clean up / re-run oracle"
    rep.cov["samples"] = [{"point": results[3]["point"], "second": results[3]["second"], "refused": results[3]["refused"], "leftovers": results[3]["leftovers"]}, results[0]["spec"]]
    rep.notes["input_distribution"] = {"workflows": nwf, "histories": len(results), "nested_crash_histories": sum(1 for r in results if r["second"]),
                                       "reruns_refused_because_of_leftovers": sum(1 for r in results if r["refused"]), "crash_states_with_leftovers": sum(1 for r in results if r["leftovers"])}
    rep.assump += ["finalize_atomic: the kill does not fall between two renames of one task (the complement is finding D2)", "non-streaming workflows (streaming re-runs: C17)"]


def replay(r):
    return t3.replay_generic(r)
