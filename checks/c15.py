# C15 -- placeholders and path modifiers expand as documented.
import random
from tools import vlib
from tools.vlib import hx, unhx

MODULE = "PropC15"
THEOREMS = ["C15_code_conforms", "C15_parse_render", "C15_replace_pieces", "C15_test_vectors", "C15_missing_fails", "C15_missing_cases", "C15_setout_missing_fails", "C15_default_path_deterministic", "C15_missing_fails_examples", "C15_command", "C15_modifiers_documented", "C15_cone_conforms"]

PATHS = ["data/foofile.txt", "barfile.txt", "a/b/c.txt", "../up/x.txt", "/abs/dir/y.txt", "x", "dat.a.txt", "a/s/a/b/t", "d.txt/e.txt", "a.txt.txt"]
VALS = ["v1", "a.b", "x/y", "10", "dat", "A-b_c", "0.5", "C", "chrX"]
CLEAN_MODS = ["basename", "dirname", "%.txt", "%xyz", "%t", "s/a/b/", "s/dat/DAT/", "s/./_/", "s/txt//", "%.a.txt"]
ODD_MODS = ["%s/a/b/", "s/x%y/z/", "%", "s//x/", "nonsense", "s/a/b", "basename ", "%%", "s/a/b/c/", ".ext", "join:", "s/{/x/"]
LITS = ["cat ", " > ", " | tee ", "awk '{print $1}' ", " ", "../", "data/", ".out", "$(", ")", "echo "]
ODD_LITS = ["{x}", "{i:}", "x}", "{", "}{", "{q:z}", "{i:a", "{o:}", "{is:a}"]


def doc_mod(v, m):
    """the documented meaning of one modifier"""
    if m == "basename":
        return v.rsplit("/", 1)[-1]
    if m == "dirname":
        return v.rsplit("/", 1)[0] if "/" in v else v
    if m.startswith("%"):
        suf = m[1:]
        return v[:len(v) - len(suf)] if (len(v) > len(suf) and v.endswith(suf)) else v
    if m.startswith("s/"):
        _, a, b, _ = m.split("/")
        return v.replace(a, b, 1)
    raise ValueError(m)


class Stop(Exception):
    pass


def temp_path(p):
    q = p.replace("../", "__parent__")
    return "__fsroot__" + q if q.startswith("/") else q


def doc_eval(piece, env):
    kind, name, mods = piece
    if kind == "i":
        v = env["in"][name]
        for m in mods:
            v = doc_mod(v, m)
        if v == "" and "basename" not in mods:
            raise Stop()       # a path that the modifiers reduce to nothing stops the workflow (the code indexes its first byte)
        return v if (v.startswith("/") or "basename" in mods) else "../" + v
    if kind == "os":
        # a streamed output is written through a pipe next to the final path: modifiers apply to the pipe's path
        v = env["out"][name] + ".fifo"
        for m in mods:
            v = doc_mod(v, m)
        if v == "" and "basename" not in mods:
            raise Stop()
        return v if (v.startswith("/") or "basename" in mods) else "../" + v
    if kind == "o":
        v = temp_path(env["out"][name])
        for m in mods:
            v = doc_mod(v, m)
        return v.replace("../", "__parent__")
    v = env["par"][name] if kind == "p" else env["tag"][name]
    for m in mods:
        v = doc_mod(v, m)
    return v


def gen_structured(rng):
    """patterns from the documented grammar: literals without braces, clean modifier chains, all values present"""
    cands = [("i", "a"), ("i", "b"), ("o", "o1"), ("o", "o2"), ("p", "p"), ("p", "q"), ("t", "t1"), ("os", "s1")]
    env = {"in": {"a": rng.choice(PATHS), "b": rng.choice(PATHS)}, "out": {"o1": rng.choice(PATHS), "o2": rng.choice(PATHS), "s1": rng.choice(PATHS)},
           "par": {"p": rng.choice(VALS), "q": rng.choice(VALS)}, "tag": {"t1": rng.choice(VALS)}}
    pieces = []
    for _ in range(rng.randint(1, 6)):
        if rng.random() < 0.6:
            pieces.append(rng.choice(LITS))
        kind, name = rng.choice(cands)
        mods = [rng.choice(CLEAN_MODS) for _ in range(rng.choice([0, 0, 1, 1, 2, 3]))]
        pieces.append((kind, name, mods))
        if rng.random() < 0.3:       # the same placeholder again
            pieces.append(rng.choice(LITS))
            pieces.append((kind, name, mods))
    used = {(p[0], p[1]) for p in pieces if not isinstance(p, str)}
    pat = "".join(p if isinstance(p, str) else "{%s:%s%s}" % (p[0], p[1], "".join("|" + m for m in p[2])) for p in pieces)
    def sel(kind, d):
        return [(n, v) for n, v in d.items() if (kind, n) in used]
    outs_used = [(n, v) for n, v in env["out"].items() if ("o", n) in used or ("os", n) in used]
    line = "%s %s 0 %s %s %s" % (hx(pat), pl(sel("i", env["in"])), pl(outs_used), pl(sel("p", env["par"])), pl(sel("t", env["tag"])))
    try:
        expected = "".join(p if isinstance(p, str) else doc_eval(p, env) for p in pieces)
    except Stop:
        expected = None
    return line, pat, expected


def pl(items):
    return "%d%s" % (len(items), "".join(" %s %s" % (hx(k), hx(v)) for k, v in items))


def gen_free(rng):
    """anything goes: odd modifiers, braces in literals, joined ports, streaming outs, missing or empty values"""
    cands = [("i", "a"), ("i", "b"), ("o", "o1"), ("o", "o2"), ("os", "s1"), ("p", "p"), ("p", "q"), ("t", "t1"), ("i", "j")]
    pat = ""
    used = {}
    sep = rng.choice([" ", ",", ":", "--"])
    for _ in range(rng.randint(1, 6)):
        if rng.random() < 0.5:
            pat += rng.choice(LITS + ODD_LITS)
        kind, name = rng.choice(cands)
        s = "{%s:%s" % (kind, name)
        for _ in range(rng.randint(0, 3)):
            s += "|" + rng.choice(CLEAN_MODS + ODD_MODS)
        if name == "j":
            s += "|join:" + sep
            if rng.random() < 0.3:
                s += "|" + rng.choice(CLEAN_MODS)
        pat += s + "}"
        used[name] = kind
        if rng.random() < 0.5:
            pat += rng.choice(LITS + ODD_LITS)
    ins, subs, outs, pars, tags = [], [], [], [], []
    for name, kind in sorted(used.items()):
        missing = rng.random() < 0.04
        if kind == "i" and name == "j":
            subs.append((name, [rng.choice(PATHS) for _ in range(rng.randint(0, 4))]))
        elif kind == "i":
            if not missing:
                ins.append((name, rng.choice(PATHS)))
        elif kind in ("o", "os"):
            outs.append((name, rng.choice(PATHS)))
        elif kind == "p":
            if not missing:
                # also values that look like placeholders of the same command (legal; what they expand to is decided by the
                # left-to-right order of the pattern, the same for every task)
                pars.append((name, "" if rng.random() < 0.04 else rng.choice(VALS + ["%", "s/a/b/", "from {i:a}", "{p:q}", "see {o:o1}", "{t:t1}|x"])))
        else:
            if not missing:
                tags.append((name, "" if rng.random() < 0.04 else rng.choice(VALS)))
    line = "%s %s %d%s %s %s %s" % (hx(pat), pl(ins), len(subs), "".join(" %s %d%s" % (hx(n), len(ms), "".join(" " + hx(m) for m in ms)) for n, ms in subs),
                                    pl(outs), pl(pars), pl(tags))
    if rng.random() < 0.1:
        line += " " + hx("prefix cmd")
    elif rng.random() < 0.3:
        line += " - G"          # the process is a Go-function process (CustomExecute set): its command is formed all the same
    return line, pat


def gen_pathfmt(rng):
    cands = [("i", "a"), ("i", "b"), ("p", "p"), ("t", "in.t")]
    pat = ""
    used = set()
    for _ in range(rng.randint(1, 4)):
        if rng.random() < 0.6:
            pat += rng.choice(["out/", ".", "_", "res", "d1/d2/", ".txt"])
        kind, name = rng.choice(cands)
        pat += "{%s:%s%s}" % (kind, name, "".join("|" + rng.choice(CLEAN_MODS + ODD_MODS[:4]) for _ in range(rng.randint(0, 2))))
        used.add((kind, name))
        if rng.random() < 0.6:
            pat += rng.choice([".out", ".txt", "", "_x"])
    cmd = "echo {i:a} {i:b} {p:p} > {o:o1}"
    ins = [("a", rng.choice(PATHS)), ("b", rng.choice(PATHS))]
    pars = [("p", rng.choice(VALS))]
    tags = [("in.t", rng.choice(VALS))] if rng.random() < 0.8 or ("t", "in.t") not in used else []
    return "%s %s %s %s %s %s" % (hx(cmd), hx("o1"), hx(pat), pl(ins), pl(pars), pl(tags))


def gen_defpath(rng):
    name = rng.choice(["proc", "My Proc", "p.1-x", "UPPER", "a b  c"])
    outs = rng.sample(["o1", "res", "z"], rng.randint(1, 2))
    exts = {o: rng.choice(["", "", "txt", "tar.gz", "TXT", "x_y-z", "|basename"]) for o in outs}
    cmd = "echo {i:a} {i:b} {p:p} {p:q}" + "".join(" > {o:%s%s}" % (o, ("|." + e if e and not e.startswith("|") else e)) for o, e in exts.items())
    ins = [(k, rng.choice(PATHS)) for k in rng.sample(["a", "b"], rng.randint(0, 2))]
    pars = [(k, rng.choice(VALS)) for k in rng.sample(["p", "q"], rng.randint(0, 2))]
    tags = [(k, rng.choice(VALS)) for k in rng.sample(["a.t", "b.u"], rng.randint(0, 2))]
    return "%s %s %s %s %s" % (hx(name), hx(cmd), pl(ins), pl(pars), pl(tags))


def same_pattern_case(args):
    """several processes of one workflow with the very same command pattern text, each fed its own parameter values, forming
    their tasks at the same time: every command is expanded from the values of its own task (the output's name says which)"""
    seed, i = args
    from tools import t3
    rng = random.Random(seed * 553105253 + i)
    sp = t3.Spec(maxtasks=8, bufsize=rng.choice([1, 128]))
    K, N = rng.randint(3, 6), rng.randint(20, 50)
    for k in range(K):
        a = ["p%dv%d" % (k, j) for j in range(N)]
        b = ["q%dw%d" % (k, j) for j in range(N)]
        sp.proc(t3.RawProc("same%d" % k, "echo {p:a} {p:b} > {o:out}", ins=[], pars=[("a", ("V", a)), ("b", ("V", b))], outs=[("out", "o%d/{p:a}_{p:b}.txt" % k)]))
    sc = t3.Scratch()
    try:
        sc.plant(sp.files)
        impl = t3.run_impl(sc, sp, timeout=120)
        problems = []
        if impl["rc"] != 0 or not impl["returned"]:
            problems.append("the workflow fails (exit %s): %s" % (impl["rc"], impl["stderr"][-300:]))
        else:
            files = t3.data_files(impl["fs"])
            wrong = []
            for k in range(K):
                for j in range(N):
                    path = "o%d/p%dv%d_q%dw%d.txt" % (k, k, j, k, j)
                    want = "p%dv%d q%dw%d\n" % (k, j, k, j)
                    if files.get(path) != want:
                        wrong.append((path, files.get(path)))
            if wrong:
                problems.append("%d processes with the same command pattern 'echo {p:a} {p:b} > {o:out}': %d of %d commands were not expanded from their own task's values, e.g. %s holds %r" % (K, len(wrong), K * N, wrong[0][0], wrong[0][1]))
        return {"problems": problems, "spec": sp.text(), "bufsize": sp.bufsize, "rc": impl["rc"], "stderr": impl["stderr"][-200:]}
    finally:
        sc.close()


def missing_value_case(args):
    """an empty value arrives on a parameter port that the command's {p:...} placeholder names (between ordinary values, first,
    last or alone): the workflow stops with a failure; no command with an empty placeholder is executed, and the program does
    not report success"""
    seed, i = args
    from tools import t3
    rng = random.Random(seed * 982451653 + i)
    sp = t3.Spec(maxtasks=rng.randint(1, 3), bufsize=rng.choice([1, 128]))
    n = rng.randint(0, 3)
    vals = ["v%d" % j for j in range(n)]
    pos = rng.randint(0, n)
    vals.insert(pos, "")
    sp.proc(t3.RawProc("greet", "echo hello {p:name} > {o:out}", ins=[], pars=[("name", ("V", vals))], outs=[("out", "greet_{p:name}.txt")]))
    sc = t3.Scratch()
    try:
        sc.plant(sp.files)
        impl = t3.run_impl(sc, sp, timeout=60)
        problems = []
        files = t3.data_files(impl["fs"])
        if impl["rc"] == 0:
            problems.append("the parameter port `name` received the values %r: the value at position %d is missing (empty), yet the program exits 0; files made: %s" % (
                vals, pos, sorted(files)[:4]))
        if "greet_.txt" in files or any(v == "hello \n" or v == "hello\n" for v in files.values()):
            problems.append("a command with an empty {p:name} was executed: %s" % sorted(files)[:4])
        return {"problems": problems, "spec": sp.text(), "bufsize": sp.bufsize, "rc": impl["rc"], "stderr": impl["stderr"][-200:]}
    finally:
        sc.close()


def run(rep, tier, seed):
    proved = vlib.prove(rep, MODULE, THEOREMS)
    ok, msg = vlib.build_ocaml()
    if not ok:
        raise RuntimeError("extraction/driver build failed: " + msg[-1500:])
    rng = random.Random(seed)
    n = 1500 if tier == "quick" else 30000
    found = False
    total = 0
    dist = {}
    # (1) structured stream: implementation vs documented semantics (independent oracle) and vs model
    st = [gen_structured(rng) for _ in range(n)]
    lines = [s[0] for s in st]
    diffs, impl, model = vlib.t2_compare("format", lines)
    total += len(lines)
    dist["structured_patterns"] = len(lines)
    if len(impl) == len(lines):
        for (line, pat, expected), got in zip(st, impl):
            g = None if got == "<FAIL>" else unhx(got)
            if g != expected:
                rep.violation("command pattern %r expands to %r, documented expansion is %r" % (pat, g, expected),
                              {"kind": "documented-expansion", "pattern": pat, "input_line": line, "impl": g, "documented": expected, "function": "NewTask -> Task.Command"})
                found = True
                break
            if g is not None and any(("{%s:" % k) in g for k in ("i", "o", "p", "t")) :
                rep.violation("command still contains a placeholder: %r" % g, {"kind": "unreplaced-placeholder", "pattern": pat, "input_line": line, "impl": g})
                found = True
                break
    alld = [("format", lines, diffs)]
    # (1a) T3: the same pattern text in several processes that form tasks concurrently
    if not found:
        from tools import t3 as _t3
        for r in _t3.run_many(same_pattern_case, [(seed, k) for k in range(3 if tier == "quick" else 30)], workers=3):
            total += 1
            if r["problems"]:
                rep.violation(r["problems"][0], {"kind": "command-from-other-task", "spec": r["spec"], "bufsize": r["bufsize"]})
                found = True
                break
        dist["same_pattern_workflows"] = 3 if tier == "quick" else 30
    # (1a') T3: a missing (empty) parameter value stops the workflow
    if not found:
        from tools import t3 as _t3
        nm = 6 if tier == "quick" else 60
        for r in _t3.run_many(missing_value_case, [(seed, k) for k in range(nm)], workers=3):
            total += 1
            if r["problems"]:
                rep.violation(r["problems"][0], {"kind": "missing-value-not-fatal", "spec": r["spec"], "bufsize": r["bufsize"]})
                found = True
                break
        dist["missing_value_workflows"] = nm
    # (1b) joined in-ports: the placeholder expands to the members in the order they arrived, separated by SEP, each
    # resolvable from the temp dir ("../" in front of relative paths)
    if not found:
        jl = []
        for _ in range(n // 5):
            sep = rng.choice([" ", ",", ":", "--", ";"])
            ms = rng.sample(["chunk1.txt", "chunk10.txt", "chunk2.txt", "b.txt", "a.txt", "d/z.txt", "d/a.txt", "/abs/m.txt", "Z.txt", "m_0.txt"], rng.randint(0, 6))
            pat = "cat {i:j|join:%s} > {o:o1}" % sep
            line = "%s %s %d %s %d%s %s %s %s" % (hx(pat), pl([]), 1, hx("j"), len(ms), "".join(" " + hx(m) for m in ms), pl([("o1", "out.txt")]), pl([]), pl([]))
            exp = "cat " + sep.join(m if m.startswith("/") else "../" + m for m in ms) + " > out.txt"
            jl.append((line, pat, ms, exp))
        dj, implj, modelj = vlib.t2_compare("format", [x[0] for x in jl])
        alld.append(("format", [x[0] for x in jl], dj))
        total += len(jl)
        dist["joined_patterns"] = len(jl)
        if len(implj) == len(jl):
            for (line, pat, ms, exp), got in zip(jl, implj):
                g = None if got == "<FAIL>" else unhx(got)
                if g != exp:
                    rep.violation("joined placeholder %r with members %s (in arrival order) expands to %r, documented expansion is %r" % (pat, ms, g, exp),
                                  {"kind": "documented-expansion-join", "pattern": pat, "members": ms, "input_line": line, "impl": g, "documented": exp})
                    found = True
                    break
    # (2) free stream incl. malformed patterns and missing values: model vs implementation
    fr = [gen_free(rng) for _ in range(n)]
    lines2 = [f[0] for f in fr]
    d2, impl2, model2 = vlib.t2_compare("format", lines2)
    alld.append(("format", lines2, d2))
    total += len(lines2)
    dist["free_patterns"] = len(lines2)
    dist["free_patterns_failing_in_both"] = sum(1 for a, b in zip(impl2, model2) if a == b == "<FAIL>")
    # missing / empty values must stop the workflow, never give a command
    for sub, gen, m in (("pathfmt", gen_pathfmt, n // 2), ("defpath", gen_defpath, n // 2)):
        ls = [gen(rng) for _ in range(m)]
        d, implx, _ = vlib.t2_compare(sub, ls)
        if sub == "defpath" and len(implx) == len(ls) and not found:
            # the documented ingredients of the default name, checked on the implementation's own answer: the base name of
            # every input, every parameter and tag as key_value with the value as given, the port name
            for line, ans in zip(ls, implx):
                t = line.split()
                def pairs(i):
                    k = int(t[i]); return [(unhx(t[i + 1 + 2 * j]), unhx(t[i + 2 + 2 * j])) for j in range(k)], i + 1 + 2 * k
                ins_, i2 = pairs(2); pars_, i3 = pairs(i2); tags_, _ = pairs(i3)
                a = ans.split()
                if not a or a[0].startswith("<"):
                    continue
                outs_ = [(unhx(a[1 + 2 * j]), unhx(a[2 + 2 * j])) for j in range(int(a[0]))]
                for port, path in outs_:
                    missing = [("input base name", v.rstrip("/").rsplit("/", 1)[-1]) for k_, v in ins_ if v.rstrip("/").rsplit("/", 1)[-1] not in path]
                    missing += [("parameter", k_ + "_" + v) for k_, v in pars_ if (k_ + "_" + v) not in path]
                    missing += [("tag", k_ + "_" + v) for k_, v in tags_ if (k_ + "_" + v) not in path]
                    missing += [("port name", port)] if port not in path else []
                    if missing:
                        rep.violation("the default output name %r of port %r lacks %s %r (inputs %s, parameters %s, tags %s)" % (path, port, missing[0][0], missing[0][1], ins_, pars_, tags_),
                                      {"kind": "default-name-ingredient-missing", "input_line": line, "impl": path, "missing": missing})
                        found = True
                        break
                if found:
                    break
        alld.append((sub, ls, d))
        total += len(ls)
        dist[sub] = len(ls)
    ls = ["%s %d%s" % (hx(rng.choice(PATHS + VALS)), k, "".join(" " + hx(rng.choice(CLEAN_MODS + ODD_MODS)) for _ in range(k))) for k in [rng.randint(0, 4) for _ in range(n)]]
    d, _, _ = vlib.t2_compare("mods", ls)
    alld.append(("mods", ls, d))
    total += len(ls)
    ls = [hx(gen_free(rng)[1]) for _ in range(n // 2)]
    d, _, _ = vlib.t2_compare("ports", ls)
    alld.append(("ports", ls, d))
    total += len(ls)
    ndis = 0
    for sub, ls, d in alld:
        for i, a, b in d[:3]:
            rep.notes.setdefault("disagreements", []).append({"sub": sub, "input_line": ls[i] if i >= 0 else None, "impl": a, "model": b,
                                                              "impl_text": unhx(a) if i >= 0 and not a.startswith("<") and " " not in a else a,
                                                              "model_text": unhx(b) if i >= 0 and not b.startswith("<") and " " not in b else b})
        ndis += len(d)
    if ndis and not found:
        # the property says "a deterministic function": a disagreeing input that does not always get the same answer is a failing input
        for sub, ls, d in alld:
            nd = vlib.nondeterministic(sub, [ls[i] for i, _, _ in d[:6] if i >= 0])
            if nd:
                rep.violation("%s is not a function of its inputs: the same input gives %s" % (sub, [unhx(a) if " " not in a and not a.startswith("<") else a for a in nd[1]][:3]),
                              {"kind": "nondeterministic", "sub": sub, "input_line": nd[0], "answers": nd[1]})
                found = True
                break
    if ndis and not found:
        # a disagreement where the model says Fail but the implementation produced a command is a failing input of the property itself
        for sub, ls, d in alld:
            for i, a, b in d:
                if i >= 0 and b == "<FAIL>" and a != "<FAIL>":
                    rep.violation("a missing or empty value does not stop the workflow: %s gives %r" % (sub, unhx(a) if " " not in a else a),
                                  {"kind": "missing-value-not-fatal", "sub": sub, "input_line": ls[i], "impl": a})
                    found = True
                    break
            if found:
                break
    if (ndis or not proved) and not found:
        what = []
        if not proved:
            what.append("proof obligations of %s no longer check: %s" % (MODULE, rep.notes.get("broken_obligations") or rep.notes.get("open_assumptions")))
        if ndis:
            what.append("model and implementation disagree on %d of %d inputs (outside the documented grammar, or not decided by the documented-semantics oracle)" % (ndis, total))
        rep.violation("; ".join(what), {"kind": "correspondence", "theorem_or_correspondence": "PropC15 / T2 format, pathfmt, defpath, mods, ports",
                                        "disagreements": rep.notes.get("disagreements", [])[:6]}, nofail=True)
    rep.cov["evaluations"] = total
    rep.cov["distinct_nontrivial"] = len({l for _, ls, _ in alld for l in ls})
    rep.cov["rule"] = "hex-token input lines evaluated by the real library (NewProc/NewTask/Task.Command, SetOut path functions, default path function, applyPathModifiers, port discovery) and by the extracted Coq model; structured stream additionally checked against an independent oracle of the documented modifier semantics; distinct = distinct input lines, all non-trivial (every line has at least one placeholder or modifier)"
    rep.cov["samples"] = [unhx(lines[0].split()[0]), unhx(lines2[0].split()[0]), unhx(lines2[1].split()[0])]
    rep.notes["input_distribution"] = dist
    rep.assump += ["values are over the path alphabet plus '%' and '/' for parameters; patterns are ASCII"]


def replay(r):
    from tools import t3 as _t3
    return _t3.replay_generic(r)
