# C19 -- bundled components compute what they advertise.
import itertools, os, random
from tools import vlib, t3
from tools.vlib import hx, unhx

MODULE = "PropC19"
THEOREMS = ["C19_product", "C19_product_lengths", "C19_product_is_cartesian", "C19_product_size", "C19_product_exactly_once", "C19_concat_unfold", "C19_selector", "C19_selector_order", "C19_split_bytes", "C19_split_bound", "C19_split_example", "C19_concat", "C19_cone_conforms", "C19_reader_emits_the_lines", "C19_reader_unterminated_last_line", "C19_reader_of_nothing_emits_nothing", "C19_reader_keeps_blank_lines"]


def rec_lines(sc, name):
    p = os.path.join(sc.work, "REC." + name)
    if not os.path.exists(p):
        return None
    out = []
    for l in open(p).read().splitlines():
        t = l.split()
        if t and t[0] in ("IP", "PARAM"):
            out.append(unhx(t[1]))
    return out


def model_eval(sub, line):
    out, r = vlib.run_lines("driver", sub, [line])
    return out[0] if out else "<no answer>"


def parse_cols(ans):
    t = ans.split()
    i = 0
    cols = []
    while i < len(t):
        key = unhx(t[i]); n = int(t[i + 1]); vals = [unhx(x) for x in t[i + 2:i + 2 + n]]
        cols.append((key, vals)); i += 2 + n
    return cols


def comb_case(args):
    seed, i = args
    rng = random.Random(seed * 256203161 + i)
    files = (i % 2 == 0)
    buf = rng.choice([1, 2, 3])
    sp = t3.Spec(maxtasks=2, bufsize=buf)
    nports = rng.randint(1, 4)
    ports = ["k%d" % j for j in range(nports)]
    streams = {}
    srcs = {}
    for pt in ports:
        L = rng.choice([0, 1, 2, buf, buf + 1, buf + 2]) if nports <= 3 else rng.choice([0, 1, 2])
        if files:
            vals = ["%s_%d.txt" % (pt, j) for j in range(L)]
            for v in vals:
                sp.files[v] = v + "\n"
            srcs[pt] = sp.src("src_" + pt, vals)
        else:
            vals = ["%s%d" % (pt, j) for j in range(L)]
            srcs[pt] = sp.psrc("psrc_" + pt, vals)
        streams[pt] = vals
    line = "COMP %s %s %d" % ("fcomb" if files else "pcomb", hx("comb"), nports) + "".join(" %s %d %s" % (hx(pt), srcs[pt], hx("out")) for pt in ports)
    c = sp.raw(line)
    for pt in ports:
        sp.raw("%s %s %d %s" % ("REC" if files else "PREC", hx("rec_" + pt), c, hx(pt)))
    sc = t3.Scratch()
    try:
        sc.plant(sp.files)
        impl = t3.run_impl(sc, sp, timeout=60)
        problems = []
        if impl["timed_out"] or impl["rc"] != 0:
            problems.append(("component-fails", "combinator run: timed_out=%s rc=%s %s" % (impl["timed_out"], impl["rc"], impl["stderr"][-200:])))
        else:
            got = {pt: rec_lines(sc, "rec_" + pt) for pt in ports}
            # property statement: aligned tuples are a permutation of the Cartesian product, each exactly once
            n = len(got[ports[0]] or [])
            if any(len(got[pt] or []) != n for pt in ports):
                problems.append(("combinator-misaligned", "out-streams have different lengths: %s" % {pt: len(got[pt] or []) for pt in ports}))
            else:
                tuples = sorted(tuple(got[pt][k] for pt in ports) for k in range(n))
                want = sorted(itertools.product(*[streams[pt] for pt in ports]))
                if tuples != want:
                    problems.append(("combinator-not-product", "aligned tuples %s are not the Cartesian product %s" % (tuples[:4], want[:4])))
            # correspondence: equal to the model's enumeration for some order of the keys
            okperm = False
            for perm in itertools.permutations(ports):
                ans = model_eval("combine", "%d" % nports + "".join(" %s %d%s" % (hx(pt), len(streams[pt]), "".join(" " + hx(v) for v in streams[pt])) for pt in perm))
                cols = dict(parse_cols(ans))
                if all((got[pt] or []) == cols.get(pt, []) for pt in ports):
                    okperm = True
                    break
            if not okperm and not problems:
                problems.append(("combinator-order", "the emitted enumeration matches the model for no order of the keys: %s" % got))
        return {"spec": sp.text(), "bufsize": buf, "problems": problems, "ntasks": nports, "rc": impl["rc"], "stderr": impl["stderr"][-200:], "yield": None, "wall": impl["wall"],
                "kind": "fcomb" if files else "pcomb", "nontrivial": sum(1 for pt in ports if streams[pt]) >= 2}
    finally:
        sc.close()


def select_case(args):
    seed, i = args
    rng = random.Random(seed * 275604541 + i)
    buf = rng.choice([1, 2, 128])
    sp = t3.Spec(maxtasks=2, bufsize=buf)
    nports = rng.randint(1, 3)
    L = rng.randint(0, 4)
    ports = ["p%d" % j for j in range(nports)]
    cols, srcs = {}, {}
    for pt in ports:
        vals = ["%s_%d%s.txt" % (pt, j, rng.choice(["", "", "BAD"])) for j in range(L)]
        for v in vals:
            sp.files[v] = v + "\n"
        cols[pt] = vals
        srcs[pt] = sp.src("src_" + pt, vals)
    c = sp.raw("COMP select %s %s %d" % (hx("sel"), hx("BAD"), nports) + "".join(" %s %d %s" % (hx(pt), srcs[pt], hx("out")) for pt in ports))
    for pt in ports:
        sp.raw("REC %s %d %s" % (hx("rec_" + pt), c, hx(pt)))
    sc = t3.Scratch()
    try:
        sc.plant(sp.files)
        impl = t3.run_impl(sc, sp, timeout=60)
        problems = []
        if impl["timed_out"] or impl["rc"] != 0:
            problems.append(("component-fails", "selector run: rc=%s %s" % (impl["rc"], impl["stderr"][-200:])))
        else:
            rows = [[cols[pt][k] for pt in ports] for k in range(L)]
            ans = model_eval("select", "%s %d" % (hx("BAD"), L) + "".join(" %d%s" % (nports, "".join(" " + hx(x) for x in r)) for r in rows))
            t = ans.split(); n = int(t[0]); pos = 1; mrows = []
            for _ in range(n):
                m = int(t[pos]); mrows.append([unhx(x) for x in t[pos + 1:pos + 1 + m]]); pos += 1 + m
            for j, pt in enumerate(ports):
                got = rec_lines(sc, "rec_" + pt) or []
                want = [r[j] for r in mrows]
                if got != want:
                    problems.append(("selector", "port %s forwarded %s, expected %s" % (pt, got, want)))
        return {"spec": sp.text(), "bufsize": buf, "problems": problems, "ntasks": L, "rc": impl["rc"], "stderr": impl["stderr"][-200:], "yield": None, "wall": impl["wall"], "kind": "select", "nontrivial": L >= 2}
    finally:
        sc.close()


def split_case(args):
    seed, i = args
    rng = random.Random(seed * 295075153 + i)
    n = rng.randint(1, 4)
    nlines = rng.choice([0, 1, n - 1 if n > 1 else 1, n, n + 1, 2 * n, 2 * n + 1, 3 * n])
    lines = ["line %d of the file" % j if rng.random() < 0.8 else "" for j in range(nlines)]
    if lines and i % 5 == 4:
        # lines longer than common reader buffers (4 KiB, 64 KiB is bufio.Scanner's own limit: stay below it)
        k = rng.randrange(len(lines))
        lines[k] = "".join("%07d." % (j * 8) for j in range(rng.choice([513, 700, 1250])))
    eol = rng.choice(["\n", "\n", "\r\n"])
    content = eol.join(lines) + (eol if (lines and rng.random() < 0.7) else "")
    sp = t3.Spec(maxtasks=2, bufsize=rng.choice([1, 128]))
    path = rng.choice(["big.txt", "dir/big.txt"])
    sp.files[path] = content
    s = sp.src("src", [path])
    c = sp.raw("COMP split %s %d %d %s" % (hx("splitter"), n, s, hx("out")))
    sp.raw("REC %s %d %s" % (hx("rec"), c, hx("split_file")))
    sc = t3.Scratch()
    try:
        sc.plant(sp.files)
        impl = t3.run_impl(sc, sp, timeout=60)
        problems = []
        if impl["timed_out"] or impl["rc"] != 0:
            problems.append(("component-fails", "splitter run: rc=%s %s" % (impl["rc"], impl["stderr"][-200:])))
        else:
            ans = model_eval("split", "%d %s" % (n, hx(content))).split()
            mparts = [unhx(x) for x in ans[1:]]
            got_paths = rec_lines(sc, "rec") or []
            want_paths = ["%s.split_%d" % (path, k + 1) for k in range(len(mparts))]
            if got_paths != want_paths:
                problems.append(("splitter-parts", "emitted parts %s, expected %s" % (got_paths, want_paths)))
            parts = [impl["fs"].get(p, (None, None))[1] for p in got_paths]
            if None in parts:
                problems.append(("splitter-missing-part", "an emitted part does not exist: %s" % got_paths))
            else:
                if parts != mparts:
                    problems.append(("splitter-bytes", "parts %s differ from the model's %s" % ([p[:30] for p in parts], [p[:30] for p in mparts])))
                # property statement, independently of the model: concatenation = normalised input, each part <= n lines
                norm = "".join(l + "\n" for l in content.replace("\r\n", "\n").split("\n")[:-1] + ([content.replace("\r\n", "\n").split("\n")[-1]] if not content.endswith("\n") and content else []))
                if "".join(parts) != norm:
                    problems.append(("splitter-not-conserving", "the parts do not concatenate back to the input: %r vs %r" % ("".join(parts)[:80], norm[:80])))
                if any(p.count("\n") > n for p in parts):
                    problems.append(("splitter-part-too-long", "a part has more than %d lines" % n))
            lo = t3.leftovers(impl["fs"])
            if lo:
                problems.append(("leftovers", str(lo[:3])))
        return {"spec": sp.text(), "bufsize": sp.bufsize, "problems": problems, "ntasks": nlines, "rc": impl["rc"], "stderr": impl["stderr"][-200:], "yield": None, "wall": impl["wall"], "kind": "split", "nontrivial": nlines >= 2}
    finally:
        sc.close()


def misc_case(args):
    """Concatenator, FileGlobber, FileToParamsReader, CommandToParams, sources"""
    seed, i = args
    rng = random.Random(seed * 314606869 + i)
    sp = t3.Spec(maxtasks=2, bufsize=rng.choice([1, 2, 128]))
    L = rng.randint(0, 5)
    paths = ["c%d.txt" % j for j in range(L)]
    for p in paths:
        sp.files[p] = "content %s" % p + ("\n" if rng.random() < 0.5 else "")
    s = sp.src("src", paths)
    cc = sp.raw("COMP concat %s %s %d %s" % (hx("concat"), hx(rng.choice(["all.txt", "o/all.txt"])), s, hx("out")))
    outp = unhx(sp.nodes[cc][1].split()[3])
    sp.raw("REC %s %d %s" % (hx("rec_concat"), cc, hx("out")))
    # globber
    for j in range(rng.randint(0, 4)):
        sp.files["g/%s%d.dat" % (rng.choice("ab"), j)] = "g\n"
    pats = rng.sample(["g/a*.dat", "g/b*.dat", "g/*.dat", "nomatch/*.x"], rng.randint(1, 3))
    g = sp.raw("COMP glob %s %d" % (hx("glob"), len(pats)) + "".join(" " + hx(p) for p in pats))
    sp.raw("REC %s %d %s" % (hx("rec_glob"), g, hx("out")))
    # file to params, command to params
    def text():
        # lines with blank lines, CRLF ends, a missing final newline; the empty text
        ls = [rng.choice(["p%d" % j, "p%d" % j, "", "two words", "x\r"]) for j in range(rng.choice([0, 0, 1, 2, 3, 5]))]
        t = "".join(l + "\n" for l in ls)
        return t[:-1] if t and rng.random() < 0.3 else t
    ptext = text()
    if i % 4 == 3:
        ptext = "short\n" + "".join("%07d." % (j * 8) for j in range(rng.choice([513, 2000]))) + "\nlast\n"
    plines = ptext.splitlines()
    sp.files["params.txt"] = ptext
    f = sp.raw("COMP f2p %s %s" % (hx("f2p"), hx("params.txt")))
    sp.raw("PREC %s %d %s" % (hx("rec_f2p"), f, hx("line")))
    ctext = text()
    sp.files["cmdout.txt"] = ctext
    cp = sp.raw("COMP c2p %s %s" % (hx("c2p"), hx("cat cmdout.txt")))
    sp.raw("PREC %s %d %s" % (hx("rec_c2p"), cp, hx("param")))
    ps = sp.psrc("psrc", ["v%d" % j for j in range(L)])
    sp.raw("PREC %s %d %s" % (hx("rec_psrc"), ps, hx("out")))
    sp.raw("REC %s %d %s" % (hx("rec_src"), s, hx("out")))
    sc = t3.Scratch()
    try:
        sc.plant(sp.files)
        impl = t3.run_impl(sc, sp, timeout=60)
        problems = []
        if impl["timed_out"] or impl["rc"] != 0:
            problems.append(("component-fails", "run: rc=%s %s" % (impl["rc"], impl["stderr"][-300:])))
        else:
            want = unhx(model_eval("concat", "%d%s" % (L, "".join(" " + hx(sp.files[p]) for p in paths))))
            got = impl["fs"].get(outp, (None, None))[1]
            if got != want:
                problems.append(("concatenator", "output %r, expected every input's content once, in arrival order, each followed by a newline: %r" % (got, want)))
            if rec_lines(sc, "rec_concat") != [outp]:
                problems.append(("concatenator-emits", "emitted %s" % rec_lines(sc, "rec_concat")))
            import glob as G
            wantg = [x for p in pats for x in sorted(G.glob(os.path.join(sc.work, p)))]
            wantg = [os.path.relpath(x, sc.work) for x in wantg]
            if rec_lines(sc, "rec_glob") != wantg:
                problems.append(("globber", "emitted %s, matching files are %s" % (rec_lines(sc, "rec_glob"), wantg)))
            ml = model_eval("lines", hx(sp.files["params.txt"])).split()
            if rec_lines(sc, "rec_f2p") != [unhx(x) for x in ml[1:]]:
                problems.append(("file-to-params", "emitted %s, lines are %s" % (rec_lines(sc, "rec_f2p"), plines)))
            cl = model_eval("lines", hx(ctext)).split()
            if rec_lines(sc, "rec_c2p") != [unhx(x) for x in cl[1:]]:
                problems.append(("command-to-params", "emitted %s, the command printed %r" % (rec_lines(sc, "rec_c2p"), ctext)))
            if rec_lines(sc, "rec_psrc") != ["v%d" % j for j in range(L)] or rec_lines(sc, "rec_src") != paths:
                problems.append(("sources", "sources emitted %s / %s" % (rec_lines(sc, "rec_psrc"), rec_lines(sc, "rec_src"))))
        if not problems and L >= 1:
            # life cycle: the inputs are replaced by shorter (or longer) ones and the workflow is run again in the same
            # directory: the concatenation is that of the new inputs, nothing of the old output survives
            for j, p in enumerate(paths):
                sp.files[p] = rng.choice(["s%d\n" % j, "s%d" % j, "a much longer replacement for input number %d\n" % j])
            sc.plant({p: sp.files[p] for p in paths})
            impl2 = t3.run_impl(sc, sp, timeout=60)
            want2 = unhx(model_eval("concat", "%d%s" % (L, "".join(" " + hx(sp.files[p]) for p in paths))))
            got2 = impl2["fs"].get(outp, (None, None))[1]
            if impl2["rc"] != 0:
                problems.append(("component-fails", "second run with replaced inputs: rc=%s %s" % (impl2["rc"], impl2["stderr"][-200:])))
            elif got2 != want2:
                problems.append(("concatenator-rerun", "inputs replaced, workflow run again in place: output %r, the concatenation of the inputs is %r" % (got2, want2)))
        return {"spec": sp.text(), "bufsize": sp.bufsize, "problems": problems, "ntasks": L, "rc": impl["rc"], "stderr": impl["stderr"][-200:], "yield": None, "wall": impl["wall"], "kind": "misc", "nontrivial": L >= 1}
    finally:
        sc.close()


def run(rep, tier, seed):
    proved = vlib.prove(rep, MODULE, THEOREMS)
    ok, msg = vlib.build_ocaml()
    if not ok:
        raise RuntimeError("extraction/driver build failed: " + msg[-1500:])
    rng = random.Random(seed)
    n = 40 if tier == "quick" else 600
    results = t3.run_many(comb_case, [(seed, i) for i in range(n)])
    results += t3.run_many(select_case, [(seed, i) for i in range(n // 2)])
    results += t3.run_many(split_case, [(seed, i) for i in range(n)])
    results += t3.run_many(misc_case, [(seed, i) for i in range(n // 2)])
    found = t3.report_t3(rep, MODULE, proved, results, "T3 components with recorders / T2 combine")
    # T2: combine itself (exported under the verif tag), key order given
    lines = []
    for _ in range(400 if tier == "quick" else 8000):
        nk = rng.randint(0, 4)
        lines.append("%d" % nk + "".join(" %s %d%s" % (hx("k%d" % j), L, "".join(" " + hx("k%d_%d" % (j, x)) for x in range(L))) for j in range(nk) for L in [rng.randint(0, 3)]))
    d1, _, _ = vlib.t2_compare("combine", lines)
    d2, _, _ = vlib.t2_compare("combinefiles", [l for l in lines if l != "0"][:200])
    if (d1 or d2) and not found:
        i, a, b = (d1 or d2)[0]
        rep.violation("combine differs from the model: impl %s model %s" % (a, b), {"kind": "combine", "input_line": lines[i] if i >= 0 else None, "impl": a, "model": b})
    rep.cov["evaluations"] = len(results) + len(lines) + 200
    rep.cov["distinct_nontrivial"] = len({r["spec"] for r in results if r["nontrivial"]})
    rep.cov["rule"] = "T3 with recorder components downstream of every out-port: File/ParamCombinator with 1-4 ports fed by independent sources of length 0..buffer+2 (aligned tuples = Cartesian product, each once; enumeration = the model's for some key order); IPSelectorSync with 1-3 ports and every pattern of failing members; FileSplitter on files of 0..3n lines (exact multiples, unterminated last line, CRLF, empty lines) for n in 1..4 (part names, bytes = model, concatenation = normalised input, <= n lines each); Concatenator (also run a second time in place after its inputs were replaced by shorter or longer ones), FileGlobber on a generated tree, FileToParamsReader, CommandToParams, File/ParamSource; T2: combine with the key order given, vs the extracted model; non-trivial = at least two non-empty streams / two rows / two lines"
    rep.cov["samples"] = [results[0]["spec"]]
    kinds = {}
    for r in results:
        kinds[r["kind"]] = kinds.get(r["kind"], 0) + 1
    rep.notes["input_distribution"] = {"by_kind": kinds, "t2_combine_lines": len(lines)}
    rep.assump += ["combinator ports are fed by independent upstreams (the component drains its ports one after the other)", "filepath.Glob and bash are trusted"]


def replay(r):
    return t3.replay_generic(r)
