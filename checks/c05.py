# C05 -- Run returns exactly when all work is done: no deadlock, no early return.
import random
from tools import vlib, t3
from tools import ks

MODULE = "PropC05"
THEOREMS = ["C05_code_conforms", "C05_no_deadlock", "C05_terminates", "C05_not_early", "C05_all_done_at_return", "C05_param_feeder_may_lag", "C05_no_leftovers", "C05_nonvacuous", "C05_with_slots_no_deadlock", "C05_with_slots_terminates", "C05_with_slots_all_done", "C05_with_slots_maximal", "C05_with_slots_nonvacuous", "C05_fanin_no_deadlock", "C05_fanin_terminates", "C05_fanin_maximal", "C05_fanin_small_buffer_refuted", "C05_fanin_nonvacuous", "C05_stream_only_progress", "C05_stream_reg_step_decreases", "C05_stream_only_nonvacuous", "C05_stream_and_regular_refuted", "C05_cone_conforms"]


def shapes(rng, i):
    kind = i % 6
    buf = rng.choice([1, 2, 3])
    sp = t3.Spec(maxtasks=rng.randint(1, 4), bufsize=buf)
    L = buf + rng.randint(0, 3)
    paths = ["s%d.txt" % j for j in range(L)]
    for p in paths:
        sp.files[p] = p + "\n"
    s = sp.src("src", paths)
    slow = "sleep 0.%d" % rng.randint(1, 3)
    if kind == 0:      # several independent leaf branches, one of them slow
        for b in range(rng.randint(2, 4)):
            sp.proc(t3.Proc("leaf%d" % b, kind="cattok", ins=[("a", [(s, "out")])], outs=[("o", "{i:a}.leaf%d" % b)], sleep=slow if b == 0 else None))
    elif kind == 1:    # a process without out-ports (it becomes the driver) beside a slow ordinary leaf
        sp.proc(t3.Proc("noout", kind="cat", ins=[("a", [(s, "out")])], outs=[]))
        sp.proc(t3.Proc("slowleaf", kind="cattok", ins=[("a", [(s, "out")])], outs=[("o", "{i:a}.slow")], sleep=slow))
    elif kind == 2:    # a single process without any port
        sp = t3.Spec(maxtasks=rng.randint(1, 4), bufsize=buf)
        sp.proc(t3.Proc("only", kind="write", outs=[], extra=["only.txt"]))
    elif kind == 3:    # more tasks per process than buffer slots, in a chain, with a slow last stage
        up = (s, "out")
        for d in range(rng.randint(2, 4)):
            up = (sp.proc(t3.Proc("st%d" % d, kind="cattok", ins=[("a", [up])], outs=[("o", "{i:a}.st%d" % d)], sleep=slow if d else None)), "o")
    elif kind == 4:    # diamond with capacity 1: fork feeding two ports of one join
        a = sp.proc(t3.Proc("l", kind="cattok", ins=[("a", [(s, "out")])], outs=[("o", "{i:a}.l")]))
        b = sp.proc(t3.Proc("r", kind="cattok", ins=[("a", [(s, "out")])], outs=[("o", "{i:a}.r")], sleep=slow))
        sp.proc(t3.Proc("j", kind="cat", ins=[("x", [(a, "o")]), ("y", [(b, "o")])], outs=[("o", "{i:x}.j")]))
    else:              # a leaf without out-ports downstream of a chain, plus a parameter-only process
        a = sp.proc(t3.Proc("mid", kind="cattok", ins=[("a", [(s, "out")])], outs=[("o", "{i:a}.mid")]))
        sp.proc(t3.Proc("end", kind="cat", ins=[("a", [(a, "o")])], outs=[], extra=[], sleep=slow))
        sp.proc(t3.Proc("ponly", kind="write", pars=[("q", ("V", ["x%d" % j for j in range(L)]))], outs=[("o", "ponly.{p:q}.txt")]))
    return sp


def at_return(sp, model, impl, sc):
    """everything is finished when Run returns: the program's own snapshot right after Run has all files and no temp dir / FIFO,
    and every started command has ended"""
    problems = []
    if not impl["returned"]:
        return problems
    snap = impl["snap_at_return"]
    for p in model["files"]:
        if p not in sp.files and snap.get(p) != "f":
            problems.append(("early-return", "output %r is not there at the moment Run returns" % p))
            break
    lo = [p for p, k in snap.items() if p.split("/")[-1].startswith("_scipipe_tmp") or k == "p"]
    if lo:
        problems.append(("leftover-at-return", "temp dir or FIFO present when Run returns: %s" % lo[:3]))
    nS = sum(1 for s_, k, t in impl["trace"] if s_ == "S")
    nE = sum(1 for s_, k, t in impl["trace"] if s_ == "E")
    if nS != nE:
        problems.append(("early-return", "%d commands started but only %d ended" % (nS, nE)))
    return problems


def streaming_rerun_case(args):
    """a workflow with a streamed edge: Run returns, leaves no FIFO or temp dir -- and does so again when the completed
    workflow is run a second time (the producer runs again, its skipped consumer has to drain the pipe)"""
    seed, i = args
    rng = random.Random(seed * 7927 + i)
    n = rng.randint(1, 2)
    sp = t3.Spec(maxtasks=2 * n + rng.randint(0, 1), bufsize=rng.choice([1, 128]))
    paths = ["f%d.dat" % j for j in range(n)]
    for p in paths:
        sp.files[p] = ("payload %s\n" % p) * rng.choice([1, 50, 5000])
    s = sp.src("src", paths)
    pr = sp.proc(t3.Proc("prod", kind="cat", ins=[("a", [(s, "out")])], outs=[("o", "{i:a}.stream")], stream_outs=["o"], sleep=rng.choice([None, "sleep 0.05"])))
    sp.proc(t3.Proc("cons", kind="cat", ins=[("a", [(pr, "o")])], outs=[("o", "{i:a}.cons")]))
    model = t3.run_model(sp.text())
    sc = t3.Scratch()
    try:
        sc.plant(sp.files)
        impl = t3.run_impl(sc, sp, timeout=60)
        problems = t3.compare_success(sp, model, impl) + at_return(sp, model, impl, sc)
        if not problems:
            for k in range(2):
                again = t3.run_impl(sc, sp, timeout=30, yield_seed=(rng.randint(1, 10**6), 300) if k else None)
                if again["timed_out"] or "all goroutines are asleep" in again["stderr"]:
                    problems.append(("deadlock-or-hang", "running the completed streaming workflow again never returns"))
                    break
                if again["rc"] != 0:
                    problems.append(("unexpected-failure", "second run: exit %s %s" % (again["rc"], again["stderr"][-200:])))
                    break
                lo = t3.leftovers(again["fs"])
                if lo:
                    problems.append(("leftover-at-return", "temp dir or FIFO left by the second run: %s" % lo[:3]))
        return {"spec": sp.text(with_files=False), "bufsize": sp.bufsize, "problems": problems, "ntasks": 2 * n, "nskip": 0, "rc": impl["rc"], "stderr": impl["stderr"][-300:],
                "yield": None, "wall": impl["wall"]}
    finally:
        sc.close()


def component_case(args):
    """workflows with the bundled components that keep files or temp dirs of their own (FileSplitter, Concatenator, the
    combinator): Run returns, and nothing temporary is left when it does"""
    seed, i = args
    rng = random.Random(seed * 7933 + i)
    from tools.vlib import hx
    sp = t3.Spec(maxtasks=rng.randint(1, 3), bufsize=rng.choice([1, 2, 128]))
    kind = i % 3
    if kind == 0:
        n = rng.randint(1, 3)
        nlines = rng.choice([0, 1, n, 2 * n, 2 * n + 1, 3 * n])       # exact multiples of the line limit included
        path = rng.choice(["big.txt", "dir/big.txt"])
        sp.files[path] = "".join("line %d\n" % j for j in range(nlines))
        s = sp.src("src", [path])
        c = sp.raw("COMP split %s %d %d %s" % (hx("splitter"), n, s, hx("out")))
        sp.proc(t3.Proc("after", kind="cat", ins=[("a", [(c, "split_file")])], outs=[("o", "{i:a}.after")]))
    elif kind == 1:
        L = rng.randint(0, 4)
        paths = ["c%d.txt" % j for j in range(L)]
        for p in paths:
            sp.files[p] = p + "\n"
        s = sp.src("src", paths)
        a = sp.proc(t3.Proc("pre", kind="cattok", ins=[("a", [(s, "out")])], outs=[("o", "{i:a}.pre")]))
        sp.raw("COMP concat %s %s %d %s %s" % (hx("cc"), hx("all.txt"), a, hx("o"), hx("")))
    else:
        srcs = []
        for k in range(2):
            L = rng.randint(0, 3)
            paths = ["k%d_%d.txt" % (k, j) for j in range(L)]
            for p in paths:
                sp.files[p] = p + "\n"
            srcs.append(sp.src("src%d" % k, paths))
        sp.raw("COMP fcomb %s 2 %s %d %s %s %d %s" % (hx("comb"), hx("k0"), srcs[0], hx("out"), hx("k1"), srcs[1], hx("out")))
    sc = t3.Scratch()
    try:
        sc.plant(sp.files)
        impl = t3.run_impl(sc, sp, timeout=60)
        problems = []
        if impl["timed_out"] or "all goroutines are asleep" in impl["stderr"]:
            problems.append(("deadlock-or-hang", "a workflow with a bundled component does not terminate"))
        elif impl["rc"] != 0 or not impl["returned"]:
            problems.append(("unexpected-failure", "exit %s: %s" % (impl["rc"], impl["stderr"][-200:])))
        else:
            lo = [p for p, k in impl["snap_at_return"].items() if p.split("/")[-1].startswith("_scipipe_tmp") or k == "p"]
            lo += t3.leftovers(impl["fs"])
            if lo:
                problems.append(("leftover-at-return", "temp dir or FIFO present when Run returns: %s" % sorted(set(lo))[:3]))
        return {"spec": sp.text(), "bufsize": sp.bufsize, "problems": problems, "ntasks": 1, "nskip": 0, "rc": impl["rc"], "stderr": impl["stderr"][-300:],
                "yield": None, "wall": impl["wall"]}
    finally:
        sc.close()


def case(args):
    seed, i = args
    rng = random.Random(seed * 7919 + i)
    sp = shapes(rng, i // 2) if i % 2 == 0 else t3.gen_workflow(rng, maxlen=rng.choice([4, 6]), bufsize=rng.choice([1, 2]))
    # slot configurations: tasks of different processes ask for different numbers of cores (<= max)
    if rng.random() < 0.5:
        for p in sp.procs():
            p.cores = rng.randint(1, sp.max)
    ys = (rng.randint(1, 10**6), rng.choice([100, 1000])) if rng.random() < 0.6 else None
    return t3.success_case(sp, yield_seed=ys, extra_check=at_return, timeout=90, replays=("net", "port"))


def dangling_stream(args):
    return t3.dangling_stream_case(args[0], args[1], "dangling-stream")


def fanin_ports_case(args):
    """fan-in on every in-port of a process: several upstream processes (their out-ports declared in different orders) each
    feed all three in-ports of one consumer.  With a large buffer the run completes; with SCIPIPE_BUFSIZE=1 it can deadlock
    (finding D21, recorded): the case reports which of the two it saw"""
    seed, i, buf = args
    rng = random.Random(seed * 7949 + i)
    sp = t3.Spec(maxtasks=4, bufsize=buf)
    nup, n_in = rng.randint(2, 3), rng.randint(4, 6)
    ups = []
    for u in range(nup):
        ps = ["u%d_%d.txt" % (u, j) for j in range(n_in)]
        for p in ps:
            sp.files[p] = p + "\n"
        s = sp.src("src%d" % u, ps)
        order = [("o1", "1"), ("o2", "2"), ("o3", "3")]
        order = order[u % 3:] + order[:u % 3] if u % 2 == 0 else list(reversed(order))
        ups.append(sp.proc(t3.Proc("U%d" % u, kind="cattok", ins=[("a", [(s, "out")])], outs=[(o, "{i:a}.U%d_%s" % (u, x)) for o, x in order])))
    sp.proc(t3.Proc("X", kind="cat", ins=[("p%d" % k, [(u, "o%d" % k) for u in ups]) for k in (1, 2, 3)], outs=[("o", "{i:p1}.X")]))
    sc = t3.Scratch()
    try:
        sc.plant(sp.files)
        impl = t3.run_impl(sc, sp, timeout=30, yield_seed=(rng.randint(1, 10**6), 20000))
        problems, known = [], []
        dead = impl["timed_out"] or "all goroutines are asleep" in (impl["stderr"] + impl["stdout"])
        if dead and buf <= 2:
            known.append("fanin-into-several-ports-small-buffer")
        elif dead:
            problems.append(("deadlock-or-hang", "fan-in of %d upstreams into the three in-ports of one process deadlocks with SCIPIPE_BUFSIZE=%d" % (nup, buf)))
        elif impl["rc"] != 0 or not impl["returned"]:
            problems.append(("unexpected-failure", "exit %s: %s" % (impl["rc"], impl["stderr"][-200:])))
        else:
            n = len([k for k in t3.started_keys(impl["trace"]) if k.startswith("X ")])
            if n != nup * n_in:
                problems.append(("tasks-differ", "the consumer ran %d tasks for %d input sets" % (n, nup * n_in)))
            lo = [p for p, k in impl["snap_at_return"].items() if p.split("/")[-1].startswith("_scipipe_tmp") or k == "p"]
            if lo:
                problems.append(("leftover-at-return", "temp dir present when Run returns: %s" % lo[:2]))
        return {"spec": sp.text(), "bufsize": buf, "problems": problems, "known": known, "ntasks": nup * n_in, "nskip": 0, "rc": impl["rc"], "stderr": impl["stderr"][-300:],
                "yield": None, "wall": impl["wall"]}
    finally:
        sc.close()


def stream_and_regular_case(args):
    """a consumer that reads a streamed and a regular output of the same producer task (finding D23, recorded): the run hangs"""
    seed, i = args
    rng = random.Random(seed * 7951 + i)
    sp = t3.Spec(maxtasks=4, bufsize=rng.choice([1, 128]))
    sp.files["sr.dat"] = "payload\n"
    s = sp.src("src", ["sr.dat"])
    prod = sp.proc(t3.Proc("prod", kind="cat", ins=[("a", [(s, "out")])], outs=[("o", "{i:a}.s1"), ("o2", "{i:a}.r2")], stream_outs=["o"]))
    sp.proc(t3.Proc("cons", kind="cat", ins=[("a", [(prod, "o")]), ("b", [(prod, "o2")])], outs=[("o", "{i:a|basename}.cons")]))
    sc = t3.Scratch()
    try:
        sc.plant(sp.files)
        impl = t3.run_impl(sc, sp, timeout=6)
        known = ["stream-and-regular-output-into-one-consumer"] if (impl["timed_out"] or "all goroutines are asleep" in impl["stderr"]) else []
        problems = []
        if not known and (impl["rc"] != 0 or not impl["returned"]):
            problems.append(("unexpected-failure", "exit %s: %s" % (impl["rc"], impl["stderr"][-200:])))
        return {"spec": sp.text(), "bufsize": sp.bufsize, "problems": problems, "known": known, "ntasks": 2, "nskip": 0, "rc": impl["rc"], "stderr": impl["stderr"][-300:],
                "yield": None, "wall": impl["wall"]}
    finally:
        sc.close()


def chatty_case(args):
    """commands that print a lot -- more than a pipe buffer -- on standard error, on standard output, or on both in turns,
    before and after writing their outputs: Run returns, nothing is left behind, the outputs are there"""
    seed, i = args
    rng = random.Random(seed * 7349 + i)
    sp = t3.Spec(maxtasks=rng.randint(1, 3), bufsize=rng.choice([1, 128]))
    L = rng.randint(1, 3)
    paths = ["ch%d.txt" % j for j in range(L)]
    for p in paths:
        sp.files[p] = p + "\n"
    s = sp.src("src", paths)
    kb = rng.choice([70, 200, 1100])
    noise = {0: "head -c %d000 /dev/zero | tr '\\0' 'e' 1>&2" % kb,
             1: "head -c %d000 /dev/zero | tr '\\0' 'o'" % kb,
             2: "for k in 1 2 3 4; do head -c %d000 /dev/zero | tr '\\0' 'e' 1>&2; head -c %d000 /dev/zero | tr '\\0' 'o'; done" % (kb // 4 + 17, kb // 4 + 17)}[i % 3]
    where = rng.choice(["before", "after", "both"])
    body = "cat {i:a} > {o:o}"
    pat = " ; ".join(([noise] if where in ("before", "both") else []) + [body] + ([noise] if where in ("after", "both") else []))
    loud = sp.proc(t3.RawProc("loud", pat, ins=[("a", [(s, "out")])], outs=[("o", "{i:a}.loud")]))
    sp.proc(t3.RawProc("quiet", "cat {i:a} > {o:o}", ins=[("a", [(loud, "o")])], outs=[("o", "{i:a}.quiet")]))
    sc = t3.Scratch()
    try:
        sc.plant(sp.files)
        impl = t3.run_impl(sc, sp, timeout=25)
        problems = []
        if impl["timed_out"] or "all goroutines are asleep" in impl["stderr"]:
            problems.append(("deadlock-or-hang", "a command that prints %d kB on %s (%s writing its output) never finishes: Run does not return" % (
                kb, ["standard error", "standard output", "standard error and standard output in turns"][i % 3], where)))
        elif impl["rc"] != 0 or not impl["returned"]:
            problems.append(("unexpected-failure", "exit %s: %s" % (impl["rc"], impl["stderr"][-200:])))
        else:
            for p in paths:
                v = impl["fs"].get(p + ".loud.quiet")
                if v is None or v[1] != p + "\n":
                    problems.append(("wrong-result", "%s.loud.quiet is %r" % (p, v and v[1])))
            left = [q for q, k in impl["snap_at_return"].items() if q.split("/")[-1].startswith("_scipipe_tmp") or k == "p"]
            if left:
                problems.append(("leftover-at-return", "temp dir or FIFO present when Run returns: %s" % left[:3]))
        return {"spec": sp.text(), "bufsize": sp.bufsize, "problems": problems[:3], "ntasks": 2 * L, "nskip": 0, "rc": impl["rc"], "stderr": impl["stderr"][-300:],
                "yield": None, "wall": impl["wall"]}
    finally:
        sc.close()


def run(rep, tier, seed):
    proved = vlib.prove(rep, MODULE, THEOREMS)
    ok, msg = vlib.build_ocaml()
    if not ok:
        raise RuntimeError("extraction/driver build failed: " + msg[-1500:])
    n = 96 if tier == "quick" else 1500
    results = t3.run_many(case, [(seed, i) for i in range(n)])
    results += t3.run_many(streaming_rerun_case, [(seed, i) for i in range(n // 8)])
    results += t3.run_many(component_case, [(seed, i) for i in range(n // 4)])
    results += t3.run_many(dangling_stream, [(seed, i) for i in range(n // 8)])
    results += t3.run_many(chatty_case, [(seed, i) for i in range(6 if tier == "quick" else 60)])
    results += t3.run_many(ks.ks_case, [(seed, i, ("basic",)) for i in range(n // 6)])
    fan = t3.run_many(fanin_ports_case, [(seed, i, 128) for i in range(6 if tier == "quick" else 60)])
    small = t3.run_many(fanin_ports_case, [(seed, i, 1) for i in range(16 if tier == "quick" else 120)])
    extra = 0
    while not any(r.get("known") for r in small) and extra < 4:
        # the deadlock needs a particular map-iteration order (about one run in three): look a little longer, so that the
        # recorded finding is exhibited in every run of the check
        extra += 1
        small += t3.run_many(fanin_ports_case, [(seed, 1000 * extra + i, 1) for i in range(16)])
    fan += small
    kf = vlib.known_findings("C05")
    nd21 = 0
    for r in fan:
        if r.get("known"):
            nd21 += 1
            if any(f["kind"] == "fanin-into-several-ports-small-buffer" for f in kf):
                if nd21 == 1:
                    rep.known_finding("a process whose three in-ports are each fed by the same two or three upstream processes deadlocks with SCIPIPE_BUFSIZE=1 (sequential blocking sends and receives in map-iteration order wait for each other)")
            else:
                r["problems"].append(("deadlock-or-hang", "fan-in into the three in-ports of one process deadlocks with SCIPIPE_BUFSIZE=%d" % r["bufsize"]))
    rep.notes["fanin_small_buffer_deadlocks_seen"] = "%d of %d runs with SCIPIPE_BUFSIZE=1" % (nd21, sum(1 for r in fan if r["bufsize"] == 1))
    results += fan
    for r in t3.run_many(stream_and_regular_case, [(seed, i) for i in range(2)]):
        if r.get("known"):
            if any(f["kind"] == "stream-and-regular-output-into-one-consumer" for f in kf):
                rep.known_finding("a consumer that takes a streamed and a regular output of the same upstream task never starts and Run never returns (the regular output is forwarded only after the task that must first be read from has finished)")
            else:
                r["problems"].append(("deadlock-or-hang", "a consumer of a streamed and a regular output of one producer task hangs"))
        results.append(r)
    t3.report_t3(rep, MODULE, proved, results, "T3 termination / at-return snapshot")
    rep.cov["evaluations"] = len(results)
    rep.cov["distinct_nontrivial"] = len({r["spec"] for r in results if r["ntasks"] >= 1})
    rep.cov["rule"] = "workflow shapes (independent leaves with a slow one, a process without out-ports beside a slow leaf, a single port-less process, chains with more tasks than buffer slots, capacity-1 diamonds, out-port-less leaf plus parameter-only process) and random DAGs, SCIPIPE_BUFSIZE in {1,2,3}; streamed producer/consumer pairs run once and then twice more in place; workflows with FileSplitter (line counts that are exact multiples of the limit included), Concatenator and FileCombinator; fan-in of 2-3 upstream processes into each of the three in-ports of one process (SCIPIPE_BUFSIZE 128: completes; 1: the recorded finding D21); streaming out-ports that nobody consumes (dangling, or the consumer cut off by RunTo, alone or beside a consumed stream; payloads up to several pipe buffers); a run must terminate (90 s bound), exit 0, and the snapshot the program takes right after Run returns must contain every predicted output and no temp dir / FIFO; every started command has ended; non-trivial = at least one task"
    rep.cov["rule"] += "; plus kitchen-sink workflows (tools/ks.py: random workflows decorated with tagging components, sub-streams, Concatenator / FileSplitter, streamed pairs, component parameter feeders, Go-function and multi-core processes, RunTo) judged by the model-free basic (completion, nothing temporary at return, commands ended, slot bound) oracle"
    rep.cov["samples"] = [results[0]["spec"], results[2]["spec"]]
    rep.notes["input_distribution"] = {"runs": len(results), "tasks_executed_total": sum(r["ntasks"] for r in results), "max_wall_s": round(max(r["wall"] for r in results), 2)}
    rep.assump += ["a started command eventually exits (H-term)", "SCIPIPE_BUFSIZE >= 1", "theorems: merge-free balanced graphs; other shapes by correspondence"]


def replay(r):
    return t3.replay_generic(r)
