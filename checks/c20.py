# C20 -- audit report conversion is lossless.
import json, os, random, re, shutil, subprocess, tempfile
from tools import vlib, t3

MODULE = "PropC20"
THEOREMS = ["C20_flatten", "C20_flatten_once", "C20_report_complete", "C20_report_once", "C20_report_sorted", "C20_ties_refuted_before_repair", "C20_bash_reproduces", "C20_bash_reproduces_run", "C20_bash_example", "C20_example", "C20_cone_conforms"]
CLI = os.path.join(vlib.BIN, "scipipe_cli")


def ts(ns):
    """an instant given in nanoseconds after 2026-03-01T10:00:00Z as RFC 3339; 0 is Go's zero time (records of source files)"""
    if ns == 0:
        return "0001-01-01T00:00:00Z"
    sec, frac = divmod(ns, 10**9)
    return "2026-03-01T10:%02d:%02d.%09dZ" % ((sec // 60) % 60, sec % 60, frac)


def gen_tree(rng, depth, pool, ids):
    """random lineage tree; `pool` lets ancestors be shared through several paths (same ID, same record)"""
    if pool and rng.random() < 0.25:
        return rng.choice(pool)
    i = "".join(rng.choice("abcdefghijklmnopqrstuvwxyz0123456789") for _ in range(20))
    while i in ids:
        i = i[:-1] + rng.choice("xyz")
    ids.add(i)
    source = depth == 0 or rng.random() < 0.2
    # exact ties (small ranges) and near ties: several records inside one millisecond, nanoseconds apart
    start = 0 if source else rng.choice([rng.randint(1, 50), rng.randint(1, 5)]) * 10**9 + rng.choice([0, 0, 1, 500, 999999, 1000000, 1000001]) + rng.choice([0, 7 * 10**6])
    ups = {}
    if not source:
        for k in range(rng.randint(1, 3)):
            ups["in%d_%s.txt" % (k, i[:4])] = gen_tree(rng, depth - 1, pool, ids)
    rec = {"ID": i, "ProcessName": "" if source else rng.choice(["align", "merge_x", "sort", "p%d" % rng.randint(0, 9)]),
           "Command": "" if source else "echo %s > out_%s" % (i[:5], i[:5]), "Params": {} if source else {"k": "v%d" % rng.randint(0, 3)},
           "Tags": {} if rng.random() < 0.7 else {"t": "x"}, "StartTime": ts(start), "FinishTime": ts(start + (0 if source else rng.randint(0, 3) * 10**9)),
           "ExecTimeNS": -1 if source else rng.randint(0, 10**9), "OutFiles": {} if source else {"o": "out_%s" % i[:5]}, "Upstream": ups, "_start": start}
    pool.append(rec)
    return rec


def strip(rec):
    r = {k: v for k, v in rec.items() if not k.startswith("_")}
    r["Upstream"] = {p: strip(u) for p, u in rec["Upstream"].items()}
    return r


def all_records(rec, acc=None):
    acc = {} if acc is None else acc
    acc[rec["ID"]] = rec
    for u in rec["Upstream"].values():
        all_records(u, acc)
    return acc


def model_order(rec):
    recs = all_records(rec)
    idrank = {i: n for n, i in enumerate(sorted(recs))}
    starts = sorted({r["_start"] for r in recs.values()})
    srank = {s: n for n, s in enumerate(starts)}
    def ser(r):
        ups = list(r["Upstream"].values())
        return "%d %d %d" % (idrank[r["ID"]], srank[r["_start"]], len(ups)) + "".join(" " + ser(u) for u in ups)
    out, _ = vlib.run_lines("driver", "report", [ser(rec)])
    inv = {n: i for i, n in idrank.items()}
    return [inv[int(x)] for x in out[0].split()]


def cli_listing(rec, d, fmt, datafile=None, stale=False):
    base = os.path.join(d, "f_%s.txt" % fmt)
    open(base + ".audit.json", "w").write(json.dumps(strip(rec), indent=4))
    ext0 = {"html": "html", "tex": "tex", "bash": "sh"}[fmt]
    if stale:
        # a longer report from an earlier conversion lies at the output path
        open(base + ".audit." + ext0, "w").write(("STALE-REPORT-LINE proc=$(printf '%-32s' \"stale_task\") <strong>stale</strong> / <a name=\"staleid\"\n") * 4000)
    if datafile:
        # the data file lies next to its record, older or newer than it (touched, copied without -p, restored from an archive)
        open(base, "w").write("data\n")
        t = os.stat(base + ".audit.json").st_mtime + (-30 if datafile == "older" else 30)
        os.utime(base, (t, t))
    r = subprocess.run([CLI, "audit2" + fmt, base + ".audit.json"], capture_output=True, text=True, cwd=d, timeout=60)
    ext = {"html": "html", "tex": "tex", "bash": "sh"}[fmt]
    outp = base + ".audit." + ext
    if r.returncode != 0 or not os.path.exists(outp):
        return None, "exit %s: %s" % (r.returncode, (r.stdout + r.stderr)[-200:])
    text = open(outp).read()
    if fmt == "html":
        return [(m.group(1), m.group(2)) for m in re.finditer(r'<strong>(.*?)</strong> / <a name="(.*?)"', text)], text
    if fmt == "tex":
        return [(m.group(2).replace("\\_", "_"), m.group(1)) for m in re.finditer(r'ID: & (\S+) \\\\\nProcess: & (.*?) \\\\', text)], text
    return [(m.group(1), None) for m in re.finditer(r"proc=\$\(printf '%-32s' \"(.*?)\"\)", text)], text


def tree_case(args):
    seed, i = args
    rng = random.Random(seed * 334214459 + i)
    rec = gen_tree(rng, rng.randint(1, 6), [], set())
    recs = all_records(rec)
    want = model_order(rec)
    d = tempfile.mkdtemp(prefix="vc20_", dir=t3.SCRATCH_PARENT)
    problems = []
    try:
        datafile = rng.choice([None, "older", "newer", "newer"])
        stale = rng.random() < 0.4
        for fmt in ("html", "tex", "bash"):
            got, text = cli_listing(rec, d, fmt, datafile, stale)
            if got is not None and "STALE-REPORT-LINE" in text:
                problems.append(("stale-report-content", "audit2%s wrote its report over a longer one from an earlier conversion: the old report's tail is still in the file" % fmt))
                continue
            if got is None:
                problems.append(("cli-fails", "audit2%s: %s" % (fmt, text)))
                continue
            if fmt == "bash":
                if [g[0] for g in got] != [recs[x]["ProcessName"] for x in want]:
                    problems.append(("listing-bash", "audit2bash lists processes %s, the lineage ordered by start time is %s" % ([g[0] for g in got][:8], [recs[x]["ProcessName"] for x in want][:8])))
            else:
                ids = [g[1] for g in got]
                if sorted(ids) != sorted(want):
                    lost = [x for x in want if x not in ids]; dup = sorted({x for x in ids if ids.count(x) > 1})
                    problems.append(("listing-lossy", "audit2%s does not list every task exactly once%s: lost %s, repeated %s" % (fmt, " (the data file lies next to the record and is %s than it)" % datafile if datafile else "", lost[:3], dup[:3])))
                elif ids != want:
                    problems.append(("listing-order", "audit2%s order %s, by start time (ties by ID) %s" % (fmt, ids[:6], want[:6])))
                for name, x in got:
                    if x in recs and name != recs[x]["ProcessName"]:
                        problems.append(("listing-fields", "audit2%s shows process %r for record %s, the record says %r" % (fmt, name, x, recs[x]["ProcessName"])))
                for x in want:
                    if recs[x]["Command"] and recs[x]["Command"].replace("_", "\\_" if fmt == "tex" else "_") not in text:
                        problems.append(("listing-command", "audit2%s does not show the command of record %s" % (fmt, x)))
                        break
        ties = len(recs) - len({r["_start"] for r in recs.values()})
        return {"spec": json.dumps(strip(rec))[:3000], "problems": problems[:4], "ntasks": len(recs), "ties": ties, "kind": "generated", "rc": 0, "stderr": "", "yield": None, "bufsize": None, "wall": 0}
    finally:
        shutil.rmtree(d, ignore_errors=True)


def repro_case(args):
    """a real workflow run; audit2bash of its last output; the script re-creates the file in a directory holding only the sources"""
    seed, i = args
    rng = random.Random(seed * 353868013 + i)
    sp = t3.gen_workflow(rng, maxlen=3, subdirs=False, multi_out=(i % 2 == 0), allow_params=True)
    if i % 3 == 2:
        # commands that reach a companion of an input through a path modifier (the paired-files convention:
        # x.1.txt travels through the workflow, x.2.txt lies next to it): the script has to resolve these as well
        sp = t3.Spec(maxtasks=rng.randint(1, 3))
        L = rng.randint(1, 3)
        for j in range(L):
            sp.files["r%d.1.txt" % j] = "first of pair %d\n" % j
            sp.files["r%d.2.txt" % j] = "second of pair %d\n" % j
        s = sp.src("src", ["r%d.1.txt" % j for j in range(L)])
        comp = rng.choice(["{i:a|%.1.txt}.2.txt", "{i:a|s/.1.txt/.2.txt/}"])
        a = sp.proc(t3.Proc("pair", kind="cattok", ins=[("a", [(s, "out")])], outs=[("o", "{i:a}.paired")], pre="cat %s > /dev/null" % comp))
        if rng.random() < 0.5:
            sp.proc(t3.Proc("after", kind="cat", ins=[("a", [(a, "o")])], outs=[("o", "{i:a}.after")], pre="test -s {i:a|%.paired}"))
    if i % 3 == 1:
        # commands that succeed although a non-last member of a pipeline, or an earlier command of a `;` list, exits non-zero
        # (scipipe runs plain `bash -c`): the script must run them the same way
        for p in sp.procs():
            if p.ins and rng.random() < 0.7:
                p.pre = rng.choice(["grep NO_SUCH_WORD {i:%s} | wc -l > /dev/null" % p.ins[0][0], "{ false ; true ; }", "ls /no/such/dir 2> /dev/null | cat > /dev/null"])
    model = t3.run_model(sp.text())
    if model["status"] != "done" or model["failed"]:
        return None
    runs = [t for t in model["tasks"] if t["status"] == "run"]
    if not runs:
        return None
    target = runs[-1]["outs"][0][2]
    sc = t3.Scratch()
    d2 = tempfile.mkdtemp(prefix="vc20r_", dir=t3.SCRATCH_PARENT)
    problems = []
    try:
        sc.plant(sp.files)
        impl = t3.run_impl(sc, sp)
        if impl["rc"] != 0:
            return {"spec": sp.text(), "problems": [("unexpected-failure", impl["stderr"][-200:])], "ntasks": 0, "ties": 0, "kind": "repro", "rc": impl["rc"], "stderr": "", "yield": None, "bufsize": sp.bufsize, "wall": 0}
        audit = os.path.join(sc.work, target + ".audit.json")
        r = subprocess.run([CLI, "audit2bash", audit, os.path.join(d2, "repro.sh")], capture_output=True, text=True, timeout=60)
        if r.returncode != 0:
            problems.append(("cli-fails", "audit2bash exit %s %s" % (r.returncode, r.stderr[-200:])))
        else:
            for p, c in sp.files.items():
                open(os.path.join(d2, p), "w").write(c)
            e = dict(os.environ, VERIF_TRACE="/dev/null")
            x = subprocess.run(["bash", "repro.sh"], cwd=d2, env=e, capture_output=True, text=True, timeout=120)
            got = open(os.path.join(d2, target)).read() if os.path.exists(os.path.join(d2, target)) else None
            if got != model["files"][target]:
                problems.append(("bash-not-reproducing", "running the generated script in a directory holding only the sources gives %r for %s, the workflow produced %r; script stderr: %s" % (
                    (got or "")[:60] if got is not None else None, target, model["files"][target][:60], x.stderr[-200:])))
            # listing of a real lineage: every executed ancestor once
            rec = json.load(open(audit))
            ids = set()
            def walk(rr):
                ids.add(rr["ID"])
                for u in (rr.get("Upstream") or {}).values():
                    walk(u)
            walk(rec)
            text = open(os.path.join(d2, "repro.sh")).read()
            n = len(re.findall(r"proc=\$\(printf", text))
            if n != len(ids):
                problems.append(("listing-lossy", "the script has %d entries, the lineage has %d records" % (n, len(ids))))
        return {"spec": sp.text(), "problems": problems, "ntasks": len(runs), "ties": 0, "kind": "repro", "rc": 0, "stderr": "", "yield": None, "bufsize": sp.bufsize, "wall": 0}
    finally:
        sc.close()
        shutil.rmtree(d2, ignore_errors=True)


def two_process_case(args):
    """a lineage that spans two executions of the workflow program (prepare, then analyse -- two operating-system processes
    started one right after the other): every task of both runs is listed exactly once"""
    import time
    seed, i = args
    rng = random.Random(seed * 353868019 + i)
    sp1 = t3.Spec(maxtasks=rng.randint(1, 3))
    sp1.files["raw.txt"] = "raw\n"
    s = sp1.src("src", ["raw.txt"])
    up = (s, "out")
    n1 = rng.randint(1, 3)
    for k in range(n1):
        up = (sp1.proc(t3.Proc("prep%d" % k, kind="cattok", ins=[("a", [up])], outs=[("o", "{i:a}.prep%d" % k)])), "o")
    inter = "raw.txt" + "".join(".prep%d" % k for k in range(n1))
    sp2 = t3.Spec(maxtasks=rng.randint(1, 3))
    s2 = sp2.src("src2", [inter])
    up = (s2, "out")
    n2 = rng.randint(1, 3)
    for k in range(n2):
        up = (sp2.proc(t3.Proc("ana%d" % k, kind="cattok", ins=[("a", [up])], outs=[("o", "{i:a}.ana%d" % k)])), "o")
    target = inter + "".join(".ana%d" % k for k in range(n2))
    sc = t3.Scratch()
    d2 = tempfile.mkdtemp(prefix="vc20t_", dir=t3.SCRATCH_PARENT)
    try:
        sc.plant(sp1.files)
        # start both programs early in one wall-clock second
        while time.time() % 1.0 > 0.25:
            time.sleep(0.01)
        r1 = t3.run_impl(sc, sp1)
        r2 = t3.run_impl(sc, sp2)
        problems = []
        if r1["rc"] != 0 or r2["rc"] != 0:
            problems.append(("unexpected-failure", "rc %s / %s: %s" % (r1["rc"], r2["rc"], (r1["stderr"] + r2["stderr"])[-200:])))
        else:
            audit = os.path.join(sc.work, target + ".audit.json")
            want = sorted(["prep%d" % k for k in range(n1)] + ["ana%d" % k for k in range(n2)])
            for fmt, ext in (("html", "html"), ("tex", "tex"), ("bash", "sh")):
                outp = os.path.join(d2, "rep." + ext)
                r = subprocess.run([CLI, "audit2" + fmt, audit, outp], capture_output=True, text=True, timeout=60)
                if r.returncode != 0 or not os.path.exists(outp):
                    problems.append(("cli-fails", "audit2%s exit %s %s" % (fmt, r.returncode, r.stderr[-200:])))
                    continue
                text = open(outp).read()
                if fmt == "html":
                    names = [m.group(1) for m in re.finditer(r'<strong>(.*?)</strong> / <a name="(.*?)"', text)]
                elif fmt == "tex":
                    names = [m.group(2).replace("\\_", "_") for m in re.finditer(r'ID: & (\S+) \\\\\nProcess: & (.*?) \\\\', text)]
                else:
                    names = [m.group(1) for m in re.finditer(r"proc=\$\(printf '%-32s' \"(.*?)\"\)", text)]
                got = sorted(x for x in names if x.startswith(("prep", "ana")))
                if got != want:
                    problems.append(("listing-lossy", "audit2%s of a lineage spanning two program runs lists the tasks %s, the lineage has %s" % (fmt, got, want)))
        return {"spec": sp1.text() + "---second program---\n" + sp2.text(), "problems": problems[:3], "ntasks": n1 + n2, "ties": 0, "kind": "two-processes", "rc": 0, "stderr": "", "yield": None, "bufsize": None, "wall": 0}
    finally:
        sc.close()
        shutil.rmtree(d2, ignore_errors=True)


def run(rep, tier, seed):
    proved = vlib.prove(rep, MODULE, THEOREMS)
    ok, msg = vlib.build_ocaml()
    if not ok:
        raise RuntimeError("extraction/driver build failed: " + msg[-1500:])
    n = 120 if tier == "quick" else 2500
    results = t3.run_many(tree_case, [(seed, i) for i in range(n)])
    results += [r for r in t3.run_many(repro_case, [(seed, i) for i in range(16 if tier == "quick" else 300)]) if r]
    results += t3.run_many(two_process_case, [(seed, i) for i in range(8 if tier == "quick" else 100)], workers=4)
    t3.report_t3(rep, MODULE, proved, results, "T2 through the scipipe binary")
    rep.cov["evaluations"] = len(results)
    rep.cov["distinct_nontrivial"] = len({r["spec"] for r in results if r["ntasks"] >= 3})
    rep.cov["rule"] = "generated audit trees (depth up to 6, fan-in up to 3, ancestors shared through several paths, source records with the zero time, start times drawn from small ranges so that ties occur) written as <file>.audit.json and converted by the real `scipipe audit2html / audit2tex / audit2bash`; the listed (process, ID) sequence is parsed from each output and must equal the extracted Coq model's order (every ID once, by start time, ties by ID), with process name and command shown; plus real workflow runs whose last output's record is converted to Bash and executed in a directory holding only the source files -- the file must be re-created byte-identically; non-trivial = at least three records"
    rep.cov["samples"] = [results[0]["spec"][:600]]
    rep.notes["input_distribution"] = {"generated_trees": sum(1 for r in results if r["kind"] == "generated"), "trees_with_ties": sum(1 for r in results if r["ties"] > 0),
                                       "max_records": max(r["ntasks"] for r in results), "real_run_reproductions": sum(1 for r in results if r["kind"] == "repro")}
    rep.assump += ["H-ids: equal IDs carry equal records", "files of the reproduced workflows live in the working directory", "H-clock: a task starts after its dependencies finished"]


def replay(r):
    return t3.replay_generic(r)
