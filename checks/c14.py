# C14 -- temp directories: distinct, stable, valid.
import itertools, random, re
from tools import vlib
from tools.vlib import hx, unhx

MODULE = "PropC14"
THEOREMS = ["C14_code_conforms", "C14_valid_segment", "C14_reduction", "C14_stable", "C14_preimage_injective_param", "C14_preimage_injective_input", "C14_preimage_refuted", "C14_cone_conforms"]


def line(ident, reverse=False):
    name, ins, subs, params, tags = ident
    def pairs(m):
        items = list(m)
        if reverse:
            items = items[::-1]
        return "%d%s" % (len(items), "".join(" %s %s" % (hx(k), hx(v)) for k, v in items))
    subl = list(subs)[::-1] if reverse else list(subs)
    s = "%s %s %d" % (hx(name), pairs(ins), len(subl))
    for port, carrier, members in subl:
        s += " %s %s %d%s" % (hx(port), hx(carrier), len(members), "".join(" " + hx(m) for m in members))
    return s + " " + pairs(params) + " " + pairs(tags)


def small_identities():
    """exhaustive over a small alphabet of names / path segments / values"""
    segs = ["a", "b", "ab"]
    paths = segs + ["%s/%s" % (x, y) for x in segs[:2] for y in segs] + ["/a", "a/b/a"]
    vals = ["a", "b", "ab", "a_b", "q_a", ",", ";", ":", "1,2", "1, 2", "a b", "0.5;1", "x*", "x?",
            " ", "\t", "a ", " a", "a\t", "a  b"]     # also values that differ only in punctuation, or only in blanks around / inside them
    ids = []
    for name in ["p", "q", "P", "p q", "p_q", "p:q"]:        # names that differ only in what sanitising folds together
        ids.append((name, (), (), (), ()))
        if name not in ("p", "q"):
            ids.append((name, (("in", "a"),), (), (("p", "a"),), ()))
            continue
        for p in paths:
            ids.append((name, (("in", p),), (), (), ()))
            for p2 in paths[:6]:
                ids.append((name, (("in", p), ("in2", p2)), (), (), ()))
        for v in vals:
            ids.append((name, (), (), (("p", v),), ()))
            ids.append((name, (), (), (), (("p", v),)))
            for v2 in vals[:3]:
                ids.append((name, (), (), (("p", v), ("q", v2)), ()))
            for p in paths[:4]:
                ids.append((name, (("in", p),), (), (("p", v),), ()))
                ids.append((name, (("in", p),), (), (), (("in.t", v),)))
        for ms in [(), ("a",), ("a", "b"), ("ab",), ("b", "a")]:
            ids.append((name, (), (("j", "c", ms),), (), ()))
            # the same members carried by another sub-stream IP (two adapters fed by the same source): another task
            ids.append((name, (), (("j", "c2", ms),), (), ()))
            ids.append((name, (), (("j", "batches/b1", ms),), (), ()))
    return ids


def random_identities(rng, n):
    segs = ["a", "b", "ab", "a.b", "..", ".", "x_y", "data", "f.txt", "p2_c", "A", "Zz9", "-", "_", "x" * 40]
    names = ["p", "Proc A", "x.y-z", "p2", "UPPER lower", "n" * 230, "m" * 201, "k" * 202, "tab\tname", "sl/ash", "a  b", "%$#"]
    out = []
    def mkpath():
        p = "/" if rng.random() < 0.15 else ""
        k = rng.randint(1, 4)
        for i in range(k):
            if i:
                p += "//" if rng.random() < 0.1 else "/"
            p += rng.choice(segs)
        if rng.random() < 0.05:
            p += "/"
        return p
    for _ in range(n):
        name = rng.choice(names) if rng.random() < 0.7 else "".join(rng.choice("abcXYZ019._- ") for _ in range(rng.randint(1, 260)))
        ports = rng.sample(["in", "in2", "a", "B", "zz", "A", "b", "IN"], rng.randint(0, 4))      # incl. names equal up to case
        ins = tuple((p, mkpath()) for p in ports)
        subs = ()
        if rng.random() < 0.25:
            subs = tuple((p, mkpath(), tuple(mkpath() for _ in range(rng.randint(0, 3)))) for p in rng.sample(["j", "j2"], rng.randint(1, 2)))
        pvals = segs + [",", ";", "1,2", "1;2", "a b", "a\tb", "50%", "x*", "{p:x}", "s/a/b/", " ", "\t", "a ", " a", "data ", "\tdata"]
        params = tuple((k, rng.choice(pvals)) for k in rng.sample(["p1", "p2", "alpha", "Z", "z", "P1", "Alpha"], rng.randint(0, 3)))
        tags = tuple((k, rng.choice(segs + ["a ", " a", "\t"])) for k in rng.sample(["in.t", "z", "a.b", "Z", "IN.t", "A.b"], rng.randint(0, 3)))
        out.append((name, ins, subs, params, tags))
    return out


def canon(ident):
    name, ins, subs, params, tags = ident
    return (name, tuple(sorted(ins)), tuple(sorted(subs)), tuple(sorted(params)), tuple(sorted(tags)))


def run(rep, tier, seed):
    proved = vlib.prove(rep, MODULE, THEOREMS)
    ok, msg = vlib.build_ocaml()
    if not ok:
        raise RuntimeError("extraction/driver build failed: " + msg[-1500:])
    rng = random.Random(seed)
    ids = small_identities() + random_identities(rng, 1500 if tier == "quick" else 20000)
    lines = [line(i) for i in ids]
    diffs, impl, model = vlib.t2_compare("tempdir", lines)
    found = False
    for i, a, b in diffs[:20]:
        w = {"kind": "model-vs-impl", "function": "Task.TempDir", "identity": repr(ids[i]) if i >= 0 else None, "input_line": lines[i] if i >= 0 else None,
             "impl": unhx(a) if i >= 0 and a != "<FAIL>" else a, "model": unhx(b) if i >= 0 and not b.startswith("<") else b}
        rep.notes.setdefault("disagreements", []).append(w)
    # monitors on the implementation's own output (the property statement itself)
    if len(impl) == len(ids):
        names = [unhx(x) if x != "<FAIL>" else None for x in impl]
        # (1) valid single segment of at most 255 bytes
        for ident, nm in zip(ids, names):
            if nm is None or len(nm) > 255 or not re.fullmatch(r"[a-z0-9_.\-]+", nm) or nm in (".", ".."):
                rep.violation("temp dir name is not a valid path segment of <= 255 bytes: %r" % (nm,), {"kind": "invalid-segment", "identity": repr(ident), "tempdir": nm, "input_line": line(ident)})
                found = True
                break
        # (2) stable: same identity, maps filled in the opposite order, fresh process
        impl2, _ = vlib.run_lines("t2", "tempdir", [line(i, reverse=True) for i in ids])
        impl3, _ = vlib.run_lines("t2", "tempdir", lines)
        for ident, a, b, c in zip(ids, impl, impl2, impl3):
            if a != b or a != c:
                b = b if a != b else c
                rep.violation("temp dir of one task identity differs between two evaluations", {"kind": "unstable", "identity": repr(ident), "first": unhx(a), "second": unhx(b) if b != "<FAIL>" else b, "input_line": line(ident)})
                found = True
                break
        # (3) distinct identities -> distinct names, except the recorded pre-image ambiguity (finding D7)
        pre, _ = vlib.run_lines("driver", "preimage", lines)
        groups = {}
        for ident, nm, pi in zip(ids, names, pre):
            groups.setdefault(nm, {})[canon(ident)] = pi
        kf = vlib.known_findings("C14")
        ncoll = 0
        for nm, members in groups.items():
            if len(members) > 1:
                ncoll += 1
                pis = set(members.values())
                if len(pis) == 1 and any(f["kind"] == "preimage-concatenation-ambiguity" for f in kf):
                    rep.known_finding("distinct task identities whose hash pre-images concatenate to the same string share a temp dir (pieces are joined without separators), e.g. inputs 'a/b' and 'ab'")
                else:
                    two = list(members.items())[:2]
                    rep.violation("two different task identities get the same temp dir %s" % nm, {"kind": "collision", "tempdir": nm, "identities": [repr(t[0]) for t in two], "model_preimages": [unhx(t[1]) for t in two]})
                    found = True
                    break
        rep.notes["collisions_by_preimage_ambiguity"] = ncoll
    if (diffs or not proved) and not found:
        what = []
        if not proved:
            what.append("proof obligations of %s no longer check: %s" % (MODULE, rep.notes.get("broken_obligations") or rep.notes.get("open_assumptions")))
        if diffs:
            what.append("model and Task.TempDir disagree on %d of %d identities" % (len(diffs), len(ids)))
        rep.violation("; ".join(what), {"kind": "correspondence", "theorem_or_correspondence": "PropC14 / T2 tempdir", "disagreements": rep.notes.get("disagreements", [])[:5]}, nofail=True)
    rep.cov["evaluations"] = len(ids) * 2
    rep.cov["distinct_nontrivial"] = len({canon(i) for i in ids if i[1] or i[2] or i[3] or i[4]})
    rep.cov["rule"] = "task identities (process name, in-paths per port, sub-stream members, params, tags): exhaustive over a small alphabet plus seeded random large ones (names up to 260 bytes, paths with . .. // and absolute); each evaluated by the real NewTask(...).TempDir() and by the extracted Coq model; non-trivial = has at least one input, member, parameter or tag; distinct = up to map order"
    rep.cov["samples"] = [repr(ids[k]) + " -> " + (unhx(impl[k]) if k < len(impl) and impl[k] != "<FAIL>" else "?") for k in (3, 40, len(ids) - 1)]
    rep.notes["input_distribution"] = {"small_exhaustive": len(small_identities()), "random": len(ids) - len(small_identities()),
                                       "with_substreams": sum(1 for i in ids if i[2]), "long_names_folded": sum(1 for i in ids if len(i[0]) > 200),
                                       "absolute_paths": sum(1 for i in ids if any(p.startswith("/") for _, p in i[1]))}
    rep.assump += ["SHA-1 is not assumed collision free: distinctness is proved up to an explicit SHA-1 collision (C14_reduction)",
                   "process names are ASCII (strings.ToLower on invalid UTF-8 is outside the model)"]


def replay(r):
    from tools import t3 as _t3
    return _t3.replay_generic(r)
