# C02 -- existing outputs are never re-executed or modified.
import os, random
from tools import vlib, t3
from tools import ks

MODULE = "PropC02"
THEOREMS = ["C02_code_conforms", "C02_skip", "C02_untouched", "C02_rerun_executes_nothing", "C02_skipped_outputs_are_inputs", "C02_cone_conforms"]


def stamps(fs, paths):
    return {p: (fs[p][2], fs[p][3], fs[p][1]) for p in paths if p in fs}


def case(args):
    seed, i = args
    rng = random.Random(seed * 15485863 + i)
    sp = t3.gen_workflow(rng, maxlen=4, multi_out=True)
    # gofunc processes are part of the property's programs
    for p in sp.procs():
        if rng.random() < 0.2 and all(len(u) == 1 for _, u in p.ins):
            p.gofunc = True
            p.kind = "cattok"
    base = t3.run_model(sp.text())
    if base["status"] != "done" or base["failed"]:
        return None
    # plant all outputs of a random subset of tasks, with arbitrary bytes
    tasks = [t for t in base["tasks"] if t["status"] == "run"]
    chosen = [t for t in tasks if rng.random() < 0.35]
    planted = {}
    for n, t in enumerate(chosen):
        for port, st, path in t["outs"]:
            planted[path] = "" if rng.random() < 0.25 else "PLANTED-%d-%d\n" % (i, n)     # an existing output may be empty
    sp.files.update(planted)
    model = t3.run_model(sp.text())
    sc = t3.Scratch()
    try:
        sc.plant(sp.files)
        before = stamps(t3.snapshot_dir(sc.work), planted)
        impl = t3.run_impl(sc, sp)
        problems = []
        if model["status"] != "done" or model["failed"]:
            # a planted file can make a later command fail only if the generator is wrong
            problems.append(("model-predicts-failure", "unexpected"))
        else:
            problems = t3.compare_success(sp, model, impl)
        rstats = {}
        if model["status"] == "done":
            problems += t3.replay_problems(sp, model, impl, ("tasks",), stats=rstats)
        after = stamps(impl["fs"], planted)
        for p in planted:
            if before.get(p) != after.get(p):
                problems.append(("existing-output-modified", "pre-existing output %r changed (inode, mtime, bytes): %s -> %s" % (p, before.get(p), after.get(p))))
        skipped_keys = {t["key"] for t in model["tasks"] if t["status"] == "skip"}
        ran = set(t3.started_keys(impl["trace"]))
        if skipped_keys & ran:
            problems.append(("skipped-task-executed", "command of a task whose output existed was executed: %s" % sorted(skipped_keys & ran)[:3]))
        # history: complete run, then run again in place -> no command, no change
        if not problems:
            all_before = {p: (v[2], v[3], v[1]) for p, v in impl["fs"].items() if v[0] == "f" and not t3.IGNORED.match(p)}
            files1 = t3.data_files(impl["fs"])
            impl2 = t3.run_impl(sc, sp)
            sp2 = t3.Spec(sp.max, sp.bufsize); sp2.nodes = sp.nodes; sp2.files = dict(files1)
            model2 = t3.run_model(sp2.text())
            if model2["status"] == "done":
                r2 = {}
                problems += t3.replay_problems(sp2, model2, impl2, ("tasks",), stats=r2)
                for k, v in r2.items():
                    rstats[k] = (rstats.get(k, 0) + v) if isinstance(v, int) else v
            if impl2["rc"] != 0 or not impl2["returned"]:
                problems.append(("rerun-fails", "re-running the completed workflow exits %s: %s" % (impl2["rc"], impl2["stderr"][-200:])))
            if t3.started_keys(impl2["trace"]):
                problems.append(("rerun-executes", "re-running a completed workflow executed %s" % t3.started_keys(impl2["trace"])[:3]))
            all_after = {p: (v[2], v[3], v[1]) for p, v in impl2["fs"].items() if v[0] == "f" and not t3.IGNORED.match(p)}
            ch = [p for p in all_before if all_before[p] != all_after.get(p) and not p.endswith(".audit.json")]
            if ch:
                problems.append(("rerun-modifies", "re-running a completed workflow changed %s" % ch[:3]))
        return {"replay": rstats, "spec": sp.text(), "bufsize": sp.bufsize, "problems": problems, "ntasks": len(tasks), "nskip": len(skipped_keys), "rc": impl["rc"],
                "stderr": impl["stderr"][-300:], "yield": None, "wall": impl["wall"], "gofunc": sum(1 for p in sp.procs() if p.gofunc)}
    finally:
        sc.close()


def interrupted_case(args):
    """outputs left by an interrupted run: kill right after a rename of FinalizePaths, run again in place (without cleaning):
    whatever the re-run does (it refuses), the files that were final keep inode, mtime and bytes"""
    seed, i = args
    rng = random.Random(seed * 15485867 + i)
    sp = t3.gen_workflow(rng, maxlen=3, multi_out=True, nproc=rng.randint(1, 3))
    model = t3.run_model(sp.text())
    if model["status"] != "done" or model["failed"] or not model["tasks"]:
        return None
    declared = {o[2] for t in model["tasks"] for o in t["outs"] if not o[1]}
    sc = t3.Scratch()
    try:
        sc.plant(sp.files)
        k = rng.randint(1, max(1, len(declared)))
        r1 = t3.run_impl(sc, sp, crash="%s:%d" % (rng.choice(["fin.after_rename", "fin.before_removeall", "exec.after_finalize"]), k), timeout=60)
        before = {p: (v[2], v[3], v[1]) for p, v in r1["fs"].items() if v[0] == "f" and p in declared}
        r2 = t3.run_impl(sc, sp, timeout=60)
        after = {p: (v[2], v[3], v[1]) for p, v in r2["fs"].items() if v[0] == "f" and p in declared}
        problems = []
        for p, st in before.items():
            if after.get(p) != st:
                problems.append(("existing-output-modified", "output %r, finalized before the run was interrupted, changed (inode, mtime, bytes) when the workflow was run again: %s -> %s" % (p, st[:2], (after.get(p) or (None, None))[:2])))
        return {"spec": sp.text(), "bufsize": sp.bufsize, "problems": problems[:3], "ntasks": len(model["tasks"]), "nskip": len(before), "rc": r2["rc"], "stderr": r2["stderr"][-200:],
                "yield": None, "wall": r2["wall"], "gofunc": 0}
    finally:
        sc.close()


def tagged_rerun_case(args):
    """re-run in place of a workflow in which an out-port is fanned out to a tagging component (MapToTags) and, directly, to a
    process whose default output name depends on the tags it sees: the second run executes no command and changes no file"""
    seed, i = args
    rng = random.Random(seed * 15485917 + i)
    hx = t3.hx
    sp = t3.Spec(maxtasks=rng.randint(1, 3), bufsize=rng.choice([1, 2, 128]))
    L = rng.randint(1, 3)
    paths = ["t%d.txt" % j for j in range(L)]
    for p in paths:
        sp.files[p] = p + "\n"
    s = sp.src("src", paths)
    make = sp.proc(t3.Proc("make", kind="cattok", ins=[("a", [(s, "out")])], outs=[("o", "{i:a}.made")]))
    tg = sp.raw("COMP maptags %s %s %d %s" % (hx("tagger"), hx("sample"), make, hx("o")))
    proc = sp.proc(t3.Proc("proc", kind="cat", ins=[("a", [(tg, "out")])], outs=[("o", "{i:a}.proc")]))
    # merge reads the tagged branch and, directly, the original out-port; its output name is the default one (tags included)
    # or is built from the tag explicitly
    sp.proc(t3.Proc("merge", kind="cat", ins=[("x", [(proc, "o")]), ("y", [(make, "o")])],
                    outs=[("o", rng.choice([None, "{i:y}.{t:y.sample}.merged"]))]))
    sc = t3.Scratch()
    try:
        sc.plant(sp.files)
        r1 = t3.run_impl(sc, sp)
        problems = []
        if r1["rc"] != 0 or not r1["returned"]:
            problems.append(("unexpected-failure", r1["stderr"][-200:]))
        else:
            before = {p: (v[2], v[3], v[1]) for p, v in r1["fs"].items() if v[0] == "f" and not t3.IGNORED.match(p) and not p.endswith(".audit.json")}
            r2 = t3.run_impl(sc, sp)
            if r2["rc"] != 0 or not r2["returned"]:
                problems.append(("rerun-fails", "re-running the completed workflow exits %s: %s" % (r2["rc"], r2["stderr"][-200:])))
            ran = t3.started_keys(r2["trace"])
            if ran:
                problems.append(("rerun-executes", "re-running a completed workflow executed %s" % ran[:3]))
            after = {p: (v[2], v[3], v[1]) for p, v in r2["fs"].items() if v[0] == "f" and not t3.IGNORED.match(p) and not p.endswith(".audit.json")}
            new = sorted(set(after) - set(before))
            if new:
                problems.append(("rerun-creates", "re-running a completed workflow created %s" % new[:3]))
            ch = [p for p in before if before[p] != after.get(p)]
            if ch:
                problems.append(("rerun-modifies", "re-running a completed workflow changed %s" % ch[:3]))
        return {"spec": sp.text(), "bufsize": sp.bufsize, "problems": problems[:3], "ntasks": 3 * L, "nskip": 3 * L, "rc": r1["rc"], "stderr": r1["stderr"][-200:],
                "yield": None, "wall": r1["wall"], "gofunc": 0}
    finally:
        sc.close()


def dir_output_rerun_case(args):
    """a task whose declared output is a directory (FinalizePaths renames files and directories alike): when the workflow is run
    again in place the directory exists, so the command is not executed, nothing changes, downstream still proceeds"""
    seed, i = args
    rng = random.Random(seed * 15485927 + i)
    sp = t3.Spec(maxtasks=rng.randint(1, 3), bufsize=rng.choice([1, 128]))
    L = rng.randint(1, 3)
    paths = ["d%d.txt" % j for j in range(L)]
    for p in paths:
        sp.files[p] = p + "\n"
    s = sp.src("src", paths)
    a = sp.proc(t3.RawProc("unpack", "echo unpack {i:a} >> ../ran.log && mkdir {o:parts} && cp {i:a} {o:parts}/part1.txt && echo extra > {o:parts}/part2.txt",
                           ins=[("a", [(s, "out")])], outs=[("parts", "{i:a}.parts")]))
    sp.proc(t3.RawProc("collect", "echo collect {i:d} >> ../ran.log && cat {i:d}/part1.txt {i:d}/part2.txt > {o:o}", ins=[("d", [(a, "parts")])], outs=[("o", "{i:d}.collected")]))
    sc = t3.Scratch()
    try:
        sc.plant(sp.files)
        r1 = t3.run_impl(sc, sp)
        problems = []
        if r1["rc"] != 0 or not r1["returned"]:
            problems.append(("unexpected-failure", r1["stderr"][-200:]))
        else:
            def stamp(fs):
                return {p: (v[0], v[2], v[3], v[1]) for p, v in fs.items() if not t3.IGNORED.match(p) and not p.endswith(".audit.json") and p != "ran.log"}
            before = stamp(r1["fs"])
            ran1 = r1["fs"]["ran.log"][1] if "ran.log" in r1["fs"] else ""
            # sometimes the final outputs are removed first: the directory-valued ones must still be taken from disk
            if i % 2:
                for p in paths:
                    os.remove(os.path.join(sc.work, p + ".parts.collected"))
            r2 = t3.run_impl(sc, sp)
            ran2 = (r2["fs"]["ran.log"][1] if "ran.log" in r2["fs"] else "")[len(ran1):]
            if r2["rc"] != 0 or not r2["returned"]:
                problems.append(("rerun-fails", "re-running the workflow whose directory-valued outputs exist exits %s: %s" % (r2["rc"], r2["stderr"][-200:])))
            if "unpack" in ran2:
                problems.append(("rerun-executes", "the command of a task whose (directory-valued) output exists was executed again: %s" % ran2.split("\n")[:2]))
            after = stamp(r2["fs"])
            ch = [p for p in before if ".parts" in p and not p.endswith(".collected") and before[p] != after.get(p)]
            if ch:
                problems.append(("existing-output-modified", "existing directory-valued outputs changed on re-run: %s" % ch[:3]))
            if t3.leftovers(r2["fs"]):
                problems.append(("rerun-leftovers", "temp dirs left after the re-run: %s" % t3.leftovers(r2["fs"])[:2]))
        return {"spec": sp.text(), "bufsize": sp.bufsize, "problems": problems[:3], "ntasks": 2 * L, "nskip": L, "rc": r1["rc"], "stderr": r1["stderr"][-200:],
                "yield": None, "wall": r1["wall"], "gofunc": 0}
    finally:
        sc.close()


def setout_only_case(args):
    """an out-port that is declared through SetOut only -- the command names its result file itself, there is no {o:...}
    placeholder for it: when that file exists (planted before the first run, or left by a first run) the command is not
    executed, the file keeps inode, mtime and bytes, and the downstream process still gets it"""
    seed, i = args
    rng = random.Random(seed * 15485933 + i)
    sp = t3.Spec(maxtasks=rng.randint(1, 3), bufsize=rng.choice([1, 128]))
    L = rng.randint(1, 3)
    paths = ["so%d.txt" % j for j in range(L)]
    for p in paths:
        sp.files[p] = p + "\n"
    s = sp.src("src", paths)
    a = sp.proc(t3.RawProc("indexer", "echo indexer {i:a} >> ../ran.log && echo index of {i:a} > {i:a|basename}.idx",
                           ins=[("a", [(s, "out")])], outs=[("idx", "{i:a|basename}.idx")]))
    sp.proc(t3.RawProc("user", "echo user {i:in} >> ../ran.log && cat {i:in} > {o:o}", ins=[("in", [(a, "idx")])], outs=[("o", "{i:in}.used")]))
    planted = (i % 2 == 0)
    if planted:
        sp.files[paths[0] + ".idx"] = "PRECOMPUTED INDEX\n"
    sc = t3.Scratch()
    try:
        sc.plant(sp.files)
        st0 = stamps(t3.snapshot_dir(sc.work), [paths[0] + ".idx"]) if planted else {}
        r1 = t3.run_impl(sc, sp)
        problems = []
        log1 = r1["fs"]["ran.log"][1] if "ran.log" in r1["fs"] else ""
        if r1["rc"] != 0 or not r1["returned"]:
            problems.append(("unexpected-failure", r1["stderr"][-200:]))
        else:
            if planted:
                if "indexer ../%s" % paths[0] in log1:
                    problems.append(("skipped-task-executed", "the output %s.idx of the task existed (declared through SetOut only), yet its command was executed" % paths[0]))
                if stamps(r1["fs"], [paths[0] + ".idx"]) != st0:
                    problems.append(("existing-output-modified", "pre-existing output %s.idx changed (inode, mtime, bytes)" % paths[0]))
                if t3.data_files(r1["fs"]).get(paths[0] + ".idx.used") != "PRECOMPUTED INDEX\n":
                    problems.append(("downstream", "the downstream task did not get the existing file"))
            before = {p: (v[2], v[3], v[1]) for p, v in r1["fs"].items() if v[0] == "f" and not t3.IGNORED.match(p) and not p.endswith(".audit.json") and p != "ran.log"}
            r2 = t3.run_impl(sc, sp)
            log2 = (r2["fs"]["ran.log"][1] if "ran.log" in r2["fs"] else "")[len(log1):]
            if r2["rc"] != 0 or not r2["returned"]:
                problems.append(("rerun-fails", "re-running the completed workflow exits %s: %s" % (r2["rc"], r2["stderr"][-200:])))
            if log2.strip():
                problems.append(("rerun-executes", "re-running a completed workflow executed %s" % log2.split("\n")[:3]))
            after = {p: (v[2], v[3], v[1]) for p, v in r2["fs"].items() if v[0] == "f" and not t3.IGNORED.match(p) and not p.endswith(".audit.json") and p != "ran.log"}
            ch = [p for p in before if before[p] != after.get(p)]
            if ch:
                problems.append(("rerun-modifies", "re-running a completed workflow changed %s" % ch[:3]))
        return {"spec": sp.text(), "bufsize": sp.bufsize, "problems": problems[:3], "ntasks": 2 * L, "nskip": L, "rc": r1["rc"], "stderr": r1["stderr"][-200:],
                "yield": None, "wall": r1["wall"], "gofunc": 0}
    finally:
        sc.close()


def archived_output_case(args):
    """a finished result is moved to an archive directory and a symbolic link is left at its path (or a precomputed file is
    linked into the working directory): the declared output exists, through the link; a run in place executes no command for
    it, the link and its target keep inode, mtime and bytes, and the downstream process gets the file"""
    seed, i = args
    rng = random.Random(seed * 15485939 + i)
    sp = t3.Spec(maxtasks=rng.randint(1, 3), bufsize=rng.choice([1, 128]))
    L = rng.randint(1, 3)
    paths = ["ar%d.txt" % j for j in range(L)]
    for p in paths:
        sp.files[p] = p + "\n"
    s = sp.src("src", paths)
    a = sp.proc(t3.RawProc("gen", "echo gen {i:a} >> ../ran.log && cat {i:a} > {o:o} && echo generated >> {o:o}", ins=[("a", [(s, "out")])], outs=[("o", "{i:a}.res")]))
    sp.proc(t3.RawProc("cpy", "echo cpy {i:in} >> ../ran.log && cat {i:in} > {o:o}", ins=[("in", [(a, "o")])], outs=[("o", "{i:in}.cpy")]))
    sc = t3.Scratch()
    try:
        sc.plant(sp.files)
        problems = []
        mode = ["archive-after-first-run", "precomputed-link"][i % 2]
        os.makedirs(os.path.join(sc.work, "store"))
        if mode == "archive-after-first-run":
            r0 = t3.run_impl(sc, sp)
            if r0["rc"] != 0:
                problems.append(("unexpected-failure", r0["stderr"][-200:]))
            for p in paths:
                os.rename(os.path.join(sc.work, p + ".res"), os.path.join(sc.work, "store", p + ".res"))
                os.symlink(os.path.join("store", p + ".res") if rng.random() < 0.5 else os.path.join(sc.work, "store", p + ".res"), os.path.join(sc.work, p + ".res"))
                for f in (p + ".res.cpy", p + ".res.cpy.audit.json"):
                    try:
                        os.remove(os.path.join(sc.work, f))
                    except OSError:
                        pass
            want = {p: sp.files[p] + "generated\n" for p in paths}
        else:
            for p in paths:
                open(os.path.join(sc.work, "store", p + ".res"), "w").write("PRECOMPUTED %s\n" % p)
                os.symlink(os.path.join("store", p + ".res"), os.path.join(sc.work, p + ".res"))
            want = {p: "PRECOMPUTED %s\n" % p for p in paths}
        def lstamps():
            out = {}
            for p in paths:
                for q in (p + ".res", os.path.join("store", p + ".res")):
                    st = os.lstat(os.path.join(sc.work, q))
                    out[q] = (st.st_ino, st.st_mtime_ns, st.st_mode, st.st_size)
            return out
        st0 = lstamps()
        log0 = open(os.path.join(sc.work, "ran.log")).read() if os.path.exists(os.path.join(sc.work, "ran.log")) else ""
        r1 = t3.run_impl(sc, sp)
        log1 = (open(os.path.join(sc.work, "ran.log")).read() if os.path.exists(os.path.join(sc.work, "ran.log")) else "")[len(log0):]
        if r1["rc"] != 0 or not r1["returned"]:
            problems.append(("rerun-fails", "the run in place exits %s: %s" % (r1["rc"], r1["stderr"][-200:])))
        else:
            if "gen " in log1:
                problems.append(("skipped-task-executed", "the output of `gen` exists (a symbolic link to the archived file), yet its command was executed: %s" % log1.split("\n")[:2]))
            try:
                st1 = lstamps()
            except OSError as e:
                st1 = {"error": str(e)}
            if st1 != st0:
                ch = sorted(k for k in st0 if st1.get(k) != st0[k])
                problems.append(("existing-output-modified", "the existing output (link or its target) changed inode / mtime / mode / size: %s" % ch[:3]))
            files = t3.data_files(r1["fs"])
            for p in paths:
                if files.get(p + ".res.cpy") != want[p]:
                    problems.append(("downstream", "the downstream task did not get the existing file: %s.res.cpy is %r" % (p, files.get(p + ".res.cpy"))))
                    break
        return {"spec": sp.text(), "bufsize": sp.bufsize, "problems": problems[:3], "ntasks": 2 * L, "nskip": L, "rc": r1["rc"], "stderr": r1["stderr"][-200:],
                "yield": None, "wall": r1["wall"], "gofunc": 0}
    finally:
        sc.close()


def run(rep, tier, seed):
    proved = vlib.prove(rep, MODULE, THEOREMS)
    ok, msg = vlib.build_ocaml()
    if not ok:
        raise RuntimeError("extraction/driver build failed: " + msg[-1500:])
    n = 100 if tier == "quick" else 2000
    results = [r for r in t3.run_many(case, [(seed, i) for i in range(n)]) if r]
    results += [r for r in t3.run_many(interrupted_case, [(seed, i) for i in range(n // 4)]) if r]
    results += t3.run_many(setout_only_case, [(seed, i) for i in range(n // 12)])
    results += t3.run_many(archived_output_case, [(seed, i) for i in range(n // 12)])
    results += t3.run_many(dir_output_rerun_case, [(seed, i) for i in range(n // 12)])
    results += [r for r in t3.run_many(tagged_rerun_case, [(seed, i) for i in range(n // 10)]) if r]
    results += t3.run_many(ks.ks_case, [(seed, i, ("rerun",)) for i in range(n // 8)])
    t3.report_t3(rep, MODULE, proved, results, "T3 planted outputs / re-run")
    rep.cov["evaluations"] = len(results) * 2
    rep.cov["distinct_nontrivial"] = len({r["spec"] for r in results if r["nskip"] >= 1})
    rep.cov["rule"] = "random workflows (shell and Go-function processes); the outputs of a random subset of tasks are pre-created with arbitrary bytes; run on the real library: file set and bytes equal the model's prediction computed from the planted bytes, no command of a skipped task in the trace, (inode, mtime-ns, bytes) of planted files unchanged; then the completed workflow is run again in place: no command, no file changed; workflows with directory-valued outputs run twice in place; out-ports declared through SetOut only (no placeholder in the command), planted or re-run; workflows in which a fanned-out port feeds a tagging component and a process whose output name depends on the tags are run twice in place (no command, no new or changed file in the second run); non-trivial = at least one task skipped"
    rep.cov["rule"] += "; plus kitchen-sink workflows (tools/ks.py: random workflows decorated with tagging components, sub-streams, Concatenator / FileSplitter, streamed pairs, component parameter feeders, Go-function and multi-core processes, RunTo) judged by the model-free re-run oracle"
    rep.cov["samples"] = [results[0]["spec"]]
    rep.notes["input_distribution"] = {"runs": len(results), "tasks": sum(r["ntasks"] for r in results), "skipped_tasks": sum(r["nskip"] for r in results),
                                       "gofunc_processes": sum(r["gofunc"] for r in results)}
    rep.assump += ["commands write only beneath their working directory (H-cmd)", "final paths of different tasks are pairwise distinct"]


def replay(r):
    return t3.replay_generic(r)
