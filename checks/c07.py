# C07 -- task slots are deadlock-free and work-conserving.
import random
from tools import vlib, t3
from checks import c06

MODULE = "PropC07"
THEOREMS = ["C07_code_conforms", "C07_progress", "C07_work_conserving", "C07_work_conserving_general", "C07_oversize_rejected_code", "C07_no_mutex_refuted", "C07_cone_conforms", "C07_spawn_never_waits_for_the_queue", "C07_queue_work_conserving", "C07_capped_queue_refuted"]

RDV = ('touch "$VERIF_RDV/$$.{p:q}"; n=0; while [ $(ls "$VERIF_RDV" | wc -l) -lt %d ]; do sleep 0.01; n=$((n+1)); '
       'if [ $n -gt 800 ]; then echo RDV-TIMEOUT >&2; exit 3; fi; done')


def rendezvous_case(args):
    """k tasks of c cores each, k*c <= max: every command waits until all k have started -- they must run simultaneously"""
    seed, i = args
    rng = random.Random(seed * 122949829 + i)
    c = rng.randint(1, 3)
    k = rng.randint(2, 4)
    mx = k * c + rng.randint(0, 2)
    sp = t3.Spec(maxtasks=mx, bufsize=rng.choice([1, 128]))
    sp.proc(t3.Proc("rdv", kind="write", pars=[("q", ("V", ["v%d" % j for j in range(k)]))], outs=[("o", "rdv.{p:q}.txt")], cores=c, pre=RDV % k))
    ys = (rng.randint(1, 10**6), 2000) if rng.random() < 0.6 else None
    r = t3.success_case(sp, yield_seed=ys, timeout=60, replays=("slots",))
    r["probs2"] = [("not-simultaneous", "%d tasks of %d cores fit into %d slots but did not all execute at the same time (rendezvous timed out): %s" % (k, c, mx, r["stderr"][-120:]))] if r["rc"] != 0 else []
    r["problems"] = r["probs2"] or r["problems"]
    r["kind"] = "rendezvous"
    return r


def wake_all_case(args):
    """a multi-core task releases several slots at once: all waiting tasks that fit must then run together.
    gate (2 x 1 core) -> small (2 x 1 core, rendezvous of 2); hold (m cores, m = max) competes from the start"""
    seed, i = args
    rng = random.Random(seed * 122949823 + i)
    k = rng.randint(2, 3)
    sp = t3.Spec(maxtasks=k, bufsize=rng.choice([1, 128]))
    vals = ["g%d" % j for j in range(k)]
    g = sp.proc(t3.Proc("gate", kind="write", pars=[("q", ("V", vals))], outs=[("o", "gate.{p:q}.txt")], cores=1, sleep="sleep 0.1"))
    sp.proc(t3.Proc("hold", kind="write", outs=[("o", "hold.txt")], cores=k, sleep="sleep 0.3"))
    rdv = RDV.replace("{p:q}", "{i:a|basename}") % k
    sp.proc(t3.Proc("small", kind="cat", ins=[("a", [(g, "o")])], outs=[("o", "{i:a}.small")], cores=1, pre=rdv))
    ys = (rng.randint(1, 10**6), 500) if rng.random() < 0.5 else None
    r = t3.success_case(sp, yield_seed=ys, timeout=60, replays=("slots",))
    if r["rc"] != 0:
        r["problems"] = [("not-simultaneous", "after a %d-core task released its slots, the %d waiting 1-core tasks did not all run at the same time (rendezvous timed out): %s" % (k, k, r["stderr"][-150:]))]
    r["kind"] = "wake-all"
    return r


def mixed_case(args):
    """tasks with different core counts compete, with delays between the individual token deposits: must terminate"""
    seed, i = args
    rng = random.Random(seed * 141650939 + i)
    sp, cores, mx = c06.build(rng)
    for p in sp.procs():
        p.sleep = "sleep 0.01"
    r = t3.success_case(sp, yield_seed=(rng.randint(1, 10**6), rng.choice([500, 3000])), timeout=90, replays=("slots",))
    r["kind"] = "mixed"
    return r


def head_blocked_case(args):
    """one process, more tasks than slots, the oldest task runs longest: while it runs, the slots freed by the later tasks
    must be used by the tasks still waiting (the oldest task itself waits until the last one has started)"""
    seed, i = args
    rng = random.Random(seed * 160481219 + i)
    mx = rng.randint(2, 4)
    n = mx + rng.randint(1, 3)
    sp = t3.Spec(maxtasks=mx, bufsize=rng.choice([1, 128]))
    vals = ["v%d" % j for j in range(n)]
    pre = ('case {p:q} in v0) n=0; while [ ! -e "$VERIF_RDV/late" ]; do sleep 0.01; n=$((n+1)); if [ $n -gt 800 ]; then echo RDV-TIMEOUT >&2; exit 3; fi; done;; '
           '%s) touch "$VERIF_RDV/late";; esac' % vals[-1])
    sp.proc(t3.Proc("hb", kind="write", pars=[("q", ("V", vals))], outs=[("o", "hb.{p:q}.txt")], cores=1, pre=pre))
    ys = (rng.randint(1, 10**6), 500) if rng.random() < 0.5 else None
    r = t3.success_case(sp, yield_seed=ys, timeout=60, replays=("slots",))
    if r["rc"] != 0:
        r["problems"] = [("slots-idle", "%d one-core tasks of one process on %d slots: while the oldest task was running, the last task was never started although the tasks in between had finished and freed their slots: %s" % (n, mx, r["stderr"][-150:]))]
    r["kind"] = "head-blocked"
    return r


def oversize_case(args):
    seed, i = args
    rng = random.Random(seed * 160481183 + i)
    mx = rng.randint(1, 3)
    sp = t3.Spec(maxtasks=mx, bufsize=2)
    sp.files["a.txt"] = "a\n"
    s = sp.src("src", ["a.txt"])
    big_cores = mx + rng.randint(1, 3)
    shape = i % 4
    if shape == 0:      # the only process
        sp.proc(t3.Proc("big", kind="cattok", ins=[("a", [(s, "out")])], outs=[("o", "{i:a}.big")], cores=big_cores))
    elif shape == 1:    # the last process of a chain, without out-ports: it runs in the caller's goroutine in place of the sink
        pre = sp.proc(t3.Proc("pre", kind="cattok", ins=[("a", [(s, "out")])], outs=[("o", "{i:a}.pre")]))
        sp.proc(t3.Proc("big", kind="cat", ins=[("a", [(pre, "o")])], outs=[], cores=big_cores))
    elif shape == 2:    # in the middle of a chain
        pre = sp.proc(t3.Proc("pre", kind="cattok", ins=[("a", [(s, "out")])], outs=[("o", "{i:a}.pre")]))
        big = sp.proc(t3.Proc("big", kind="cattok", ins=[("a", [(pre, "o")])], outs=[("o", "{i:a}.big")], cores=big_cores))
        sp.proc(t3.Proc("post", kind="cat", ins=[("a", [(big, "o")])], outs=[("o", "{i:a}.post")]))
    else:               # out-port-less, beside another branch
        sp.proc(t3.Proc("side", kind="cattok", ins=[("a", [(s, "out")])], outs=[("o", "{i:a}.side")]))
        sp.proc(t3.Proc("big", kind="cat", ins=[("a", [(s, "out")])], outs=[], cores=big_cores))
    sc = t3.Scratch()
    try:
        sc.plant(sp.files)
        impl = t3.run_impl(sc, sp, timeout=30)
        problems = []
        if impl["timed_out"] or "all goroutines are asleep" in (impl["stderr"] + impl["stdout"]):
            problems.append(("oversize-hangs", "a process asking for more cores than maxConcurrentTasks hangs (deadlock) instead of being rejected"))
        elif impl["rc"] == 0:
            problems.append(("oversize-accepted", "a process asking for more cores than maxConcurrentTasks ran to completion"))
        if any(k.startswith("big") for k in t3.started_keys(impl["trace"])):
            problems.append(("oversize-executed", "a command of the oversize process was executed"))
        return {"spec": sp.text(), "bufsize": 2, "problems": problems, "ntasks": 1, "rc": impl["rc"], "stderr": impl["stderr"][-200:], "yield": None, "wall": impl["wall"], "kind": "oversize"}
    finally:
        sc.close()


def run(rep, tier, seed):
    proved = vlib.prove(rep, MODULE, THEOREMS)
    ok, msg = vlib.build_ocaml()
    if not ok:
        raise RuntimeError("extraction/driver build failed: " + msg[-1500:])
    n = 24 if tier == "quick" else 400
    results = t3.run_many(rendezvous_case, [(seed, i) for i in range(n)])
    results += t3.run_many(mixed_case, [(seed, i) for i in range(n)])
    results += t3.run_many(wake_all_case, [(seed, i) for i in range(n // 2)])
    results += t3.run_many(head_blocked_case, [(seed, i) for i in range(n // 2)])
    results += t3.run_many(oversize_case, [(seed, i) for i in range(max(6, n // 4))])
    t3.report_t3(rep, MODULE, proved, results, "T3 rendezvous / mixed cores / oversize")
    rep.cov["evaluations"] = len(results)
    rep.cov["distinct_nontrivial"] = len({r["spec"] for r in results})
    rep.cov["rule"] = "rendezvous: k in 2..4 tasks of c in 1..3 cores with k*c <= max, each command waits (8 s bound) until all k have started, with seeded delays of up to 2 ms at every slot hook point (before the lock, after it, after each token deposit); mixed: 1-4 processes with different CoresPerTask competing under delays, must terminate and match the reference evaluator; head-blocked: one process with more one-core tasks than slots whose oldest task waits until the newest has started (slots freed by the tasks in between must be used); oversize (as the only process, as the out-port-less last process of a chain, in the middle of a chain, out-port-less beside another branch): CoresPerTask > max must exit non-zero without executing a command of that process; all cases distinct and non-trivial"
    rep.cov["samples"] = [results[0]["spec"]]
    kinds = {}
    for r in results:
        kinds[r["kind"]] = kinds.get(r["kind"], 0) + 1
    rep.notes["input_distribution"] = {"by_kind": kinds, "max_wall_s": round(max(r["wall"] for r in results), 2)}
    rep.assump += ["H-term: a started command eventually exits", "H-chan"]


def replay(r):
    return t3.replay_generic(r)
