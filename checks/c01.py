# C01 -- output files appear atomically: never partial, never from a failed command.
import os, random
from tools import vlib, t3

MODULE = "PropC01"
THEOREMS = ["C01_code_conforms", "C01_order_facts", "C01_atomic", "C01_failed_leaves_nothing", "C01_confined", "C01_nonvacuous", "C01_window_atomic", "C01_window_failed_leaves_nothing", "C01_window_nonvacuous", "C01_returning_fail_refuted", "C01_cone_conforms", "C01_copying_finalize_refuted"]
FAILKINDS = ["before", "partial", "afterfull", "omit", "signal"]


def workflows(rng, k):
    """a few workflows with multi-output tasks, sub-directories, parent-relative outputs, additional files, Go functions"""
    sp = t3.Spec(maxtasks=rng.randint(1, 3), bufsize=rng.choice([1, 2, 128]))
    L = rng.randint(1, 3)
    paths = ["in%d.txt" % j for j in range(L)]
    for p in paths:
        sp.files[p] = "content of %s\n" % p
    s = sp.src("src", paths)
    outpat = rng.choice(["{i:a}.w", "sub/dir/{i:a|basename}.w", "{i:a|%.txt}.w.txt"])
    a = sp.proc(t3.Proc("w", kind="cattok", ins=[("a", [(s, "out")])], outs=[("o", outpat), ("o2", "{i:a}.w2")],
                        extra=rng.choice([[], ["side.w.log"]]) if L == 1 else [], sleep="sleep 0.02"))
    g = sp.proc(t3.Proc("g", kind="cattok", ins=[("a", [(a, "o")])], outs=[("o", "{i:a}.g")], gofunc=(k % 2 == 0)))
    sp.proc(t3.Proc("z", kind="cat", ins=[("x", [(g, "o")]), ("y", [(a, "o2")])], outs=[("o", "{i:x}.z")]))
    return sp


def crash_case(args):
    spec_text_files, point, seed = args
    sp, model = spec_text_files
    sc = t3.Scratch()
    try:
        sc.plant(sp.files)
        impl = t3.run_impl(sc, sp, crash="%s:%d" % point if point else None, timeout=60)
        problems = t3.atomicity_problems(sp, model, impl["fs"])
        rstats = {}
        problems += t3.replay_problems(sp, model, impl, ("tasks",), stats=rstats, crash=point)
        return {"replay": rstats, "spec": sp.text(), "bufsize": sp.bufsize, "problems": problems, "point": point, "rc": impl["rc"], "stderr": impl["stderr"][-200:], "yield": None,
                "ntasks": len(model["tasks"]), "wall": impl["wall"], "kind": "crash"}
    finally:
        sc.close()


def fail_case(args):
    seed, i = args
    rng = random.Random(seed * 49979687 + i)
    sp = workflows(rng, i)
    base = t3.run_model(sp.text())
    victim = rng.choice([t for t in base["tasks"] if t["status"] == "run"])
    p = next(q for q in sp.procs() if q.name == victim["proc"])
    p.fail = rng.choice(FAILKINDS if not p.gofunc else ["before", "partial", "afterfull", "omit"])
    p.failkey = os.path.basename(victim["ins"][0][2][0])
    model = t3.run_model(sp.text())
    sc = t3.Scratch()
    try:
        sc.plant(sp.files)
        impl = t3.run_impl(sc, sp, timeout=60)
        problems = t3.atomicity_problems(sp, model, impl["fs"])
        rstats = {}
        problems += t3.replay_problems(sp, model, impl, ("tasks",), stats=rstats)
        return {"replay": rstats, "spec": sp.text(), "bufsize": sp.bufsize, "problems": problems, "point": None, "rc": impl["rc"], "stderr": impl["stderr"][-200:], "yield": None,
                "ntasks": len(model["tasks"]), "wall": impl["wall"], "kind": "fail-" + p.fail + ("-gofunc" if p.gofunc else "")}
    finally:
        sc.close()


def kill_case(args):
    seed, i, total = args
    rng = random.Random(seed * 67867967 + i)
    sp = workflows(rng, i)
    for q in sp.procs():
        q.sleep = "sleep 0.0%d" % rng.randint(2, 6)
    model = t3.run_model(sp.text())
    sc = t3.Scratch()
    try:
        sc.plant(sp.files)
        impl = t3.run_impl(sc, sp, kill_after=rng.uniform(0.01, 0.5), timeout=60)
        problems = t3.atomicity_problems(sp, model, impl["fs"])
        rstats = {}
        problems += t3.replay_problems(sp, model, impl, ("tasks",), stats=rstats)
        return {"replay": rstats, "spec": sp.text(), "bufsize": sp.bufsize, "problems": problems, "point": None, "rc": impl["rc"], "stderr": "", "yield": None,
                "ntasks": len(model["tasks"]), "wall": impl["wall"], "kind": "sigkill" if impl["killed"] else "completed-before-kill"}
    finally:
        sc.close()


def stale_case(args):
    """history: complete run; one output is deleted (its audit file stays, the usual way to force a re-computation);
    the re-run's command fails after a partial write (temp dir left behind); the workflow is started once more, as it is:
    whatever that run does, nothing but a complete output of a successful command may appear at the final path"""
    seed, i = args
    rng = random.Random(seed * 86028157 + i)
    sp = workflows(rng, i)
    model = t3.run_model(sp.text())
    victim = rng.choice([t for t in model["tasks"] if t["status"] == "run"])
    p = next(q for q in sp.procs() if q.name == victim["proc"])
    sc = t3.Scratch()
    try:
        sc.plant(sp.files)
        r1 = t3.run_impl(sc, sp, timeout=60)
        problems = []
        if r1["rc"] != 0:
            problems.append(("unexpected-failure", r1["stderr"][-200:]))
        for port, st, path in victim["outs"]:
            try:
                os.remove(os.path.join(sc.work, path))
            except OSError:
                pass
        p.fail = rng.choice(["partial", "signal"] if not p.gofunc else ["partial"])
        p.failkey = os.path.basename(victim["ins"][0][2][0])
        r2 = t3.run_impl(sc, sp, timeout=60)
        p.fail = "none"
        r3 = t3.run_impl(sc, sp, timeout=60)
        for tag, r in (("after the failing re-run", r2), ("after the run that followed it", r3)):
            problems += [(k, tag + ": " + m) for k, m in t3.atomicity_problems(sp, model, r["fs"])]
        return {"spec": sp.text(), "bufsize": sp.bufsize, "problems": problems, "point": None, "rc": r3["rc"], "stderr": r3["stderr"][-200:], "yield": None,
                "ntasks": len(model["tasks"]), "wall": r1["wall"], "kind": "stale-audit-history"}
    finally:
        sc.close()


def write_fault_case(args):
    """a Go-function task writes its output through FileIP.Write and the write(2) fails (disk full, quota exceeded, I/O error):
    the task has not finished successfully, so nothing may appear at the final path and the program must not report success"""
    seed, i = args
    rng = random.Random(seed * 86028167 + i)
    sp = workflows(rng, 2 * i)          # even k: the process g is a Go function
    model = t3.run_model(sp.text())
    sc0 = t3.Scratch()
    try:
        sc0.plant(sp.files)
        ref = t3.run_impl(sc0, sp, timeout=60)
    finally:
        sc0.close()
    from tools import replay as rp
    by_gid, by_dir, order = rp.task_events(ref["hooks"])
    gtasks = [d for d in order if d["proc"] == "g" and d["outs"]]
    if ref["rc"] != 0 or not gtasks:
        return None
    victim = rng.choice(gtasks)
    tmpfile = os.path.join(victim["dir"], os.path.normpath(victim["outs"][0][2]))
    err = rng.choice(["ENOSPC", "EDQUOT", "EIO"])
    sc = t3.Scratch()
    try:
        sc.plant(sp.files)
        impl = t3.run_impl(sc, sp, timeout=90, strace_fault=(tmpfile, err, 1))
        problems = t3.atomicity_problems(sp, model, impl["fs"])
        final = os.path.normpath(victim["outs"][0][2])
        v = impl["fs"].get(final)
        if v is not None and v[0] == "f":
            want = next((t["content"] for t in model["tasks"] if any(os.path.normpath(o[2]) == final for o in t["outs"])), None)
            if v[1] != want:
                problems.append(("partial-output", "the write of %s failed with %s, yet the final path holds %r" % (final, err, (v[1] or "")[:40])))
        if impl["rc"] == 0 and impl["returned"]:
            problems.append(("silent-failure", "a write(2) of a Go-function task's output failed with %s, yet the program reports completion (exit 0)" % err))
        return {"spec": sp.text(), "bufsize": sp.bufsize, "problems": problems, "point": None, "rc": impl["rc"], "stderr": impl["stderr"][-200:], "yield": None,
                "ntasks": len(model["tasks"]), "wall": impl["wall"], "kind": "write-fault-" + err}
    finally:
        sc.close()


def sigpipe_case(args):
    """a task with a streaming output and a regular output whose reader stops reading early (head): the writer is killed
    by SIGPIPE, the command has failed (bash: exit status 141), so the regular output must not appear at its final path
    and the program must not report success"""
    seed, i = args
    rng = random.Random(seed * 86028221 + i)
    sp = t3.Spec(maxtasks=rng.randint(2, 4), bufsize=rng.choice([1, 128]))
    n = rng.choice([200000, 1000000])
    k = rng.randint(1, 5)
    gen = sp.proc(t3.RawProc("gen", "seq 1 %d | tee {o:copy} > {os:stream}" % n, ins=[],
                             outs=[("copy", "seed.txt.copy"), ("stream", "seed.txt.stream")], stream_outs=["stream"]))
    sp.proc(t3.RawProc("first", rng.choice(["head -n %d {i:in} > {o:out}" % k, "grep -m %d . {i:in} > {o:out}" % k]),
                       ins=[("in", [(gen, "stream")])], outs=[("out", "{i:in}.first")]))
    sc = t3.Scratch()
    try:
        sc.plant(sp.files)
        impl = t3.run_impl(sc, sp, timeout=60)
        problems = []
        v = impl["fs"].get("seed.txt.copy")
        if v is not None:
            full = "".join("%d\n" % j for j in range(1, n + 1))
            if v[0] != "f" or v[1] != full:
                problems.append(("partial-output", "the command writing seed.txt.copy was killed by SIGPIPE (its stream reader stopped after %d lines), yet %d bytes (of %d) are at the final path" % (k, len(v[1] or ""), len(full))))
            else:
                problems.append(("output-of-failed-command", "the command writing seed.txt.copy was killed by SIGPIPE, yet its output is at the final path"))
        if impl["rc"] == 0 and impl["returned"]:
            problems.append(("silent-failure", "a command killed by SIGPIPE (exit status 141) is reported as success: the program exits 0"))
        return {"spec": sp.text(), "bufsize": sp.bufsize, "problems": problems, "point": None, "rc": impl["rc"], "stderr": impl["stderr"][-200:], "yield": None,
                "ntasks": 2, "wall": impl["wall"], "kind": "sigpipe-writer"}
    finally:
        sc.close()


def two_instances_case(args):
    """life cycle: the same workflow program is started a second time in the same directory while the first instance's command
    is still running (an impatient user, a cron job): whatever the second instance does -- it refuses -- the file that appears
    at the declared output path is the complete output of a command that finished successfully"""
    seed, i = args
    import threading, time
    rng = random.Random(seed * 86028233 + i)
    sp = t3.Spec(maxtasks=2, bufsize=128)
    d = rng.choice([6, 8, 10])
    n = rng.randint(1, 2)
    outs = []
    for k in range(n):
        sp.proc(t3.RawProc("slow%d" % k, "( echo begin; sleep 0.%d; echo end ) > {o:out}" % d, ins=[], outs=[("out", "slow%d.txt" % k)]))
        outs.append("slow%d.txt" % k)
    sc = t3.Scratch()
    try:
        sc.plant(sp.files)
        res = {}
        def first():
            res["a"] = t3.run_impl(sc, sp, timeout=60, hooks_on=False)
        th = threading.Thread(target=first)
        th.start()
        time.sleep(d / 20.0 + rng.uniform(0.0, 0.1))          # about half way through the first instance's command
        specp2 = None
        sc2root = sc.root
        # the second instance: same program, same directory (its bookkeeping files are kept apart from the first one's)
        import subprocess, os as _os
        spec2 = _os.path.join(sc.root, "SPEC2")
        open(spec2, "w").write(sp.text(with_files=False))
        env = dict(_os.environ, VERIF_TRACE=_os.path.join(sc.root, "trace2"), VERIF_RDV=_os.path.join(sc.root, "rdv2"))
        env.pop("SCIPIPE_VERIF_LOG", None)
        _os.makedirs(env["VERIF_RDV"], exist_ok=True)
        p2 = subprocess.Popen([_os.path.join(vlib.BIN, "wfrun"), spec2], cwd=sc.work, env=env, stdout=subprocess.PIPE, stderr=subprocess.PIPE, text=True)
        th.join()
        problems = []
        # the instant the first instance has ended (the second may still be running), and the end
        for when in ("when the first instance ended", "when both had ended"):
            fs = t3.snapshot_dir(sc.work)
            for o in outs:
                v = fs.get(o)
                if v is not None and v[1] != "begin\nend\n" and not problems:
                    problems.append(("partial-output", "two instances of the program in one directory (first exit %s): %s, %s holds %r, which is not the complete output of a command that finished" % (res["a"]["rc"], when, o, v[1])))
            if when.startswith("when the first"):
                try:
                    p2.communicate(timeout=60)
                except subprocess.TimeoutExpired:
                    p2.kill(); p2.communicate()
        if res["a"]["rc"] == 0 and any(o not in fs for o in outs):
            problems.append(("output-missing", "the first instance reports success but %s is missing" % [o for o in outs if o not in fs]))
        return {"spec": sp.text(), "bufsize": sp.bufsize, "problems": problems[:2], "point": None, "rc": res["a"]["rc"], "stderr": res["a"]["stderr"][-200:], "yield": None,
                "ntasks": n, "wall": res["a"]["wall"], "kind": "two-instances"}
    finally:
        sc.close()


def simultaneous_failures_case(args):
    """two tasks fail at nearly the same time; the first failure report is long (the command's captured output) and whoever
    reads the program's output is slow, so reporting it takes a while: the second task's command has failed meanwhile -- its
    (partial) output must still not appear at its final path"""
    seed, i = args
    import subprocess, threading, time, os as _os
    rng = random.Random(seed * 86028251 + i)
    sp = t3.Spec(maxtasks=4, bufsize=128)
    sp.log = rng.choice(["error", "warning", "audit"])      # errors go to stderr
    nb = rng.randint(1, 3)
    sp.proc(t3.RawProc("noisy", "head -c 3000000 /dev/zero | tr '\\0' 'x' ; echo ; exit 1", ins=[], outs=[("out", "noisy.out")]))
    for k in range(nb):
        sp.proc(t3.RawProc("late%d" % k, "printf partial > {o:out} ; sleep 0.%d ; exit 1" % rng.randint(5, 9), ins=[], outs=[("out", "late%d.out" % k)]))
    sc = t3.Scratch()
    try:
        sc.plant(sp.files)
        specp = _os.path.join(sc.root, "SPEC")
        open(specp, "w").write(sp.text(with_files=False))
        env = dict(_os.environ, VERIF_TRACE=_os.path.join(sc.root, "trace"), VERIF_RDV=_os.path.join(sc.root, "rdv"))
        env.pop("SCIPIPE_VERIF_LOG", None)
        _os.makedirs(env["VERIF_RDV"], exist_ok=True)
        p = subprocess.Popen([_os.path.join(vlib.BIN, "wfrun"), specp], cwd=sc.work, env=env, stdout=subprocess.PIPE, stderr=subprocess.PIPE, start_new_session=True)
        out_chunks = []
        th = threading.Thread(target=lambda: out_chunks.append(p.stdout.read()))
        th.start()
        # whoever reads the program's error output is slow: 64 KiB every 40 ms
        chunks = []
        while True:
            b = p.stderr.read1(65536)
            if not b:
                break
            chunks.append(b[-300:])
            time.sleep(0.04)
        err = b"".join(chunks[-2:])
        p.wait(timeout=30)
        th.join()
        out = out_chunks[0] if out_chunks else b""
        fs = t3.snapshot_dir(sc.work)
        problems = []
        for k in range(nb):
            v = fs.get("late%d.out" % k)
            if v is not None:
                problems.append(("output-of-failed-command", "%d tasks failed while an earlier failure was still being reported (3 MB of output, slow reader): the output of a command that exited 1 is at its final path late%d.out, holding %r" % (nb, k, v[1])))
                break
        if p.returncode == 0:
            problems.append(("silent-failure", "all commands failed, yet the program exits 0"))
        return {"spec": sp.text(), "bufsize": sp.bufsize, "problems": problems, "point": None, "rc": p.returncode, "stderr": err[-200:].decode("latin-1"), "yield": None,
                "ntasks": nb + 1, "wall": 2.0, "kind": "simultaneous-failures"}
    finally:
        sc.close()


def other_device_case(args):
    """the declared output lies on another file system than the working directory (a results directory that is a symbolic link
    to scratch storage): while the program is alive an observer polls the final path.  Either the run fails and nothing ever
    appears there (rename across devices is refused: what the library does today), or the file appears complete: a shorter
    file at the final path is a partial output"""
    seed, i = args
    import shutil, os as _os
    rng = random.Random(seed * 86028301 + i)
    other = t3.other_device_dir()
    if other is None:
        return {"spec": "", "bufsize": 0, "problems": [], "point": None, "rc": 0, "stderr": "", "yield": None, "ntasks": 0, "wall": 0, "kind": "other-device-skipped"}
    size = rng.choice([120, 200, 300]) * 1000 * 1000
    sp = t3.Spec(maxtasks=2, bufsize=128)
    sp.proc(t3.RawProc("big", "head -c %d /dev/zero > {o:o}" % size, ins=[], outs=[("o", "results/big.bin")]))
    sc = t3.Scratch()
    try:
        _os.symlink(other, _os.path.join(sc.work, "results"))
        r = t3.watched_run(sc, sp, "results/big.bin", size)
        problems = []
        if r["smallest_seen"] is not None and r["smallest_seen"] < size:
            problems.append(("partial-at-final-path", "the output results/big.bin (results -> a directory on another file system) was seen at its final path holding %d of %d bytes while the program was running" % (r["smallest_seen"], size)))
        if r["rc"] == 0 and r["final_size"] != size:
            problems.append(("wrong-size", "exit 0 but results/big.bin has %s of %d bytes" % (r["final_size"], size)))
        if r["rc"] != 0 and r["final_size"] is not None:
            problems.append(("output-of-failed-run", "the program exits %s, yet results/big.bin exists (%d bytes)" % (r["rc"], r["final_size"])))
        return {"spec": sp.text(), "bufsize": sp.bufsize, "problems": problems, "point": None, "rc": r["rc"], "stderr": r["out"][-200:], "yield": None,
                "ntasks": 1, "wall": 1.0, "kind": "other-device"}
    finally:
        sc.close()
        shutil.rmtree(other, ignore_errors=True)


def dir_output_case(args):
    """a task whose declared output is a directory that its command creates and fills (four files): the program is killed at a
    hook point of the finalization; the declared path is then either absent or holds all four files, complete"""
    (sp, point, seed) = args
    sc = t3.Scratch()
    try:
        sc.plant(sp.files)
        impl = t3.run_impl(sc, sp, crash="%s:%d" % point, timeout=60)
        problems = []
        fs = impl["fs"]
        for src in [p for p in sp.files]:
            d = src + ".parts"
            inside = {os.path.basename(q): v for q, v in fs.items() if os.path.dirname(q) == d and v[0] == "f" and not q.endswith(".audit.json")}
            if d in fs or inside:
                want = {"p%d.txt" % k: sp.files[src] + "%d\n" % k for k in (1, 2, 3, 4)}
                got = {n: v[1] for n, v in inside.items()}
                if got != want:
                    problems.append(("partial-directory-output", "killed at %s:%d: the declared output directory %s exists and holds %s of its 4 files%s" % (
                        point[0], point[1], d, len([n for n in got if got[n] == want.get(n)]), "" if set(got) <= set(want) else " and others")))
        return {"spec": sp.text(), "bufsize": sp.bufsize, "problems": problems[:2], "point": point, "rc": impl["rc"], "stderr": impl["stderr"][-200:], "yield": None,
                "ntasks": 2, "wall": impl["wall"], "kind": "directory-output"}
    finally:
        sc.close()


def run(rep, tier, seed):
    proved = vlib.prove(rep, MODULE, THEOREMS)
    ok, msg = vlib.build_ocaml()
    if not ok:
        raise RuntimeError("extraction/driver build failed: " + msg[-1500:])
    rng = random.Random(seed)
    nwf = 3 if tier == "quick" else 20
    cases = []
    npoints = 0
    for k in range(nwf):
        sp = workflows(rng, k)
        model = t3.run_model(sp.text())
        pts, ref = t3.hook_points(sp, sample_others=10, rng=rng)
        if ref["rc"] != 0:
            rep.violation("reference run of a C01 workflow fails: %s" % ref["stderr"][-300:], {"kind": "unexpected-failure", "spec": sp.text()})
        npoints += len(pts)
        cases += [((sp, model), pt, seed) for pt in pts]
    results = t3.run_many(crash_case, cases)
    results += t3.run_many(fail_case, [(seed, i) for i in range(40 if tier == "quick" else 600)])
    results += t3.run_many(kill_case, [(seed, i, 0) for i in range(40 if tier == "quick" else 1500)])
    results += t3.run_many(stale_case, [(seed, i) for i in range(16 if tier == "quick" else 300)])
    results += [r for r in t3.run_many(write_fault_case, [(seed, i) for i in range(8 if tier == "quick" else 120)]) if r]
    results += t3.run_many(simultaneous_failures_case, [(seed, i) for i in range(4 if tier == "quick" else 30)])
    results += t3.run_many(other_device_case, [(seed, i) for i in range(2 if tier == "quick" else 8)], workers=2)
    from checks import c03 as _c03
    dcases = []
    for k in range(1 if tier == "quick" else 5):
        dsp = _c03.dir_workflow(rng)
        dpts, dref = t3.hook_points(dsp, prefixes=("fin.",), rng=rng)
        dcases += [(dsp, pt, seed) for pt in dpts]
    results += t3.run_many(dir_output_case, dcases)
    results += t3.run_many(two_instances_case, [(seed, i) for i in range(4 if tier == "quick" else 40)])
    results += t3.run_many(sigpipe_case, [(seed, i) for i in range(4 if tier == "quick" else 40)])
    t3.report_t3(rep, MODULE, proved, results, "T3 crash-point / failure / SIGKILL enumeration")
    rep.cov["evaluations"] = len(results)
    rep.cov["distinct_nontrivial"] = len({(r["spec"], r["point"], r["kind"]) for r in results})
    rep.cov["rule"] = "fault enumeration on workflows with a two-output task (sub-directory / modified names, additional file), a Go-function or shell task and a two-input join: the process group is killed at every hit of every hook point of Task.Execute, FinalizePaths, Process.Run, createTasks and runProcs (plus a sample of port / slot points); one task fails in each of five ways (shell) or four (Go function); the process group is SIGKILLed at a random instant while commands run; a write(2) of a Go-function task's output is made to fail (ENOSPC / EDQUOT / EIO, injected with strace); several tasks failing while an earlier, long failure report is still being written to a slowly read output stream; the same program started a second time in the same directory while the first instance's command runs; a writer with a streaming and a regular output is killed by SIGPIPE because its reader stops early; histories run / delete an output but keep its audit file / re-run with a command that fails after a partial write / run again as it is; after each, every file at a declared output path must be the complete output of a successful command of its task, and nothing else may have appeared outside the temp dirs; every (workflow, point, kind) is distinct and non-trivial"
    rep.cov["samples"] = [{"point": results[5]["point"], "rc": results[5]["rc"]}, results[0]["spec"]]
    kinds = {}
    for r in results:
        kinds[r["kind"]] = kinds.get(r["kind"], 0) + 1
    rep.notes["input_distribution"] = {"workflows": nwf, "crash_points": npoints, "by_kind": kinds}
    rep.assump += ["H-cmd: a command writes only beneath its working directory", "H-rename: rename within one file system is atomic",
                   "distinct tasks have distinct temp dirs (C14) and pairwise distinct final paths"]


def replay(r):
    return t3.replay_generic(r)
