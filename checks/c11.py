# C11 -- provenance survives restarts.
import json, os, random, shutil
from tools import vlib, t3
from tools.vlib import hx
from checks import c03

MODULE = "PropC11"
THEOREMS = ["C11_code_conforms", "C11_resume_keeps_records", "C11_resume_same_lineage", "C11_store_is_lineage", "C11_roundtrip_tokens", "C11_roundtrip_strings", "C11_lexer_reads_rendering", "C11_roundtrip_bytes", "C11_roundtrip_bytes_example", "C11_cone_conforms"]


def workflow(rng, i):
    sp = t3.Spec(maxtasks=rng.randint(1, 3), bufsize=rng.choice([1, 2, 128]))
    L = rng.randint(1, 3)
    paths = ["in%d.txt" % j for j in range(L)]
    for p in paths:
        sp.files[p] = "content of %s\n" % p
    s = sp.src("src", paths)
    if i % 4 == 3:
        # sibling outputs of one task whose records differ (one of them is tagged), both ancestors of one file
        a = sp.proc(t3.Proc("w", kind="cattok", ins=[("a", [(s, "out")])], pars=[("q", ("V", ["p%d" % j for j in range(L)]))],
                            outs=[("l", "{i:a}.l.{p:q}"), ("r", "{i:a}.r.{p:q}")], sleep="sleep 0.01"))
        tg = sp.raw("COMP maptags %s %s %d %s" % (hx("tagger"), hx("side"), a, hx("l")))
        g = sp.proc(t3.Proc("g", kind="cattok", ins=[("a", [(tg, "out")]), ("b", [(a, "r")])], outs=[("o", "{i:a}.g")]))
        z = sp.proc(t3.Proc("z", kind="cat", ins=[("x", [(g, "o")])], outs=[("o", "{i:x}.z")]))
        return sp, [a, g, z]
    a = sp.proc(t3.Proc("w", kind="cattok", ins=[("a", [(s, "out")])], pars=[("q", ("V", ["p%d" % j for j in range(L)]))], outs=[("o", "{i:a}.w.{p:q}")], sleep="sleep 0.01"))
    if i % 2 == 0:
        tg = sp.raw("COMP maptags %s %s %d %s" % (hx("tagger"), hx("grp"), a, hx("o")))
        up = (tg, "out")
    else:
        up = (a, "o")
    g = sp.proc(t3.Proc("g", kind="cattok", ins=[("a", [up])], outs=[("o", "{i:a}.g")]))
    z = sp.proc(t3.Proc("z", kind="cat", ins=[("x", [(g, "o")])], outs=[("o", "{i:x}.z")]))
    return sp, [a, g, z]


def audit_files(fs):
    return {p: v[1] for p, v in fs.items() if v[0] == "f" and p.endswith(".audit.json")}


def lineage_problems(model, fs, before=None, tag="", ran=None):
    problems = []
    af = audit_files(fs)
    for t in model["tasks"]:
        for port, st, path in t["outs"]:
            if st:
                continue
            raw = af.get(path + ".audit.json")
            if raw is None:
                problems.append(("audit-missing", "%sno audit file next to %r" % (tag, path)))
                continue
            try:
                rec = t3.audit_norm(json.loads(raw))
            except ValueError:
                problems.append(("audit-invalid-json", "%saudit file of %r is not valid JSON after the history" % (tag, path)))
                continue
            if rec != model["audit"].get(path):
                problems.append(("lineage-differs", "%sthe record of %r after the resumed history differs from the uninterrupted run's lineage: %s vs %s" % (
                    tag, path, json.dumps(rec)[:400], json.dumps(model["audit"].get(path))[:400])))
    if before:
        for p, raw in before.items():
            # an ancestor record that was on disk before the resume and already was the final lineage (no tagging component still
            # to come) must be there afterwards, verbatim
            path = p[:-len(".audit.json")]
            try:
                was = t3.audit_norm(json.loads(raw))
            except ValueError:
                continue              # cut short by the kill; its task is re-executed
            if was == model["audit"].get(path) and p in af and af[p] != raw:
                try:
                    now = t3.audit_norm(json.loads(af[p]))
                except ValueError:
                    now = None
                if now != was:
                    problems.append(("ancestor-record-changed", "%saudit file %r changed its content across the resume" % (tag, p)))
                elif path in fs and ran is not None and not any(path in [o[2] for o in t["outs"]] and t["key"] in ran for t in model["tasks"]):
                    problems.append(("ancestor-record-rewritten", "%saudit file %r of a task that was not re-executed was rewritten with different bytes" % (tag, p)))
    return problems


def case(args):
    seed, i, mode, point = args
    rng = random.Random(seed * 413158511 + i)
    sp, procs = workflow(rng, i)
    model = t3.run_model(sp.text())
    sc = t3.Scratch()
    try:
        sc.plant(sp.files)
        problems = []
        if mode == "runto":
            # partial run with RunTo, then the full run
            sp1 = sp
            save = sp.runto
            sp.runto = [rng.choice(procs[:2])]
            r1 = t3.run_impl(sc, sp, timeout=60)
            sp.runto = save
            before = audit_files(r1["fs"])
            if r1["rc"] != 0:
                problems.append(("partial-run-fails", r1["stderr"][-200:]))
        elif mode == "strace":
            # kill inside a write(2) to the audit file of a finalized output (the tagging component rewrites it).  strace counts
            # `when=n` per thread, so the write is made the first one to that path in its run: the workflow is first run up to
            # the producer (RunTo), then as a whole under strace -- the producer is skipped, the tagger's write is the first
            save = sp.runto
            sp.runto = [procs[0]]
            r0 = t3.run_impl(sc, sp, timeout=60)
            sp.runto = save
            if r0["rc"] != 0:
                problems.append(("partial-run-fails", r0["stderr"][-200:]))
            r1 = t3.run_impl(sc, sp, strace_kill=(point[0], 1), timeout=60)
            c03.cleanup(sc.work)
            before = {}
        elif mode == "crash":
            r1 = t3.run_impl(sc, sp, crash="%s:%d" % point, timeout=60)
            c03.cleanup(sc.work)
            before = audit_files(t3.snapshot_dir(sc.work))
            if c03.mid_finalize(model, r1["fs"], sp.files):
                return None          # the shape of finding D2 (C03)
        else:
            # complete run, delete a downward-closed set of outputs (with their audit files), run again
            r1 = t3.run_impl(sc, sp, timeout=60)
            cut = rng.choice(["g", "z", "w"])
            order = ["w", "g", "z"]
            doomed = order[order.index(cut):]
            for t in model["tasks"]:
                if t["proc"] in doomed and rng.random() < 0.8:
                    for port, st, path in t["outs"]:
                        for f in (path, path + ".audit.json"):
                            if os.path.exists(os.path.join(sc.work, f)):
                                os.remove(os.path.join(sc.work, f))
            # a deleted producer whose consumer output survived is not downward closed: delete consumers of deleted files too
            changed = True
            while changed:
                changed = False
                for t in model["tasks"]:
                    ins = [p for _, _, ps in t["ins"] for p in ps]
                    if any(q not in sp.files and not os.path.exists(os.path.join(sc.work, q)) for q in ins):
                        for port, st, path in t["outs"]:
                            for f in (path, path + ".audit.json"):
                                if os.path.exists(os.path.join(sc.work, f)):
                                    os.remove(os.path.join(sc.work, f)); changed = True
            before = audit_files(t3.snapshot_dir(sc.work))
        r2 = t3.run_impl(sc, sp, timeout=60)
        if r2["rc"] != 0 or not r2["returned"]:
            problems.append(("resume-fails", "the resumed run exits %s: %s" % (r2["rc"], (r2["stderr"] + r2["log_tail"])[-400:])))
        else:
            problems += lineage_problems(model, r2["fs"], before, tag="[%s] " % mode, ran=set(t3.started_keys(r2["trace"])))
        return {"spec": sp.text(), "bufsize": sp.bufsize, "problems": problems[:4], "ntasks": len(model["tasks"]), "rc": r2["rc"], "stderr": r2["stderr"][-200:], "yield": None,
                "wall": r2["wall"], "mode": mode, "point": point}
    finally:
        sc.close()


def json_roundtrip(rng, n):
    """writing an audit record and reading it back loses nothing: Go's encoder / decoder and the Coq model on generated trees"""
    lines = []
    alphabet = ['a', 'B', '9', ' ', '"', '\\', '<', '>', '&', '/', '\n', '\t', '\r', '\x08', '\x0c', '{', '}', ':', ',', "'", '%', '\x01', '\x1f', '\x7f', '[', ']', 'u']
    def s():
        return "".join(rng.choice(alphabet) for _ in range(rng.randint(0, 8)))
    def when():
        if rng.random() < 0.3:
            return "0001-01-01T00:00:00Z"
        frac = rng.choice(["", ".5", ".000000123", ".123456789", ".25"])
        return "2026-0%d-1%dT0%d:%02d:%02d%sZ" % (rng.randint(1, 9), rng.randint(0, 9), rng.randint(0, 9), rng.randint(0, 59), rng.randint(0, 59), frac)
    def kv():
        d = {}
        for _ in range(rng.randint(0, 3)):
            d[s()] = s()
        return sorted(d.items())
    def rec(depth):
        ups = {}
        if depth > 0:
            for _ in range(rng.randint(0, 2)):
                ups[s()] = rec(depth - 1)
        neg = rng.random() < 0.2
        return (s(), s(), s(), kv(), kv(), when(), when(), neg, 1 if neg else rng.randint(0, 5000), kv(), sorted(ups.items()))
    def ser(r):
        i, proc, cmd, params, tags, st, fi, neg, ex, outs, ups = r
        f = lambda l: "%d%s" % (len(l), "".join(" %s %s" % (hx(a), hx(b)) for a, b in l))
        return "%s %s %s %s %s %s %s %d %d %s %d%s" % (hx(i), hx(proc), hx(cmd), f(params), f(tags), hx(st), hx(fi), 1 if neg else 0, ex, f(outs), len(ups),
                                                      "".join(" %s %s" % (hx(p), ser(u)) for p, u in ups))
    for _ in range(n):
        lines.append(ser(rec(rng.randint(0, 3))))
    return lines


RawProc = t3.RawProc


def dir_output_case(args):
    """a task whose output is a directory; the final output and its audit file are deleted and the workflow is run again
    (everything upstream is taken from disk): the new record equals the old one up to IDs and times, and the ancestor's
    audit file on disk is untouched"""
    seed, i = args
    rng = random.Random(seed * 413158523 + i)
    sp = t3.Spec(maxtasks=rng.randint(1, 3), bufsize=rng.choice([1, 128]))
    L = rng.randint(1, 3)
    paths = ["d%d.txt" % j for j in range(L)]
    for p in paths:
        sp.files[p] = p + "\n"
    s = sp.src("src", paths)
    a = sp.proc(RawProc("unpack", "mkdir {o:parts} && cp {i:a} {o:parts}/part1.txt && echo extra > {o:parts}/part2.txt",
                        ins=[("a", [(s, "out")])], outs=[("parts", "{i:a}.parts")]))
    b = sp.proc(RawProc("collect", "cat {i:d}/part1.txt {i:d}/part2.txt > {o:o}", ins=[("d", [(a, "parts")])], outs=[("o", "{i:d}.collected")]))
    if rng.random() < 0.5:
        sp.proc(RawProc("final", "cat {i:c} > {o:o}", ins=[("c", [(b, "o")])], outs=[("o", "{i:c}.final")]))
        last = ".parts.collected.final"
    else:
        last = ".parts.collected"
    sc = t3.Scratch()
    try:
        sc.plant(sp.files)
        r1 = t3.run_impl(sc, sp)
        problems = []
        if r1["rc"] != 0:
            return {"spec": sp.text(), "bufsize": sp.bufsize, "problems": [("unexpected-failure", r1["stderr"][-200:])], "ntasks": L, "rc": r1["rc"], "stderr": r1["stderr"][-200:], "yield": None, "wall": r1["wall"], "mode": "dir-output", "point": None}
        first, disk = {}, {}
        for p in paths:
            v = r1["fs"].get(p + last + ".audit.json")
            first[p] = t3.audit_norm(json.loads(v[1])) if v and v[0] == "f" else None
            w = r1["fs"].get(p + ".parts.audit.json")
            disk[p] = w[1] if w else None
            for suffix in ("", ".audit.json"):
                try:
                    os.remove(os.path.join(sc.work, p + last + suffix))
                except OSError:
                    pass
        r2 = t3.run_impl(sc, sp)
        if r2["rc"] != 0:
            problems.append(("resume-fails", "the resumed run exits %s: %s" % (r2["rc"], r2["stderr"][-200:])))
        for p in paths:
            v = r2["fs"].get(p + last + ".audit.json")
            second = t3.audit_norm(json.loads(v[1])) if v and v[0] == "f" else None
            if first[p] is None or second != first[p]:
                problems.append(("lineage-differs", "the record of %s after the resumed run differs from the uninterrupted run's: %s vs %s" % (
                    p + last, json.dumps(second, sort_keys=True)[:400], json.dumps(first[p], sort_keys=True)[:400])))
            w = r2["fs"].get(p + ".parts.audit.json")
            if (w[1] if w else None) != disk[p]:
                problems.append(("ancestor-record-changed", "the audit file of the directory output %s.parts changed on disk during the resumed run" % p))
        return {"spec": sp.text(), "bufsize": sp.bufsize, "problems": problems[:4], "ntasks": L, "rc": r2["rc"], "stderr": r2["stderr"][-200:], "yield": None, "wall": r1["wall"],
                "mode": "dir-output", "point": None}
    finally:
        sc.close()


def linked_output_case(args):
    """a task whose output is a symbolic link to an earlier file of the lineage (`ln -s $(realpath in) out` -- the "latest"
    or "picked" link); the final output and its audit file are deleted and the workflow is run again, everything upstream
    being taken from disk: the new record equals the old one up to IDs and times (the linking step is in the lineage, with
    the record that lies next to the link), and the ancestors' audit files are untouched"""
    seed, i = args
    rng = random.Random(seed * 413158547 + i)
    sp = t3.Spec(maxtasks=rng.randint(1, 3), bufsize=rng.choice([1, 128]))
    L = rng.randint(1, 3)
    paths = ["k%d.txt" % j for j in range(L)]
    for p in paths:
        sp.files[p] = p + "\n"
    s = sp.src("src", paths)
    a = sp.proc(RawProc("make", "cat {i:a} > {o:o} && echo made >> {o:o}", ins=[("a", [(s, "out")])], outs=[("o", "{i:a}.raw")]))
    how = rng.choice(["ln -s $(realpath {i:a}) {o:o}", "cp {i:a} {o:o}.v1 && ln -s $(basename {o:o}).v1 {o:o}"])
    b = sp.proc(RawProc("pick", how, ins=[("a", [(a, "o")])], outs=[("o", "{i:a}.picked")]))
    sp.proc(RawProc("final", "cat {i:c} > {o:o}", ins=[("c", [(b, "o")])], outs=[("o", "{i:c}.final")]))
    last = ".raw.picked.final"
    sc = t3.Scratch()
    try:
        sc.plant(sp.files)
        r1 = t3.run_impl(sc, sp)
        problems = []
        if r1["rc"] != 0:
            return {"spec": sp.text(), "bufsize": sp.bufsize, "problems": [("unexpected-failure", r1["stderr"][-200:])], "ntasks": 3 * L, "rc": r1["rc"], "stderr": r1["stderr"][-200:], "yield": None, "wall": r1["wall"], "mode": "linked-output", "point": None}
        first, disk = {}, {}
        for p in paths:
            v = r1["fs"].get(p + last + ".audit.json")
            first[p] = t3.audit_norm(json.loads(v[1])) if v and v[0] == "f" else None
            for anc in (".raw", ".raw.picked"):
                w = r1["fs"].get(p + anc + ".audit.json")
                disk[p + anc] = w[1] if w else None
            for suffix in ("", ".audit.json"):
                try:
                    os.remove(os.path.join(sc.work, p + last + suffix))
                except OSError:
                    pass
        r2 = t3.run_impl(sc, sp)
        if r2["rc"] != 0:
            problems.append(("resume-fails", "the resumed run exits %s: %s" % (r2["rc"], r2["stderr"][-200:])))
        for p in paths:
            v = r2["fs"].get(p + last + ".audit.json")
            second = t3.audit_norm(json.loads(v[1])) if v and v[0] == "f" else None
            if first[p] is None or second != first[p]:
                problems.append(("lineage-differs", "the output of `pick` is a symbolic link; the record of %s after the resumed run differs from the uninterrupted run's: %s vs %s" % (
                    p + last, json.dumps(second, sort_keys=True)[:400], json.dumps(first[p], sort_keys=True)[:400])))
            for anc in (".raw", ".raw.picked"):
                w = r2["fs"].get(p + anc + ".audit.json")
                if (w[1] if w else None) != disk[p + anc]:
                    problems.append(("ancestor-record-changed", "the audit file of %s changed on disk during the resumed run" % (p + anc)))
        return {"spec": sp.text(), "bufsize": sp.bufsize, "problems": problems[:4], "ntasks": 3 * L, "rc": r2["rc"], "stderr": r2["stderr"][-200:], "yield": None, "wall": r1["wall"],
                "mode": "linked-output", "point": None}
    finally:
        sc.close()


def resumed_pairing_case(args):
    """a partially completed workflow is resumed: outputs of later tasks of a process are on disk, an earlier one has to be
    recomputed (and is slow); a downstream process pairs that stream with a parameter stream by position.  The records of the
    newly produced files are those of an uninterrupted run: same commands, same upstream lineage"""
    seed, i = args
    rng = random.Random(seed * 413158561 + i)
    sp = t3.Spec(maxtasks=rng.randint(2, 4), bufsize=rng.choice([1, 2, 128]))
    L = rng.randint(3, 6)
    paths = ["rp%d.txt" % j for j in range(L)]
    for p in paths:
        sp.files[p] = p + "\n"
    s = sp.src("src", paths)
    slow = 'sleep 0.$(( $(echo {i:a|basename} | tr -dc 0-9) == 0 ? 3 : 0 ))1'
    cp = sp.proc(t3.Proc("cp", kind="cat", ins=[("a", [(s, "out")])], outs=[("o", "{i:a}.cp")], sleep=slow))
    sp.proc(t3.Proc("pair", kind="cattok", ins=[("a", [(cp, "o")])], pars=[("q", ("V", ["k%d" % j for j in range(L)]))], outs=[("o", "{i:a}.{p:q}.pair")]))
    model = t3.run_model(sp.text())
    sc = t3.Scratch()
    try:
        sc.plant(sp.files)
        # first run: everything; then the first item's chain is removed (its cp output, the pair outputs of all items)
        r1 = t3.run_impl(sc, sp, timeout=60)
        problems = []
        if r1["rc"] != 0:
            problems.append(("unexpected-failure", r1["stderr"][-200:]))
        for f in list(os.listdir(sc.work)):
            if f.endswith(".pair") or f.endswith(".pair.audit.json") or f.startswith(paths[0] + ".cp"):
                os.remove(os.path.join(sc.work, f))
        r2 = t3.run_impl(sc, sp, timeout=60)
        if r2["rc"] != 0 or not r2["returned"]:
            problems.append(("resume-fails", "the resumed run exits %s: %s" % (r2["rc"], (r2["stderr"] + r2["log_tail"])[-400:])))
        else:
            problems += lineage_problems(model, r2["fs"], None, tag="[resumed, later siblings on disk] ")
        return {"spec": sp.text(), "bufsize": sp.bufsize, "problems": problems[:4], "ntasks": len(model["tasks"]), "rc": r2["rc"], "stderr": r2["stderr"][-200:], "yield": None,
                "wall": r2["wall"], "mode": "resumed-pairing", "point": None}
    finally:
        sc.close()


def two_workflows_case(args):
    """one program, two Workflow objects set up in advance and run one after the other: the first produces (and tags) files, the
    second starts from them with a FileSource.  History: an earlier invocation stopped after the producer (RunTo) -- before
    the tagging component rewrote the audit file --, then the whole program runs.  The records of the files the second
    workflow produces embed, for every ancestor, the record that is on disk, and equal those of an uninterrupted run"""
    seed, i = args
    rng = random.Random(seed * 413158537 + i)
    L = rng.randint(1, 3)
    def program(partial):
        sp = t3.Spec(maxtasks=rng.choice([1, 2, 3]), bufsize=128)
        names = ["x%d" % j for j in range(L)]
        a = sp.proc(t3.RawProc("make", "echo {p:n} > {o:out}", ins=[], pars=[("n", ("V", names))], outs=[("out", "{p:n}.txt")]))
        sp.raw("COMP maptags %s %s %d %s" % (hx("tagger"), hx("kind"), a, hx("out")))
        if partial:
            sp.runto = [a]
            return sp
        sp.raw("NEXTWF")
        s = sp.src("again", ["%s.txt" % n for n in names])
        sp.proc(t3.RawProc("upper", "tr a-z A-Z < {i:in} > {o:out}", ins=[("in", [(s, "out")])], outs=[("out", "{i:in}.upper")]))
        return sp
    st = rng.getstate()
    full = program(False)
    rng.setstate(st)
    part = program(True)
    def records(fs):
        out = {}
        for p, v in fs.items():
            if v[0] == "f" and p.endswith(".audit.json"):
                try:
                    out[p[:-len(".audit.json")]] = t3.audit_norm(json.loads(v[1]))
                except ValueError:
                    out[p[:-len(".audit.json")]] = "INVALID"
        return out
    sc0, sc = t3.Scratch(), t3.Scratch()
    try:
        ref = t3.run_impl(sc0, full, timeout=60)
        r1 = t3.run_impl(sc, part, timeout=60)
        r2 = t3.run_impl(sc, full, timeout=60)
        problems = []
        if ref["rc"] != 0 or r1["rc"] != 0 or r2["rc"] != 0:
            problems.append(("unexpected-failure", "exit %s / %s / %s: %s" % (ref["rc"], r1["rc"], r2["rc"], (ref["stderr"] + r1["stderr"] + r2["stderr"])[-200:])))
        else:
            want, got = records(ref["fs"]), records(r2["fs"])
            for j in range(L):
                f = "x%d.txt.upper" % j
                if got.get(f) != want.get(f):
                    problems.append(("lineage-differs", "the record of %r after the resumed history differs from the uninterrupted run's: %s vs %s" % (f, json.dumps(got.get(f))[:300], json.dumps(want.get(f))[:300])))
                    break
                up = (got.get(f) or {}).get("Upstream", {}).get("x%d.txt" % j)
                if up != got.get("x%d.txt" % j):
                    problems.append(("ancestor-record-differs", "the record of x%d.txt embedded in %r is not the record on disk: %s vs %s" % (j, f, json.dumps(up)[:200], json.dumps(got.get("x%d.txt" % j))[:200])))
                    break
        return {"spec": full.text(), "bufsize": 128, "problems": problems, "mode": "two-workflows", "point": None, "ntasks": 2 * L, "rc": r2["rc"], "stderr": r2["stderr"][-200:], "yield": None, "wall": r2["wall"]}
    finally:
        sc0.close(); sc.close()


def run(rep, tier, seed):
    proved = vlib.prove(rep, MODULE, THEOREMS) if THEOREMS else True
    ok, msg = vlib.build_ocaml()
    if not ok:
        raise RuntimeError("extraction/driver build failed: " + msg[-1500:])
    rng = random.Random(seed)
    cases = []
    nw = 4 if tier == "quick" else 40
    for i in range(nw):
        sp, _ = workflow(random.Random(seed * 413158511 + i), i)
        pts, ref = t3.hook_points(sp, prefixes=("exec.", "fin.", "run."), rng=rng)
        for pt in (pts if tier != "quick" else rng.sample(pts, min(len(pts), 30))):
            cases.append((seed, i, "crash", pt))
        if i % 2 == 0:
            base = t3.run_model(sp.text())
            for t in base["tasks"]:
                if t["proc"] == "w":
                    cases.append((seed, i, "strace", (t["outs"][0][2] + ".audit.json", 1)))
        for k in range(6):
            cases.append((seed, i + 1000 * k, "runto", None))
            cases.append((seed, i + 1000 * k, "delete", None))
    results = [r for r in t3.run_many(case, cases) if r]
    results += t3.run_many(two_workflows_case, [(seed, i) for i in range(6 if tier == "quick" else 80)])
    results += t3.run_many(dir_output_case, [(seed, i) for i in range(6 if tier == "quick" else 80)])
    results += t3.run_many(linked_output_case, [(seed, i) for i in range(6 if tier == "quick" else 80)])
    results += t3.run_many(resumed_pairing_case, [(seed, i) for i in range(6 if tier == "quick" else 60)])
    found = t3.report_t3(rep, MODULE, proved, results, "T3 resumed histories: audit lineage vs the uninterrupted run")
    jl = json_roundtrip(rng, 300 if tier == "quick" else 5000)
    diffs, impl, model = vlib.t2_compare("json", jl)
    rep.notes["json_roundtrip_lines"] = len(jl)
    for a in impl:
        if not a.endswith(" RT") and not found:
            rep.violation("Go's own audit-record round trip (MarshalIndent, Unmarshal, MarshalIndent) is not the identity: %s" % a[-40:], {"kind": "json-roundtrip", "impl": a})
            found = True
            break
    if diffs and not found:
        i, a, b = diffs[0]
        rep.violation("the JSON model and encoding/json disagree on an audit record (bytes or round trip)", {"kind": "json-model", "input_line": jl[i] if i >= 0 else None,
                      "impl": vlib.unhx(a.split()[0]) if i >= 0 and a.split() else a, "model": vlib.unhx(b.split()[0]) if i >= 0 and b.split() else b}, nofail=True)
    rep.cov["evaluations"] = len(results) + rep.notes.get("json_roundtrip_lines", 0)
    rep.cov["distinct_nontrivial"] = len({(r["spec"], r["mode"], r["point"]) for r in results})
    rep.cov["rule"] = "three-stage workflows with a parameter stream and (every other one) a tagging component, executed as a history: partial RunTo then full Run; kill at a hook point of Task.Execute / FinalizePaths / Process.Run, clean up, run again; complete run, delete a downward-closed set of outputs with their audit files, run again. After each history every output's audit record (without IDs and times) must equal, recursively, the lineage of an uninterrupted run as computed by the Coq reference evaluator, and every audit file that was on disk before the resume must be unchanged (or differ only in ID / times if its task was re-executed)"
    rep.cov["samples"] = [results[0]["spec"]]
    modes = {}
    for r in results:
        modes[r["mode"]] = modes.get(r["mode"], 0) + 1
    rep.notes["input_distribution"] = {"histories": len(results), "by_mode": modes}
    rep.assump += ["finalize_atomic crash points (the complement is finding D2 of C03)", "H-ids"]


def replay(r):
    return t3.replay_generic(r)
