# C13 -- a file written at an output placeholder ends up exactly at the declared path.
import itertools, os, random
from tools import vlib, t3
from tools.vlib import hx, unhx

MODULE = "PropC13"
THEOREMS = ["C13_code_conforms", "C13_no_parent_in_temp_path", "C13_temp_path_relative", "C13_out_lands", "C13_temp_location", "C13_in_resolves", "C13_extra_files", "C13_temp_path_is_enc", "C13_out_lands_example", "C13_noncanonical_refuted", "C13_extra_placeholder_refuted", "C13_cone_conforms"]

SEGS = ["a", "b.c", "x_y", "o-1", "a..", "..b", "__parent__", "__fsroot__", "__parent__z", "."]


def grammar(depth):
    out = []
    for pre in ["", "./", "../", "../../", "/", "/tmp/"]:
        for d in range(1, depth + 1):
            for segs in itertools.product(SEGS[:6] if d > 2 else SEGS, repeat=d):
                out.append(pre + "/".join(segs))
    out += ["a//b", "a/./b", "a/../b", "x/../y/out.txt", "a/", "..", ".", "/", "../", "a b", "a$b", "", "é", "a\tb"]
    return out


def canonical(p):
    if not p or p.endswith("/"):
        return False
    q = p[2:] if p.startswith("./") else p
    if q.startswith("/"):
        segs = q[1:].split("/")
    else:
        segs = q.split("/")
        while segs and segs[0] == "..":
            segs = segs[1:]
    return bool(segs) and all(s not in ("", ".", "..") and not s.endswith("..") for s in segs)


def t3_case(args):
    shape, idx, seed = args
    rng = random.Random(seed * 1000 + idx)
    sc = t3.Scratch()
    try:
        out = shape.replace("@ABS@", sc.root + "/absdir")
        sp = t3.Spec(maxtasks=2, bufsize=rng.choice([1, 128]))
        inpath = rng.choice(["src.txt", "in/deep/src.txt", "../sib/src.txt", sc.root + "/absdir/src.txt"])
        sp.files[inpath] = "source-bytes\n"
        # destination directories of parent-relative / absolute paths must exist: plant a keeper file
        sp.files["../sib/keep"] = "k\n"
        sp.files[sc.root + "/absdir/keep"] = "k\n"
        sp.files["../keep0"] = "k\n"
        sp.files["../sib/new/keep"] = "k\n"
        s0 = sp.src("src", [inpath])
        extra = rng.choice([[], ["side.log"], ["sub/dir/side.log"], ["x.__fsr", "y..z"]])
        if shape == "extra-placeholder":
            out = "out.txt"
            extra = ["__parent__e.log"]          # a name that looks like the internal place-holder (shape of finding D16)
        if extra and shape != "extra-placeholder" and rng.random() < 0.5:
            # something already lies where an additional file belongs (the by-product of an earlier run, say):
            # what the command wrote must still end up there
            sp.files[extra[0]] = "OLD-BYPRODUCT\n"
        p1 = t3.Proc("w", kind="cattok", ins=[("a", [(s0, "out")])], outs=[("o", out)], extra=extra)
        i1 = sp.proc(p1)
        p2 = t3.Proc("r", kind="cat", ins=[("a", [(i1, "o")])], outs=[("o", "final.txt")])
        sp.proc(p2)
        model = t3.run_model(sp.text())
        sc.plant(sp.files)
        impl = t3.run_impl(sc, sp)
        content = "source-bytes\ntok_w\n"
        allfs = dict(impl["fs"]); allfs.update(impl["fs_outside"])
        def at(path):
            if path.startswith("/"):
                return open(path, encoding="latin-1").read() if os.path.isfile(path) else None
            v = allfs.get(os.path.normpath(path))
            return v[1] if v and v[0] == "f" else None
        res = {"shape": shape, "out": out, "in": inpath, "extra": extra, "rc": impl["rc"], "canonical": canonical(out)}
        problems = []
        known = set()
        ok = impl["rc"] == 0 and impl["returned"]
        if ok:
            if at(out) != content:
                problems.append("the file written at the out-placeholder is not at the declared path %r (found %r)" % (out, at(out)))
            if at("final.txt") != content:
                problems.append("the consumer did not read the produced file through its in-placeholder (final.txt = %r)" % (at("final.txt"),))
            for x in extra:
                if at(x) != "tok_w\n":
                    if x.startswith("__parent__") and at("../" + x[len("__parent__"):]) == "tok_w\n":
                        res["d16"] = True
                        known.add(os.path.normpath("../" + x[len("__parent__"):]))
                    else:
                        problems.append("additional file %r is not at the same relative location under the working directory" % x)
            lo = t3.leftovers(impl["fs"])
            if lo:
                problems.append("leftovers: %s" % lo)
            # nothing else appeared anywhere
            rel = lambda k: os.path.normpath(os.path.relpath(k, sc.work) if k.startswith("/") else k)
            known |= {rel(k) for k in list(sp.files) + [out, "final.txt"] + extra}
            for k, v in allfs.items():
                if v[0] == "f" and not k.endswith(".audit.json") and not t3.IGNORED.match(k) and os.path.normpath(k) not in known:
                    problems.append("unexpected file %r" % k)
        res["ok"] = ok
        res["problems"] = problems
        res["model_status"] = (model["status"], model["failed"])
        res["stderr"] = impl["stderr"][-300:]
        return res
    finally:
        sc.close()


SHAPES = ["out.txt", "./out.txt", "new/out.txt", "n1/n2/n3/out.txt", "a.b/c.d.txt", "../keep0.out", "../sib/out.txt", "@ABS@/out.txt",
          "..b/out.txt", "__parent__/out.txt", "__fsroot__/o.txt", "x__parent__y.txt", "new/__fsroot__", "o-1/x_y/A.B-c_d", ".hidden/out", "../sib/new/out.txt",
          "./../sib/out2.txt", "./.cache/out.txt", "./..hid/out.txt", "./out3.txt"]
NONCANON = ["a../out.txt", "x/../y/out.txt", "new/a../o.txt"]


def concurrent_extras_case(args):
    """several tasks of one process run and finish at the same time; each creates, besides its declared output, an additional
    file in the same sub-directory, which does not exist under the working directory yet (logs/<name>.log): every one of
    them ends up at the same relative location under the working directory"""
    seed, i = args
    rng = random.Random(seed * 472882049 + i)
    L = rng.randint(4, 12)
    sp = t3.Spec(maxtasks=L, bufsize=rng.choice([1, 128]))
    paths = ["x%02d.txt" % j for j in range(L)]
    for p in paths:
        sp.files[p] = p + "\n"
    s = sp.src("src", paths)
    sub = rng.choice(["logs", "logs/deep", "rep/a/b"])
    # every command waits (5 s bound) until all L have started, so that they finish -- and are finalized -- together
    barrier = 'touch "$VERIF_RDV/w_{i:a|basename}" && for n in $(seq 1 1000); do [ $(ls "$VERIF_RDV" | wc -l) -ge %d ] && break; sleep 0.005; done' % L
    sp.proc(t3.RawProc("w", barrier + " && cat {i:a} > {o:o} && mkdir -p %s && echo extra of {i:a|basename} > %s/{i:a|basename}.log" % (sub, sub),
                       ins=[("a", [(s, "out")])], outs=[("o", "{i:a}.w")]))
    sc = t3.Scratch()
    try:
        sc.plant(sp.files)
        impl = t3.run_impl(sc, sp, timeout=60, yield_seed=(rng.randint(1, 10**6), rng.choice([20000, 40000])))
        problems = []
        if impl["rc"] != 0 or not impl["returned"]:
            problems.append("the workflow fails (exit %s): %s" % (impl["rc"], impl["stderr"][-200:]))
        else:
            files = t3.data_files(impl["fs"])
            missing = [p for p in paths if files.get("%s/%s.log" % (sub, p)) != "extra of %s\n" % p]
            if missing:
                problems.append("%d tasks ran at the same time, each wrote %s/<input>.log in its working directory; after the run %d of these additional files are not at %s/ under the working directory: %s"
                                % (L, sub, len(missing), sub, missing[:4]))
            lost = [p for p in paths if files.get(p + ".w") != p + "\n"]
            if lost:
                problems.append("declared outputs missing or wrong: %s" % lost[:3])
        return {"shape": "concurrent-extras", "out": "{i:a}.w", "in": paths[0], "extra": ["%s/<input>.log" % sub], "rc": impl["rc"], "canonical": True, "ok": impl["rc"] == 0,
                "problems": problems, "stderr": impl["stderr"][-200:], "spec": sp.text(), "bufsize": sp.bufsize}
    finally:
        sc.close()


def linked_input_case(args):
    """the command links its input into its working directory (ln -s) and leaves further files and a sub-directory there, some
    of which sort before and some after the link: all of them are moved to the same relative location under the working
    directory"""
    seed, i = args
    rng = random.Random(seed * 472882081 + i)
    sp = t3.Spec(maxtasks=2, bufsize=128)
    inp = rng.choice(["lk.txt", "data/lk.txt"])
    sp.files[inp] = "linked\n"
    s = sp.src("src", [inp])
    link = rng.choice(["current_input", "a_link", "m_link", "zz_link"])
    extras = ["aa_first.log", "metrics/stats.txt", "run.log", "zzz_last.txt"]
    cmd = "ln -s {i:a} %s && cat {i:a} > {o:o}" % link + "".join(" && mkdir -p $(dirname %s) && echo extra %s > %s" % (x, x, x) for x in extras)
    sp.proc(t3.RawProc("w", cmd, ins=[("a", [(s, "out")])], outs=[("o", "{i:a}.w")]))
    sc = t3.Scratch()
    try:
        sc.plant(sp.files)
        impl = t3.run_impl(sc, sp, timeout=60)
        problems = []
        if impl["rc"] != 0 or not impl["returned"]:
            problems.append("the workflow fails (exit %s): %s" % (impl["rc"], impl["stderr"][-200:]))
        else:
            files = t3.data_files(impl["fs"])
            missing = [x for x in extras if files.get(x) != "extra %s\n" % x]
            if missing:
                problems.append("the command linked its input as %r and created %s in its working directory; after the run %s are not at the same relative location under the working directory" % (link, extras, missing))
            if files.get(inp + ".w") != "linked\n":
                problems.append("declared output missing or wrong")
            lo = t3.leftovers(impl["fs"])
            if lo:
                problems.append("temp dir left: %s" % lo[:2])
        return {"shape": "linked-input", "out": "{i:a}.w", "in": inp, "extra": extras + [link], "rc": impl["rc"], "canonical": True, "ok": impl["rc"] == 0,
                "problems": problems, "stderr": impl["stderr"][-200:], "spec": sp.text(), "bufsize": sp.bufsize}
    finally:
        sc.close()


def symlinked_dir_input_case(args):
    """an input whose path goes through a symbolic link to a directory and back up (current/../ref.txt with current ->
    releases/v2): the operating system resolves it to releases/ref.txt, not to ./ref.txt; the in-placeholder, used from inside
    the temp dir, must name that same file"""
    seed, i = args
    rng = random.Random(seed * 472882093 + i)
    sp = t3.Spec(maxtasks=2, bufsize=128)
    link, target = rng.choice([("current", "releases/v2"), ("latest", "data/2020/run7"), ("cur", "a/b")])
    updir = os.path.dirname(target)
    inp = "%s/../ref.txt" % link
    s = sp.src("src", [inp])
    sp.proc(t3.RawProc("reader", "cat {i:a} > {o:o}", ins=[("a", [(s, "out")])], outs=[("o", "read.out")]))
    sc = t3.Scratch()
    try:
        sc.plant({"ref.txt": "UNRELATED\n", updir + "/ref.txt": "ACTUAL-INPUT\n", target + "/keep.txt": "x\n"})
        os.symlink(target, os.path.join(sc.work, link))
        impl = t3.run_impl(sc, sp, timeout=60)
        problems = []
        if impl["rc"] != 0 or not impl["returned"]:
            problems.append("a task whose input path %r goes through a symbolic link to a directory fails (exit %s): %s" % (inp, impl["rc"], impl["stderr"][-200:]))
        else:
            got = t3.data_files(impl["fs"]).get("read.out")
            if got != "ACTUAL-INPUT\n":
                problems.append("the input %r is the file %s/ref.txt (the link %s points to %s); the in-placeholder resolved, from inside the temp dir, to a file holding %r" % (inp, updir, link, target, got))
        return {"shape": "symlinked-dir-input", "out": "read.out", "in": inp, "extra": [], "rc": impl["rc"], "canonical": True, "ok": impl["rc"] == 0,
                "problems": problems, "stderr": impl["stderr"][-200:], "spec": sp.text(), "bufsize": sp.bufsize}
    finally:
        sc.close()


def run(rep, tier, seed):
    proved = vlib.prove(rep, MODULE, THEOREMS)
    ok, msg = vlib.build_ocaml()
    if not ok:
        raise RuntimeError("extraction/driver build failed: " + msg[-1500:])
    rng = random.Random(seed)
    paths = grammar(3 if tier == "quick" else 4)
    for _ in range(500 if tier == "quick" else 5000):
        k = rng.randint(1, 12)
        paths.append(rng.choice(["", "", "./", "../", "/"]) + "/".join(rng.choice(SEGS + ["L" * rng.randint(1, 60)]) for _ in range(k)))
    lines = [hx(p) for p in paths]
    diffs, impl, model = vlib.t2_compare("paths", lines)
    for i, a, b in diffs[:5]:
        rep.notes.setdefault("disagreements", []).append({"path": paths[i] if i >= 0 else None, "impl": a, "model": b})
    # T3: real one-task workflows for each path shape
    cases = [(s, i, seed) for i, s in enumerate(SHAPES * (1 if tier == "quick" else 6) + NONCANON + ["extra-placeholder"])]
    results = t3.run_many(t3_case, cases)
    results += t3.run_many(symlinked_dir_input_case, [(seed, i) for i in range(4 if tier == "quick" else 40)])
    results += t3.run_many(linked_input_case, [(seed, i) for i in range(6 if tier == "quick" else 60)])
    results += t3.run_many(concurrent_extras_case, [(seed, i) for i in range(10 if tier == "quick" else 120)])
    found = False
    kf = vlib.known_findings("C13")
    for r in results:
        if r.get("d16"):
            if any(f["kind"] == "extra-file-named-like-placeholder" for f in kf):
                rep.known_finding("an additional file whose name contains the internal place-holder '__parent__' is moved to the parent-relative path it decodes to ('__parent__e.log' -> '../e.log') instead of its own relative location")
            else:
                rep.violation("an additional file named '__parent__e.log' was moved to '../e.log'", {"kind": "extra-file-misplaced", **r})
                found = True
        if r["canonical"]:
            if not r["ok"]:
                rep.violation("a task with the valid output path %r fails (rc=%s): %s" % (r["out"], r["rc"], r["stderr"]), {"kind": "valid-path-fails", **r})
                found = True
            elif r["problems"]:
                rep.violation("; ".join(r["problems"]), {"kind": "misplaced", **r})
                found = True
        else:
            if r["ok"] and r["problems"]:
                rep.violation("; ".join(r["problems"]), {"kind": "misplaced-noncanonical", **r})
                found = True
            elif not r["ok"]:
                if any(f["kind"] == "dir-segment-ending-in-dotdot" for f in kf):
                    rep.known_finding("an output path with a directory segment ending in '..' or a '/../' inside (e.g. 'a../out.txt') fails the task (exit 1) when the directory does not exist yet; nothing is misplaced")
                else:
                    rep.violation("a task with output path %r fails: %s" % (r["out"], r["stderr"]), {"kind": "noncanonical-path-fails", **r})
                    found = True
    if (diffs or not proved) and not found:
        what = []
        if not proved:
            what.append("proof obligations of %s no longer check: %s" % (MODULE, rep.notes.get("broken_obligations") or rep.notes.get("open_assumptions")))
        if diffs:
            what.append("model and implementation disagree on TempPath / TempDir / FifoPath / decode / splitAllPaths for %d of %d paths" % (len(diffs), len(paths)))
        rep.violation("; ".join(what), {"kind": "correspondence", "theorem_or_correspondence": "PropC13 / T2 paths", "disagreements": rep.notes.get("disagreements", [])}, nofail=True)
    rep.cov["evaluations"] = len(paths) + len(results)
    rep.cov["distinct_nontrivial"] = len(set(paths)) + len({r["shape"] for r in results})
    rep.cov["rule"] = "T2: every path of a grammar (prefix ./ ../ ../../ / x segments incl. '..'-like and place-holder-like ones, depth <= 3 or 4) plus random long paths through NewFileIP(..).TempPath/TempDir/FifoPath, the decode of FinalizePaths and splitAllPaths, against the Coq model; T3: one producer + one consumer workflow per output-path shape with random input location and additional files, checked against the property statement itself; an input path that goes through a symbolic link to a directory and back up; a command that links its input into its working directory beside other additional files; 4-12 tasks finishing together (seeded delays at the hook points) that each leave an additional file in the same new sub-directory"
    rep.cov["samples"] = [paths[5], paths[len(paths) // 2], {k: results[0][k] for k in ("shape", "in", "extra", "rc", "problems")}]
    rep.notes["input_distribution"] = {"grammar_paths": len(paths), "invalid_paths": sum(1 for x in impl if x == "INVALID"), "t3_shapes": len(SHAPES), "t3_runs": len(results),
                                       "t3_noncanonical": len(NONCANON)}
    rep.assump += ["destination directories of parent-relative and absolute output paths exist (the property's own guard)", "no symlinks; lexical path resolution"]


def replay(r):
    from tools import t3 as _t3
    return _t3.replay_generic(r)
