# C09 -- a failing task stops the workflow; failure is never silent.
import os, random
from tools import vlib, t3

MODULE = "PropC09"
THEOREMS = ["C09_code_conforms", "C09_fail_is_exit", "C09_exit_is_final", "C09_failed_outputs_untouched", "C09_no_dependants", "C09_window_no_dependants", "C09_window_gone_is_final", "C09_window_failed_is_stopped", "C09_cone_conforms"]
FAILKINDS = ["before", "partial", "afterfull", "omit", "signal"]


def failure_monitor(sp, model, impl, formation=False):
    """the property statement on the observables of a run in which some task fails"""
    problems = []
    if impl["timed_out"]:
        return [("hang", "the workflow with a failing task did not terminate")]
    if impl["rc"] == 0:
        problems.append(("silent-failure", "a task fails but the workflow exits with status 0"))
    if impl["returned"]:
        problems.append(("reports-completion", "a task fails but Run returned and the program reported completion"))
    failed = [t for t in model["tasks"] if t["status"] in ("fail", "invalid")]
    real = t3.data_files(impl["fs"])
    for t in failed:
        for port, st, path in t["outs"]:
            if path in real and path not in sp.files:
                problems.append(("failed-output-visible", "output %r of the failing task %r exists at its final path" % (path, t["key"])))
    # nothing may run that the model does not allow: tasks of rounds after the failing one, dependants of the failed task
    allowed = {t["key"] for t in model["tasks"] if t["status"] in ("run", "fail")}
    ran = set(t3.started_keys(impl["trace"]))
    if ran - allowed:
        problems.append(("dependant-executed", "tasks executed although they depend on the failing task (or were never due): %s" % sorted(ran - allowed)[:3]))
    # whatever was finalized is correct
    want = model["files"]
    for p, c in real.items():
        if p in sp.files:
            continue
        if p not in want:
            problems.append(("foreign-file", "file %r is not an output of any task that may have run" % p))
        elif want[p] != c:
            problems.append(("wrong-content", "file %r was finalized with wrong content %r" % (p, c[:60])))
    return problems


def case(args):
    seed, i = args
    rng = random.Random(seed * 32452843 + i)
    sp = t3.gen_workflow(rng, maxlen=4, nproc=rng.randint(2, 5))
    mode = i % 6
    procs = sp.procs()
    if mode < 4:
        base = t3.run_model(sp.text())
        tasks = [t for t in base["tasks"] if t["status"] == "run"]
        if not tasks:
            return None
        victim = rng.choice(tasks)
        p = next(q for q in procs if q.name == victim["proc"])
        # a key that singles out the victim task: basename of its first input, or its parameter value
        cands = [os.path.basename(paths[0]) for _, k, paths in victim["ins"] if paths] + [v for _, v in victim["pars"]]
        p.fail = rng.choice(FAILKINDS)
        p.failkey = rng.choice(cands) if cands else p.name
        if p.fail == "omit" and not p.outs:
            p.fail = "before"
        if rng.random() < 0.3 and all(len(u) == 1 for _, u in p.ins):
            p.gofunc = True
            if p.fail == "signal":
                p.fail = "partial"
            p.kind = "cattok"
        # keep siblings busy while the failure happens
        for q in procs:
            if q is not p and rng.random() < 0.4:
                q.sleep = "sleep 0.0%d" % rng.randint(1, 5)
    elif mode == 4:
        # task formation fails: an empty parameter value
        ps = [n for n in sp.nodes if n[0] == "PSRC"]
        target = rng.choice(procs)
        vals = ["ok1", "", "ok3"]
        target.pars = [("q0", ("V", vals))]
        target.outs = [(port, (pat or "{i:a0}.%s.%s" % (target.name, port)) ) for port, pat in target.outs]
    else:
        # task formation fails: an invalid character in an output path
        target = rng.choice(procs)
        target.pars = [("q0", ("V", ["fine", "not valid", "x"]))]
        target.outs = [(port, "{i:a0}.%s.{p:q0}.%s" % (target.name, port)) for port, _ in target.outs] or [("o", "{i:a0}.{p:q0}")]
    model = t3.run_model(sp.text())
    if model["status"] != "done" or not model["failed"]:
        return None
    sc = t3.Scratch()
    try:
        sc.plant(sp.files)
        impl = t3.run_impl(sc, sp, timeout=60)
        problems = failure_monitor(sp, model, impl)
        rstats = {}
        problems += t3.replay_problems(sp, model, impl, ("tasks",), stats=rstats)
        nf = [t for t in model["tasks"] if t["status"] in ("fail", "invalid")]
        return {"replay": rstats, "spec": sp.text(), "bufsize": sp.bufsize, "problems": problems, "ntasks": len(model["tasks"]), "rc": impl["rc"], "stderr": impl["stderr"][-300:],
                "yield": None, "wall": impl["wall"], "mode": "formation" if mode >= 4 else next((q.fail for q in procs if q.fail != "none"), "?"),
                "gofunc": any(q.gofunc for q in procs), "status": nf[0]["status"] if nf else "?"}
    finally:
        sc.close()


def rerun_case(args):
    """history: a task's command writes all its outputs and then fails; the workflow is started again as it is (the temp dir
    of the failed task, with everything the command wrote, is still there): the failure must not turn into success"""
    seed, i = args
    rng = random.Random(seed * 32452867 + i)
    sp = t3.gen_workflow(rng, maxlen=3, nproc=rng.randint(2, 4))
    base = t3.run_model(sp.text())
    tasks = [t for t in base["tasks"] if t["status"] == "run"]
    if not tasks:
        return None
    victim = rng.choice(tasks)
    p = next(q for q in sp.procs() if q.name == victim["proc"])
    cands = [os.path.basename(paths[0]) for _, k, paths in victim["ins"] if paths] + [v for _, v in victim["pars"]]
    p.fail = rng.choice(["afterfull", "afterfull", "signal"])
    p.failkey = rng.choice(cands) if cands else p.name
    model = t3.run_model(sp.text())
    if model["status"] != "done" or not model["failed"]:
        return None
    sc = t3.Scratch()
    try:
        sc.plant(sp.files)
        r1 = t3.run_impl(sc, sp, timeout=60)
        problems = [(k, "first run: " + m) for k, m in failure_monitor(sp, model, r1)]
        r2 = t3.run_impl(sc, sp, timeout=60)
        problems += [(k, "run again, as it is: " + m) for k, m in failure_monitor(sp, model, r2) if k != "foreign-file"]
        return {"spec": sp.text(), "bufsize": sp.bufsize, "problems": problems, "ntasks": len(model["tasks"]), "rc": r2["rc"], "stderr": r2["stderr"][-300:],
                "yield": None, "wall": r1["wall"], "mode": "rerun-after-" + p.fail, "gofunc": False, "status": "fail"}
    finally:
        sc.close()


def odd_command_case(args):
    """failing commands of unusual size or kind: a command line longer than the 128 kB limit of a single exec argument (a very
    long parameter value), a command that fails after its output is written, a writer of a stream killed by SIGPIPE because
    its reader stops early: the program exits non-zero, reports no completion, the failing task's outputs are absent and no
    dependant executes"""
    seed, i = args
    rng = random.Random(seed * 32452883 + i)
    sp = t3.Spec(maxtasks=rng.randint(2, 3), bufsize=rng.choice([1, 128]))
    kind = i % 3
    if kind == 2:
        # the command exits 0 but leaves only a dangling symbolic link where a declared output should be: the output is missing
        big = sp.proc(t3.RawProc("linker", "ln -s no_such_result.v%d.txt {o:out}" % rng.randint(1, 9), ins=[], outs=[("out", "latest.txt")]))
        sp.proc(t3.RawProc("dep", "cat {i:in} > {o:out} ; echo ran >> ../dep.ran", ins=[("in", [(big, "out")])], outs=[("out", "{i:in}.dep")]))
        victim_outs, what = ["latest.txt"], "a command that exits 0 but leaves a dangling symbolic link as its declared output"
    elif kind == 0:
        n = rng.choice([1000, 131000, 131072, 140000, 300000])
        blob = "x" * n
        big = sp.proc(t3.RawProc("big", "echo {p:blob} > {o:out} && grep -q NOSUCHTHING {o:out}", ins=[], pars=[("blob", ("V", [blob]))], outs=[("out", "big.out")]))
        sp.proc(t3.RawProc("dep", "cat {i:in} > {o:out} && echo ran >> ../dep.ran", ins=[("in", [(big, "out")])], outs=[("out", "{i:in}.dep")]))
        victim_outs, what = ["big.out"], "a failing command of %d bytes" % (n + 60)
    else:
        n = rng.choice([200000, 1000000])
        gen = sp.proc(t3.RawProc("gen", "seq 1 %d | tee {o:copy} > {os:stream}" % n, ins=[], outs=[("copy", "gen.copy"), ("stream", "gen.stream")], stream_outs=["stream"]))
        sp.proc(t3.RawProc("first", "head -n %d {i:in} > {o:out}" % rng.randint(1, 5), ins=[("in", [(gen, "stream")])], outs=[("out", "{i:in}.first")]))
        sp.proc(t3.RawProc("dep", "wc -l {i:in} > {o:out} && echo ran >> ../dep.ran", ins=[("in", [(gen, "copy")])], outs=[("out", "{i:in}.dep")]))
        victim_outs, what = ["gen.copy"], "a stream writer killed by SIGPIPE (its reader stopped early)"
    sc = t3.Scratch()
    try:
        sc.plant(sp.files)
        impl = t3.run_impl(sc, sp, timeout=60)
        problems = []
        if impl["timed_out"]:
            problems.append(("hang", "the workflow with %s does not terminate" % what))
        if impl["rc"] == 0:
            problems.append(("silent-failure", "%s: the program exits 0%s" % (what, " and reports completion" if impl["returned"] else "")))
        elif impl["returned"]:
            problems.append(("completion-reported", "%s: Run returned" % what))
        for o in victim_outs:
            if o in impl["fs"]:
                problems.append(("failed-output-appeared", "%s: its output %r is at the final path" % (what, o)))
        if "dep.ran" in impl["fs"]:
            problems.append(("dependant-executed", "%s: a task that depends on its output executed" % what))
        return {"spec": sp.text(with_files=False)[:4000], "bufsize": sp.bufsize, "problems": problems, "ntasks": 2, "rc": impl["rc"], "stderr": impl["stderr"][-300:],
                "yield": None, "wall": impl["wall"], "mode": ["long-command", "sigpipe", "dangling-link"][kind], "gofunc": False, "status": "fail"}
    finally:
        sc.close()


def panic_case(args):
    """a Go-function task (CustomExecute) that fails by panicking -- with a message or with an error value -- before it has
    written its declared output: the program exits non-zero, reports no completion, the output is absent, no dependant runs"""
    seed, i = args
    rng = random.Random(seed * 32452909 + i)
    sp = t3.Spec(maxtasks=rng.randint(1, 3), bufsize=rng.choice([1, 128]))
    L = rng.randint(1, 3)
    paths = ["pn%d.txt" % j for j in range(L)]
    for p in paths:
        sp.files[p] = p + "\n"
    s = sp.src("src", paths)
    victim = rng.choice(paths)
    kind = ["panic", "panicerr"][i % 2]
    mk = sp.proc(t3.Proc("mk", kind="cattok", ins=[("a", [(s, "out")])], outs=[("o", "{i:a}.mk")], gofunc=True, fail=kind, failkey=victim))
    sp.proc(t3.RawProc("dep", "echo {i:in} >> ../dep.ran ; cat {i:in} > {o:out}", ins=[("in", [(mk, "o")])], outs=[("out", "{i:in}.dep")]))
    sc = t3.Scratch()
    try:
        sc.plant(sp.files)
        impl = t3.run_impl(sc, sp, timeout=60)
        what = "a Go-function task that panics with %s before writing its output" % ("a message" if kind == "panic" else "an error value")
        problems = []
        if impl["timed_out"]:
            problems.append(("hang", "the workflow with %s does not terminate" % what))
        if impl["rc"] == 0:
            problems.append(("silent-failure", "%s: the program exits 0%s" % (what, " and reports completion" if impl["returned"] else "")))
        elif impl["returned"]:
            problems.append(("completion-reported", "%s: Run returned" % what))
        if (victim + ".mk") in impl["fs"]:
            problems.append(("failed-output-appeared", "%s: its output %r is at the final path" % (what, victim + ".mk")))
        ran = impl["fs"].get("dep.ran")
        known = []
        if ran and (victim + ".mk") in (ran[1] or ""):
            # D25 (fixed in /repo 97de379): Task.Execute used to `defer close(t.Done)`, which ran while a panic unwound and let
            # Process.Run take the closed channel for "task done"; Done is now closed on the normal returns only, so a dependant
            # that executes here is a violation whatever the exit status
            problems.append(("dependant-executed", "%s: the task that depends on its output executed" % what))
        return {"spec": sp.text(with_files=False)[:4000], "bufsize": sp.bufsize, "problems": problems, "known": known, "ntasks": 2 * L, "rc": impl["rc"], "stderr": impl["stderr"][-300:],
                "yield": None, "wall": impl["wall"], "mode": "gofunc-" + kind, "gofunc": True, "status": "fail"}
    finally:
        sc.close()


def unformable_rerun_case(args):
    """history: a workflow completes; it is started again with a parameter (or tag) value that is now empty, for a task whose
    outputs exist from the first run (their names do not depend on the value): the task cannot be formed, so the program must
    exit non-zero and report no completion, and no dependant may execute -- existing outputs do not excuse the failure"""
    seed, i = args
    rng = random.Random(seed * 32452909 + i)
    def build(val):
        sp = t3.Spec(maxtasks=rng.choice([1, 2, 3]), bufsize=128)
        vals = ["first", val, "third"][:rng.choice([2, 3])] if i % 2 else [val]
        names = ["k%d" % j for j in range(len(vals))]
        a = sp.proc(t3.RawProc("src", "echo {p:val} > {o:out}", ins=[], pars=[("val", ("V", vals)), ("name", ("V", names))], outs=[("out", "src.{p:name}.txt")]))
        sp.proc(t3.RawProc("dep", "cat {i:in} > {o:out} && echo ran >> ../dep.ran", ins=[("in", [(a, "out")])], outs=[("out", "{i:in}.dep")]))
        return sp
    st = random.getstate()
    rs = rng.getstate()
    sp1 = build("hello")
    rng.setstate(rs)
    sp2 = build("")
    sc = t3.Scratch()
    try:
        sc.plant(sp1.files)
        r1 = t3.run_impl(sc, sp1, timeout=60)
        problems = []
        if r1["rc"] != 0 or not r1["returned"]:
            problems.append(("unexpected-failure", "first run: exit %s: %s" % (r1["rc"], r1["stderr"][-200:])))
        else:
            for p in list(r1["fs"]):
                if p.endswith(".dep") or p == "dep.ran" or p.endswith(".dep.audit.json"):
                    os.remove(os.path.join(sc.work, p))
            r2 = t3.run_impl(sc, sp2, timeout=60)
            what = "run again with an empty value for {p:val} (outputs of the task exist from the first run)"
            if r2["timed_out"]:
                problems.append(("hang", what + ": does not terminate"))
            if r2["rc"] == 0:
                problems.append(("silent-failure", what + ": the program exits 0%s" % (" and reports completion" if r2["returned"] else "")))
            elif r2["returned"]:
                problems.append(("completion-reported", what + ": Run returned"))
            dep_for_empty = "src.k%d.txt.dep" % (1 if i % 2 else 0)
            if dep_for_empty in r2["fs"]:
                problems.append(("dependant-executed", what + ": the dependant of the task that cannot be formed executed (%s)" % dep_for_empty))
        return {"spec": sp2.text(), "bufsize": 128, "problems": problems, "ntasks": 2, "rc": r1["rc"], "stderr": r1["stderr"][-300:],
                "yield": None, "wall": r1["wall"], "mode": "unformable-on-rerun", "gofunc": False, "status": "fail"}
    finally:
        sc.close()


def run(rep, tier, seed):
    proved = vlib.prove(rep, MODULE, THEOREMS)
    ok, msg = vlib.build_ocaml()
    if not ok:
        raise RuntimeError("extraction/driver build failed: " + msg[-1500:])
    n = 120 if tier == "quick" else 2400
    results = [r for r in t3.run_many(case, [(seed, i) for i in range(n)]) if r]
    results += [r for r in t3.run_many(rerun_case, [(seed, i) for i in range(n // 5)]) if r]
    results += t3.run_many(unformable_rerun_case, [(seed, i) for i in range(n // 10)])
    results += t3.run_many(odd_command_case, [(seed, i) for i in range(n // 10)])
    results += t3.run_many(panic_case, [(seed, i) for i in range(max(4, n // 20))])
    kf = vlib.known_findings("C09")
    for r in results:
        if r.get("known"):
            if any(f["kind"] == "panic-unwinding-closes-done" for f in kf):
                rep.known_finding("a Go-function task that panics: while the panic unwinds, Task.Execute's deferred close(t.Done) lets Process.Run forward the task's out-IPs, and a dependant can start before the runtime has finished crashing (exit status and missing outputs are as required)")
            else:
                r["problems"].append(("dependant-executed", "a dependant of a panicking Go-function task executed"))
    t3.report_t3(rep, MODULE, proved, results, "T3 failure injection")
    rep.cov["evaluations"] = len(results)
    rep.cov["distinct_nontrivial"] = len({r["spec"] for r in results if r["ntasks"] >= 2})
    rep.cov["rule"] = "random workflows in which one task (chosen among those the model executes) fails in one of five ways (non-zero exit before writing / after a partial write / after writing everything, output omitted, killed by SIGKILL), as a shell command or a Go function, while sibling processes are kept busy; plus task-formation failures (empty parameter value, invalid character in an output path); histories in which a completed workflow is started again with an empty parameter value for a task whose outputs exist; histories in which the command wrote every output before it failed and the workflow is started again as it is; failing commands longer than the 128 kB exec-argument limit and stream writers killed by SIGPIPE; monitor: exit status non-zero, no completion marker, the failing task's outputs absent, no command outside the model's allowed set (no dependants), every finalized file has the model's content; non-trivial = at least two tasks in the workflow"
    rep.cov["samples"] = [results[0]["spec"]]
    modes = {}
    for r in results:
        modes[r["mode"]] = modes.get(r["mode"], 0) + 1
    rep.notes["input_distribution"] = {"runs": len(results), "by_failure_kind": modes, "gofunc_victims": sum(1 for r in results if r["gofunc"])}
    rep.assump += ["non-streaming edges (a FIFO consumer runs together with its producer by design)"]


def replay(r):
    return t3.replay_generic(r)
