# C10 -- every output carries a complete and faithful audit record.
import json, os, random
from datetime import datetime
from tools import vlib, t3
from tools import ks
from tools.vlib import hx

MODULE = "PropC10"
THEOREMS = ["C10_code_conforms", "C10_order_facts", "C10_record_fields", "C10_upstream_is_lineage", "C10_tags_propagate", "C10_substream_tags_refuted", "C10_cone_conforms", "C10_every_final_output_is_audited", "C10_audit_order_in_code", "C10_late_record_refuted", "C10_audited_nonvacuous"]


def build(rng, i):
    sp = t3.gen_workflow(rng, maxlen=3, nproc=rng.randint(1, 4), allow_params=True)
    procs = [k for k, n in enumerate(sp.nodes) if n[0] == "PROC"]
    shape = i % 5
    if shape == 1 and procs:
        # a tagging component on a linear path: source -> tagger -> process -> process
        tpaths = ["tag%d.txt" % j for j in range(rng.randint(1, 3))]
        for q in tpaths:
            sp.files[q] = q + "\n"
        src = sp.src("tsrc", tpaths)      # the tagger is the only consumer of this out-port
        tg = sp.raw("COMP maptags %s %s %d %s" % (hx("tagger"), hx("grp"), src, hx("out")))
        pn = rng.choice(["a", "reads.fa", "x.y.z"])          # in-port names may contain dots
        a = sp.proc(t3.Proc("t1", kind="cattok", ins=[(pn, [(tg, "out")])], outs=[("o", "{i:%s}.t1.{t:%s.grp}" % (pn, pn))]))
        b = sp.proc(t3.Proc("t2", kind="cat", ins=[(rng.choice(["a", "in.put"]), [(a, "o")])], outs=[("o", None)]))
        sp.proc(t3.Proc("t3", kind="cat", ins=[("a", [(b, "o")])], outs=[("o", "{i:a}.t3")]))
    elif shape == 2 and procs:
        # sub-stream: every member is an upstream record of the joined task
        last = procs[-1]
        port = sp.nodes[last][1].outs[0][0]
        j = sp.s2s("s2s", last, port)
        sp.proc(t3.Proc("joiner", kind="cat", ins=[("a", [(j, "substream")])], outs=[("o", "joined_%d.txt" % i)], join={"a": " "}))
    elif shape == 3 and procs:
        # tagged items going into a sub-stream (shape of finding D13)
        tpaths = ["mem%d.txt" % j for j in range(rng.randint(1, 3))]
        for q in tpaths:
            sp.files[q] = q + "\n"
        src = sp.src("tsrc", tpaths)
        tg = sp.raw("COMP maptags %s %s %d %s" % (hx("tagger"), hx("grp"), src, hx("out")))
        a = sp.proc(t3.Proc("pre", kind="cattok", ins=[("a", [(tg, "out")])], outs=[("o", "{i:a}.pre")]))
        j = sp.s2s("s2s", a, "o")
        sp.proc(t3.Proc("joiner", kind="cat", ins=[("a", [(j, "substream")])], outs=[("o", "joined_%d.txt" % i)], join={"a": ","}))
    elif shape == 4:
        # sibling outputs of one task: one is tagged, the other is consumed elsewhere and must not inherit the tag
        tpaths = ["sib%d.txt" % j for j in range(rng.randint(1, 3))]
        for q in tpaths:
            sp.files[q] = q + "\n"
        src = sp.src("ssrc", tpaths)
        a = sp.proc(t3.Proc("two", kind="cattok", ins=[("a", [(src, "out")])], outs=[("o", "{i:a}.two_a"), ("o2", "{i:a}.two_b")]))
        tg = sp.raw("COMP maptags %s %s %d %s" % (hx("tagger"), hx("grp"), a, hx("o")))
        sp.proc(t3.Proc("ua", kind="cat", ins=[("a", [(tg, "out")])], outs=[("o", "{i:a}.ua")]))
        sp.proc(t3.Proc("ub", kind="cat", ins=[("a", [(a, "o2")])], outs=[("o", "{i:a}.ub")], sleep="sleep 0.05"))
    return sp


def parse_time(s):
    s = s.rstrip("Z")
    if "." in s:
        head, frac = s.split(".")
        frac = (frac + "000000000")[:9]
    else:
        head, frac = s, "0" * 9
    if "+" in frac or "-" in frac:
        return None
    return int(datetime.strptime(head[:19], "%Y-%m-%dT%H:%M:%S").timestamp()) * 10**9 + int(frac)


def record_sanity(path, rec, known):
    """the property statement on one real record (recursively)"""
    problems = []
    if rec.get("ProcessName"):
        st, fi = rec.get("StartTime"), rec.get("FinishTime")
        try:
            # times are RFC 3339 with a numeric zone; compare as strings after parsing with fromisoformat where possible
            a = datetime.fromisoformat(st[:19]); b = datetime.fromisoformat(fi[:19])
            if a > b:
                problems.append(("audit-times", "%s: start %s after finish %s" % (path, st, fi)))
        except Exception:
            problems.append(("audit-times", "%s: unparsable times %r %r" % (path, st, fi)))
        if not isinstance(rec.get("ExecTimeNS"), int) or rec["ExecTimeNS"] < 0:
            problems.append(("audit-duration", "%s: negative or missing duration %r" % (path, rec.get("ExecTimeNS"))))
        if not rec.get("Command"):
            problems.append(("audit-command-empty", "%s: empty command" % path))
        if path not in (rec.get("OutFiles") or {}).values():
            problems.append(("audit-outfiles", "%s: the record's OutFiles %s do not contain the file itself" % (path, rec.get("OutFiles"))))
    for p, u in (rec.get("Upstream") or {}).items():
        for k, v in (u.get("Tags") or {}).items():
            if (rec.get("Tags") or {}).get(k) != v:
                known.append(("tags-not-propagated", path, p, k))
        problems += record_sanity(p, u, known)
    return problems


def case(args):
    seed, i = args
    rng = random.Random(seed * 393342743 + i)
    sp = build(rng, i)
    model = t3.run_model(sp.text())
    if model["status"] != "done" or model["failed"]:
        return None
    sc = t3.Scratch()
    try:
        sc.plant(sp.files)
        impl = t3.run_impl(sc, sp)
        problems = t3.compare_success(sp, model, impl)
        known = []
        nrec = 0
        if not problems:
            for p, v in sorted(impl["fs"].items()):
                if v[0] != "f" or not p.endswith(".audit.json"):
                    continue
                path = p[:-len(".audit.json")]
                try:
                    rec = json.loads(v[1])
                except Exception as e:
                    problems.append(("audit-invalid-json", "%s: %s" % (p, e)))
                    continue
                nrec += 1
                problems += record_sanity(path, rec, known)[:3]
                want = model["audit"].get(path)
                if want is None:
                    problems.append(("audit-unexpected", "audit file for %r, which the model does not know" % path))
                elif t3.audit_norm(rec) != want:
                    problems.append(("audit-differs", "record of %r differs from the model's lineage: impl %s / model %s" % (path, json.dumps(t3.audit_norm(rec))[:500], json.dumps(want)[:500])))
            for t in model["tasks"]:
                if t["status"] == "run":
                    for port, st, path in t["outs"]:
                        if not st and path + ".audit.json" not in impl["fs"]:
                            problems.append(("audit-missing", "no audit file next to %r" % path))
        joined = {p.name for p in sp.procs() if p.join}
        return {"spec": sp.text(), "bufsize": sp.bufsize, "problems": problems[:5], "known": known, "joined": bool(joined), "ntasks": sum(1 for t in model["tasks"] if t["status"] == "run"), "rc": impl["rc"],
                "stderr": impl["stderr"][-300:], "yield": None, "wall": impl["wall"], "records": nrec, "shape": i % 5}
    finally:
        sc.close()


def crash_case(args):
    """at every instant a finalized output is accompanied by its audit record: kill at a hook point and look"""
    (sp, model), point = args
    sc = t3.Scratch()
    try:
        sc.plant(sp.files)
        impl = t3.run_impl(sc, sp, crash="%s:%d" % point, timeout=60)
        problems = []
        nrec = 0
        for t in model["tasks"]:
            for port, st, path in t["outs"]:
                if st or path not in impl["fs"] or path in sp.files:
                    continue
                v = impl["fs"].get(path + ".audit.json")
                if not v:
                    problems.append(("output-without-audit", "killed at %s:%d: output %r is at its final path without an audit file" % (point[0], point[1], path)))
                    continue
                try:
                    rec = json.loads(v[1])
                    nrec += 1
                    if t3.audit_norm(rec) != model["audit"].get(path) and not any(n[0] == "RAW" and "maptags" in n[1] for n in sp.nodes):
                        problems.append(("audit-differs", "killed at %s:%d: the record next to %r is not the task's record" % (point[0], point[1], path)))
                except ValueError:
                    problems.append(("audit-invalid-json", "killed at %s:%d: the audit file of the finalized output %r is not valid JSON" % (point[0], point[1], path)))
        return {"spec": sp.text(), "bufsize": sp.bufsize, "problems": problems[:3], "known": [], "joined": False, "ntasks": len(model["tasks"]), "rc": impl["rc"], "stderr": "", "yield": None,
                "wall": impl["wall"], "records": nrec, "shape": 9, "point": point}
    finally:
        sc.close()


def memory_tags_case(args):
    """tags that exist only in memory (the per-group outputs of Concatenator with GroupByTag carry the group's tag without an
    audit file of their own) reach every consumer of a fanned-out port: the tag is on each consumer's record and on its
    Upstream entry"""
    seed, i = args
    rng = random.Random(seed * 393342757 + i)
    sp = t3.Spec(maxtasks=rng.randint(1, 3), bufsize=rng.choice([1, 2, 128]))
    L = rng.randint(1, 4)
    paths = ["g%d.txt" % j for j in range(L)]
    for p in paths:
        sp.files[p] = p + "\n"
    s = sp.src("src", paths)
    tg = sp.raw("COMP maptags %s %s %d %s" % (hx("tagger"), hx("grp"), s, hx("out")))
    cc = sp.raw("COMP concat %s %s %d %s %s" % (hx("cc"), hx("all.txt"), tg, hx("out"), hx("grp")))
    ncons = rng.randint(1, 3)
    for k in range(ncons):
        sp.proc(t3.Proc("c%d" % k, kind="cat", ins=[("a", [(cc, "out")])], outs=[("o", "{i:a}.c%d" % k)]))
    sc = t3.Scratch()
    try:
        sc.plant(sp.files)
        impl = t3.run_impl(sc, sp)
        problems = []
        if impl["rc"] != 0:
            problems.append(("unexpected-failure", impl["stderr"][-200:]))
        n = 0
        for p in paths:
            grp_file = "all.txt.grp_%s" % p
            for k in range(ncons):
                v = impl["fs"].get("%s.c%d.audit.json" % (grp_file, k))
                if not v or v[0] != "f":
                    problems.append(("audit-missing", "no audit file for %s.c%d" % (grp_file, k)))
                    continue
                rec = json.loads(v[1]); n += 1
                if (rec.get("Tags") or {}).get("grp") != p:
                    problems.append(("tags-not-propagated", "the tag grp=%s attached upstream is missing on the record of %s.c%d (Tags %s)" % (p, grp_file, k, rec.get("Tags"))))
                up = (rec.get("Upstream") or {}).get(grp_file)
                if up is None or (up.get("Tags") or {}).get("grp") != p:
                    problems.append(("upstream-tags-lost", "Upstream[%s] of %s.c%d does not carry the tag grp=%s (%s)" % (grp_file, grp_file, k, p, up and up.get("Tags"))))
        return {"spec": sp.text(), "bufsize": sp.bufsize, "problems": problems[:4], "known": [], "joined": False, "records": n, "ntasks": L * ncons, "rc": impl["rc"], "stderr": impl["stderr"][-200:], "yield": None, "wall": impl["wall"], "shape": 9}
    finally:
        sc.close()


TRICKY = ["R\\u0026D", "a\\u003cb\\u003e", "x&y<z>", "back\\\\slash\\", 'q"uo"te', "tab\\tx \\n", "caf\u00e9 \u2603".encode("utf-8").decode("latin-1"), "\\u0026\\u0026", "50% &amp; <b>", "\\\\u003c"]


def escape_case(args):
    """values that look like JSON escapes (a literal back-slash followed by u0026 / u003c / u003e), HTML-sensitive characters,
    quotes, back-slashes, non-ASCII text in a parameter and hence in the command: the audit file next to the output is valid
    JSON and records exactly the command that was executed and the parameter value; so does the record embedded downstream"""
    seed, i = args
    rng = random.Random(seed * 393342739 + i)
    val = TRICKY[i % len(TRICKY)] + rng.choice(["", " end", "\\u0026"])
    sp = t3.Spec(maxtasks=2, bufsize=128)
    say = sp.proc(t3.RawProc("say", "printf '%s\\n' '{p:msg}' > {o:out}", ins=[], pars=[("msg", ("V", [val]))], outs=[("out", "say.txt")]))
    sp.proc(t3.RawProc("next", "cat {i:in} > {o:out}", ins=[("in", [(say, "out")])], outs=[("out", "{i:in}.next")]))
    val_u = val.encode("latin-1").decode("utf-8")      # the spec transports bytes as latin-1
    want_cmd = "printf '%s\\n' '" + val_u + "' > say.txt"
    sc = t3.Scratch()
    try:
        sc.plant(sp.files)
        impl = t3.run_impl(sc, sp, timeout=30)
        problems = []
        if impl["rc"] != 0:
            problems.append(("unexpected-failure", impl["stderr"][-200:]))
        else:
            for path, pick in (("say.txt.audit.json", lambda r: r), ("say.txt.next.audit.json", lambda r: (r.get("Upstream") or {}).get("say.txt"))):
                v = impl["fs"].get(path)
                if not v or v[0] != "f":
                    problems.append(("audit-missing", "no audit file %s" % path)); continue
                try:
                    rec = pick(json.loads(v[1].encode("latin-1").decode("utf-8")))
                except ValueError as e:
                    problems.append(("audit-invalid-json", "%s is not valid JSON (%s) for the parameter value %r" % (path, e, val))); continue
                if rec is None:
                    problems.append(("upstream-missing", "%s has no Upstream record for say.txt" % path)); continue
                if rec.get("Command") != want_cmd:
                    problems.append(("audit-command", "%s records the command %r, executed was %r" % (path, rec.get("Command"), want_cmd)))
                if (rec.get("Params") or {}).get("msg") != val_u:
                    problems.append(("audit-params", "%s records msg=%r, the value was %r" % (path, (rec.get("Params") or {}).get("msg"), val_u)))
        return {"spec": sp.text(), "bufsize": sp.bufsize, "problems": problems[:3], "known": [], "joined": False, "records": 2, "ntasks": 2, "rc": impl["rc"], "stderr": impl["stderr"][-200:], "yield": None, "wall": impl["wall"], "shape": 10}
    finally:
        sc.close()


def stale_audit_case(args):
    """history: a workflow tags an intermediate file and completes; the data files are deleted to have them re-made but their
    audit files stay behind; the workflow is run again with another tag key: the new records carry the new tag only --
    nothing of a stale audit file may leak into the record of a newly produced file"""
    seed, i = args
    rng = random.Random(seed * 393342811 + i)
    L = rng.randint(1, 3)
    def program(key):
        sp = t3.Spec(maxtasks=rng.choice([1, 2, 3]), bufsize=128)
        paths = ["st%d.txt" % j for j in range(L)]
        for p in paths:
            sp.files[p] = p + "\n"
        s = sp.src("src", paths)
        a = sp.proc(t3.RawProc("copy", "cat {i:a} > {o:o}", ins=[("a", [(s, "out")])], outs=[("o", "{i:a}.copy")]))
        tg = sp.raw("COMP maptags %s %s %d %s" % (hx("tagger"), hx(key), a, hx("o")))
        sp.proc(t3.RawProc("upper", "tr a-z A-Z < {i:a} > {o:o}", ins=[("a", [(tg, "out")])], outs=[("o", "{i:a}.upper")]))
        return sp, paths
    st = rng.getstate()
    sp1, paths = program("batch")
    rng.setstate(st)
    sp2, _ = program("group")
    sc = t3.Scratch()
    try:
        sc.plant(sp1.files)
        r1 = t3.run_impl(sc, sp1, timeout=60)
        problems = []
        if r1["rc"] != 0:
            problems.append(("unexpected-failure", r1["stderr"][-200:]))
        else:
            for p in paths:
                for f in (p + ".copy", p + ".copy.upper"):
                    os.remove(os.path.join(sc.work, f))
            r2 = t3.run_impl(sc, sp2, timeout=60)
            if r2["rc"] != 0:
                problems.append(("rerun-fails", "outputs deleted (audit files left), run again with another tag key: exit %s: %s" % (r2["rc"], r2["stderr"][-200:])))
            else:
                for p in paths:
                    want = {"group": p + ".copy"}
                    for f, pick in ((p + ".copy", lambda r: r), (p + ".copy.upper", lambda r: r), (p + ".copy.upper", lambda r: (r.get("Upstream") or {}).get(p + ".copy") or {})):
                        v = r2["fs"].get(f + ".audit.json")
                        rec = pick(json.loads(v[1])) if v else {}
                        if (rec.get("Tags") or {}) != want:
                            problems.append(("stale-tags", "the record of the newly produced %r (or its upstream entry) has tags %s, the run attached %s (a stale audit file of the deleted file carried batch=...)" % (f, rec.get("Tags"), want)))
                            break
        return {"spec": sp2.text(), "bufsize": 128, "problems": problems[:3], "known": [], "joined": False, "records": 2 * L, "ntasks": 2 * L, "rc": r1["rc"], "stderr": r1["stderr"][-200:], "yield": None, "wall": r1["wall"], "shape": 11}
    finally:
        sc.close()


def run(rep, tier, seed):
    proved = vlib.prove(rep, MODULE, THEOREMS)
    ok, msg = vlib.build_ocaml()
    if not ok:
        raise RuntimeError("extraction/driver build failed: " + msg[-1500:])
    n = 80 if tier == "quick" else 1500
    results = [r for r in t3.run_many(case, [(seed, i) for i in range(n)]) if r]
    rng = random.Random(seed)
    ccases = []
    for k in range(1 if tier == "quick" else 8):
        sp = t3.gen_workflow(random.Random(seed + k), maxlen=3, nproc=3, allow_params=False)
        m = t3.run_model(sp.text())
        if m["status"] == "done" and not m["failed"]:
            pts, _ = t3.hook_points(sp, prefixes=("exec.", "fin."))
            ccases += [((sp, m), pt) for pt in pts]
    results += t3.run_many(crash_case, ccases)
    results += t3.run_many(memory_tags_case, [(seed, i) for i in range(n // 8)])
    results += t3.run_many(stale_audit_case, [(seed, i) for i in range(n // 10)])
    results += t3.run_many(escape_case, [(seed, i) for i in range(n // 4)])
    results += t3.run_many(ks.ks_case, [(seed, i, ("audit",)) for i in range(n // 6)])
    kf = vlib.known_findings("C10")
    for r in results:
        for kind, path, up, k in r["known"]:
            if r["joined"] and any(f["kind"] == "substream-member-tags-not-merged" for f in kf):
                rep.known_finding("tags of sub-stream members are not propagated to the record of the task that joins them (only the carrier IP's tags are merged)")
            else:
                r["problems"].append((kind, "tag %r of the upstream record %r is missing on the record of %r" % (k, up, path)))
    t3.report_t3(rep, MODULE, proved, results, "T3 audit trees vs the model's lineage")
    rep.cov["evaluations"] = sum(r["records"] for r in results)
    rep.cov["distinct_nontrivial"] = len({r["spec"] for r in results if r["ntasks"] >= 2})
    rep.cov["rule"] = "random workflows (multi-input, multi-output, parameters, fan-out), plus a tagging component on a linear path with a {t:..} placeholder downstream, plus sub-streams (members as upstream records), plus tagged items entering a sub-stream; every <path>.audit.json of the run is parsed: valid JSON, process, non-empty command, start <= finish, duration >= 0, OutFiles contains the file, tags of every upstream record present; and the record without IDs and times must equal, recursively down to the source files, the lineage tree computed by the Coq reference evaluator (command text via the Format model); evaluations = audit records compared; non-trivial = at least two executed tasks"
    rep.cov["rule"] += "; plus kitchen-sink workflows (tools/ks.py: random workflows decorated with tagging components, sub-streams, Concatenator / FileSplitter, streamed pairs, component parameter feeders, Go-function and multi-core processes, RunTo) judged by the model-free audit oracle"
    rep.cov["samples"] = [results[1]["spec"]]
    rep.notes["input_distribution"] = {"runs": len(results), "records": sum(r["records"] for r in results), "by_shape": {str(s): sum(1 for r in results if r["shape"] == s) for s in range(5)}, "crash_points": sum(1 for r in results if r["shape"] == 9)}
    rep.assump += ["H-ids: record IDs are pairwise distinct", "a tagging component is the only consumer of the out-port it reads (a sibling consumer of the same IP may or may not see the tag, by timing)"]


def replay(r):
    return t3.replay_generic(r)
