# C12 -- no data races (partial: lock discipline proved; the race detector searches for failing inputs).
import random
from tools import vlib, t3
from tools import ks
from tools.vlib import hx

MODULE = "PropC12"
THEOREMS = ["C12_code_conforms", "C12_lockset_sound", "C12_discipline_tags", "C12_discipline_ports_and_slots", "C12_only_accessors", "C12_no_writes_to_package_variables", "C12_tags_refuted_before_repair", "C12_feeder_refuted_before_repair", "C12_cone_conforms", "C12_shared_ip_half_done_refuted", "C12_no_goroutine_captures_a_loop_variable"]


def build(rng, i):
    buf = rng.choice([1, 2, 128])
    sp = t3.Spec(maxtasks=rng.randint(2, 6), bufsize=buf)
    L = rng.randint(2, 6)
    paths = ["r%d.txt" % j for j in range(L)]
    for p in paths:
        sp.files[p] = p + "\n"
    s = sp.src("src", paths)
    kind = i % 8
    if kind == 7:
        # one out-port fanned out to several Go-function consumers that read the shared IP through the library (FileIP.Read)
        sp.max = max(sp.max, 4)
        a = sp.proc(t3.Proc("mk", kind="cattok", ins=[("a", [(s, "out")])], outs=[("o", "{i:a}.mk")]))
        for k in range(rng.randint(2, 4)):
            sp.proc(t3.Proc("rd%d" % k, kind="cattok", ins=[("a", [(a, "o")])], outs=[("o", "{i:a}.rd%d" % k)], gofunc=True))
        return sp
    if kind == 6:
        # one sub-stream carrier fanned out to several joining processes: the carrier IP (and its sub-stream) is shared by them
        a = sp.proc(t3.Proc("pre", kind="cattok", ins=[("a", [(s, "out")])], outs=[("o", "{i:a}.pre")]))
        j = sp.s2s("s2s", a, "o")
        for k in range(rng.randint(2, 3)):
            sp.proc(t3.Proc("join%d" % k, kind="cat", ins=[("a", [(j, "substream")])], outs=[("o", "joined%d.txt" % k)], join={"a": " "}))
        return sp
    if kind == 5:
        # a tagging component and a Concatenator are siblings on one out-port (the tagger slower than the concatenator);
        # the concatenated file is consumed downstream
        tg = sp.raw("COMP maptags %s %s %d %s %d" % (hx("tagger"), hx("k"), s, hx("out"), rng.choice([5, 30, 100])))
        cc = sp.raw("COMP concat %s %s %d %s" % (hx("cc"), hx("all.txt"), s, hx("out")))
        sp.proc(t3.Proc("after", kind="cat", ins=[("a", [(cc, "out")])], outs=[("o", "{i:a}.after")]))
        sp.proc(t3.Proc("tagged", kind="cat", ins=[("a", [(tg, "out")])], outs=[("o", "{i:a}.tagged")]))
        return sp
    if kind == 4:
        # sibling consumers of one source with path modifiers in their output patterns and commands, default names,
        # parameter feeders: everything task formation touches (formatting helpers, regular expressions) runs concurrently
        mods = ["%.txt", "basename", "dirname", "s/r/R/", "%.txt|s/r/q/"]
        for k in range(rng.randint(2, 5)):
            m = rng.choice(mods)
            sp.proc(t3.Proc("sib%d" % k, kind=rng.choice(["cat", "cattok"]), ins=[("a", [(s, "out")])],
                            pars=[("q", ("V", ["v%d" % j for j in range(L)]))] if rng.random() < 0.4 else [],
                            outs=[("o", rng.choice(["{i:a|%s}.sib%d.txt" % (m, k), None]))]))
        return sp
    if kind == 0:
        # fan-out of one out-port to several consumers, one of them a tagging component; tagged items feed further tasks
        a = sp.proc(t3.Proc("mk", kind="cattok", ins=[("a", [(s, "out")])], outs=[("o", "{i:a}.mk"), ("o2", "{i:a}.mk2")], cores=rng.randint(1, 2)))
        tg = sp.raw("COMP maptags %s %s %d %s %d" % (hx("tagger"), hx("k"), a, hx("o"), rng.choice([0, 0, 30, 150])))
        c1 = sp.proc(t3.Proc("c1", kind="cat", ins=[("a", [(a, "o")])], outs=[("o", "{i:a}.c1")]))
        sp.proc(t3.Proc("down", kind="cat", ins=[("a", [(c1, "o")])], outs=[("o", "{i:a}.down")], sleep="sleep 0.0%d" % rng.randint(1, 9)))
        sp.proc(t3.Proc("c2", kind="cat", ins=[("a", [(a, "o")])], outs=[("o", "{i:a}.c2")]))
        sp.proc(t3.Proc("c3", kind="cat", ins=[("a", [(tg, "out")])], outs=[("o", "{i:a}.c3")]))
        sp.proc(t3.Proc("c4", kind="cat", ins=[("a", [(a, "o2")])], outs=[("o", "{i:a}.c4")]))
    elif kind == 1:
        # tagging directly on a source that also feeds other consumers; concatenation grouped by tag downstream
        tg = sp.raw("COMP maptags %s %s %d %s" % (hx("tagger"), hx("k"), s, hx("out")))
        sp.proc(t3.Proc("d1", kind="cattok", ins=[("a", [(s, "out")])], outs=[("o", "{i:a}.d1")]))
        sp.proc(t3.Proc("d2", kind="cattok", ins=[("a", [(tg, "out")])], outs=[("o", "{i:a}.d2")], cores=2))
        sp.raw("COMP concat %s %s %d %s %s" % (hx("cc"), hx("all.txt"), tg, hx("out"), hx("k")))
    elif kind == 2:
        # fan-in of several upstreams into one port, multi-core tasks, parameter feeders
        a = sp.proc(t3.Proc("u1", kind="cattok", ins=[("a", [(s, "out")])], outs=[("o", "{i:a}.u1")], cores=rng.randint(1, 2)))
        b = sp.proc(t3.Proc("u2", kind="cattok", ins=[("a", [(s, "out")])], outs=[("o", "{i:a}.u2")]))
        sp.proc(t3.Proc("m", kind="cattok", ins=[("a", [(a, "o"), (b, "o")])], pars=[("q", ("V", ["p%d" % j for j in range(2 * L)]))], outs=[("o", "{i:a}.m.{p:q}")]))
    else:
        # sub-streams, streaming and combinators together
        a = sp.proc(t3.Proc("pre", kind="cattok", ins=[("a", [(s, "out")])], outs=[("o", "{i:a}.pre")]))
        j = sp.s2s("s2s", a, "o")
        sp.proc(t3.Proc("joiner", kind="cat", ins=[("a", [(j, "substream")])], outs=[("o", "joined.txt")], join={"a": " "}))
        p = sp.proc(t3.Proc("prod", kind="cat", ins=[("a", [(a, "o")])], outs=[("o", "{i:a}.st")], stream_outs=["o"]))
        sp.proc(t3.Proc("cons", kind="cat", ins=[("a", [(p, "o")])], outs=[("o", "{i:a}.cons")]))
        sp.max = max(sp.max, 2 * L)
    return sp


def case(args):
    seed, i = args
    rng = random.Random(seed * 373587883 + i)
    sp = build(rng, i)
    sc = t3.Scratch()
    try:
        sc.plant(sp.files)
        # in half of the runs the hooks are inactive: their mutex would otherwise order the goroutines and hide races
        quiet = rng.random() < 0.5
        impl = t3.run_impl(sc, sp, binary="wfrun_race", timeout=120, yield_seed=(rng.randint(1, 10**6), 200) if (not quiet and rng.random() < 0.5) else None,
                           env={"GORACE": "halt_on_error=0 exitcode=66"}, hooks_on=not quiet)
        problems = []
        if "DATA RACE" in impl["stderr"] or impl["rc"] == 66:
            i0 = impl["stderr"].find("WARNING: DATA RACE")
            problems.append(("data-race", "the Go race detector reports a data race: " + impl["stderr"][i0:i0 + 1500]))
        elif impl["timed_out"]:
            problems.append(("hang", "race-built run did not terminate"))
        elif impl["rc"] != 0:
            problems.append(("unexpected-failure", "rc=%s %s" % (impl["rc"], impl["stderr"][-300:])))
        return {"spec": sp.text(), "bufsize": sp.bufsize, "problems": problems, "ntasks": len(sp.nodes), "rc": impl["rc"], "stderr": impl["stderr"][-200:], "yield": None,
                "wall": impl["wall"], "kind": ["fanout+tagging", "source-tagging+groupby", "fanin+multicore+params", "substream+streaming", "siblings+modifiers", "tagger+concatenator-siblings", "substream-fanout", "fanout-to-gofunc-readers"][i % 8] + ("/hooks-off" if quiet else "")}
    finally:
        sc.close()


def feeder_case(args):
    """parameter feeders created by FromStr run as goroutines from the moment the port is wired; with few values they finish --
    and drop their connection -- while the program is still wiring the workflow and RunTo traverses it upstream (finding D20)"""
    seed, i = args
    rng = random.Random(seed * 373587911 + i)
    sp = t3.Spec(maxtasks=rng.randint(2, 4), bufsize=rng.choice([2, 128]))
    n = rng.randint(4, 8)
    prev = None
    idxs = []
    for k in range(n):
        pars = [("q%d" % j, ("V", ["v%d" % (j)])) for j in range(rng.randint(1, 3))]
        if prev is None:
            p = t3.Proc("f%d" % k, kind="write", pars=pars, outs=[("o", "f%d.%s.txt" % (k, ".".join("{p:%s}" % q for q, _ in pars)))])
        else:
            p = t3.Proc("f%d" % k, kind="cattok", ins=[("a", [(prev, "o")])], pars=pars, outs=[("o", "{i:a}.f%d" % k)])
        prev = sp.proc(p)
        idxs.append(prev)
    sp.runto = [rng.choice(idxs[n // 2:])]
    sp.runto_mode = rng.choice(["N", "R", "P"])
    sc = t3.Scratch()
    try:
        sc.plant(sp.files)
        impl = t3.run_impl(sc, sp, binary="wfrun_race", timeout=120, env={"GORACE": "halt_on_error=0 exitcode=66"}, hooks_on=(rng.random() < 0.5))
        problems = []
        if "DATA RACE" in impl["stderr"] or impl["rc"] == 66:
            i0 = impl["stderr"].find("WARNING: DATA RACE")
            problems.append(("data-race", "the Go race detector reports a data race: " + impl["stderr"][i0:i0 + 1500]))
        elif impl["timed_out"]:
            problems.append(("hang", "race-built run did not terminate"))
        elif impl["rc"] != 0:
            problems.append(("unexpected-failure", "rc=%s %s" % (impl["rc"], impl["stderr"][-300:])))
        return {"spec": sp.text(), "bufsize": sp.bufsize, "problems": problems, "ntasks": len(sp.nodes), "rc": impl["rc"], "stderr": impl["stderr"][-200:], "yield": None,
                "wall": impl["wall"], "kind": "fromstr-feeders+runto"}
    finally:
        sc.close()


def sink_case(args):
    """what the sink does with what it receives: several streamed items that nobody consumes (dangling, or their consumer cut
    off by RunTo) arrive at the sink one after the other, beside the regular outputs of other processes; the sink drains each
    FIFO in a goroutine of its own while it goes on receiving"""
    seed, i = args
    rng = random.Random(seed * 373587923 + i)
    sp = t3.Spec(maxtasks=rng.randint(2, 5), bufsize=rng.choice([1, 2, 128]))
    L = rng.randint(2, 5)
    paths = ["k%d.txt" % j for j in range(L)]
    for p in paths:
        sp.files[p] = ("payload of %s\n" % p) * rng.choice([1, 50, 5000])
    s = sp.src("src", paths)
    prod = sp.proc(t3.Proc("prod", kind="cat", ins=[("a", [(s, "out")])], outs=[("o", "{i:a}.stream"), ("o2", "{i:a}.reg")], stream_outs=["o"]))
    sp.proc(t3.Proc("other", kind="cattok", ins=[("a", [(s, "out")])], outs=[("o", "{i:a}.other")]))
    if i % 2:
        sp.proc(t3.Proc("cons", kind="cat", ins=[("a", [(prod, "o")])], outs=[("o", "{i:a|basename}.cons")]))
        sp.runto = [prod]
        sp.runto_mode = rng.choice(["N", "R", "P"])
    sp.max += L
    sc = t3.Scratch()
    try:
        sc.plant(sp.files)
        quiet = rng.random() < 0.5
        impl = t3.run_impl(sc, sp, binary="wfrun_race", timeout=120, env={"GORACE": "halt_on_error=0 exitcode=66"}, hooks_on=not quiet)
        problems = []
        if "DATA RACE" in impl["stderr"] or impl["rc"] == 66:
            i0 = impl["stderr"].find("WARNING: DATA RACE")
            problems.append(("data-race", "the Go race detector reports a data race: " + impl["stderr"][i0:i0 + 1500]))
        elif impl["timed_out"]:
            problems.append(("hang", "race-built run did not terminate"))
        elif impl["rc"] != 0:
            problems.append(("unexpected-failure", "rc=%s %s" % (impl["rc"], impl["stderr"][-300:])))
        return {"spec": sp.text(), "bufsize": sp.bufsize, "problems": problems, "ntasks": len(sp.nodes), "rc": impl["rc"], "stderr": impl["stderr"][-200:], "yield": None,
                "wall": impl["wall"], "kind": "unconsumed-streams-at-the-sink" + ("/hooks-off" if quiet else "")}
    finally:
        sc.close()


def rerun_drain_case(args):
    """a completed workflow with a producer of two streamed outputs and one consumer of both is run again: the consumer's task is
    skipped and drains both FIFOs, each in a goroutine of its own, while the producer's command writes them"""
    seed, i = args
    rng = random.Random(seed * 373587943 + i)
    n = rng.randint(1, 2)
    sp = t3.Spec(maxtasks=2 * n + rng.randint(0, 2), bufsize=rng.choice([1, 128]))
    paths = []
    for j in range(n):
        p = "rd%d.dat" % j
        sp.files[p] = ("payload %d " % j) * rng.choice([1, 200, 9000])
        paths.append(p)
    s = sp.src("src", paths)
    prod = sp.proc(t3.Proc("prod", kind="cat", ins=[("a", [(s, "out")])], outs=[("o", "{i:a}.s1"), ("o2", "{i:a}.s2")], stream_outs=["o", "o2"]))
    sp.proc(t3.Proc("cons", kind="cat", ins=[("a", [(prod, "o")]), ("b", [(prod, "o2")])], outs=[("o", "{i:a|basename}.cons")]))
    sc = t3.Scratch()
    try:
        sc.plant(sp.files)
        quiet = rng.random() < 0.5
        problems = []
        impl = None
        for k in range(2):
            impl = t3.run_impl(sc, sp, binary="wfrun_race", timeout=60, env={"GORACE": "halt_on_error=0 exitcode=66"}, hooks_on=not quiet)
            which = ["first run", "re-run of the completed workflow"][k]
            if "DATA RACE" in impl["stderr"] or impl["rc"] == 66:
                i0 = impl["stderr"].find("WARNING: DATA RACE")
                problems.append(("data-race", "%s: the Go race detector reports a data race: %s" % (which, impl["stderr"][i0:i0 + 1500])))
            elif impl["timed_out"]:
                problems.append(("hang", "%s (race-built) did not terminate" % which))
            elif impl["rc"] != 0:
                problems.append(("unexpected-failure", "%s: rc=%s %s" % (which, impl["rc"], impl["stderr"][-300:])))
            if problems:
                break
        return {"spec": sp.text(), "bufsize": sp.bufsize, "problems": problems, "ntasks": len(sp.nodes), "rc": impl["rc"], "stderr": impl["stderr"][-200:], "yield": None,
                "wall": impl["wall"], "kind": "rerun-draining-two-streams" + ("/hooks-off" if quiet else "")}
    finally:
        sc.close()


def run(rep, tier, seed):
    proved = vlib.prove(rep, MODULE, THEOREMS)
    out = vlib.build_go(race=True)
    bad = {k: m for k, (ok, m) in out.items() if not ok}
    if bad:
        raise RuntimeError("race build failed: %s" % str(bad)[-800:])
    n = 40 if tier == "quick" else 640
    results = t3.run_many(case, [(seed, i) for i in range(n)], workers=8)
    results += t3.run_many(ks.ks_case, [(seed, i, ("race",)) for i in range(n // 3)], workers=8)
    results += t3.run_many(feeder_case, [(seed, i) for i in range(n // 2)], workers=8)
    results += t3.run_many(sink_case, [(seed, i) for i in range(n // 4)], workers=8)
    results += t3.run_many(rerun_drain_case, [(seed, i) for i in range(n // 6)], workers=8)
    t3.report_t3(rep, MODULE, proved, results, "lock discipline on the regenerated skeletons / race-detector runs")
    rep.cov["evaluations"] = len(results)
    rep.cov["distinct_nontrivial"] = len({r["spec"] for r in results})
    rep.cov["rule"] = "workflows built with `go build -race -tags verif`: fan-out of one out-port to several consumers incl. a tagging component (MapToTags) and sibling outputs, tagging on a shared source plus group-by-tag concatenation, fan-in with multi-core tasks and parameter feeders, sub-streams + streaming + chains, sibling consumers whose output patterns use path modifiers / default names / parameter feeders, a tagging component beside a Concatenator on one out-port, one sub-stream carrier fanned out to several joining processes, one out-port fanned out to several Go-function consumers that read the shared IP with FileIP.Read, chains of processes with FromStr parameter feeders run with RunTo, several unconsumed streamed items and regular outputs arriving at the sink, a completed two-streams workflow run again (the skipped consumer drains both FIFOs); in half of the runs the hooks are inactive (they take no lock then, so they cannot hide a race), in a quarter seeded delays at the hook points; a DATA RACE report (exit 66) is a failing input; the race detector is search, not proof; every case is distinct and non-trivial"
    rep.cov["rule"] += "; plus kitchen-sink workflows (tools/ks.py: random workflows decorated with tagging components, sub-streams, Concatenator / FileSplitter, streamed pairs, component parameter feeders, Go-function and multi-core processes, RunTo) judged by the model-free race-detector oracle"
    rep.cov["samples"] = [results[0]["spec"]]
    kinds = {}
    for r in results:
        kinds[r["kind"]] = kinds.get(r["kind"], 0) + 1
    rep.notes["input_distribution"] = {"by_kind": kinds, "max_wall_s": round(max(r["wall"] for r in results), 2)}
    rep.notes["partial"] = "theorems: lockset soundness + computed discipline on regenerated skeletons; not covered: completeness of the access enumeration, channel hand-offs, logging, runtime"
    rep.assump += ["Go memory model: mutexes and channel operations synchronise", "the race detector only sees the interleavings that occur"]


def replay(r):
    return t3.replay_generic(r)
