# C18 -- a joined in-port receives the whole sub-stream, once, in order.
import json, os, random
from tools import vlib, t3
from tools.vlib import hx, unhx

MODULE = "PropC18"
THEOREMS = ["C18_code_conforms", "C18_one_carrier", "C18_once", "C18_command", "C18_resolvable", "C18_example", "C18_cone_conforms"]


def case(args):
    seed, i = args
    rng = random.Random(seed * 217645177 + i)
    buf = rng.choice([1, 2, 3])
    sp = t3.Spec(maxtasks=rng.randint(1, 4), bufsize=buf)
    L = rng.choice([0, 1, 2, buf, buf + 1, buf + 3])
    paths = [rng.choice(["", "d/"]) + "m%d.txt" % j for j in range(L)]
    for p in paths:
        sp.files[p] = p + "\n"
    s = sp.src("src", paths)
    up = (s, "out")
    if rng.random() < 0.6:   # a (slow or fast) producer process in front of the adapter
        up = (sp.proc(t3.Proc("pre", kind="cattok", ins=[("a", [up])], outs=[("o", "{i:a}.pre")],
                              sleep=rng.choice([None, "sleep 0.02", 'sleep 0.0$(( $(echo {i:a} | cksum | cut -c1-1) % 5 ))']))), "o")
    j = sp.s2s("s2s", up[0], up[1])
    sep = rng.choice([" ", ",", ":"])
    two = rng.random() < 0.35
    alts = []
    if two:
        # a second sub-stream reaches the same joined in-port: one task each, each with its own members; which of the two
        # arrives first is not determined, so either pairing with the parameter values is legal
        L2 = rng.choice([1, 2, buf + 1])
        paths2 = ["n%d.txt" % k for k in range(L2)]
        for p in paths2:
            sp.files[p] = p + "\n"
        s2 = sp.src("src2", paths2)
        j2 = sp.s2s("s2s2", s2, "out")
        import copy
        sp_alt = copy.deepcopy(sp)
        for spx, order in ((sp, [j, j2]), (sp_alt, [j2, j])):
            spx.proc(t3.Proc("joiner", kind="cattok", ins=[("a", [(o, "substream") for o in order])], pars=[("q", ("V", ["x", "y"]))],
                             outs=[("o", "{p:q}.joined.txt")], join={"a": sep}))
        alts = [sp_alt]
    else:
        sp.proc(t3.Proc("joiner", kind="cattok", ins=[("a", [(j, "substream")])], outs=[("o", "joined.txt")], join={"a": sep}))
    def extra(sp_, model, impl, sc):
        problems = []
        if impl["rc"] != 0:
            return problems
        n = sum(1 for k in t3.started_keys(impl["trace"]) if k.startswith("joiner"))
        if n != (2 if two else 1):
            problems.append(("not-once", "the task with the joined in-port ran %d times for %d sub-stream(s)" % (n, 2 if two else 1)))
        for t in model["tasks"]:
            if t["proc"] != "joiner":
                continue
            v = impl["fs"].get(t["outs"][0][2] + ".audit.json")
            if v:
                rec = json.loads(v[1])
                members = t["ins"][0][2]
                missing = [m for m in members if m not in rec.get("Upstream", {})]
                if missing:
                    problems.append(("upstream-missing", "sub-stream members not recorded as upstream of the joined task: %s" % missing[:3]))
        return problems
    ys = (rng.randint(1, 10**6), 500) if rng.random() < 0.4 else None
    r = t3.success_case(sp, yield_seed=ys, extra_check=extra, alts=alts)
    r["L"], r["sep"] = L, sep
    return r


def same_task_members_case(args):
    """a sub-stream whose members include several outputs of one and the same upstream task (a process with two out-ports,
    both connected to the adapter): the joining task runs once, its command names every member once, its output is their
    concatenation in that order, and each of them is recorded as upstream"""
    seed, i = args
    rng = random.Random(seed * 217645199 + i)
    sp = t3.Spec(maxtasks=rng.randint(1, 4), bufsize=rng.choice([1, 2, 3, 128]))
    L = rng.randint(1, 4)
    paths = ["p%d.txt" % j for j in range(L)]
    for p in paths:
        sp.files[p] = p + "\n"
    s = sp.src("src", paths)
    two = sp.proc(t3.Proc("two", kind="cattok", ins=[("a", [(s, "out")])], outs=[("o", "parts/{i:a}.left"), ("o2", "parts/{i:a}.right")]))
    extra_src = rng.random() < 0.5
    line = "S2S %s %d %s %d %s" % (vlib.hx("s2s"), two, vlib.hx("o"), two, vlib.hx("o2"))
    members = ["parts/%s.%s" % (p, side) for p in paths for side in ("left", "right")]
    if extra_src:
        sp.files["extra.txt"] = "extra\n"
        s2 = sp.src("src2", ["extra.txt"])
        line += " %d %s" % (s2, vlib.hx("out"))
        members.append("extra.txt")
    j = sp.raw(line)
    sep = rng.choice([" ", ",", ":"])
    body = "cat {i:a|join: }" if sep == " " else 'cat $(echo "{i:a|join:%s}" | tr "%s" " ")' % (sep, sep)
    sp.proc(t3.RawProc("joiner", body + " > {o:o}", ins=[("a", [(j, "substream")])], outs=[("o", "joined.txt")], join={"a": sep}))
    sc = t3.Scratch()
    try:
        sc.plant(sp.files)
        impl = t3.run_impl(sc, sp, timeout=60, yield_seed=(rng.randint(1, 10**6), 500) if rng.random() < 0.4 else None)
        problems = []
        v = impl["fs"].get("joined.txt.audit.json")
        if impl["rc"] != 0 or not impl["returned"] or not v:
            problems.append(("unexpected-failure", "exit %s: %s" % (impl["rc"], impl["stderr"][-200:])))
        else:
            rec = json.loads(v[1])
            import re
            named = re.findall(r"\.\./([A-Za-z0-9_./]+)", rec.get("Command", "").split(" > ")[0])
            if sorted(named) != sorted(members):
                problems.append(("join-members", "the joined command names %s, the sub-stream consists of %s" % (named, sorted(members))))
            files = t3.data_files(impl["fs"])
            want = "".join(files.get(m, "?") for m in named)
            if files.get("joined.txt") != want:
                problems.append(("join-content", "joined.txt is not the concatenation of the members in the order of the command"))
            missing = [m for m in named if m not in (rec.get("Upstream") or {})]
            if missing:
                problems.append(("upstream-missing", "sub-stream members given to the joined command but not recorded as upstream in its audit record: %s (Upstream keys: %s)" % (missing[:3], sorted(rec.get("Upstream") or {})[:6])))
        return {"spec": sp.text(), "bufsize": sp.bufsize, "problems": problems, "ntasks": L + 1, "rc": impl["rc"], "stderr": impl["stderr"][-200:], "yield": None, "wall": impl["wall"], "L": 2 * L, "sep": sep}
    finally:
        sc.close()


def two_joined_ports_case(args):
    """a process with two joined in-ports, each fed by a sub-stream of its own: each placeholder expands to the members of its
    own sub-stream, in order, and all of them are recorded as upstream"""
    seed, i = args
    rng = random.Random(seed * 217645231 + i)
    sp = t3.Spec(maxtasks=rng.randint(1, 4), bufsize=rng.choice([1, 2, 3, 128]))
    nl, nr = rng.randint(1, 4), rng.randint(1, 4)
    left = ["l%d.txt" % j for j in range(nl)]
    right = ["r%d.txt" % j for j in range(nr)]
    for p in left + right:
        sp.files[p] = p + "\n"
    s1 = sp.src("srcl", left)
    s2 = sp.src("srcr", right)
    j1 = sp.s2s("s2sl", s1, "out")
    j2 = sp.s2s("s2sr", s2, "out")
    sep = rng.choice([",", ":", " "])
    sp.proc(t3.RawProc("joiner", "echo LEFT {i:l|join:%s} RIGHT {i:r|join:%s} > {o:o}" % (sep, sep), ins=[("l", [(j1, "substream")]), ("r", [(j2, "substream")])],
                       outs=[("o", "both.txt")], join={"l": sep, "r": sep}))
    sc = t3.Scratch()
    try:
        sc.plant(sp.files)
        impl = t3.run_impl(sc, sp, timeout=60, yield_seed=(rng.randint(1, 10**6), 500) if rng.random() < 0.4 else None)
        problems = []
        v = impl["fs"].get("both.txt.audit.json")
        if impl["rc"] != 0 or not impl["returned"] or not v:
            problems.append(("unexpected-failure", "exit %s: %s" % (impl["rc"], impl["stderr"][-200:])))
        else:
            rec = json.loads(v[1])
            want = "echo LEFT %s RIGHT %s > both.txt" % (sep.join("../" + p for p in left), sep.join("../" + p for p in right))
            if rec.get("Command") != want:
                problems.append(("join-expansion", "two joined in-ports: the command was %r, the sub-streams demand %r" % (rec.get("Command"), want)))
            missing = [m for m in left + right if m not in (rec.get("Upstream") or {})]
            if missing:
                problems.append(("upstream-missing", "sub-stream members not recorded as upstream of the joined task: %s" % missing[:4]))
        return {"spec": sp.text(), "bufsize": sp.bufsize, "problems": problems, "ntasks": 1, "rc": impl["rc"], "stderr": impl["stderr"][-200:], "yield": None, "wall": impl["wall"], "L": nl + nr, "sep": sep}
    finally:
        sc.close()


def t2_lines(rng, n):
    """the join branch of formatCommand with modifiers, through NewTask -> Task.Command"""
    paths = ["a.txt", "d/b.txt", "/abs/c.txt", "x", "../up/y.txt", "d.e/f.g.txt"]
    mods = ["", "|basename", "|%.txt", "|dirname", "|s/txt/TXT/", "|%.txt|basename"]
    lines = []
    for _ in range(n):
        sep = rng.choice([" ", ",", ":", ";", "--"])
        m = rng.choice(mods)
        pat = "cat {i:j|join:%s%s} > {o:out}" % (sep, m) if rng.random() < 0.7 else "cat {i:j%s|join:%s} > {o:out}" % (m, sep)
        ms = [rng.choice(paths) for _ in range(rng.randint(0, 6))]
        lines.append("%s 0 1 %s %d%s 1 %s %s 0 0" % (hx(pat), hx("j"), len(ms), "".join(" " + hx(x) for x in ms), hx("out"), hx("res.txt")))
    return lines


def run(rep, tier, seed):
    proved = vlib.prove(rep, MODULE, THEOREMS)
    ok, msg = vlib.build_ocaml()
    if not ok:
        raise RuntimeError("extraction/driver build failed: " + msg[-1500:])
    rng = random.Random(seed)
    n = 60 if tier == "quick" else 1000
    results = t3.run_many(case, [(seed, i) for i in range(n)])
    results += t3.run_many(same_task_members_case, [(seed, i) for i in range(n // 4)])
    results += t3.run_many(two_joined_ports_case, [(seed, i) for i in range(n // 4)])
    # sub-streams delivered by a component other than StreamToSubStream, on the carrier's own sub-stream port (checks/c08.py)
    from checks import c08 as _c08
    for r in t3.run_many(_c08.grouped_case, [(seed, i) for i in range(n // 8)]):
        r.setdefault("L", r["ntasks"]); r.setdefault("sep", " ")
        results.append(r)
    found = t3.report_t3(rep, MODULE, proved, results, "T3 sub-streams / T2 join branch")
    lines = t2_lines(rng, 500 if tier == "quick" else 10000)
    diffs, impl, model = vlib.t2_compare("format", lines)
    if diffs and not found:
        i, a, b = diffs[0]
        rep.violation("the joined placeholder expands differently from the model: %r vs %r" % (unhx(a) if a != "<FAIL>" else a, unhx(b) if b != "<FAIL>" else b),
                      {"kind": "join-expansion", "input_line": lines[i] if i >= 0 else None, "impl": a, "model": b, "pattern": unhx(lines[i].split()[0]) if i >= 0 else None})
    rep.cov["evaluations"] = len(results) + len(lines)
    rep.cov["distinct_nontrivial"] = len({r["spec"] for r in results if r["L"] >= 1}) + len(set(lines))
    rep.cov["rule"] = "T3: a source of L files (L in 0,1,2,buf,buf+1,buf+3; SCIPIPE_BUFSIZE 1-3), optionally a fast / slow / irregular producer process, StreamToSubStream, and a process with {i:a|join:SEP} for SEP in space, comma, colon: exactly one command of the joiner, its output (which concatenates the members through the expanded placeholder, so each member resolves from the temp dir and the order is arrival order) and command text equal to the model's, every member a key of Upstream in the audit record; sub-streams whose members include both outputs of one upstream task (a two-out-port process connected twice to the adapter), optionally with a member from elsewhere; a process with two joined in-ports fed by two sub-streams; T2: the join branch with modifiers and five separators through NewTask -> Task.Command vs the extracted model; non-trivial = at least one member"
    rep.cov["samples"] = [results[0]["spec"], unhx(lines[0].split()[0])]
    rep.notes["input_distribution"] = {"t3_runs": len(results), "length_hist": {str(l): sum(1 for r in results if r["L"] == l) for l in sorted({r["L"] for r in results})},
                                       "separators": {s: sum(1 for r in results if r["sep"] == s) for s in (" ", ",", ":")}, "t2_lines": len(lines)}
    rep.assump += ["member paths are valid scipipe paths"]


def replay(r):
    return t3.replay_generic(r)
