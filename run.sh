#!/bin/bash
# usage: ./run.sh quick|thorough Cxx        ./run.sh replay Cxx <replay.json>      ./run.sh setup
cd "$(dirname "$0")"
export GOFLAGS=-mod=mod GOPROXY=off GOSUMDB=off GOTOOLCHAIN=local
exec python3 tools/run.py "$@"
