(* Extraction of the executable models for the correspondence checks (tie T2/T3).
   ExtrOcamlBasic only: bool, option, unit, list, prod, sumbool, sumor map to the OCaml
   types; nat, N, positive, ascii stay extracted inductives.  No directive of our own. *)
From Coq Require Import Extraction ExtrOcamlBasic.
From SP Require Import Str PathLex TempNames TempDirModel Format WfModel Comb Splitter Components Report Json.
Extraction "model.ml" task_tempdir preimage hashed format_command pattern_ok apply_mods port_infos expand default_path path_valid temp_path sanitize split_all dir replace_all eval comb split_bytes lines_of selector concat_out contains report rid jrender decode.
