(* Extraction of the replay engine and the three transition systems for the history correspondence (tie T3-replay).
   ExtrOcamlBasic only; no directive of our own.  RSI / RTI / RNI give the driver names that do not depend on how
   extraction disambiguates the identically named definitions of the three systems. *)
From Coq Require Import Extraction ExtrOcamlBasic.
From SP Require Import Replay ReplayInst.
Extraction "rmodel.ml" RS.slots_replay RSI RT.task_replay RT.table_cfg RT.rows_ok RTI RN.net_replay RNI RP.port_replay RPI.
