(* The call cones the models were compared with: for each function whose skeleton is in Expected.v, every function of
   scipipe it can reach.  Written by tools/accept_cones.py from a tree on which all correspondence runs passed; compared
   with the regenerated cone_* lists of Gen.v by the C??_cone_conforms theorems. *)
From Coq Require Import List String.
Import ListNotations.
Open Scope string_scope.

Definition exp_cone_Task_Execute : list string :=
  ["BaseProcess.Name"; "CheckWithMsg"; "Fail"; "Failf"; "FileIP.AddTag"; "FileIP.AddTags"; "FileIP.AuditFilePath"; "FileIP.AuditInfo"; "FileIP.Fail"; "FileIP.Failf"; "FileIP.FifoPath"; "FileIP.Path"; "FileIP.SetAuditInfo"; "FileIP.Tags"; "FileIP.TempDir"; "FileIP.TempPath"; "FileIP.WriteAuditLogToFile"; "FileIP.auditInfoSnapshot"; "FileIP.createDirs"; "FinalizePaths"; "NewAuditInfo"; "Task.Audit"; "Task.Auditf"; "Task.Fail"; "Task.Failf"; "Task.InIP"; "Task.Param"; "Task.Tag"; "Task.TempDir"; "Task.anyOutputsExist"; "Task.createDirs"; "Task.drainStreamingInputs"; "Task.ensureAllOutputsExist"; "Task.executeCommand"; "Task.finalizePaths"; "Task.signalDone"; "Task.tempDirsExist"; "Task.writeAuditLogs"; "UnmarshalAuditInfoJSONFile"; "Workflow.DecConcurrentTasks"; "Workflow.IncConcurrentTasks"; "errWrap"; "randSeqLC"; "replaceParentDirsWithPlaceholder"; "replacePlaceholdersWithParentDirs"; "sanitizePathFragment"; "sortedFileIPMapKeys"; "sortedFileIPSliceMapKeys"; "sortedStringMapKeys"; "splitAllPaths"; "verifPoint"; "verifTaskKeys"].

Definition exp_cone_FinalizePaths : list string :=
  ["FileIP.Path"; "FileIP.TempPath"; "replaceParentDirsWithPlaceholder"; "replacePlaceholdersWithParentDirs"; "verifPoint"].

Definition exp_cone_Task_finalizePaths : list string :=
  ["BaseProcess.Name"; "Fail"; "Failf"; "FileIP.Path"; "FileIP.TempPath"; "FinalizePaths"; "Task.Fail"; "Task.Failf"; "Task.InIP"; "Task.Param"; "Task.Tag"; "Task.TempDir"; "replaceParentDirsWithPlaceholder"; "replacePlaceholdersWithParentDirs"; "sanitizePathFragment"; "sortedFileIPMapKeys"; "sortedFileIPSliceMapKeys"; "sortedStringMapKeys"; "splitAllPaths"; "verifPoint"].

Definition exp_cone_Task_anyOutputsExist : list string :=
  ["BaseProcess.Name"; "FileIP.Path"; "Task.Audit"; "Task.Auditf"].

Definition exp_cone_Task_tempDirsExist : list string :=
  ["BaseProcess.Name"; "Fail"; "Failf"; "FileIP.Path"; "Task.Fail"; "Task.Failf"; "Task.InIP"; "Task.Param"; "Task.Tag"; "Task.TempDir"; "sanitizePathFragment"; "sortedFileIPMapKeys"; "sortedFileIPSliceMapKeys"; "sortedStringMapKeys"; "splitAllPaths"].

Definition exp_cone_Task_ensureAllOutputsExist : list string :=
  ["BaseProcess.Name"; "Fail"; "Failf"; "FileIP.Path"; "FileIP.TempPath"; "Task.Fail"; "Task.Failf"; "Task.InIP"; "Task.Param"; "Task.Tag"; "Task.TempDir"; "replaceParentDirsWithPlaceholder"; "sanitizePathFragment"; "sortedFileIPMapKeys"; "sortedFileIPSliceMapKeys"; "sortedStringMapKeys"; "splitAllPaths"].

Definition exp_cone_Task_createDirs : list string :=
  ["BaseProcess.Name"; "Fail"; "Failf"; "FileIP.FifoPath"; "FileIP.Path"; "FileIP.TempDir"; "FileIP.TempPath"; "Task.Fail"; "Task.Failf"; "Task.InIP"; "Task.Param"; "Task.Tag"; "Task.TempDir"; "replaceParentDirsWithPlaceholder"; "sanitizePathFragment"; "sortedFileIPMapKeys"; "sortedFileIPSliceMapKeys"; "sortedStringMapKeys"; "splitAllPaths"].

Definition exp_cone_Task_executeCommand : list string :=
  ["BaseProcess.Name"; "Fail"; "Failf"; "FileIP.Path"; "Task.Fail"; "Task.Failf"; "Task.InIP"; "Task.Param"; "Task.Tag"; "Task.TempDir"; "sanitizePathFragment"; "sortedFileIPMapKeys"; "sortedFileIPSliceMapKeys"; "sortedStringMapKeys"; "splitAllPaths"].

Definition exp_cone_Task_writeAuditLogs : list string :=
  ["BaseProcess.Name"; "CheckWithMsg"; "Fail"; "Failf"; "FileIP.AddTag"; "FileIP.AddTags"; "FileIP.AuditFilePath"; "FileIP.AuditInfo"; "FileIP.Fail"; "FileIP.Failf"; "FileIP.FifoPath"; "FileIP.Path"; "FileIP.SetAuditInfo"; "FileIP.Tags"; "FileIP.TempDir"; "FileIP.TempPath"; "FileIP.WriteAuditLogToFile"; "FileIP.auditInfoSnapshot"; "FileIP.createDirs"; "NewAuditInfo"; "UnmarshalAuditInfoJSONFile"; "errWrap"; "randSeqLC"; "replaceParentDirsWithPlaceholder"].

Definition exp_cone_Task_drainStreamingInputs : list string :=
  ["FileIP.FifoPath"].

Definition exp_cone_Workflow_IncConcurrentTasks : list string :=
  ["verifPoint"].

Definition exp_cone_Workflow_DecConcurrentTasks : list string :=
  ["verifPoint"].

Definition exp_cone_Process_Run : list string :=
  ["BaseProcess.CloseOutPorts"; "BaseProcess.Fail"; "BaseProcess.Failf"; "BaseProcess.InParamPorts"; "BaseProcess.InPorts"; "BaseProcess.Name"; "BaseProcess.OutPort"; "BaseProcess.OutPorts"; "BaseProcess.receiveOnInParamPorts"; "BaseProcess.receiveOnInPorts"; "CheckWithMsg"; "Fail"; "Failf"; "FileIP.AddTag"; "FileIP.AddTags"; "FileIP.AuditFilePath"; "FileIP.AuditInfo"; "FileIP.CreateFifo"; "FileIP.Exists"; "FileIP.Fail"; "FileIP.Failf"; "FileIP.FifoFileExists"; "FileIP.FifoPath"; "FileIP.Path"; "FileIP.SetAuditInfo"; "FileIP.Tags"; "FileIP.TempDir"; "FileIP.TempPath"; "FileIP.WriteAuditLogToFile"; "FileIP.auditInfoSnapshot"; "FileIP.createDirs"; "FinalizePaths"; "InParamPort.Fail"; "InParamPort.Failf"; "InParamPort.Name"; "InParamPort.Process"; "InPort.CloseConnection"; "InPort.Fail"; "InPort.Name"; "InPort.Process"; "InPort.Send"; "NewAuditInfo"; "NewBaseIP"; "NewFileIP"; "NewInPort"; "NewTask"; "OutParamPort.Fail"; "OutParamPort.Failf"; "OutParamPort.Name"; "OutParamPort.Process"; "OutPort.Close"; "OutPort.Fail"; "OutPort.Failf"; "OutPort.Name"; "OutPort.Process"; "OutPort.Send"; "OutPort.removeRemotePort"; "Process.Out"; "Process.createTasks"; "Task.Audit"; "Task.Auditf"; "Task.Execute"; "Task.Fail"; "Task.Failf"; "Task.InIP"; "Task.Param"; "Task.Tag"; "Task.TempDir"; "Task.anyOutputsExist"; "Task.createDirs"; "Task.drainStreamingInputs"; "Task.ensureAllOutputsExist"; "Task.executeCommand"; "Task.finalizePaths"; "Task.formatCommand"; "Task.signalDone"; "Task.tempDirsExist"; "Task.writeAuditLogs"; "UnmarshalAuditInfoJSONFile"; "Workflow.DecConcurrentTasks"; "Workflow.IncConcurrentTasks"; "Workflow.Name"; "applyPathModifiers"; "errWrap"; "getBufsize"; "getShellCommandPlaceHolderRegex"; "pathIsValid"; "prependParentDirPath"; "randSeqLC"; "replaceParentDirsWithPlaceholder"; "replacePlaceholdersWithParentDirs"; "sanitizePathFragment"; "sortedFileIPMapKeys"; "sortedFileIPSliceMapKeys"; "sortedStringMapKeys"; "splitAllPaths"; "strInSlice"; "taskQueue.NextTaskDone"; "verifPoint"; "verifPortName"; "verifTaskKeys"].

Definition exp_cone_Process_createTasks : list string :=
  ["BaseProcess.Fail"; "BaseProcess.Failf"; "BaseProcess.InParamPorts"; "BaseProcess.InPorts"; "BaseProcess.Name"; "BaseProcess.receiveOnInParamPorts"; "BaseProcess.receiveOnInPorts"; "CheckWithMsg"; "Fail"; "Failf"; "FileIP.AuditFilePath"; "FileIP.AuditInfo"; "FileIP.Exists"; "FileIP.FifoPath"; "FileIP.Path"; "FileIP.Tags"; "FileIP.TempPath"; "NewAuditInfo"; "NewBaseIP"; "NewFileIP"; "NewInPort"; "NewTask"; "Task.Fail"; "Task.Failf"; "Task.InIP"; "Task.Param"; "Task.Tag"; "Task.TempDir"; "Task.formatCommand"; "UnmarshalAuditInfoJSONFile"; "applyPathModifiers"; "errWrap"; "getBufsize"; "getShellCommandPlaceHolderRegex"; "pathIsValid"; "prependParentDirPath"; "randSeqLC"; "replaceParentDirsWithPlaceholder"; "sanitizePathFragment"; "sortedFileIPMapKeys"; "sortedFileIPSliceMapKeys"; "sortedStringMapKeys"; "splitAllPaths"; "strInSlice"; "verifPoint"; "verifPortName"].

Definition exp_cone_BaseProcess_receiveOnInPorts : list string :=
  ["BaseProcess.InPorts"; "FileIP.Path"; "verifPoint"; "verifPortName"].

Definition exp_cone_BaseProcess_receiveOnInParamPorts : list string :=
  ["BaseProcess.InParamPorts"; "verifPoint"; "verifPortName"].

Definition exp_cone_BaseProcess_CloseOutPorts : list string :=
  ["BaseProcess.Name"; "BaseProcess.OutPorts"; "Fail"; "Failf"; "InParamPort.Fail"; "InParamPort.Failf"; "InParamPort.Name"; "InParamPort.Process"; "InPort.CloseConnection"; "InPort.Fail"; "InPort.Name"; "InPort.Process"; "OutParamPort.Fail"; "OutParamPort.Failf"; "OutParamPort.Name"; "OutParamPort.Process"; "OutPort.Close"; "OutPort.Fail"; "OutPort.Failf"; "OutPort.Name"; "OutPort.Process"; "OutPort.removeRemotePort"; "Workflow.Name"; "verifPoint"; "verifPortName"].

Definition exp_cone_BaseProcess_Ready : list string :=
  ["BaseProcess.Fail"; "BaseProcess.Failf"; "BaseProcess.Name"; "Fail"; "Failf"; "InParamPort.Ready"; "InPort.Ready"; "OutParamPort.Ready"; "OutPort.Ready"].

Definition exp_cone_taskQueue_NextTaskDone : list string :=
  [].

Definition exp_cone_InPort_Send : list string :=
  ["FileIP.Path"; "verifPoint"; "verifPortName"].

Definition exp_cone_InPort_CloseConnection : list string :=
  ["verifPoint"; "verifPortName"].

Definition exp_cone_InParamPort_Send : list string :=
  ["verifPoint"; "verifPortName"].

Definition exp_cone_InParamPort_CloseConnection : list string :=
  ["verifPoint"; "verifPortName"].

Definition exp_cone_OutPort_Send : list string :=
  ["BaseProcess.Name"; "Fail"; "Failf"; "FileIP.Path"; "InParamPort.Fail"; "InParamPort.Failf"; "InParamPort.Name"; "InParamPort.Process"; "InPort.Fail"; "InPort.Name"; "InPort.Process"; "InPort.Send"; "OutParamPort.Fail"; "OutParamPort.Failf"; "OutParamPort.Name"; "OutParamPort.Process"; "OutPort.Fail"; "OutPort.Name"; "OutPort.Process"; "Workflow.Name"; "verifPoint"; "verifPortName"].

Definition exp_cone_OutPort_Close : list string :=
  ["BaseProcess.Name"; "Fail"; "Failf"; "InParamPort.Fail"; "InParamPort.Failf"; "InParamPort.Name"; "InParamPort.Process"; "InPort.CloseConnection"; "InPort.Fail"; "InPort.Name"; "InPort.Process"; "OutParamPort.Fail"; "OutParamPort.Failf"; "OutParamPort.Name"; "OutParamPort.Process"; "OutPort.Fail"; "OutPort.Failf"; "OutPort.Name"; "OutPort.Process"; "OutPort.removeRemotePort"; "Workflow.Name"; "verifPoint"; "verifPortName"].

Definition exp_cone_OutParamPort_Send : list string :=
  ["BaseProcess.Name"; "Fail"; "Failf"; "InParamPort.Fail"; "InParamPort.Failf"; "InParamPort.Name"; "InParamPort.Process"; "InParamPort.Send"; "InPort.Fail"; "InPort.Name"; "InPort.Process"; "OutParamPort.Fail"; "OutParamPort.Failf"; "OutParamPort.Name"; "OutParamPort.Process"; "OutPort.Fail"; "OutPort.Name"; "OutPort.Process"; "Workflow.Name"; "verifPoint"; "verifPortName"].

Definition exp_cone_OutParamPort_Close : list string :=
  ["BaseProcess.Name"; "Fail"; "Failf"; "InParamPort.CloseConnection"; "InParamPort.Fail"; "InParamPort.Failf"; "InParamPort.Name"; "InParamPort.Process"; "InPort.Fail"; "InPort.Name"; "InPort.Process"; "OutParamPort.Fail"; "OutParamPort.Failf"; "OutParamPort.Name"; "OutParamPort.Process"; "OutParamPort.removeRemotePort"; "OutPort.Fail"; "OutPort.Name"; "OutPort.Process"; "Workflow.Name"; "verifPoint"; "verifPortName"].

Definition exp_cone_InParamPort_FromStr : list string :=
  ["BaseProcess.Name"; "Fail"; "Failf"; "InParamPort.AddRemotePort"; "InParamPort.CloseConnection"; "InParamPort.Fail"; "InParamPort.Failf"; "InParamPort.From"; "InParamPort.Name"; "InParamPort.Process"; "InParamPort.Send"; "InParamPort.SetReady"; "InPort.Fail"; "InPort.Name"; "InPort.Process"; "NewOutParamPort"; "OutParamPort.AddRemotePort"; "OutParamPort.Close"; "OutParamPort.Fail"; "OutParamPort.Failf"; "OutParamPort.Name"; "OutParamPort.Process"; "OutParamPort.Send"; "OutParamPort.SetReady"; "OutParamPort.removeRemotePort"; "OutPort.Fail"; "OutPort.Name"; "OutPort.Process"; "Workflow.Name"; "verifPoint"; "verifPortName"].

Definition exp_cone_InParamPort_AddRemotePort : list string :=
  ["BaseProcess.Name"; "Fail"; "Failf"; "InParamPort.Fail"; "InParamPort.Failf"; "InParamPort.Name"; "InParamPort.Process"; "InPort.Fail"; "InPort.Name"; "InPort.Process"; "OutParamPort.Fail"; "OutParamPort.Failf"; "OutParamPort.Name"; "OutParamPort.Process"; "OutPort.Fail"; "OutPort.Name"; "OutPort.Process"; "Workflow.Name"].

Definition exp_cone_InParamPort_connectedOutParamPorts : list string :=
  [].

Definition exp_cone_InPort_From : list string :=
  ["BaseProcess.Name"; "Fail"; "Failf"; "InParamPort.Fail"; "InParamPort.Failf"; "InParamPort.Name"; "InParamPort.Process"; "InPort.AddRemotePort"; "InPort.Fail"; "InPort.Failf"; "InPort.Name"; "InPort.Process"; "InPort.SetReady"; "OutParamPort.Fail"; "OutParamPort.Failf"; "OutParamPort.Name"; "OutParamPort.Process"; "OutPort.AddRemotePort"; "OutPort.Fail"; "OutPort.Failf"; "OutPort.Name"; "OutPort.Process"; "OutPort.SetReady"; "Workflow.Name"].

Definition exp_cone_OutPort_To : list string :=
  ["BaseProcess.Name"; "Fail"; "Failf"; "InParamPort.Fail"; "InParamPort.Failf"; "InParamPort.Name"; "InParamPort.Process"; "InPort.AddRemotePort"; "InPort.Fail"; "InPort.Failf"; "InPort.Name"; "InPort.Process"; "InPort.SetReady"; "OutParamPort.Fail"; "OutParamPort.Failf"; "OutParamPort.Name"; "OutParamPort.Process"; "OutPort.AddRemotePort"; "OutPort.Fail"; "OutPort.Failf"; "OutPort.Name"; "OutPort.Process"; "OutPort.SetReady"; "Workflow.Name"].

Definition exp_cone_OutPort_Disconnect : list string :=
  ["BaseProcess.Name"; "Fail"; "Failf"; "InParamPort.Fail"; "InParamPort.Failf"; "InParamPort.Name"; "InParamPort.Process"; "InPort.Fail"; "InPort.Name"; "InPort.Process"; "OutParamPort.Fail"; "OutParamPort.Failf"; "OutParamPort.Name"; "OutParamPort.Process"; "OutPort.Fail"; "OutPort.Failf"; "OutPort.Name"; "OutPort.Process"; "OutPort.SetReady"; "OutPort.removeRemotePort"; "Workflow.Name"].

Definition exp_cone_InPort_Disconnect : list string :=
  ["BaseProcess.Name"; "Fail"; "Failf"; "InParamPort.Fail"; "InParamPort.Failf"; "InParamPort.Name"; "InParamPort.Process"; "InPort.Fail"; "InPort.Failf"; "InPort.Name"; "InPort.Process"; "InPort.SetReady"; "InPort.removeRemotePort"; "OutParamPort.Fail"; "OutParamPort.Failf"; "OutParamPort.Name"; "OutParamPort.Process"; "OutPort.Fail"; "OutPort.Name"; "OutPort.Process"; "Workflow.Name"].

Definition exp_cone_Workflow_Run : list string :=
  ["BaseProcess.Audit"; "BaseProcess.Auditf"; "BaseProcess.CloseAllOutPorts"; "BaseProcess.CloseOutParamPorts"; "BaseProcess.CloseOutPorts"; "BaseProcess.Fail"; "BaseProcess.Failf"; "BaseProcess.InParamPort"; "BaseProcess.InParamPorts"; "BaseProcess.InPort"; "BaseProcess.InPorts"; "BaseProcess.InitOutPort"; "BaseProcess.Name"; "BaseProcess.OutParamPort"; "BaseProcess.OutParamPorts"; "BaseProcess.OutPort"; "BaseProcess.OutPorts"; "BaseProcess.Ready"; "BaseProcess.receiveOnInParamPorts"; "BaseProcess.receiveOnInPorts"; "CheckWithMsg"; "Fail"; "Failf"; "FileIP.AddTag"; "FileIP.AddTags"; "FileIP.AuditFilePath"; "FileIP.AuditInfo"; "FileIP.CreateFifo"; "FileIP.Exists"; "FileIP.Fail"; "FileIP.Failf"; "FileIP.FifoFileExists"; "FileIP.FifoPath"; "FileIP.Path"; "FileIP.SetAuditInfo"; "FileIP.Tag"; "FileIP.Tags"; "FileIP.TempDir"; "FileIP.TempPath"; "FileIP.WriteAuditLogToFile"; "FileIP.auditInfoSnapshot"; "FileIP.createDirs"; "FinalizePaths"; "InParamPort.AddRemotePort"; "InParamPort.CloseConnection"; "InParamPort.Fail"; "InParamPort.Failf"; "InParamPort.From"; "InParamPort.Name"; "InParamPort.Process"; "InParamPort.Ready"; "InParamPort.Send"; "InParamPort.SetReady"; "InPort.AddRemotePort"; "InPort.CloseConnection"; "InPort.Fail"; "InPort.Failf"; "InPort.From"; "InPort.Name"; "InPort.Process"; "InPort.Ready"; "InPort.Send"; "InPort.SetReady"; "NewAuditInfo"; "NewBaseIP"; "NewFileIP"; "NewInPort"; "NewOutPort"; "NewTask"; "OutParamPort.AddRemotePort"; "OutParamPort.Close"; "OutParamPort.Disconnect"; "OutParamPort.Fail"; "OutParamPort.Failf"; "OutParamPort.Name"; "OutParamPort.Process"; "OutParamPort.Ready"; "OutParamPort.Send"; "OutParamPort.SetReady"; "OutParamPort.removeRemotePort"; "OutPort.AddRemotePort"; "OutPort.Close"; "OutPort.Disconnect"; "OutPort.Fail"; "OutPort.Failf"; "OutPort.Name"; "OutPort.Process"; "OutPort.Ready"; "OutPort.Send"; "OutPort.SetReady"; "OutPort.removeRemotePort"; "Process.Out"; "Process.Run"; "Process.createTasks"; "Sink.From"; "Sink.FromParam"; "Sink.Run"; "Sink.in"; "Sink.paramIn"; "Task.Audit"; "Task.Auditf"; "Task.Execute"; "Task.Fail"; "Task.Failf"; "Task.InIP"; "Task.Param"; "Task.Tag"; "Task.TempDir"; "Task.anyOutputsExist"; "Task.createDirs"; "Task.drainStreamingInputs"; "Task.ensureAllOutputsExist"; "Task.executeCommand"; "Task.finalizePaths"; "Task.formatCommand"; "Task.signalDone"; "Task.tempDirsExist"; "Task.writeAuditLogs"; "UnmarshalAuditInfoJSONFile"; "Workflow.Auditf"; "Workflow.DecConcurrentTasks"; "Workflow.Fail"; "Workflow.Failf"; "Workflow.IncConcurrentTasks"; "Workflow.Name"; "Workflow.readyToRun"; "Workflow.reconnectDeadEndConnections"; "Workflow.runProcs"; "applyPathModifiers"; "components.CommandToParams.Run"; "components.Concatenator.In"; "components.Concatenator.Out"; "components.Concatenator.Run"; "components.FileCombinator.Out"; "components.FileCombinator.Run"; "components.FileCombinator.combine"; "components.FileGlobber.InDependency"; "components.FileGlobber.Out"; "components.FileGlobber.Run"; "components.FileGlobber.globFiles"; "components.FileSource.Out"; "components.FileSource.Run"; "components.FileSplitter.InFile"; "components.FileSplitter.OutSplitFile"; "components.FileSplitter.Run"; "components.FileSplitter.createNewSplitFile"; "components.FileSplitter.newSplitIPFromIndex"; "components.FileToParamsReader.OutLine"; "components.FileToParamsReader.Run"; "components.IPSelectorSync.Out"; "components.IPSelectorSync.Run"; "components.IPSelectorSync.recvOneEach"; "components.IPSelectorSync.syncRead"; "components.MapToTags.In"; "components.MapToTags.Out"; "components.MapToTags.Run"; "components.ParamCombinator.OutParam"; "components.ParamCombinator.Run"; "components.ParamSource.Out"; "components.ParamSource.Run"; "components.StreamToSubStream.In"; "components.StreamToSubStream.OutSubStream"; "components.StreamToSubStream.Run"; "components.combine"; "components.errWrapf"; "drainFifo"; "errWrap"; "getBufsize"; "getShellCommandPlaceHolderRegex"; "pathIsValid"; "prependParentDirPath"; "randSeqLC"; "replaceParentDirsWithPlaceholder"; "replacePlaceholdersWithParentDirs"; "sanitizePathFragment"; "sortedFileIPMapKeys"; "sortedFileIPSliceMapKeys"; "sortedStringMapKeys"; "splitAllPaths"; "strInSlice"; "taskQueue.NextTaskDone"; "verifPoint"; "verifPortName"; "verifTaskKeys"].

Definition exp_cone_Workflow_RunToProcs : list string :=
  ["BaseProcess.Audit"; "BaseProcess.Auditf"; "BaseProcess.CloseAllOutPorts"; "BaseProcess.CloseOutParamPorts"; "BaseProcess.CloseOutPorts"; "BaseProcess.Fail"; "BaseProcess.Failf"; "BaseProcess.InParamPort"; "BaseProcess.InParamPorts"; "BaseProcess.InPort"; "BaseProcess.InPorts"; "BaseProcess.InitOutPort"; "BaseProcess.Name"; "BaseProcess.OutParamPort"; "BaseProcess.OutParamPorts"; "BaseProcess.OutPort"; "BaseProcess.OutPorts"; "BaseProcess.Ready"; "BaseProcess.receiveOnInParamPorts"; "BaseProcess.receiveOnInPorts"; "CheckWithMsg"; "Fail"; "Failf"; "FileIP.AddTag"; "FileIP.AddTags"; "FileIP.AuditFilePath"; "FileIP.AuditInfo"; "FileIP.CreateFifo"; "FileIP.Exists"; "FileIP.Fail"; "FileIP.Failf"; "FileIP.FifoFileExists"; "FileIP.FifoPath"; "FileIP.Path"; "FileIP.SetAuditInfo"; "FileIP.Tag"; "FileIP.Tags"; "FileIP.TempDir"; "FileIP.TempPath"; "FileIP.WriteAuditLogToFile"; "FileIP.auditInfoSnapshot"; "FileIP.createDirs"; "FinalizePaths"; "InParamPort.AddRemotePort"; "InParamPort.CloseConnection"; "InParamPort.Fail"; "InParamPort.Failf"; "InParamPort.From"; "InParamPort.Name"; "InParamPort.Process"; "InParamPort.Ready"; "InParamPort.Send"; "InParamPort.SetReady"; "InParamPort.connectedOutParamPorts"; "InPort.AddRemotePort"; "InPort.CloseConnection"; "InPort.Fail"; "InPort.Failf"; "InPort.From"; "InPort.Name"; "InPort.Process"; "InPort.Ready"; "InPort.Send"; "InPort.SetReady"; "NewAuditInfo"; "NewBaseIP"; "NewFileIP"; "NewInPort"; "NewOutPort"; "NewTask"; "OutParamPort.AddRemotePort"; "OutParamPort.Close"; "OutParamPort.Disconnect"; "OutParamPort.Fail"; "OutParamPort.Failf"; "OutParamPort.Name"; "OutParamPort.Process"; "OutParamPort.Ready"; "OutParamPort.Send"; "OutParamPort.SetReady"; "OutParamPort.removeRemotePort"; "OutPort.AddRemotePort"; "OutPort.Close"; "OutPort.Disconnect"; "OutPort.Fail"; "OutPort.Failf"; "OutPort.Name"; "OutPort.Process"; "OutPort.Ready"; "OutPort.Send"; "OutPort.SetReady"; "OutPort.removeRemotePort"; "Process.Out"; "Process.Run"; "Process.createTasks"; "Sink.From"; "Sink.FromParam"; "Sink.Run"; "Sink.in"; "Sink.paramIn"; "Task.Audit"; "Task.Auditf"; "Task.Execute"; "Task.Fail"; "Task.Failf"; "Task.InIP"; "Task.Param"; "Task.Tag"; "Task.TempDir"; "Task.anyOutputsExist"; "Task.createDirs"; "Task.drainStreamingInputs"; "Task.ensureAllOutputsExist"; "Task.executeCommand"; "Task.finalizePaths"; "Task.formatCommand"; "Task.signalDone"; "Task.tempDirsExist"; "Task.writeAuditLogs"; "UnmarshalAuditInfoJSONFile"; "Workflow.Auditf"; "Workflow.DecConcurrentTasks"; "Workflow.Fail"; "Workflow.Failf"; "Workflow.IncConcurrentTasks"; "Workflow.Name"; "Workflow.Run"; "Workflow.readyToRun"; "Workflow.reconnectDeadEndConnections"; "Workflow.runProcs"; "applyPathModifiers"; "collectUpstreamProcs"; "components.CommandToParams.Run"; "components.Concatenator.In"; "components.Concatenator.Out"; "components.Concatenator.Run"; "components.FileCombinator.Out"; "components.FileCombinator.Run"; "components.FileCombinator.combine"; "components.FileGlobber.InDependency"; "components.FileGlobber.Out"; "components.FileGlobber.Run"; "components.FileGlobber.globFiles"; "components.FileSource.Out"; "components.FileSource.Run"; "components.FileSplitter.InFile"; "components.FileSplitter.OutSplitFile"; "components.FileSplitter.Run"; "components.FileSplitter.createNewSplitFile"; "components.FileSplitter.newSplitIPFromIndex"; "components.FileToParamsReader.OutLine"; "components.FileToParamsReader.Run"; "components.IPSelectorSync.Out"; "components.IPSelectorSync.Run"; "components.IPSelectorSync.recvOneEach"; "components.IPSelectorSync.syncRead"; "components.MapToTags.In"; "components.MapToTags.Out"; "components.MapToTags.Run"; "components.ParamCombinator.OutParam"; "components.ParamCombinator.Run"; "components.ParamSource.Out"; "components.ParamSource.Run"; "components.StreamToSubStream.In"; "components.StreamToSubStream.OutSubStream"; "components.StreamToSubStream.Run"; "components.combine"; "components.errWrapf"; "drainFifo"; "errWrap"; "getBufsize"; "getShellCommandPlaceHolderRegex"; "mergeWFMaps"; "pathIsValid"; "prependParentDirPath"; "randSeqLC"; "replaceParentDirsWithPlaceholder"; "replacePlaceholdersWithParentDirs"; "sanitizePathFragment"; "sortedFileIPMapKeys"; "sortedFileIPSliceMapKeys"; "sortedStringMapKeys"; "splitAllPaths"; "strInSlice"; "taskQueue.NextTaskDone"; "upstreamProcsForProc"; "verifPoint"; "verifPortName"; "verifTaskKeys"].

Definition exp_cone_Workflow_runProcs : list string :=
  ["BaseProcess.Audit"; "BaseProcess.Auditf"; "BaseProcess.CloseAllOutPorts"; "BaseProcess.CloseOutParamPorts"; "BaseProcess.CloseOutPorts"; "BaseProcess.Fail"; "BaseProcess.Failf"; "BaseProcess.InParamPort"; "BaseProcess.InParamPorts"; "BaseProcess.InPort"; "BaseProcess.InPorts"; "BaseProcess.InitOutPort"; "BaseProcess.Name"; "BaseProcess.OutParamPort"; "BaseProcess.OutParamPorts"; "BaseProcess.OutPort"; "BaseProcess.OutPorts"; "BaseProcess.Ready"; "BaseProcess.receiveOnInParamPorts"; "BaseProcess.receiveOnInPorts"; "CheckWithMsg"; "Fail"; "Failf"; "FileIP.AddTag"; "FileIP.AddTags"; "FileIP.AuditFilePath"; "FileIP.AuditInfo"; "FileIP.CreateFifo"; "FileIP.Exists"; "FileIP.Fail"; "FileIP.Failf"; "FileIP.FifoFileExists"; "FileIP.FifoPath"; "FileIP.Path"; "FileIP.SetAuditInfo"; "FileIP.Tag"; "FileIP.Tags"; "FileIP.TempDir"; "FileIP.TempPath"; "FileIP.WriteAuditLogToFile"; "FileIP.auditInfoSnapshot"; "FileIP.createDirs"; "FinalizePaths"; "InParamPort.AddRemotePort"; "InParamPort.CloseConnection"; "InParamPort.Fail"; "InParamPort.Failf"; "InParamPort.From"; "InParamPort.Name"; "InParamPort.Process"; "InParamPort.Ready"; "InParamPort.Send"; "InParamPort.SetReady"; "InPort.AddRemotePort"; "InPort.CloseConnection"; "InPort.Fail"; "InPort.Failf"; "InPort.From"; "InPort.Name"; "InPort.Process"; "InPort.Ready"; "InPort.Send"; "InPort.SetReady"; "NewAuditInfo"; "NewBaseIP"; "NewFileIP"; "NewInPort"; "NewOutPort"; "NewTask"; "OutParamPort.AddRemotePort"; "OutParamPort.Close"; "OutParamPort.Disconnect"; "OutParamPort.Fail"; "OutParamPort.Failf"; "OutParamPort.Name"; "OutParamPort.Process"; "OutParamPort.Ready"; "OutParamPort.Send"; "OutParamPort.SetReady"; "OutParamPort.removeRemotePort"; "OutPort.AddRemotePort"; "OutPort.Close"; "OutPort.Disconnect"; "OutPort.Fail"; "OutPort.Failf"; "OutPort.Name"; "OutPort.Process"; "OutPort.Ready"; "OutPort.Send"; "OutPort.SetReady"; "OutPort.removeRemotePort"; "Process.Out"; "Process.Run"; "Process.createTasks"; "Sink.From"; "Sink.FromParam"; "Sink.Run"; "Sink.in"; "Sink.paramIn"; "Task.Audit"; "Task.Auditf"; "Task.Execute"; "Task.Fail"; "Task.Failf"; "Task.InIP"; "Task.Param"; "Task.Tag"; "Task.TempDir"; "Task.anyOutputsExist"; "Task.createDirs"; "Task.drainStreamingInputs"; "Task.ensureAllOutputsExist"; "Task.executeCommand"; "Task.finalizePaths"; "Task.formatCommand"; "Task.signalDone"; "Task.tempDirsExist"; "Task.writeAuditLogs"; "UnmarshalAuditInfoJSONFile"; "Workflow.Auditf"; "Workflow.DecConcurrentTasks"; "Workflow.Fail"; "Workflow.Failf"; "Workflow.IncConcurrentTasks"; "Workflow.Name"; "Workflow.Run"; "Workflow.readyToRun"; "Workflow.reconnectDeadEndConnections"; "applyPathModifiers"; "components.CommandToParams.Run"; "components.Concatenator.In"; "components.Concatenator.Out"; "components.Concatenator.Run"; "components.FileCombinator.Out"; "components.FileCombinator.Run"; "components.FileCombinator.combine"; "components.FileGlobber.InDependency"; "components.FileGlobber.Out"; "components.FileGlobber.Run"; "components.FileGlobber.globFiles"; "components.FileSource.Out"; "components.FileSource.Run"; "components.FileSplitter.InFile"; "components.FileSplitter.OutSplitFile"; "components.FileSplitter.Run"; "components.FileSplitter.createNewSplitFile"; "components.FileSplitter.newSplitIPFromIndex"; "components.FileToParamsReader.OutLine"; "components.FileToParamsReader.Run"; "components.IPSelectorSync.Out"; "components.IPSelectorSync.Run"; "components.IPSelectorSync.recvOneEach"; "components.IPSelectorSync.syncRead"; "components.MapToTags.In"; "components.MapToTags.Out"; "components.MapToTags.Run"; "components.ParamCombinator.OutParam"; "components.ParamCombinator.Run"; "components.ParamSource.Out"; "components.ParamSource.Run"; "components.StreamToSubStream.In"; "components.StreamToSubStream.OutSubStream"; "components.StreamToSubStream.Run"; "components.combine"; "components.errWrapf"; "drainFifo"; "errWrap"; "getBufsize"; "getShellCommandPlaceHolderRegex"; "pathIsValid"; "prependParentDirPath"; "randSeqLC"; "replaceParentDirsWithPlaceholder"; "replacePlaceholdersWithParentDirs"; "sanitizePathFragment"; "sortedFileIPMapKeys"; "sortedFileIPSliceMapKeys"; "sortedStringMapKeys"; "splitAllPaths"; "strInSlice"; "taskQueue.NextTaskDone"; "verifPoint"; "verifPortName"; "verifTaskKeys"].

Definition exp_cone_Workflow_readyToRun : list string :=
  ["BaseProcess.Fail"; "BaseProcess.Failf"; "BaseProcess.Name"; "BaseProcess.Ready"; "Fail"; "Failf"; "InParamPort.Ready"; "InPort.Ready"; "OutParamPort.Ready"; "OutPort.Ready"].

Definition exp_cone_Workflow_reconnectDeadEndConnections : list string :=
  ["BaseProcess.Fail"; "BaseProcess.Failf"; "BaseProcess.InParamPort"; "BaseProcess.InPort"; "BaseProcess.Name"; "BaseProcess.OutParamPorts"; "BaseProcess.OutPorts"; "Fail"; "Failf"; "InParamPort.AddRemotePort"; "InParamPort.Fail"; "InParamPort.Failf"; "InParamPort.From"; "InParamPort.Name"; "InParamPort.Process"; "InParamPort.SetReady"; "InPort.AddRemotePort"; "InPort.Fail"; "InPort.Failf"; "InPort.From"; "InPort.Name"; "InPort.Process"; "InPort.SetReady"; "OutParamPort.AddRemotePort"; "OutParamPort.Disconnect"; "OutParamPort.Fail"; "OutParamPort.Failf"; "OutParamPort.Name"; "OutParamPort.Process"; "OutParamPort.Ready"; "OutParamPort.SetReady"; "OutParamPort.removeRemotePort"; "OutPort.AddRemotePort"; "OutPort.Disconnect"; "OutPort.Fail"; "OutPort.Failf"; "OutPort.Name"; "OutPort.Process"; "OutPort.Ready"; "OutPort.SetReady"; "OutPort.removeRemotePort"; "Sink.From"; "Sink.FromParam"; "Sink.in"; "Sink.paramIn"; "Workflow.Fail"; "Workflow.Failf"; "Workflow.Name"].

Definition exp_cone_upstreamProcsForProc : list string :=
  ["BaseProcess.InParamPorts"; "BaseProcess.InPorts"; "BaseProcess.Name"; "Fail"; "Failf"; "InParamPort.Fail"; "InParamPort.Failf"; "InParamPort.Name"; "InParamPort.Process"; "InParamPort.connectedOutParamPorts"; "InPort.Fail"; "InPort.Name"; "InPort.Process"; "OutParamPort.Fail"; "OutParamPort.Failf"; "OutParamPort.Name"; "OutParamPort.Process"; "OutPort.Fail"; "OutPort.Name"; "OutPort.Process"; "Workflow.Name"; "collectUpstreamProcs"].

Definition exp_cone_collectUpstreamProcs : list string :=
  ["BaseProcess.InParamPorts"; "BaseProcess.InPorts"; "BaseProcess.Name"; "Fail"; "Failf"; "InParamPort.Fail"; "InParamPort.Failf"; "InParamPort.Name"; "InParamPort.Process"; "InParamPort.connectedOutParamPorts"; "InPort.Fail"; "InPort.Name"; "InPort.Process"; "OutParamPort.Fail"; "OutParamPort.Failf"; "OutParamPort.Name"; "OutParamPort.Process"; "OutPort.Fail"; "OutPort.Name"; "OutPort.Process"; "Workflow.Name"].

Definition exp_cone_Sink_Run : list string :=
  ["BaseProcess.Fail"; "BaseProcess.Failf"; "BaseProcess.InParamPort"; "BaseProcess.InPort"; "BaseProcess.Name"; "Fail"; "Failf"; "FileIP.FifoPath"; "FileIP.Path"; "InParamPort.Ready"; "InPort.Ready"; "Sink.in"; "Sink.paramIn"; "drainFifo"; "verifPoint"; "verifPortName"].

Definition exp_cone_Fail : list string :=
  [].

Definition exp_cone_Failf : list string :=
  ["Fail"].

Definition exp_cone_CheckWithMsg : list string :=
  ["Fail"; "errWrap"].

Definition exp_cone_FileIP_Write : list string :=
  ["CheckWithMsg"; "Fail"; "Failf"; "FileIP.Fail"; "FileIP.Failf"; "FileIP.FifoPath"; "FileIP.Path"; "FileIP.TempDir"; "FileIP.TempPath"; "FileIP.createDirs"; "errWrap"; "replaceParentDirsWithPlaceholder"].

Definition exp_cone_FileIP_AddTag : list string :=
  ["CheckWithMsg"; "Fail"; "Failf"; "FileIP.AuditFilePath"; "FileIP.AuditInfo"; "FileIP.Fail"; "FileIP.Failf"; "FileIP.Path"; "NewAuditInfo"; "UnmarshalAuditInfoJSONFile"; "errWrap"; "randSeqLC"].

Definition exp_cone_FileIP_AuditInfo : list string :=
  ["CheckWithMsg"; "Fail"; "Failf"; "FileIP.AuditFilePath"; "FileIP.Path"; "NewAuditInfo"; "UnmarshalAuditInfoJSONFile"; "errWrap"; "randSeqLC"].

Definition exp_cone_FileIP_SetAuditInfo : list string :=
  [].

Definition exp_cone_FileIP_WriteAuditLogToFile : list string :=
  ["CheckWithMsg"; "Fail"; "Failf"; "FileIP.AuditFilePath"; "FileIP.AuditInfo"; "FileIP.Fail"; "FileIP.Failf"; "FileIP.FifoPath"; "FileIP.Path"; "FileIP.TempDir"; "FileIP.TempPath"; "FileIP.createDirs"; "NewAuditInfo"; "UnmarshalAuditInfoJSONFile"; "errWrap"; "randSeqLC"; "replaceParentDirsWithPlaceholder"].

Definition exp_cone_FileIP_CreateFifo : list string :=
  ["CheckWithMsg"; "Fail"; "Failf"; "FileIP.Fail"; "FileIP.Failf"; "FileIP.FifoPath"; "FileIP.Path"; "FileIP.TempDir"; "FileIP.TempPath"; "FileIP.createDirs"; "errWrap"; "replaceParentDirsWithPlaceholder"].

Definition exp_cone_NewTask : list string :=
  ["BaseProcess.Fail"; "BaseProcess.Failf"; "BaseProcess.Name"; "CheckWithMsg"; "Fail"; "Failf"; "FileIP.AuditFilePath"; "FileIP.AuditInfo"; "FileIP.Exists"; "FileIP.FifoPath"; "FileIP.Path"; "FileIP.TempPath"; "NewAuditInfo"; "NewBaseIP"; "NewFileIP"; "NewInPort"; "Task.Fail"; "Task.Failf"; "Task.InIP"; "Task.Param"; "Task.Tag"; "Task.TempDir"; "Task.formatCommand"; "UnmarshalAuditInfoJSONFile"; "applyPathModifiers"; "errWrap"; "getBufsize"; "getShellCommandPlaceHolderRegex"; "pathIsValid"; "prependParentDirPath"; "randSeqLC"; "replaceParentDirsWithPlaceholder"; "sanitizePathFragment"; "sortedFileIPMapKeys"; "sortedFileIPSliceMapKeys"; "sortedStringMapKeys"; "splitAllPaths"; "strInSlice"].

Definition exp_cone_NewFileIP : list string :=
  ["CheckWithMsg"; "Fail"; "Failf"; "FileIP.AuditFilePath"; "FileIP.AuditInfo"; "FileIP.Exists"; "FileIP.Path"; "NewAuditInfo"; "NewBaseIP"; "NewInPort"; "UnmarshalAuditInfoJSONFile"; "errWrap"; "getBufsize"; "pathIsValid"; "randSeqLC"].

Definition exp_cone_FileIP_Tags : list string :=
  ["CheckWithMsg"; "Fail"; "Failf"; "FileIP.AuditFilePath"; "FileIP.AuditInfo"; "FileIP.Path"; "NewAuditInfo"; "UnmarshalAuditInfoJSONFile"; "errWrap"; "randSeqLC"].

Definition exp_cone_FileIP_Tag : list string :=
  ["CheckWithMsg"; "Fail"; "Failf"; "FileIP.AuditFilePath"; "FileIP.AuditInfo"; "FileIP.Path"; "NewAuditInfo"; "UnmarshalAuditInfoJSONFile"; "errWrap"; "randSeqLC"].

Definition exp_cone_FileIP_AddTags : list string :=
  ["CheckWithMsg"; "Fail"; "Failf"; "FileIP.AddTag"; "FileIP.AuditFilePath"; "FileIP.AuditInfo"; "FileIP.Fail"; "FileIP.Failf"; "FileIP.Path"; "NewAuditInfo"; "UnmarshalAuditInfoJSONFile"; "errWrap"; "randSeqLC"].

Definition exp_cone_FileIP_auditInfoSnapshot : list string :=
  ["CheckWithMsg"; "Fail"; "Failf"; "FileIP.AuditFilePath"; "FileIP.AuditInfo"; "FileIP.Path"; "NewAuditInfo"; "UnmarshalAuditInfoJSONFile"; "errWrap"; "randSeqLC"].

Definition exp_cone_FileIP_Exists : list string :=
  ["FileIP.Path"].

Definition exp_cone_FileIP_FifoFileExists : list string :=
  ["FileIP.FifoPath"].

Definition exp_cone_UnmarshalAuditInfoJSONFile : list string :=
  ["CheckWithMsg"; "Fail"; "Failf"; "NewAuditInfo"; "errWrap"; "randSeqLC"].

Definition exp_cone_components_MapToTags_Run : list string :=
  ["BaseProcess.CloseAllOutPorts"; "BaseProcess.CloseOutParamPorts"; "BaseProcess.CloseOutPorts"; "BaseProcess.Fail"; "BaseProcess.Failf"; "BaseProcess.InPort"; "BaseProcess.Name"; "BaseProcess.OutParamPorts"; "BaseProcess.OutPort"; "BaseProcess.OutPorts"; "CheckWithMsg"; "Fail"; "Failf"; "FileIP.AddTag"; "FileIP.AddTags"; "FileIP.AuditFilePath"; "FileIP.AuditInfo"; "FileIP.Fail"; "FileIP.Failf"; "FileIP.FifoPath"; "FileIP.Path"; "FileIP.TempDir"; "FileIP.TempPath"; "FileIP.WriteAuditLogToFile"; "FileIP.createDirs"; "InParamPort.CloseConnection"; "InParamPort.Fail"; "InParamPort.Failf"; "InParamPort.Name"; "InParamPort.Process"; "InPort.CloseConnection"; "InPort.Fail"; "InPort.Name"; "InPort.Process"; "InPort.Send"; "NewAuditInfo"; "OutParamPort.Close"; "OutParamPort.Fail"; "OutParamPort.Failf"; "OutParamPort.Name"; "OutParamPort.Process"; "OutParamPort.removeRemotePort"; "OutPort.Close"; "OutPort.Fail"; "OutPort.Failf"; "OutPort.Name"; "OutPort.Process"; "OutPort.Send"; "OutPort.removeRemotePort"; "UnmarshalAuditInfoJSONFile"; "Workflow.Name"; "components.MapToTags.In"; "components.MapToTags.Out"; "errWrap"; "randSeqLC"; "replaceParentDirsWithPlaceholder"; "verifPoint"; "verifPortName"].

Definition exp_cone_components_StreamToSubStream_Run : list string :=
  ["BaseProcess.CloseAllOutPorts"; "BaseProcess.CloseOutParamPorts"; "BaseProcess.CloseOutPorts"; "BaseProcess.Fail"; "BaseProcess.Failf"; "BaseProcess.InPort"; "BaseProcess.Name"; "BaseProcess.OutParamPorts"; "BaseProcess.OutPort"; "BaseProcess.OutPorts"; "CheckWithMsg"; "Fail"; "Failf"; "FileIP.AuditFilePath"; "FileIP.AuditInfo"; "FileIP.Exists"; "FileIP.Path"; "InParamPort.CloseConnection"; "InParamPort.Fail"; "InParamPort.Failf"; "InParamPort.Name"; "InParamPort.Process"; "InPort.CloseConnection"; "InPort.Fail"; "InPort.Name"; "InPort.Process"; "InPort.Send"; "NewAuditInfo"; "NewBaseIP"; "NewFileIP"; "NewInPort"; "OutParamPort.Close"; "OutParamPort.Fail"; "OutParamPort.Failf"; "OutParamPort.Name"; "OutParamPort.Process"; "OutParamPort.removeRemotePort"; "OutPort.Close"; "OutPort.Fail"; "OutPort.Failf"; "OutPort.Name"; "OutPort.Process"; "OutPort.Send"; "OutPort.removeRemotePort"; "UnmarshalAuditInfoJSONFile"; "Workflow.Name"; "components.StreamToSubStream.In"; "components.StreamToSubStream.OutSubStream"; "errWrap"; "getBufsize"; "pathIsValid"; "randSeqLC"; "verifPoint"; "verifPortName"].

Definition exp_cone_components_FileCombinator_Run : list string :=
  ["BaseProcess.CloseAllOutPorts"; "BaseProcess.CloseOutParamPorts"; "BaseProcess.CloseOutPorts"; "BaseProcess.Fail"; "BaseProcess.Failf"; "BaseProcess.InPorts"; "BaseProcess.Name"; "BaseProcess.OutParamPorts"; "BaseProcess.OutPort"; "BaseProcess.OutPorts"; "Fail"; "Failf"; "FileIP.Path"; "InParamPort.CloseConnection"; "InParamPort.Fail"; "InParamPort.Failf"; "InParamPort.Name"; "InParamPort.Process"; "InPort.CloseConnection"; "InPort.Fail"; "InPort.Name"; "InPort.Process"; "InPort.Send"; "OutParamPort.Close"; "OutParamPort.Fail"; "OutParamPort.Failf"; "OutParamPort.Name"; "OutParamPort.Process"; "OutParamPort.removeRemotePort"; "OutPort.Close"; "OutPort.Fail"; "OutPort.Failf"; "OutPort.Name"; "OutPort.Process"; "OutPort.Send"; "OutPort.removeRemotePort"; "Workflow.Name"; "components.FileCombinator.Out"; "components.FileCombinator.combine"; "verifPoint"; "verifPortName"].

Definition exp_cone_components_ParamCombinator_Run : list string :=
  ["BaseProcess.CloseAllOutPorts"; "BaseProcess.CloseOutParamPorts"; "BaseProcess.CloseOutPorts"; "BaseProcess.Fail"; "BaseProcess.Failf"; "BaseProcess.InParamPorts"; "BaseProcess.Name"; "BaseProcess.OutParamPort"; "BaseProcess.OutParamPorts"; "BaseProcess.OutPorts"; "Fail"; "Failf"; "InParamPort.CloseConnection"; "InParamPort.Fail"; "InParamPort.Failf"; "InParamPort.Name"; "InParamPort.Process"; "InParamPort.Send"; "InPort.CloseConnection"; "InPort.Fail"; "InPort.Name"; "InPort.Process"; "OutParamPort.Close"; "OutParamPort.Fail"; "OutParamPort.Failf"; "OutParamPort.Name"; "OutParamPort.Process"; "OutParamPort.Send"; "OutParamPort.removeRemotePort"; "OutPort.Close"; "OutPort.Fail"; "OutPort.Failf"; "OutPort.Name"; "OutPort.Process"; "OutPort.removeRemotePort"; "Workflow.Name"; "components.ParamCombinator.OutParam"; "components.combine"; "verifPoint"; "verifPortName"].

Definition exp_cone_components_IPSelectorSync_Run : list string :=
  ["BaseProcess.CloseAllOutPorts"; "BaseProcess.CloseOutParamPorts"; "BaseProcess.CloseOutPorts"; "BaseProcess.Fail"; "BaseProcess.Failf"; "BaseProcess.InPorts"; "BaseProcess.InitOutPort"; "BaseProcess.Name"; "BaseProcess.OutParamPorts"; "BaseProcess.OutPort"; "BaseProcess.OutPorts"; "Fail"; "Failf"; "FileIP.Path"; "InParamPort.CloseConnection"; "InParamPort.Fail"; "InParamPort.Failf"; "InParamPort.Name"; "InParamPort.Process"; "InPort.CloseConnection"; "InPort.Fail"; "InPort.Name"; "InPort.Process"; "InPort.Send"; "NewOutPort"; "OutParamPort.Close"; "OutParamPort.Fail"; "OutParamPort.Failf"; "OutParamPort.Name"; "OutParamPort.Process"; "OutParamPort.removeRemotePort"; "OutPort.Close"; "OutPort.Fail"; "OutPort.Failf"; "OutPort.Name"; "OutPort.Process"; "OutPort.Send"; "OutPort.removeRemotePort"; "Workflow.Name"; "components.IPSelectorSync.Out"; "components.IPSelectorSync.recvOneEach"; "components.IPSelectorSync.syncRead"; "verifPoint"; "verifPortName"].

Definition exp_cone_components_Concatenator_Run : list string :=
  ["BaseProcess.CloseAllOutPorts"; "BaseProcess.CloseOutParamPorts"; "BaseProcess.CloseOutPorts"; "BaseProcess.Fail"; "BaseProcess.Failf"; "BaseProcess.InPort"; "BaseProcess.Name"; "BaseProcess.OutParamPorts"; "BaseProcess.OutPort"; "BaseProcess.OutPorts"; "CheckWithMsg"; "Fail"; "Failf"; "FileIP.AddTag"; "FileIP.AuditFilePath"; "FileIP.AuditInfo"; "FileIP.Exists"; "FileIP.Fail"; "FileIP.Failf"; "FileIP.Path"; "FileIP.Tag"; "InParamPort.CloseConnection"; "InParamPort.Fail"; "InParamPort.Failf"; "InParamPort.Name"; "InParamPort.Process"; "InPort.CloseConnection"; "InPort.Fail"; "InPort.Name"; "InPort.Process"; "InPort.Send"; "NewAuditInfo"; "NewBaseIP"; "NewFileIP"; "NewInPort"; "OutParamPort.Close"; "OutParamPort.Fail"; "OutParamPort.Failf"; "OutParamPort.Name"; "OutParamPort.Process"; "OutParamPort.removeRemotePort"; "OutPort.Close"; "OutPort.Fail"; "OutPort.Failf"; "OutPort.Name"; "OutPort.Process"; "OutPort.Send"; "OutPort.removeRemotePort"; "UnmarshalAuditInfoJSONFile"; "Workflow.Name"; "components.Concatenator.In"; "components.Concatenator.Out"; "errWrap"; "getBufsize"; "pathIsValid"; "randSeqLC"; "verifPoint"; "verifPortName"].

Definition exp_cone_components_FileSplitter_Run : list string :=
  ["BaseProcess.Audit"; "BaseProcess.Auditf"; "BaseProcess.CloseAllOutPorts"; "BaseProcess.CloseOutParamPorts"; "BaseProcess.CloseOutPorts"; "BaseProcess.Fail"; "BaseProcess.Failf"; "BaseProcess.InPort"; "BaseProcess.Name"; "BaseProcess.OutParamPorts"; "BaseProcess.OutPort"; "BaseProcess.OutPorts"; "CheckWithMsg"; "Fail"; "Failf"; "FileIP.AuditFilePath"; "FileIP.AuditInfo"; "FileIP.Exists"; "FileIP.Path"; "FileIP.TempPath"; "FinalizePaths"; "InParamPort.CloseConnection"; "InParamPort.Fail"; "InParamPort.Failf"; "InParamPort.Name"; "InParamPort.Process"; "InPort.CloseConnection"; "InPort.Fail"; "InPort.Name"; "InPort.Process"; "InPort.Send"; "NewAuditInfo"; "NewBaseIP"; "NewFileIP"; "NewInPort"; "OutParamPort.Close"; "OutParamPort.Fail"; "OutParamPort.Failf"; "OutParamPort.Name"; "OutParamPort.Process"; "OutParamPort.removeRemotePort"; "OutPort.Close"; "OutPort.Fail"; "OutPort.Failf"; "OutPort.Name"; "OutPort.Process"; "OutPort.Send"; "OutPort.removeRemotePort"; "UnmarshalAuditInfoJSONFile"; "Workflow.Name"; "components.FileSplitter.InFile"; "components.FileSplitter.OutSplitFile"; "components.FileSplitter.createNewSplitFile"; "components.FileSplitter.newSplitIPFromIndex"; "components.errWrapf"; "errWrap"; "getBufsize"; "pathIsValid"; "randSeqLC"; "replaceParentDirsWithPlaceholder"; "replacePlaceholdersWithParentDirs"; "verifPoint"; "verifPortName"].

Definition exp_cone_components_FileSource_Run : list string :=
  ["BaseProcess.CloseAllOutPorts"; "BaseProcess.CloseOutParamPorts"; "BaseProcess.CloseOutPorts"; "BaseProcess.Fail"; "BaseProcess.Failf"; "BaseProcess.Name"; "BaseProcess.OutParamPorts"; "BaseProcess.OutPort"; "BaseProcess.OutPorts"; "CheckWithMsg"; "Fail"; "Failf"; "FileIP.AuditFilePath"; "FileIP.AuditInfo"; "FileIP.Exists"; "FileIP.Path"; "InParamPort.CloseConnection"; "InParamPort.Fail"; "InParamPort.Failf"; "InParamPort.Name"; "InParamPort.Process"; "InPort.CloseConnection"; "InPort.Fail"; "InPort.Name"; "InPort.Process"; "InPort.Send"; "NewAuditInfo"; "NewBaseIP"; "NewFileIP"; "NewInPort"; "OutParamPort.Close"; "OutParamPort.Fail"; "OutParamPort.Failf"; "OutParamPort.Name"; "OutParamPort.Process"; "OutParamPort.removeRemotePort"; "OutPort.Close"; "OutPort.Fail"; "OutPort.Failf"; "OutPort.Name"; "OutPort.Process"; "OutPort.Send"; "OutPort.removeRemotePort"; "UnmarshalAuditInfoJSONFile"; "Workflow.Name"; "components.FileSource.Out"; "errWrap"; "getBufsize"; "pathIsValid"; "randSeqLC"; "verifPoint"; "verifPortName"].

Definition exp_cone_components_ParamSource_Run : list string :=
  ["BaseProcess.CloseAllOutPorts"; "BaseProcess.CloseOutParamPorts"; "BaseProcess.CloseOutPorts"; "BaseProcess.Fail"; "BaseProcess.Failf"; "BaseProcess.Name"; "BaseProcess.OutParamPort"; "BaseProcess.OutParamPorts"; "BaseProcess.OutPorts"; "Fail"; "Failf"; "InParamPort.CloseConnection"; "InParamPort.Fail"; "InParamPort.Failf"; "InParamPort.Name"; "InParamPort.Process"; "InParamPort.Send"; "InPort.CloseConnection"; "InPort.Fail"; "InPort.Name"; "InPort.Process"; "OutParamPort.Close"; "OutParamPort.Fail"; "OutParamPort.Failf"; "OutParamPort.Name"; "OutParamPort.Process"; "OutParamPort.Send"; "OutParamPort.removeRemotePort"; "OutPort.Close"; "OutPort.Fail"; "OutPort.Failf"; "OutPort.Name"; "OutPort.Process"; "OutPort.removeRemotePort"; "Workflow.Name"; "components.ParamSource.Out"; "verifPoint"; "verifPortName"].

Definition exp_cone_Task_TempDir : list string :=
  ["BaseProcess.Name"; "Fail"; "Failf"; "FileIP.Path"; "Task.Fail"; "Task.Failf"; "Task.InIP"; "Task.Param"; "Task.Tag"; "sanitizePathFragment"; "sortedFileIPMapKeys"; "sortedFileIPSliceMapKeys"; "sortedStringMapKeys"; "splitAllPaths"].

Definition exp_cone_Task_formatCommand : list string :=
  ["BaseProcess.Name"; "CheckWithMsg"; "Fail"; "Failf"; "FileIP.FifoPath"; "FileIP.Path"; "FileIP.TempPath"; "Task.Fail"; "Task.Failf"; "applyPathModifiers"; "errWrap"; "getShellCommandPlaceHolderRegex"; "prependParentDirPath"; "replaceParentDirsWithPlaceholder"; "strInSlice"].

Definition exp_cone_applyPathModifiers : list string :=
  [].

Definition exp_cone_Process_initPortsFromCmdPattern : list string :=
  ["BaseProcess.Fail"; "BaseProcess.Failf"; "BaseProcess.InitInParamPort"; "BaseProcess.InitInPort"; "BaseProcess.InitOutPort"; "BaseProcess.Name"; "CheckWithMsg"; "Fail"; "Failf"; "NewInParamPort"; "NewInPort"; "NewOutPort"; "errWrap"; "getBufsize"; "getShellCommandPlaceHolderRegex"].

Definition exp_cone_Process_initDefaultPathFuncs : list string :=
  ["BaseProcess.Name"; "BaseProcess.OutPorts"; "Fail"; "Failf"; "FileIP.Path"; "Task.Fail"; "Task.Failf"; "Task.InIP"; "Task.Param"; "Task.Tag"; "sanitizePathFragment"; "sortedFileIPMapKeys"; "sortedStringMapKeys"].
