(* Prototype: audit2html/tex/bash listing = flatten by ID, then order by start time (C20). *)
From Coq Require Import List Arith Lia Bool PeanoNat Permutation Sorted.
Import ListNotations.

(* an audit record: id, start time, payload (process, command, params, tags ...), upstream records *)
Inductive rec := Rec (id : nat) (start : nat) (payload : nat) (up : list rec).

Definition rid (r : rec) := match r with Rec i _ _ _ => i end.
Definition rstart (r : rec) := match r with Rec _ s _ _ => s end.
Definition rup (r : rec) := match r with Rec _ _ _ u => u end.

(* association map keyed by nat, later insertions overwrite (Go map assignment) *)
Definition amap := list (nat * rec).
Fixpoint aset (k : nat) (v : rec) (m : amap) : amap :=
  match m with
  | [] => [(k, v)]
  | (k', v') :: r => if Nat.eqb k k' then (k, v) :: r else (k', v') :: aset k v r
  end.
Fixpoint aget (k : nat) (m : amap) : option rec :=
  match m with [] => None | (k', v') :: r => if Nat.eqb k k' then Some v' else aget k r end.
Definition amerge (a b : amap) : amap := fold_left (fun m kv => aset (fst kv) (snd kv) m) b a.

(* extractAuditInfosByID *)
Fixpoint extract (r : rec) : amap :=
  match r with
  | Rec i s p up => fold_left (fun m u => amerge m (extract u)) up [(i, Rec i s p up)]
  end.

(* all ids occurring in a tree *)
Fixpoint ids (r : rec) : list nat :=
  match r with Rec i _ _ up => i :: flat_map ids up end.

Definition keys (m : amap) := map fst m.

Lemma aset_keys k v m x : In x (keys (aset k v m)) <-> x = k \/ In x (keys m).
Proof.
  induction m as [|[k' v'] r IH]; simpl.
  - intuition.
  - destruct (Nat.eqb_spec k k'); simpl.
    + subst. intuition.
    + rewrite IH. intuition.
Qed.

Lemma aset_nodup k v m : NoDup (keys m) -> NoDup (keys (aset k v m)).
Proof.
  induction m as [|[k' v'] r IH]; simpl; intros ND.
  - constructor; [intros []|constructor].
  - inversion ND; subst. destruct (Nat.eqb_spec k k'); simpl.
    + subst. constructor; auto.
    + constructor; auto. rewrite aset_keys. intros [E|E]; [congruence|auto].
Qed.

Lemma amerge_keys b : forall a x, In x (keys (amerge a b)) <-> In x (keys a) \/ In x (keys b).
Proof.
  unfold amerge. induction b as [|[k v] r IH]; intros a x; simpl.
  - tauto.
  - rewrite IH, aset_keys. simpl. intuition.
Qed.

Lemma amerge_nodup b : forall a, NoDup (keys a) -> NoDup (keys (amerge a b)).
Proof.
  unfold amerge. induction b as [|[k v] r IH]; intros a ND; simpl; auto.
  apply IH. apply aset_nodup. exact ND.
Qed.

(* nested induction principle for rec *)
Section RecInd.
Variable P : rec -> Prop.
Hypothesis H : forall i s p up, Forall P up -> P (Rec i s p up).
Fixpoint rec_ind' (r : rec) : P r :=
  match r with
  | Rec i s p up => H i s p up ((fix go (l : list rec) : Forall P l :=
      match l with [] => Forall_nil _ | x :: xs => Forall_cons _ (rec_ind' x) (go xs) end) up)
  end.
End RecInd.

Lemma fold_merge_keys (up : list rec) : forall m x,
  (forall u, In u up -> forall y, In y (keys (extract u)) <-> In y (ids u)) ->
  (In x (keys (fold_left (fun m u => amerge m (extract u)) up m)) <-> In x (keys m) \/ In x (flat_map ids up)).
Proof.
  induction up as [|u up IH]; intros m x Hu; simpl.
  - tauto.
  - rewrite IH by (intros; apply Hu; right; assumption).
    rewrite amerge_keys, in_app_iff. rewrite (Hu u (or_introl eq_refl)). intuition.
Qed.

Lemma fold_merge_nodup (up : list rec) : forall m, NoDup (keys m) ->
  NoDup (keys (fold_left (fun m u => amerge m (extract u)) up m)).
Proof.
  induction up as [|u up IH]; intros m ND; simpl; auto. apply IH. apply amerge_nodup. exact ND.
Qed.

(* C20_flatten: the flattened map lists exactly the ids of the tree, each once *)
Theorem extract_ids r : forall x, In x (keys (extract r)) <-> In x (ids r).
Proof.
  induction r as [i s p up IH] using rec_ind'. intros x. simpl.
  rewrite fold_merge_keys.
  - simpl. tauto.
  - intros u Hu. rewrite Forall_forall in IH. apply IH. exact Hu.
Qed.

Theorem extract_nodup r : NoDup (keys (extract r)).
Proof.
  destruct r as [i s p up]. simpl. apply fold_merge_nodup. simpl. constructor; auto. constructor.
Qed.

(* ---- sortAuditInfosByStartTime, as written: a map keyed by start time ---- *)
Fixpoint insert (x : nat) (l : list nat) : list nat :=
  match l with [] => [x] | y :: r => if Nat.leb x y then x :: y :: r else y :: insert x r end.
Definition sort (l : list nat) : list nat := fold_right insert [] l.

Definition by_time (rs : list rec) : amap := fold_left (fun m r => aset (rstart r) r m) rs [].
Definition listing (rs : list rec) : list (option rec) :=
  map (fun t => aget t (by_time rs)) (sort (map rstart rs)).

(* the unchanged code loses a record and lists another twice when start times tie *)
Example C20_ties_refuted :
  let a := Rec 1 5 100 [] in let b := Rec 2 5 200 [] in
  listing [a; b] = [Some b; Some b].
Proof. reflexivity. Qed.

(* the repaired ordering: sort the records themselves, by start time, ties by ID *)
Definition rleb (a b : rec) : bool :=
  Nat.ltb (rstart a) (rstart b) || (Nat.eqb (rstart a) (rstart b) && Nat.leb (rid a) (rid b)).
Definition rle (a b : rec) : Prop := rstart a < rstart b \/ (rstart a = rstart b /\ rid a <= rid b).

Lemma rleb_spec a b : rleb a b = true <-> rle a b.
Proof.
  unfold rleb, rle. rewrite orb_true_iff, andb_true_iff, Nat.ltb_lt, Nat.eqb_eq, Nat.leb_le. tauto.
Qed.
Lemma rleb_total a b : rleb a b = false -> rle b a.
Proof.
  intros H. destruct (rleb a b) eqn:E; [discriminate|]. unfold rleb in E. unfold rle.
  apply orb_false_iff in E. destruct E as [E1 E2]. apply Nat.ltb_ge in E1.
  apply andb_false_iff in E2. destruct E2 as [E2|E2].
  - apply Nat.eqb_neq in E2. lia.
  - apply Nat.leb_gt in E2. lia.
Qed.
Lemma rle_trans a b c : rle a b -> rle b c -> rle a c.
Proof. unfold rle. lia. Qed.

Fixpoint rinsert (x : rec) (l : list rec) : list rec :=
  match l with [] => [x] | y :: r => if rleb x y then x :: y :: r else y :: rinsert x r end.
Definition rsort (l : list rec) : list rec := fold_right rinsert [] l.

Lemma rinsert_perm x l : Permutation (x :: l) (rinsert x l).
Proof.
  induction l as [|y r IH]; simpl; auto.
  destruct (rleb x y); auto.
  eapply perm_trans; [apply perm_swap|]. constructor. exact IH.
Qed.

Theorem rsort_perm l : Permutation l (rsort l).
Proof.
  induction l as [|x l IH]; simpl; auto.
  eapply perm_trans; [|apply rinsert_perm]. constructor. exact IH.
Qed.

Lemma rinsert_hdrel a x l : rle a x -> HdRel rle a l -> HdRel rle a (rinsert x l).
Proof.
  intros Hax H. destruct l as [|y r]; simpl; [constructor; auto|].
  inversion H; subst. destruct (rleb x y); constructor; auto.
Qed.

Lemma rinsert_sorted x l : Sorted rle l -> Sorted rle (rinsert x l).
Proof.
  induction l as [|y r IH]; simpl; intros S.
  - constructor; constructor.
  - destruct (rleb x y) eqn:L.
    + constructor; [exact S|]. constructor. apply rleb_spec. exact L.
    + inversion S; subst. constructor; auto.
      apply rinsert_hdrel; auto. apply rleb_total. exact L.
Qed.

Theorem rsort_sorted l : Sorted rle (rsort l).
Proof. induction l; simpl; [constructor|apply rinsert_sorted; auto]. Qed.

(* ---- the whole report: flatten by ID, then order ---- *)
Definition report (r : rec) : list rec := rsort (map snd (extract r)).

(* every entry of the flattened map is stored under its own ID *)
Definition keyed (m : amap) : Prop := forall k v, In (k, v) m -> rid v = k.

Lemma aset_keyed k v m : rid v = k -> keyed m -> keyed (aset k v m).
Proof.
  intros Hv. induction m as [|[k' v'] r IH]; simpl; intros K k0 v0 Hin.
  - destruct Hin as [E|[]]. injection E as <- <-. exact Hv.
  - destruct (Nat.eqb_spec k k').
    + destruct Hin as [E|Hin]; [injection E as <- <-; exact Hv|]. apply K. right. exact Hin.
    + destruct Hin as [E|Hin]; [apply K; left; exact E|].
      apply IH; auto. intros a b Hab. apply K. right. exact Hab.
Qed.

Lemma amerge_keyed b : forall a, keyed a -> keyed b -> keyed (amerge a b).
Proof.
  unfold amerge. induction b as [|[k v] r IH]; intros a Ka Kb; simpl; auto.
  apply IH.
  - apply aset_keyed; auto. apply (Kb k v). left; reflexivity.
  - intros a0 b0 H. apply Kb. right. exact H.
Qed.

Lemma fold_merge_keyed (up : list rec) : forall m,
  keyed m -> Forall (fun u => keyed (extract u)) up ->
  keyed (fold_left (fun m u => amerge m (extract u)) up m).
Proof.
  induction up as [|u up IH]; intros m Km F; simpl; auto.
  inversion F; subst. apply IH; auto. apply amerge_keyed; auto.
Qed.

Lemma extract_keyed r : keyed (extract r).
Proof.
  induction r as [i s p up IH] using rec_ind'. simpl. apply fold_merge_keyed; auto.
  intros k v [E|[]]. injection E as <- <-. reflexivity.
Qed.

Lemma keyed_rids m : keyed m -> map rid (map snd m) = keys m.
Proof.
  unfold keys. induction m as [|[k v] r IH]; intros K; simpl; auto.
  rewrite (K k v (or_introl eq_refl)). f_equal. apply IH. intros a b H. apply K. right. exact H.
Qed.

(* C20: the report lists exactly the IDs of the lineage, each exactly once, ordered by start time (ties by ID) *)
Theorem report_ids r : forall x, In x (map rid (report r)) <-> In x (ids r).
Proof.
  intros x. unfold report. rewrite <- extract_ids. rewrite <- (keyed_rids (extract r) (extract_keyed r)).
  split; intros H.
  - eapply Permutation_in; [apply Permutation_map; apply Permutation_sym; apply rsort_perm|exact H].
  - eapply Permutation_in; [apply Permutation_map; apply rsort_perm|exact H].
Qed.

Theorem report_nodup r : NoDup (map rid (report r)).
Proof.
  unfold report. eapply Permutation_NoDup; [apply Permutation_map; apply rsort_perm|].
  rewrite (keyed_rids (extract r) (extract_keyed r)). apply extract_nodup.
Qed.

Theorem report_sorted r : Sorted rle (report r).
Proof. unfold report. apply rsort_sorted. Qed.

Print Assumptions report_ids.
Print Assumptions report_nodup.
Print Assumptions report_sorted.
