(* Fan-in into several in-ports of one process (finding D21, DESIGN 11.20).
   Producers send the outputs of a task to their out-ports one after the other, each send blocking while the in-port's
   channel is full (Process.Run: `for oname, oip := range OutIPs { Out(oname).Send(oip) }`); a consumer receives on its
   in-ports one after the other, each receive blocking while the channel is empty (receiveOnInPorts); the order within a
   round is whatever Go's map iteration gives -- a new one in every round.  When several producers feed the same in-ports
   these two sequential disciplines can wait for each other.
   Model: any number of producers, each sending, round after round, one item to every channel, in an order that is chosen
   anew for every round; one consumer receiving, round after round, one item from every channel, in an order chosen anew for
   every round (the action that completes a round carries the order of the next one).
   Theorems: (1) fanin_no_deadlock -- if the capacity is at least the number of producers, no reachable state is stuck
   before everything has been sent and received: every number of producers and channels, every choice of orders, every
   number of rounds, every schedule; fanin_step_decreases / fanin_maximal_run_completes -- every execution is finite and
   ends with everything sent and received.  (2) fanin_deadlock -- with a smaller capacity the statement is false: two
   producers, three channels, capacity 1 (the same workflow deadlocks on the real library with SCIPIPE_BUFSIZE=1). *)
From Coq Require Import List Arith Lia Bool PeanoNat.
Import ListNotations.

Record prod := { total : nat; left : nat; ptodo : list nat }.
Record st := { nch : nat; prods : list prod; ctodo : list nat; crounds : nat; q : nat -> nat; cap : nat }.

(* an order: every channel 0 .. m-1 exactly once (executable) *)
Fixpoint nodupb (l : list nat) : bool :=
  match l with [] => true | a :: r => negb (existsb (Nat.eqb a) r) && nodupb r end.
Definition ispermb (m : nat) (l : list nat) : bool :=
  Nat.eqb (length l) m && forallb (fun ch => Nat.ltb ch m) l && nodupb l.

Inductive act := Send (i : nat) (next : list nat) | Recv (next : list nat).

Definition updf (f : nat -> nat) (k v : nat) : nat -> nat := fun j => if Nat.eqb j k then v else f j.

Fixpoint updl (i : nat) (x : prod) (l : list prod) : list prod :=
  match l, i with [], _ => [] | _ :: r, 0 => x :: r | y :: r, S j => y :: updl j x r end.

Definition step (s : st) (a : act) : option st :=
  match a with
  | Send i next =>
      match nth_error (prods s) i with
      | Some p =>
          match left p, ptodo p with
          | S k, ch :: rest =>
              if Nat.ltb (q s ch) (cap s)
              then match rest with
                   | [] => if ispermb (nch s) next
                           then Some {| nch := nch s; prods := updl i {| total := total p; left := k; ptodo := next |} (prods s);
                                        ctodo := ctodo s; crounds := crounds s; q := updf (q s) ch (S (q s ch)); cap := cap s |}
                           else None
                   | _ => Some {| nch := nch s; prods := updl i {| total := total p; left := S k; ptodo := rest |} (prods s);
                                  ctodo := ctodo s; crounds := crounds s; q := updf (q s) ch (S (q s ch)); cap := cap s |}
                   end
              else None                                                    (* the channel is full: the send blocks *)
          | _, _ => None
          end
      | None => None
      end
  | Recv next =>
      match ctodo s with
      | ch :: rest =>
          match q s ch with
          | S n =>
              match rest with
              | [] => if ispermb (nch s) next
                      then Some {| nch := nch s; prods := prods s; ctodo := next; crounds := S (crounds s); q := updf (q s) ch n; cap := cap s |}
                      else None
              | _ => Some {| nch := nch s; prods := prods s; ctodo := rest; crounds := crounds s; q := updf (q s) ch n; cap := cap s |}
              end
          | 0 => None                                                      (* the channel is empty: the receive blocks *)
          end
      | [] => None
      end
  end.

Fixpoint run (s : st) (l : list act) : option st :=
  match l with [] => Some s | a :: r => match step s a with Some s' => run s' r | None => None end end.

(* the initial state: m channels, per producer its first order and its number of rounds, the consumer's first order, capacity *)
Definition init (m : nat) (ps : list (list nat * nat)) (co : list nat) (cp : nat) : st :=
  {| nch := m; prods := map (fun x => {| total := snd x; left := snd x; ptodo := fst x |}) ps;
     ctodo := co; crounds := 0; q := fun _ => 0; cap := cp |}.

(* ---- orders ---- *)
Definition isperm (m : nat) (l : list nat) : Prop := NoDup l /\ forall ch, In ch l <-> ch < m.

Lemma nodupb_nodup l : nodupb l = true -> NoDup l.
Proof.
  induction l as [|a r IH]; simpl; intros H; [constructor|].
  apply andb_true_iff in H. destruct H as [H1 H2]. constructor; [|apply IH; exact H2].
  intros Hin. apply negb_true_iff in H1. assert (existsb (Nat.eqb a) r = true); [|congruence].
  apply existsb_exists. exists a. split; [exact Hin|apply Nat.eqb_refl].
Qed.

Lemma ispermb_isperm m l : ispermb m l = true -> isperm m l.
Proof.
  unfold ispermb. intros H. apply andb_true_iff in H. destruct H as [H H3]. apply andb_true_iff in H. destruct H as [H1 H2].
  apply Nat.eqb_eq in H1. apply nodupb_nodup in H3. rewrite forallb_forall in H2.
  split; [exact H3|]. intros ch. split.
  - intros Hin. apply Nat.ltb_lt. apply H2. exact Hin.
  - intros Hlt. assert (I : incl (seq 0 m) l).
    { apply NoDup_length_incl; [exact H3|rewrite seq_length; lia|].
      intros x Hx. apply in_seq. apply H2 in Hx. apply Nat.ltb_lt in Hx. lia. }
    apply I. apply in_seq. lia.
Qed.

Lemma nodupb_seq a m : nodupb (seq a m) = true.
Proof.
  revert a. induction m as [|m IH]; intros a; simpl; auto. rewrite IH, andb_true_r. apply negb_true_iff.
  destruct (existsb (Nat.eqb a) (seq (S a) m)) eqn:E; auto. apply existsb_exists in E. destruct E as [x [Hx Hxa]].
  apply Nat.eqb_eq in Hxa. subst. apply in_seq in Hx. lia.
Qed.

Lemma ispermb_seq m : ispermb m (seq 0 m) = true.
Proof.
  unfold ispermb. rewrite seq_length, Nat.eqb_refl, nodupb_seq, andb_true_r. simpl.
  apply forallb_forall. intros x Hx. apply Nat.ltb_lt. apply in_seq in Hx. lia.
Qed.

Lemma isperm_length m l : isperm m l -> length l = m.
Proof.
  intros [N H]. apply Nat.le_antisymm.
  - replace m with (length (seq 0 m)) by apply seq_length. apply NoDup_incl_length; auto.
    intros x Hx. apply in_seq. apply H in Hx. lia.
  - replace m with (length (seq 0 m)) by apply seq_length. apply NoDup_incl_length; [apply seq_NoDup|].
    intros x Hx. apply in_seq in Hx. apply H. lia.
Qed.

(* ---- counting ---- *)
Definition ind (ch : nat) (todo : list nat) : nat := if in_dec Nat.eq_dec ch todo then 0 else 1.
Definition sent (p : prod) (ch : nat) : nat := (total p - left p) + ind ch (ptodo p).
Definition rcvd (s : st) (ch : nat) : nat := crounds s + ind ch (ctodo s).
Fixpoint sumsent (l : list prod) (ch : nat) : nat := match l with [] => 0 | p :: r => sent p ch + sumsent r ch end.

(* what is still to do in the current round: distinct channels, not empty; a full order when nothing is left to do *)
Definition todo_ok (m : nat) (l : list nat) : Prop := NoDup l /\ (forall ch, In ch l -> ch < m) /\ l <> [].
Definition pok (m : nat) (p : prod) : Prop := todo_ok m (ptodo p) /\ left p <= total p /\ (left p = 0 -> isperm m (ptodo p)).

Record Inv (m : nat) (s : st) : Prop := {
  i_m : 1 <= m;
  i_n : nch s = m;
  i_ct : todo_ok m (ctodo s);
  i_p : Forall (pok m) (prods s);
  i_q : forall ch, ch < m -> q s ch + rcvd s ch = sumsent (prods s) ch
}.

Definition wf_in (m : nat) (ps : list (list nat * nat)) (co : list nat) : Prop :=
  1 <= m /\ isperm m co /\ Forall (fun x => isperm m (fst x)) ps.

Lemma ind_in ch l : In ch l -> ind ch l = 0.
Proof. unfold ind. destruct (in_dec Nat.eq_dec ch l); tauto. Qed.
Lemma ind_notin ch l : ~ In ch l -> ind ch l = 1.
Proof. unfold ind. destruct (in_dec Nat.eq_dec ch l); tauto. Qed.
Lemma ind_le1 ch l : ind ch l <= 1.
Proof. unfold ind. destruct (in_dec Nat.eq_dec ch l); lia. Qed.
Lemma ind_tail ch a r : ch <> a -> ind ch (a :: r) = ind ch r.
Proof.
  intros Hne. unfold ind. destruct (in_dec Nat.eq_dec ch (a :: r)) as [H1|H1]; destruct (in_dec Nat.eq_dec ch r) as [H2|H2]; auto.
  - exfalso. destruct H1 as [H1|H1]; [congruence|contradiction].
  - exfalso. apply H1. right. exact H2.
Qed.

Lemma isperm_todo m l : 1 <= m -> isperm m l -> todo_ok m l.
Proof.
  intros Hm [N H]. split; [exact N|]. split; [intros ch Hc; apply H; exact Hc|].
  intros E. subst. destruct (proj2 (H 0) ltac:(lia)).
Qed.

Lemma init_inv m ps co cp : wf_in m ps co -> Inv m (init m ps co cp).
Proof.
  intros [Hm [Hc Hp]]. constructor; simpl; auto.
  - apply isperm_todo; auto.
  - induction Hp as [|x r Hx Hr IH]; simpl; constructor; auto.
    unfold pok; simpl. split; [apply isperm_todo; auto|]. split; [lia|]. intros _. exact Hx.
  - intros ch Hch. unfold rcvd; simpl. rewrite ind_in by (apply Hc; exact Hch).
    induction Hp as [|x r Hx Hr IH]; simpl; auto. rewrite <- IH. unfold sent; simpl.
    rewrite ind_in by (apply Hx; exact Hch). lia.
Qed.

(* ---- one step of a producer, in terms of what it has sent ---- *)
Lemma adv_mid m p k ch0 c2 r2 : pok m p -> left p = S k -> ptodo p = ch0 :: c2 :: r2 ->
  let p' := {| total := total p; left := S k; ptodo := c2 :: r2 |} in
  pok m p' /\ forall ch, sent p' ch = sent p ch + (if Nat.eqb ch ch0 then 1 else 0).
Proof.
  intros [[N [B Ne]] [L Z]] Hl Ht. rewrite Ht in N, B. apply NoDup_cons_iff in N. destruct N as [Hnot N']. simpl. split.
  - unfold pok; simpl. split; [|split; [lia|discriminate]].
    split; [exact N'|]. split; [intros ch Hc; apply B; right; exact Hc|discriminate].
  - intros ch. unfold sent; simpl. rewrite Hl, Ht.
    destruct (Nat.eqb_spec ch ch0) as [->|Hne]; cbv iota.
    + rewrite (ind_in ch0 (ch0 :: c2 :: r2)) by (left; reflexivity). rewrite (ind_notin ch0 (c2 :: r2)) by exact Hnot. lia.
    + rewrite (ind_tail ch ch0 (c2 :: r2)) by exact Hne. lia.
Qed.

Lemma adv_end m p k ch0 next : 1 <= m -> pok m p -> left p = S k -> ptodo p = [ch0] -> isperm m next ->
  let p' := {| total := total p; left := k; ptodo := next |} in
  pok m p' /\ forall ch, ch < m -> sent p' ch = sent p ch + (if Nat.eqb ch ch0 then 1 else 0).
Proof.
  intros Hm [[N [B Ne]] [L Z]] Hl Ht Hn. simpl. split.
  - unfold pok; simpl. split; [apply isperm_todo; auto|]. split; [lia|]. intros _. exact Hn.
  - intros ch Hch. unfold sent; simpl. rewrite Hl, Ht. rewrite (ind_in ch next) by (apply Hn; exact Hch).
    destruct (Nat.eqb_spec ch ch0) as [->|Hne]; cbv iota.
    + rewrite ind_in by (left; reflexivity). lia.
    + rewrite (ind_notin ch [ch0]) by (simpl; intros [?|[]]; congruence). lia.
Qed.

Lemma sumsent_updl l : forall i p p' ch, nth_error l i = Some p ->
  sumsent (updl i p' l) ch + sent p ch = sumsent l ch + sent p' ch.
Proof.
  induction l as [|x l IH]; intros [|i] p p' ch H; simpl in *; try discriminate.
  - injection H as ->. lia.
  - specialize (IH i p p' ch H). lia.
Qed.

Lemma forall_updl (P : prod -> Prop) l : forall i p', Forall P l -> P p' -> Forall P (updl i p' l).
Proof.
  induction l as [|x l IH]; intros [|i] p' F Hp; simpl; auto; inversion F; subst; constructor; auto.
Qed.

Lemma nth_forall (P : prod -> Prop) l i p : Forall P l -> nth_error l i = Some p -> P p.
Proof. intros F H. rewrite Forall_forall in F. apply F. eapply nth_error_In; eauto. Qed.

Lemma step_inv m s a s' : Inv m s -> step s a = Some s' -> Inv m s'.
Proof.
  intros [Hm Hn Hct Hp Hq] H. destruct a as [i next|next]; simpl in H.
  - destruct (nth_error (prods s) i) as [p|] eqn:Hi; [|discriminate].
    destruct (left p) as [|k] eqn:Hl; [discriminate|].
    destruct (ptodo p) as [|ch0 rest] eqn:Ht; [discriminate|].
    destruct (Nat.ltb (q s ch0) (cap s)) eqn:Hc; [|discriminate].
    pose proof (nth_forall _ _ _ _ Hp Hi) as Pk.
    assert (Hc0 : ch0 < m) by (destruct Pk as [[_ [B _]] _]; apply B; rewrite Ht; left; reflexivity).
    destruct rest as [|c2 r2].
    + destruct (ispermb (nch s) next) eqn:Hperm; [|discriminate]. rewrite Hn in Hperm. apply ispermb_isperm in Hperm.
      injection H as <-. destruct (adv_end m p k ch0 next Hm Pk Hl Ht Hperm) as [Pk' Hs].
      constructor; simpl; auto.
      * apply forall_updl; auto.
      * intros ch Hch. unfold rcvd; simpl.
        pose proof (sumsent_updl (prods s) i p {| total := total p; left := k; ptodo := next |} ch Hi) as E. rewrite (Hs ch Hch) in E.
        specialize (Hq ch Hch). unfold rcvd in Hq. unfold updf.
        destruct (Nat.eqb_spec ch ch0) as [->|Hne]; cbv iota in E; lia.
    + injection H as <-. destruct (adv_mid m p k ch0 c2 r2 Pk Hl Ht) as [Pk' Hs].
      constructor; simpl; auto.
      * apply forall_updl; auto.
      * intros ch Hch. unfold rcvd; simpl.
        pose proof (sumsent_updl (prods s) i p {| total := total p; left := S k; ptodo := c2 :: r2 |} ch Hi) as E. rewrite (Hs ch) in E.
        specialize (Hq ch Hch). unfold rcvd in Hq. unfold updf.
        destruct (Nat.eqb_spec ch ch0) as [->|Hne]; cbv iota in E; lia.
  - destruct (ctodo s) as [|ch0 rest] eqn:Ht; [discriminate|].
    destruct (q s ch0) as [|n] eqn:Hq0; [discriminate|].
    destruct Hct as [N [B Ne]]. apply NoDup_cons_iff in N. destruct N as [Hnot N'].
    destruct rest as [|c2 r2].
    + destruct (ispermb (nch s) next) eqn:Hperm; [|discriminate]. rewrite Hn in Hperm. apply ispermb_isperm in Hperm.
      injection H as <-. constructor; simpl; auto.
      * apply isperm_todo; auto.
      * intros ch Hch. specialize (Hq ch Hch). unfold rcvd in *; simpl. rewrite Ht in Hq. unfold updf.
        rewrite (ind_in ch next) by (apply Hperm; exact Hch).
        destruct (Nat.eqb_spec ch ch0) as [->|Hne].
        -- rewrite Hq0 in Hq. rewrite ind_in in Hq by (left; reflexivity). lia.
        -- rewrite (ind_notin ch [ch0]) in Hq by (simpl; intros [?|[]]; congruence). lia.
    + injection H as <-. constructor; simpl; auto.
      * split; [exact N'|]. split; [intros ch Hc; apply B; right; exact Hc|discriminate].
      * intros ch Hch. specialize (Hq ch Hch). unfold rcvd in *; simpl. rewrite Ht in Hq. unfold updf.
        destruct (Nat.eqb_spec ch ch0) as [->|Hne].
        -- rewrite Hq0 in Hq. rewrite ind_in in Hq by (left; reflexivity). rewrite ind_notin by exact Hnot. lia.
        -- rewrite (ind_tail ch ch0 (c2 :: r2)) in Hq by exact Hne. lia.
Qed.

Lemma run_inv m l : forall s s', Inv m s -> run s l = Some s' -> Inv m s'.
Proof.
  induction l as [|a l IH]; simpl; intros s s' I H.
  - injection H as <-. exact I.
  - destruct (step s a) as [s1|] eqn:E; [|discriminate]. apply (IH s1 s'); auto. eapply step_inv; eauto.
Qed.

(* ---- progress ---- *)
Definition finished (m : nat) (s : st) : Prop := Forall (fun p => left p = 0) (prods s) /\ forall ch, ch < m -> q s ch = 0.

Lemma sumsent_diff m l a b : Forall (pok m) l -> sumsent l a <= sumsent l b + length l.
Proof.
  induction 1 as [|p l Pk F IH]; simpl; [lia|]. unfold sent. pose proof (ind_le1 a (ptodo p)). lia.
Qed.

Lemma sumsent_diff_strict m l a b i p : Forall (pok m) l -> nth_error l i = Some p -> In a (ptodo p) ->
  sumsent l a + 1 <= sumsent l b + length l.
Proof.
  intros F. revert i. induction F as [|x l Pk F IH]; intros [|i] Hi Hin; simpl in *; try discriminate.
  - injection Hi as ->. pose proof (sumsent_diff m l a b F). unfold sent. rewrite (ind_in a) by exact Hin. lia.
  - specialize (IH i Hi Hin). unfold sent. pose proof (ind_le1 a (ptodo x)). lia.
Qed.

Lemma all_left_zero_or l : Forall (fun p => left p = 0) l \/ exists i p, nth_error l i = Some p /\ left p <> 0.
Proof.
  induction l as [|x l IH]; [left; constructor|].
  destruct (Nat.eq_dec (left x) 0) as [E|E].
  - destruct IH as [IH|[i [p [Hi Hp]]]]; [left; constructor; auto|right; exists (S i), p; auto].
  - right. exists 0, x. auto.
Qed.

Fixpoint tsum (l : list prod) : nat := match l with [] => 0 | p :: r => total p + tsum r end.

Lemma sumsent_done m l ch : Forall (pok m) l -> Forall (fun p => left p = 0) l -> ch < m -> sumsent l ch = tsum l.
Proof.
  intros F Z Hch. induction F as [|p l Pk F IH]; simpl; auto. inversion Z; subst.
  rewrite IH by assumption. unfold sent. destruct Pk as [_ [_ Zp]].
  rewrite ind_in by (apply (Zp H1); exact Hch). lia.
Qed.

Theorem fanin_progress m s : Inv m s -> length (prods s) <= cap s -> ~ finished m s -> exists a, step s a <> None.
Proof.
  intros [Hm Hn [N [B Ne]] Hp Hq] Hcap Hnf.
  destruct (ctodo s) as [|c' rest] eqn:Ht; [congruence|].
  assert (Hc' : c' < m) by (apply B; left; reflexivity).
  destruct (q s c') as [|n] eqn:Q'.
  2: { exists (Recv (seq 0 m)). simpl. rewrite Ht, Q'. destruct rest; [rewrite Hn, ispermb_seq|]; discriminate. }
  destruct (all_left_zero_or (prods s)) as [Z|[i [p [Hi Hl]]]].
  - (* everybody has sent everything: then everything has been received *)
    exfalso. apply Hnf. split; [exact Z|]. intros ch Hch.
    pose proof (Hq ch Hch) as E1. pose proof (Hq c' Hc') as E2.
    rewrite (sumsent_done m _ ch Hp Z Hch) in E1. rewrite (sumsent_done m _ c' Hp Z Hc') in E2.
    unfold rcvd in *. rewrite Ht in E1, E2. rewrite (ind_in c') in E2 by (left; reflexivity).
    pose proof (ind_le1 ch (c' :: rest)). lia.
  - pose proof (nth_forall _ _ _ _ Hp Hi) as [[Np [Bp Nep]] [Lp Zp]].
    destruct (left p) as [|k] eqn:El; [congruence|].
    destruct (ptodo p) as [|c0 r0] eqn:Et; [congruence|].
    assert (Hc0 : c0 < m) by (apply Bp; left; reflexivity).
    destruct (Nat.ltb (q s c0) (cap s)) eqn:Hlt.
    + exists (Send i (seq 0 m)). simpl. rewrite Hi, El, Et, Hlt. destruct r0; [rewrite Hn, ispermb_seq|]; discriminate.
    + exfalso. apply Nat.ltb_ge in Hlt.
      pose proof (Hq c0 Hc0) as E0. pose proof (Hq c' Hc') as E'.
      unfold rcvd in *. rewrite Ht in E0, E'. rewrite (ind_in c') in E' by (left; reflexivity). rewrite Q' in E'.
      pose proof (sumsent_diff_strict m (prods s) c0 c' i p Hp Hi ltac:(rewrite Et; left; reflexivity)). lia.
Qed.

Lemma run_shape l : forall s s', run s l = Some s' -> length (prods s') = length (prods s) /\ cap s' = cap s.
Proof.
  assert (UL : forall (l : list prod) i x, length (updl i x l) = length l).
  { induction l0 as [|y l0 IH]; intros [|i] x; simpl; auto. }
  induction l as [|a l IH]; simpl; intros s s' H.
  - injection H as <-. auto.
  - destruct (step s a) as [s1|] eqn:E; [|discriminate]. destruct (IH s1 s' H) as [A B].
    assert (length (prods s1) = length (prods s) /\ cap s1 = cap s).
    { destruct a as [i next|next]; simpl in E.
      - destruct (nth_error (prods s) i); [|discriminate]. destruct (left p); [discriminate|]. destruct (ptodo p) as [|c r]; [discriminate|].
        destruct (Nat.ltb _ _); [|discriminate]. destruct r; [destruct (ispermb _ _); [|discriminate]|]; injection E as <-; simpl; rewrite UL; auto.
      - destruct (ctodo s) as [|c r]; [discriminate|]. destruct (q s c); [discriminate|].
        destruct r; [destruct (ispermb _ _); [|discriminate]|]; injection E as <-; simpl; auto. }
    lia.
Qed.

(* from the initial state, for every schedule and every choice of orders along it *)
Theorem fanin_no_deadlock m ps co cp l s :
  wf_in m ps co -> length ps <= cp -> run (init m ps co cp) l = Some s -> ~ finished m s -> exists a, step s a <> None.
Proof.
  intros W Hc R Hnf. pose proof (run_inv m l _ _ (init_inv m ps co cp W) R) as I.
  apply (fanin_progress m s I); auto.
  destruct (run_shape l _ _ R) as [A B]. rewrite A, B. simpl. rewrite map_length. exact Hc.
Qed.

(* ---- termination: every step strictly decreases the number of sends and receives still to come ---- *)
Definition prem (m : nat) (p : prod) : nat := match left p with 0 => 0 | S k => k * m + length (ptodo p) end.
Fixpoint psum (m : nat) (l : list prod) : nat := match l with [] => 0 | p :: r => prem m p + psum m r end.
Definition measure (m : nat) (s : st) : nat := psum m (prods s) + (tsum (prods s) - crounds s) * m + length (ctodo s).

Lemma psum_updl m l : forall i p p', nth_error l i = Some p -> psum m (updl i p' l) + prem m p = psum m l + prem m p'.
Proof.
  induction l as [|x l IH]; intros [|i] p p' H; simpl in *; try discriminate.
  - injection H as ->. lia.
  - specialize (IH i p p' H). lia.
Qed.

Lemma tsum_updl l : forall i p p', nth_error l i = Some p -> total p' = total p -> tsum (updl i p' l) = tsum l.
Proof.
  induction l as [|x l IH]; intros [|i] p p' H E; simpl in *; try discriminate.
  - injection H as ->. lia.
  - rewrite (IH i p p' H E). reflexivity.
Qed.

Lemma sumsent_le_tsum m l ch : ch < m -> Forall (pok m) l -> sumsent l ch <= tsum l.
Proof.
  intros Hch F. induction F as [|p l Pk F IH]; simpl; auto. destruct Pk as [_ [Lp Zp]].
  unfold sent. pose proof (ind_le1 ch (ptodo p)).
  destruct (Nat.eq_dec (left p) 0) as [E|E].
  - rewrite ind_in by (apply (Zp E); exact Hch). lia.
  - lia.
Qed.

Theorem fanin_step_decreases m s a s' : Inv m s -> step s a = Some s' -> measure m s' < measure m s.
Proof.
  intros I H. pose proof I as [Hm Hn [N [B Ne]] Hp Hq]. unfold measure. destruct a as [i next|next]; simpl in H.
  - destruct (nth_error (prods s) i) as [p|] eqn:Hi; [|discriminate].
    destruct (left p) as [|k] eqn:Hl; [discriminate|].
    destruct (ptodo p) as [|ch0 rest] eqn:Ht; [discriminate|].
    destruct (Nat.ltb (q s ch0) (cap s)); [|discriminate].
    destruct rest as [|c2 r2].
    + destruct (ispermb (nch s) next) eqn:Hperm; [|discriminate]. rewrite Hn in Hperm. apply ispermb_isperm in Hperm.
      pose proof (isperm_length m next Hperm) as Ln. injection H as <-. simpl.
      pose proof (psum_updl m (prods s) i p {| total := total p; left := k; ptodo := next |} Hi) as E.
      rewrite (tsum_updl (prods s) i p {| total := total p; left := k; ptodo := next |} Hi eq_refl).
      unfold prem in E. simpl in E. rewrite Hl, Ht in E. simpl in E. destruct k; simpl in E; lia.
    + injection H as <-. simpl.
      pose proof (psum_updl m (prods s) i p {| total := total p; left := S k; ptodo := c2 :: r2 |} Hi) as E.
      rewrite (tsum_updl (prods s) i p {| total := total p; left := S k; ptodo := c2 :: r2 |} Hi eq_refl).
      unfold prem in E. simpl in E. rewrite Hl, Ht in E. simpl in E. lia.
  - destruct (ctodo s) as [|ch0 rest] eqn:Ht; [discriminate|].
    destruct (q s ch0) as [|n] eqn:Q0; [discriminate|].
    assert (Hc0 : ch0 < m) by (apply B; left; reflexivity).
    pose proof (Hq ch0 Hc0) as Q. unfold rcvd in Q. rewrite Ht, Q0 in Q. rewrite ind_in in Q by (left; reflexivity).
    pose proof (sumsent_le_tsum m (prods s) ch0 Hc0 Hp) as Bd.
    destruct rest as [|c2 r2].
    + destruct (ispermb (nch s) next) eqn:Hperm; [|discriminate]. rewrite Hn in Hperm. apply ispermb_isperm in Hperm.
      pose proof (isperm_length m next Hperm) as Ln. injection H as <-. simpl. rewrite Ln. nia.
    + injection H as <-. simpl. lia.
Qed.

(* with fanin_no_deadlock: a run that cannot be extended has sent and received everything *)
Theorem fanin_maximal_run_completes m ps co cp l s :
  wf_in m ps co -> length ps <= cp -> run (init m ps co cp) l = Some s -> (forall a, step s a = None) ->
  Forall (fun p => left p = 0) (prods s) /\ forall ch, ch < m -> q s ch = 0.
Proof.
  intros W Hc R Hmax.
  assert (Dec : finished m s \/ ~ finished m s).
  { unfold finished.
    assert (D1 : Forall (fun p => left p = 0) (prods s) \/ ~ Forall (fun p => left p = 0) (prods s)).
    { destruct (all_left_zero_or (prods s)) as [Z|[i [p [Hi Hp]]]]; [left; exact Z|].
      right. intros F. apply Hp. rewrite Forall_forall in F. apply F. eapply nth_error_In; eauto. }
    assert (D2 : (forall ch, ch < m -> q s ch = 0) \/ ~ (forall ch, ch < m -> q s ch = 0)).
    { clear. induction m as [|m IH].
      - left. intros ch H. lia.
      - destruct IH as [IH|IH].
        + destruct (Nat.eq_dec (q s m) 0) as [E|E].
          * left. intros ch H. destruct (Nat.eq_dec ch m) as [->|Hne]; auto. apply IH. lia.
          * right. intros H. apply E. apply H. lia.
        + right. intros H. apply IH. intros ch Hch. apply H. lia. }
    tauto. }
  destruct Dec as [F|NF]; [exact F|].
  exfalso. destruct (fanin_no_deadlock m ps co cp l s W Hc R NF) as [a Ha]. apply Ha, Hmax.
Qed.

(* non-vacuity: the configuration of finding D21 with capacity 2 satisfies the hypotheses *)
Example fanin_wf_example : wf_in 3 [([0; 1; 2], 1); ([1; 0; 2], 1)] [2; 0; 1] /\ length [([0; 1; 2], 1); ([1; 0; 2], 1)] <= 2.
Proof.
  split; [|simpl; lia]. unfold wf_in. split; [lia|].
  split; [apply ispermb_isperm; reflexivity|].
  constructor; [simpl; apply ispermb_isperm; reflexivity|]. constructor; [simpl; apply ispermb_isperm; reflexivity|constructor].
Qed.

(* ---- the statement is false for smaller buffers: finding D21 ---- *)
(* A sends to ports 0, 1, 2 in this order, B to 1, 0, 2; the consumer receives on 2, 0, 1; one task each *)
Definition d21 (cp : nat) : st := init 3 [([0; 1; 2], 1); ([1; 0; 2], 1)] [2; 0; 1] cp.

(* buffer size 1.  A has sent to port 0, B to port 1: A's next send (port 1) and B's next send (port 0) block on full
   channels, the consumer blocks on the empty port 2, which neither producer has reached; nobody is done; no action is
   possible, whatever order it proposes for a next round *)
Theorem fanin_deadlock :
  exists sched s, run (d21 1) sched = Some s /\ (forall a, step s a = None) /\ Exists (fun p => left p <> 0) (prods s).
Proof.
  exists [Send 0 []; Send 1 []]. eexists. split; [vm_compute; reflexivity|]. split.
  - intros [i next|next]; [|reflexivity]. destruct i as [|[|i]]; try reflexivity. simpl. destruct i; reflexivity.
  - constructor. simpl. discriminate.
Qed.

(* the same configuration with capacity 2 = the number of producers is an instance of fanin_no_deadlock *)
Corollary fanin_d21_cap2_ok l s : run (d21 2) l = Some s -> ~ finished 3 s -> exists a, step s a <> None.
Proof.
  intros R Hnf. destruct fanin_wf_example as [W Hl].
  exact (fanin_no_deadlock 3 _ _ 2 l s W Hl R Hnf).
Qed.
