(* Fan-in into several in-ports of one process (finding D21, DESIGN 11.20).
   Producers send the outputs of a task to their out-ports one after the other, each send blocking while the in-port's
   channel is full (Process.Run: `for oname, oip := range OutIPs { Out(oname).Send(oip) }`); a consumer receives on its
   in-ports one after the other, each receive blocking while the channel is empty (receiveOnInPorts); the order within a
   round is whatever Go's map iteration gives.  When several producers feed the same in-ports these two sequential
   disciplines can wait for each other.
   Model: any number of producers, each sending, round after round, one item to every channel in an order of its own; one
   consumer receiving, round after round, one item from every channel in an order of its own.
   Theorems: (1) fanin_no_deadlock -- if the capacity is at least the number of producers, no reachable state is stuck
   before everything has been sent and received: every number of producers and channels, every order, every number of
   rounds, every schedule.  (2) fanin_deadlock -- with a smaller capacity the statement is false: two producers, three
   channels, capacity 1 (the same workflow deadlocks on the real library with SCIPIPE_BUFSIZE=1). *)
From Coq Require Import List Arith Lia Bool PeanoNat.
Import ListNotations.

Record prod := { po : list nat; total : nat; left : nat; ptodo : list nat }.
Record st := { prods : list prod; corder : list nat; ctodo : list nat; crounds : nat; q : nat -> nat; cap : nat }.

Inductive act := Send (i : nat) | Recv.

Definition updf (f : nat -> nat) (k v : nat) : nat -> nat := fun j => if Nat.eqb j k then v else f j.

Fixpoint updl (i : nat) (x : prod) (l : list prod) : list prod :=
  match l, i with [], _ => [] | _ :: r, 0 => x :: r | y :: r, S j => y :: updl j x r end.

Definition step (s : st) (a : act) : option st :=
  match a with
  | Send i =>
      match nth_error (prods s) i with
      | Some p =>
          match left p, ptodo p with
          | S k, ch :: rest =>
              if Nat.ltb (q s ch) (cap s)
              then let p' := match rest with
                             | [] => {| po := po p; total := total p; left := k; ptodo := po p |}
                             | _ => {| po := po p; total := total p; left := S k; ptodo := rest |}
                             end in
                   Some {| prods := updl i p' (prods s); corder := corder s; ctodo := ctodo s; crounds := crounds s;
                           q := updf (q s) ch (S (q s ch)); cap := cap s |}
              else None
          | _, _ => None
          end
      | None => None
      end
  | Recv =>
      match ctodo s with
      | ch :: rest =>
          match q s ch with
          | S n => Some {| prods := prods s; corder := corder s;
                           ctodo := (match rest with [] => corder s | _ => rest end);
                           crounds := (match rest with [] => S (crounds s) | _ => crounds s end);
                           q := updf (q s) ch n; cap := cap s |}
          | 0 => None
          end
      | [] => None
      end
  end.

Fixpoint run (s : st) (l : list act) : option st :=
  match l with [] => Some s | a :: r => match step s a with Some s' => run s' r | None => None end end.

(* the initial state for given orders, rounds, consumer order and capacity *)
Definition init (ps : list (list nat * nat)) (co : list nat) (cp : nat) : st :=
  {| prods := map (fun x => {| po := fst x; total := snd x; left := snd x; ptodo := fst x |}) ps;
     corder := co; ctodo := co; crounds := 0; q := fun _ => 0; cap := cp |}.

(* ---- counting ---- *)
Definition ind (ch : nat) (todo : list nat) : nat := if in_dec Nat.eq_dec ch todo then 0 else 1.
Definition sent (p : prod) (ch : nat) : nat := (total p - left p) + ind ch (ptodo p).
Definition rcvd (s : st) (ch : nat) : nat := crounds s + ind ch (ctodo s).
Fixpoint sumsent (l : list prod) (ch : nat) : nat := match l with [] => 0 | p :: r => sent p ch + sumsent r ch end.

Definition suffix (a b : list nat) : Prop := exists pre, b = pre ++ a.

Definition pok (m : nat) (p : prod) : Prop :=
  NoDup (po p) /\ (forall ch, In ch (po p) <-> ch < m) /\ left p <= total p /\ suffix (ptodo p) (po p) /\ ptodo p <> [] /\
  (left p = 0 -> ptodo p = po p).

Record Inv (m : nat) (s : st) : Prop := {
  i_m : 1 <= m;
  i_co : NoDup (corder s) /\ (forall ch, In ch (corder s) <-> ch < m);
  i_ct : suffix (ctodo s) (corder s) /\ ctodo s <> [];
  i_p : Forall (pok m) (prods s);
  i_q : forall ch, ch < m -> q s ch + rcvd s ch = sumsent (prods s) ch
}.

Definition wf_in (m : nat) (ps : list (list nat * nat)) (co : list nat) : Prop :=
  1 <= m /\ NoDup co /\ (forall ch, In ch co <-> ch < m) /\
  Forall (fun x => NoDup (fst x) /\ (forall ch, In ch (fst x) <-> ch < m)) ps.

Lemma ind_in ch l : In ch l -> ind ch l = 0.
Proof. unfold ind. destruct (in_dec Nat.eq_dec ch l); tauto. Qed.
Lemma ind_notin ch l : ~ In ch l -> ind ch l = 1.
Proof. unfold ind. destruct (in_dec Nat.eq_dec ch l); tauto. Qed.
Lemma ind_le1 ch l : ind ch l <= 1.
Proof. unfold ind. destruct (in_dec Nat.eq_dec ch l); lia. Qed.

Lemma nonempty_of_lt (l : list nat) m : 1 <= m -> (forall ch, In ch l <-> ch < m) -> l <> [].
Proof. intros Hm H E. subst. destruct (proj2 (H 0) ltac:(lia)). Qed.

Lemma init_inv m ps co cp : wf_in m ps co -> Inv m (init ps co cp).
Proof.
  intros [Hm [Hn [Hc Hp]]]. constructor; simpl; auto.
  - split; [exists []; reflexivity|eapply nonempty_of_lt; eauto].
  - induction Hp as [|x r [Hx1 Hx2] Hr IH]; simpl; constructor; auto.
    unfold pok; simpl. repeat split; auto; try apply Hx2; try (exists []; reflexivity).
    eapply nonempty_of_lt; eauto.
  - intros ch Hch. unfold rcvd; simpl. rewrite ind_in by (apply Hc; exact Hch).
    induction Hp as [|x r [Hx1 Hx2] Hr IH]; simpl; auto. rewrite <- IH. unfold sent; simpl.
    rewrite ind_in by (apply Hx2; exact Hch). lia.
Qed.

(* ---- one step of a producer, in terms of what it has sent ---- *)
Lemma suffix_cons_notin a rest l : NoDup l -> suffix (a :: rest) l -> ~ In a rest.
Proof.
  intros N [pre E]. subst. apply NoDup_remove_2 in N. intros H. apply N. apply in_or_app. right. exact H.
Qed.

Lemma suffix_tail a rest l : suffix (a :: rest) l -> suffix rest l.
Proof. intros [pre E]. exists (pre ++ [a]). rewrite <- app_assoc. exact E. Qed.

Lemma suffix_in a rest l : suffix (a :: rest) l -> In a l.
Proof. intros [pre E]. subst. apply in_or_app. right. left. reflexivity. Qed.

Definition adv (p : prod) : prod :=
  match left p, ptodo p with
  | S k, ch :: [] => {| po := po p; total := total p; left := k; ptodo := po p |}
  | S k, ch :: rest => {| po := po p; total := total p; left := S k; ptodo := rest |}
  | _, _ => p
  end.

Lemma adv_sent m p k ch0 rest : pok m p -> left p = S k -> ptodo p = ch0 :: rest ->
  pok m (adv p) /\ forall ch, ch < m -> sent (adv p) ch = sent p ch + (if Nat.eqb ch ch0 then 1 else 0).
Proof.
  intros [N [M [L [Sf [Ne Z]]]]] Hl Ht. unfold adv. rewrite Hl, Ht.
  pose proof (suffix_cons_notin ch0 rest (po p) N ltac:(rewrite <- Ht; exact Sf)) as Hnot.
  pose proof (suffix_in ch0 rest (po p) ltac:(rewrite <- Ht; exact Sf)) as Hin0.
  destruct rest as [|c2 r2].
  - split.
    + unfold pok; simpl. repeat split; auto; try apply M; try lia; try (exists []; reflexivity).
      intros E. rewrite E in Hin0. destruct Hin0.
    + intros ch Hch. unfold sent; simpl. rewrite Hl, Ht.
      destruct (Nat.eqb_spec ch ch0) as [->|Hne]; cbv iota.
      * rewrite ind_in by exact Hin0. rewrite ind_in by (left; reflexivity). lia.
      * rewrite (ind_notin ch [ch0]) by (simpl; intros [?|[]]; congruence).
        destruct (in_dec Nat.eq_dec ch (po p)) as [Hi|Hn].
        -- rewrite ind_in by exact Hi. lia.
        -- exfalso. apply Hn. apply M. exact Hch.
  - split.
    + unfold pok; simpl. repeat split; auto; try apply M; try lia; try discriminate.
      rewrite Ht in Sf. eapply suffix_tail; eauto.
    + intros ch Hch. unfold sent; simpl. rewrite Hl, Ht.
      destruct (Nat.eqb_spec ch ch0) as [->|Hne]; cbv iota.
      * rewrite (ind_in ch0 (ch0 :: c2 :: r2)) by (left; reflexivity). rewrite (ind_notin ch0 (c2 :: r2)) by exact Hnot. lia.
      * unfold ind. destruct (in_dec Nat.eq_dec ch (c2 :: r2)) as [H1|H1]; destruct (in_dec Nat.eq_dec ch (ch0 :: c2 :: r2)) as [H2|H2]; try lia.
        -- exfalso. apply H2. right. exact H1.
        -- exfalso. destruct H2 as [H2|H2]; [congruence|contradiction].
Qed.

Lemma sumsent_updl l : forall i p p' ch, nth_error l i = Some p ->
  sumsent (updl i p' l) ch + sent p ch = sumsent l ch + sent p' ch.
Proof.
  induction l as [|x l IH]; intros [|i] p p' ch H; simpl in *; try discriminate.
  - injection H as ->. lia.
  - specialize (IH i p p' ch H). lia.
Qed.

Lemma forall_updl (P : prod -> Prop) l : forall i p', Forall P l -> P p' -> Forall P (updl i p' l).
Proof.
  induction l as [|x l IH]; intros [|i] p' F Hp; simpl; auto; inversion F; subst; constructor; auto.
Qed.

Lemma nth_forall (P : prod -> Prop) l i p : Forall P l -> nth_error l i = Some p -> P p.
Proof. intros F H. rewrite Forall_forall in F. apply F. eapply nth_error_In; eauto. Qed.

Lemma step_inv m s a s' : Inv m s -> step s a = Some s' -> Inv m s'.
Proof.
  intros [Hm Hco Hct Hp Hq] H. destruct a as [i|]; simpl in H.
  - destruct (nth_error (prods s) i) as [p|] eqn:Hi; [|discriminate].
    destruct (left p) as [|k] eqn:Hl; [discriminate|].
    destruct (ptodo p) as [|ch0 rest] eqn:Ht; [discriminate|].
    destruct (Nat.ltb (q s ch0) (cap s)) eqn:Hc; [|discriminate].
    pose proof (nth_forall _ _ _ _ Hp Hi) as Pk.
    destruct (adv_sent m p k ch0 rest Pk Hl Ht) as [Pk' Hs].
    assert (Ea : adv p = match rest with
                         | [] => {| po := po p; total := total p; left := k; ptodo := po p |}
                         | _ :: _ => {| po := po p; total := total p; left := S k; ptodo := rest |}
                         end).
    { unfold adv. rewrite Hl, Ht. destruct rest; reflexivity. }
    rewrite <- Ea in H. injection H as <-. constructor; simpl; auto.
    + apply forall_updl; auto.
    + intros ch Hch. unfold rcvd; simpl.
      pose proof (sumsent_updl (prods s) i p (adv p) ch Hi) as E. rewrite (Hs ch Hch) in E.
      specialize (Hq ch Hch). unfold rcvd in Hq. unfold updf.
      destruct (Nat.eqb_spec ch ch0) as [->|Hne]; cbv iota; lia.
  - destruct (ctodo s) as [|ch0 rest] eqn:Ht; [discriminate|].
    destruct (q s ch0) as [|n] eqn:Hq0; [discriminate|]. injection H as <-.
    destruct Hco as [Nc Mc]. destruct Hct as [Sf Ne].
    pose proof (suffix_cons_notin ch0 rest (corder s) Nc Sf) as Hnot.
    pose proof (suffix_in ch0 rest (corder s) Sf) as Hin0.
    constructor; simpl; auto.
    + destruct rest as [|c2 r2].
      * split; [exists []; reflexivity|]. intros E. rewrite E in Hin0. destruct Hin0.
      * split; [eapply suffix_tail; eauto|discriminate].
    + intros ch Hch. specialize (Hq ch Hch). unfold rcvd in *; simpl. rewrite Ht in Hq. unfold updf.
      destruct (Nat.eqb_spec ch ch0) as [->|Hne]; cbv iota.
      * rewrite Hq0 in Hq. rewrite ind_in in Hq by (left; reflexivity).
        destruct rest as [|c2 r2].
        -- rewrite ind_in by exact Hin0. lia.
        -- rewrite ind_notin by exact Hnot. lia.
      * destruct rest as [|c2 r2].
        -- rewrite (ind_notin ch [ch0]) in Hq by (simpl; intros [?|[]]; congruence).
           rewrite ind_in by (apply Mc; exact Hch). lia.
        -- assert (ind ch (c2 :: r2) = ind ch (ch0 :: c2 :: r2)).
           { unfold ind. destruct (in_dec Nat.eq_dec ch (c2 :: r2)) as [H1|H1]; destruct (in_dec Nat.eq_dec ch (ch0 :: c2 :: r2)) as [H2|H2]; try lia.
             - exfalso. apply H2. right. exact H1.
             - exfalso. destruct H2 as [H2|H2]; [congruence|contradiction]. }
           lia.
Qed.

Lemma run_inv m l : forall s s', Inv m s -> run s l = Some s' -> Inv m s'.
Proof.
  induction l as [|a l IH]; simpl; intros s s' I H.
  - injection H as <-. exact I.
  - destruct (step s a) as [s1|] eqn:E; [|discriminate]. apply (IH s1 s'); auto. eapply step_inv; eauto.
Qed.

(* ---- progress ---- *)
Definition finished (m : nat) (s : st) : Prop := Forall (fun p => left p = 0) (prods s) /\ forall ch, ch < m -> q s ch = 0.

(* the difference of what the producers have sent on two channels is at most their number, and less if one of them has
   not sent on the first one in its current round *)
Lemma sumsent_diff m l a b : Forall (pok m) l ->
  sumsent l a <= sumsent l b + length l.
Proof.
  induction 1 as [|p l Pk F IH]; simpl; [lia|].
  unfold sent. pose proof (ind_le1 a (ptodo p)). lia.
Qed.

Lemma sumsent_diff_strict m l a b i p : Forall (pok m) l -> nth_error l i = Some p -> In a (ptodo p) ->
  sumsent l a + 1 <= sumsent l b + length l.
Proof.
  intros F. revert i. induction F as [|x l Pk F IH]; intros [|i] Hi Hin; simpl in *; try discriminate.
  - injection Hi as ->. pose proof (sumsent_diff m l a b F). unfold sent. rewrite (ind_in a) by exact Hin. lia.
  - specialize (IH i Hi Hin). unfold sent. pose proof (ind_le1 a (ptodo x)). lia.
Qed.

Lemma all_left_zero_or l : Forall (fun p => left p = 0) l \/ exists i p, nth_error l i = Some p /\ left p <> 0.
Proof.
  induction l as [|x l IH]; [left; constructor|].
  destruct (Nat.eq_dec (left x) 0) as [E|E].
  - destruct IH as [IH|[i [p [Hi Hp]]]]; [left; constructor; auto|right; exists (S i), p; auto].
  - right. exists 0, x. auto.
Qed.

Lemma sumsent_done m l ch : Forall (pok m) l -> Forall (fun p => left p = 0) l -> ch < m ->
  sumsent l ch = fold_right (fun p acc => total p + acc) 0 l.
Proof.
  intros F Z Hch. induction F as [|p l Pk F IH]; simpl; auto. inversion Z; subst.
  rewrite IH by assumption. unfold sent. destruct Pk as [_ [M [_ [_ [_ Zp]]]]].
  rewrite (Zp H1). rewrite ind_in by (apply M; exact Hch). lia.
Qed.

Theorem fanin_progress m s : Inv m s -> length (prods s) <= cap s -> ~ finished m s -> exists a, step s a <> None.
Proof.
  intros [Hm [Nc Mc] [Sf Ne] Hp Hq] Hcap Hnf.
  destruct (ctodo s) as [|c' rest] eqn:Ht; [congruence|].
  assert (Hc' : c' < m) by (apply Mc; eapply suffix_in; exact Sf).
  destruct (q s c') as [|n] eqn:Q'.
  2: { exists Recv. simpl. rewrite Ht, Q'. discriminate. }
  destruct (all_left_zero_or (prods s)) as [Z|[i [p [Hi Hl]]]].
  - (* everybody has sent everything: then everything has been received *)
    exfalso. apply Hnf. split; [exact Z|]. intros ch Hch.
    pose proof (Hq ch Hch) as E1. pose proof (Hq c' Hc') as E2.
    rewrite (sumsent_done m _ ch Hp Z Hch) in E1. rewrite (sumsent_done m _ c' Hp Z Hc') in E2.
    unfold rcvd in *. rewrite Ht in E1, E2. rewrite (ind_in c') in E2 by (left; reflexivity).
    pose proof (ind_le1 ch (c' :: rest)). lia.
  - pose proof (nth_forall _ _ _ _ Hp Hi) as [Np [Mp [Lp [Sp [Nep Zp]]]]].
    destruct (left p) as [|k] eqn:El; [congruence|].
    destruct (ptodo p) as [|c0 r0] eqn:Et; [congruence|].
    assert (Hc0 : c0 < m) by (apply Mp; eapply suffix_in; exact Sp).
    destruct (Nat.ltb (q s c0) (cap s)) eqn:Hlt.
    + exists (Send i). simpl. rewrite Hi, El, Et, Hlt. discriminate.
    + exfalso. apply Nat.ltb_ge in Hlt.
      pose proof (Hq c0 Hc0) as E0. pose proof (Hq c' Hc') as E'.
      unfold rcvd in *. rewrite Ht in E0, E'. rewrite (ind_in c') in E' by (left; reflexivity). rewrite Q' in E'.
      pose proof (sumsent_diff_strict m (prods s) c0 c' i p Hp Hi ltac:(rewrite Et; left; reflexivity)). lia.
Qed.

(* from the initial state, for every schedule *)
Theorem fanin_no_deadlock m ps co cp l s :
  wf_in m ps co -> length ps <= cp -> run (init ps co cp) l = Some s -> ~ finished m s -> exists a, step s a <> None.
Proof.
  intros W Hc R Hnf. pose proof (run_inv m l _ _ (init_inv m ps co cp W) R) as I.
  apply (fanin_progress m s I); auto.
  assert (Hlen : forall l s s', run s l = Some s' -> length (prods s') = length (prods s) /\ cap s' = cap s).
  { clear. induction l as [|a l IH]; simpl; intros s s' H.
    - injection H as <-. auto.
    - destruct (step s a) as [s1|] eqn:E; [|discriminate]. destruct (IH s1 s' H) as [A B].
      assert (length (prods s1) = length (prods s) /\ cap s1 = cap s).
      { destruct a as [i|]; simpl in E.
        - destruct (nth_error (prods s) i); [|discriminate]. destruct (left p); [discriminate|]. destruct (ptodo p); [discriminate|].
          destruct (Nat.ltb _ _); [|discriminate]. injection E as <-. simpl. split; auto.
          clear. generalize (prods s). intros l. revert i. induction l as [|x l IH]; intros [|i]; simpl; auto.
        - destruct (ctodo s); [discriminate|]. destruct (q s n); [discriminate|]. injection E as <-. simpl. auto. }
      lia. }
  destruct (Hlen l _ _ R) as [A B]. rewrite A, B. simpl. rewrite map_length. exact Hc.
Qed.

(* ---- termination: every step strictly decreases the number of sends and receives still to come ---- *)
Definition prem (m : nat) (p : prod) : nat := match left p with 0 => 0 | S k => k * m + length (ptodo p) end.
Fixpoint psum (m : nat) (l : list prod) : nat := match l with [] => 0 | p :: r => prem m p + psum m r end.
Fixpoint tsum (l : list prod) : nat := match l with [] => 0 | p :: r => total p + tsum r end.
Definition measure (m : nat) (s : st) : nat := psum m (prods s) + (tsum (prods s) - crounds s) * m + length (ctodo s).

Lemma psum_updl m l : forall i p p', nth_error l i = Some p -> psum m (updl i p' l) + prem m p = psum m l + prem m p'.
Proof.
  induction l as [|x l IH]; intros [|i] p p' H; simpl in *; try discriminate.
  - injection H as ->. lia.
  - specialize (IH i p p' H). lia.
Qed.

Lemma tsum_updl l : forall i p p', nth_error l i = Some p -> total p' = total p -> tsum (updl i p' l) = tsum l.
Proof.
  induction l as [|x l IH]; intros [|i] p p' H E; simpl in *; try discriminate.
  - injection H as ->. lia.
  - rewrite (IH i p p' H E). reflexivity.
Qed.

Lemma length_of_perm (l : list nat) m : NoDup l -> (forall ch, In ch l <-> ch < m) -> length l = m.
Proof.
  intros N H. apply Nat.le_antisymm.
  - replace m with (length (seq 0 m)) by apply seq_length. apply NoDup_incl_length; auto.
    intros x Hx. apply in_seq. apply H in Hx. lia.
  - replace m with (length (seq 0 m)) by apply seq_length. apply NoDup_incl_length; [apply seq_NoDup|].
    intros x Hx. apply in_seq in Hx. apply H. lia.
Qed.

Lemma sumsent_le_tsum m l ch : ch < m -> Forall (pok m) l -> sumsent l ch <= tsum l.
Proof.
  intros Hch F. induction F as [|p l Pk F IH]; simpl; auto. destruct Pk as [Np [Mp [Lp [Sp [Nep Zp]]]]].
  unfold sent. pose proof (ind_le1 ch (ptodo p)).
  destruct (Nat.eq_dec (left p) 0) as [E|E].
  - rewrite (Zp E). rewrite ind_in by (apply Mp; exact Hch). lia.
  - lia.
Qed.

(* the consumer never completes more rounds than the producers have items for *)
Lemma crounds_le m s : Inv m s -> crounds s + (if Nat.eqb (length (ctodo s)) m then 0 else 1) <= tsum (prods s).
Proof.
  intros [Hm [Nc Mc] [Sf Ne] Hp Hq].
  assert (B : forall l ch, ch < m -> Forall (pok m) l -> sumsent l ch <= tsum l).
  { intros l ch Hch F. induction F as [|p l Pk F IH]; simpl; auto. destruct Pk as [Np [Mp [Lp [Sp [Nep Zp]]]]].
    unfold sent. pose proof (ind_le1 ch (ptodo p)).
    destruct (Nat.eq_dec (left p) 0) as [E|E].
    - rewrite (Zp E). rewrite ind_in by (apply Mp; exact Hch). lia.
    - lia. }
  destruct (Nat.eqb_spec (length (ctodo s)) m) as [E|E].
  - (* at the start of a round *) destruct (ctodo s) as [|c0 r] eqn:Ht; [congruence|].
    assert (Hc : c0 < m) by (apply Mc; eapply suffix_in; exact Sf).
    pose proof (Hq c0 Hc) as Q. unfold rcvd in Q. rewrite Ht in Q. rewrite ind_in in Q by (left; reflexivity).
    pose proof (B (prods s) c0 Hc Hp). lia.
  - (* in the middle of a round: some channel of the consumer's order has been received already *)
    destruct Sf as [pre Epre]. pose proof (length_of_perm (corder s) m Nc Mc) as Lc.
    destruct pre as [|c0 pre'].
    + simpl in Epre. rewrite Epre in Lc. congruence.
    + assert (Hin : In c0 (corder s)) by (rewrite Epre; left; reflexivity).
      assert (Hc : c0 < m) by (apply Mc; exact Hin).
      assert (Hnot : ~ In c0 (ctodo s)).
      { rewrite Epre in Nc. simpl in Nc. inversion Nc; subst. intros H. apply H1. apply in_or_app. right. exact H. }
      pose proof (Hq c0 Hc) as Q. unfold rcvd in Q. rewrite ind_notin in Q by exact Hnot.
      pose proof (B (prods s) c0 Hc Hp). lia.
Qed.

Theorem fanin_step_decreases m s a s' : Inv m s -> step s a = Some s' -> measure m s' < measure m s.
Proof.
  intros I H. pose proof I as [Hm [Nc Mc] [Sf Ne] Hp Hq]. unfold measure. destruct a as [i|]; simpl in H.
  - destruct (nth_error (prods s) i) as [p|] eqn:Hi; [|discriminate].
    destruct (left p) as [|k] eqn:Hl; [discriminate|].
    destruct (ptodo p) as [|ch0 rest] eqn:Ht; [discriminate|].
    destruct (Nat.ltb (q s ch0) (cap s)); [|discriminate]. injection H as <-. simpl.
    pose proof (nth_forall _ _ _ _ Hp Hi) as [Np [Mp _]]. pose proof (length_of_perm (po p) m Np Mp) as Lp.
    destruct rest as [|c2 r2].
    + pose proof (psum_updl m (prods s) i p {| po := po p; total := total p; left := k; ptodo := po p |} Hi) as E.
      rewrite (tsum_updl (prods s) i p {| po := po p; total := total p; left := k; ptodo := po p |} Hi eq_refl).
      unfold prem in E. simpl in E. rewrite Hl, Ht in E. simpl in E. destruct k; simpl in E; lia.
    + pose proof (psum_updl m (prods s) i p {| po := po p; total := total p; left := S k; ptodo := c2 :: r2 |} Hi) as E.
      rewrite (tsum_updl (prods s) i p {| po := po p; total := total p; left := S k; ptodo := c2 :: r2 |} Hi eq_refl).
      unfold prem in E. simpl in E. rewrite Hl, Ht in E. simpl in E. lia.
  - destruct (ctodo s) as [|ch0 rest] eqn:Ht; [discriminate|].
    destruct (q s ch0) as [|n] eqn:Q0; [discriminate|]. injection H as <-. simpl.
    assert (Hc0 : ch0 < m) by (apply Mc; eapply suffix_in; exact Sf).
    pose proof (Hq ch0 Hc0) as Q. unfold rcvd in Q. rewrite Ht, Q0 in Q. rewrite ind_in in Q by (left; reflexivity).
    pose proof (sumsent_le_tsum m (prods s) ch0 Hc0 Hp) as B.
    pose proof (length_of_perm (corder s) m Nc Mc) as Lc.
    destruct rest as [|c2 r2]; simpl.
    + rewrite Lc. nia.
    + lia.
Qed.

(* with fanin_no_deadlock: a run that cannot be extended has sent and received everything *)
Theorem fanin_maximal_run_completes m ps co cp l s :
  wf_in m ps co -> length ps <= cp -> run (init ps co cp) l = Some s -> (forall a, step s a = None) ->
  Forall (fun p => left p = 0) (prods s) /\ forall ch, ch < m -> q s ch = 0.
Proof.
  intros W Hc R Hmax.
  assert (D : forall P : Prop, (~ ~ P) -> (P \/ ~ P) -> P) by tauto.
  assert (Dec : finished m s \/ ~ finished m s).
  { unfold finished.
    assert (D1 : Forall (fun p => left p = 0) (prods s) \/ ~ Forall (fun p => left p = 0) (prods s)).
    { destruct (all_left_zero_or (prods s)) as [Z|[i [p [Hi Hp]]]]; [left; exact Z|].
      right. intros F. apply Hp. rewrite Forall_forall in F. apply F. eapply nth_error_In; eauto. }
    assert (D2 : (forall ch, ch < m -> q s ch = 0) \/ ~ (forall ch, ch < m -> q s ch = 0)).
    { clear. induction m as [|m IH].
      - left. intros ch H. lia.
      - destruct IH as [IH|IH].
        + destruct (Nat.eq_dec (q s m) 0) as [E|E].
          * left. intros ch H. destruct (Nat.eq_dec ch m) as [->|Hne]; auto. apply IH. lia.
          * right. intros H. apply E. apply H. lia.
        + right. intros H. apply IH. intros ch Hch. apply H. lia. }
    tauto. }
  destruct Dec as [F|NF]; [exact F|].
  exfalso. destruct (fanin_no_deadlock m ps co cp l s W Hc R NF) as [a Ha]. apply Ha, Hmax.
Qed.

(* non-vacuity: the configuration of finding D21 with capacity 2 satisfies the hypotheses *)
Example fanin_wf_example : wf_in 3 [([0; 1; 2], 1); ([1; 0; 2], 1)] [2; 0; 1] /\ length [([0; 1; 2], 1); ([1; 0; 2], 1)] <= 2.
Proof.
  assert (ND : forall a b c : nat, a <> b -> a <> c -> b <> c -> NoDup [a; b; c]).
  { intros a b c H1 H2 H3. constructor; [simpl; intuition|]. constructor; [simpl; intuition|]. constructor; [simpl; intuition|constructor]. }
  split; [|simpl; lia]. unfold wf_in. split; [lia|]. split; [apply ND; lia|]. split; [intros ch; simpl; lia|].
  constructor; [simpl; split; [apply ND; lia|intros ch; simpl; lia]|].
  constructor; [simpl; split; [apply ND; lia|intros ch; simpl; lia]|constructor].
Qed.

(* ---- the statement is false for smaller buffers: finding D21 ---- *)
Definition all_done (s : st) : bool := forallb (fun p => Nat.eqb (left p) 0) (prods s).
Definition stuck (s : st) : bool :=
  forallb (fun a => match step s a with None => true | Some _ => false end) (Recv :: map Send (seq 0 (length (prods s)))).

(* A sends to ports 0, 1, 2 in this order, B to 1, 0, 2; the consumer receives on 2, 0, 1; one task each; buffer size 1 *)
Definition d21 (cp : nat) : st := init [([0; 1; 2], 1); ([1; 0; 2], 1)] [2; 0; 1] cp.

(* A has sent to port 0, B to port 1: A's next send (port 1) and B's next send (port 0) block on full channels, the consumer
   blocks on the empty port 2, which neither producer has reached; nobody is done *)
Theorem fanin_deadlock : exists sched s, run (d21 1) sched = Some s /\ stuck s = true /\ all_done s = false.
Proof. exists [Send 0; Send 1]. eexists. split; [vm_compute; reflexivity|]. split; vm_compute; reflexivity. Qed.

(* the same configuration with capacity 2 = the number of producers is an instance of fanin_no_deadlock *)
Corollary fanin_d21_cap2_ok l s : run (d21 2) l = Some s -> ~ finished 3 s -> exists a, step s a <> None.
Proof.
  intros R Hnf. destruct fanin_wf_example as [W Hl].
  exact (fanin_no_deadlock 3 _ _ 2 l s W Hl R Hnf).
Qed.
