From Coq Require Import List Arith Lia Bool PeanoNat.
Import ListNotations.
Require Import NetA Inv.

Local Arguments Nat.sub : simpl never.

Section Pres.
Variable c : cfg.
Variable len : nat -> nat.
Hypothesis WF : wf c len.

Notation NodeInvN := (NodeInvN c len).
Notation EdgeInvN := (EdgeInvN c).
Notation Inv := (Inv c len).

Lemma length_set_nth l i b : length (set_nth l i b) = length l.
Proof. revert i; induction l as [|a r IH]; intros [|i]; simpl; auto. Qed.

Lemma close_all_ns s l w : ns (close_all s l) w = ns s w.
Proof. revert s; induction l as [|a r IH]; intros s; simpl; auto. rewrite IH. reflexivity. Qed.

Lemma close_all_es s l e :
  es (close_all s l) e =
  if existsb (Nat.eqb e) l then {| snt := snt (es s e); rcv := rcv (es s e); clo := true |} else es s e.
Proof.
  revert s; induction l as [|a r IH]; intros s; simpl; auto.
  rewrite IH. unfold set_es; simpl. unfold upd. destruct (Nat.eqb_spec e a); subst; simpl.
  - destruct (existsb (Nat.eqb a) r); reflexivity.
  - reflexivity.
Qed.

Lemma src_ne_dst e : e < E c -> esrc c e <> edst c e.
Proof. intros He. destruct (wf_topo _ _ WF e He). lia. Qed.

(* Frame lemma: a step at node v that touches only edges incident to v *)
Lemma frame s s' v n' :
  Inv s ->
  (forall w, ns s' w = if Nat.eqb w v then n' else ns s w) ->
  NodeInvN v n' ->
  (forall e, e < E c -> esrc c e = v -> EdgeInvN e (es s' e) n' (ns s (edst c e))) ->
  (forall e, e < E c -> edst c e = v -> EdgeInvN e (es s' e) (ns s (esrc c e)) n') ->
  (forall e, e < E c -> esrc c e <> v -> edst c e <> v -> es s' e = es s e) ->
  Inv s'.
Proof.
  intros [HN HE] Hns Hn Hsrc Hdst Hoth. split.
  - intros w Hw. unfold NodeInv. rewrite Hns. destruct (Nat.eqb_spec w v); subst; auto. apply HN; auto.
  - intros e He. unfold EdgeInv. rewrite !Hns. pose proof (src_ne_dst e He) as Hsd.
    destruct (Nat.eqb_spec (esrc c e) v) as [Hs|Hs]; destruct (Nat.eqb_spec (edst c e) v) as [Hd|Hd]; try congruence.
    + apply Hsrc; auto.
    + apply Hdst; auto.
    + rewrite Hoth; auto. apply HE; auto.
Qed.

Ltac inv_some := match goal with H : Some _ = Some ?s' |- _ => injection H as H; subst s' end.

Ltac fin_contra :=
  match goal with
  | n2 : rn ?n = RFin -> _ = CtDone /\ _, H : rn ?n = RFin |- _ =>
    let X := fresh in destruct (n2 H) as [X _]; discriminate X
  end.

Ltac node_tac Ct :=
  constructor; unfold sending, hand in *; simpl in *; rewrite ?Ct in *; intros;
  try discriminate; try fin_contra; try lia; auto.

(* ---------------- ABegin ---------------- *)
Lemma pres_begin s v perm s' : Inv s -> v < nn c -> step c s (ABegin v perm) = Some s' -> Inv s'.
Proof.
  intros HI Hv Hstep. pose proof HI as [HN HE]. simpl in Hstep.
  pose proof (HN v Hv) as NI. unfold NodeInv in NI. destruct NI as [n1 n2 n3 n4 n5 n6 n7].
  remember (ns s v) as nv eqn:Env.
  destruct (ct nv) eqn:Ct; try discriminate.
  destruct (slen c v) as [L|] eqn:SL.
  - destruct (wf_src _ _ WF v L SL) as [HL Hins]. subst L.
    assert (Hnoin : forall e, e < E c -> edst c e <> v).
    { intros e He Hd. assert (H : In e (ins c v)) by (apply in_ins; auto). rewrite Hins in H. destruct H. }
    destruct (Nat.ltb (cN nv) (len v)) eqn:Hlt; inv_some; subst nv.
    + apply Nat.ltb_lt in Hlt.
      eapply frame with (v := v); eauto; simpl.
      * reflexivity.
      * node_tac Ct.
      * intros e He Hs. specialize (HE e He). unfold EdgeInv in HE. rewrite Hs in HE.
        destruct HE as [e1 e2 e3 e4]. constructor; simpl; auto.
      * intros e He Hd. exfalso. eapply Hnoin; eauto.
    + apply Nat.ltb_ge in Hlt.
      eapply frame with (v := v); eauto; simpl.
      * reflexivity.
      * node_tac Ct.
      * intros e He Hs. specialize (HE e He). unfold EdgeInv in HE. rewrite Hs in HE.
        destruct HE as [e1 e2 e3 e4]. constructor; simpl; auto.
      * intros e He Hd. exfalso. eapply Hnoin; eauto.
  - destruct (is_perm perm (ins c v)) eqn:Hp; [|discriminate]. destruct (par_sorted c perm); [|discriminate]. cbn [andb] in *. inv_some. subst nv.
    destruct (is_perm_in _ _ Hp (nodup_ins c v)) as [Hin NDp].
    eapply frame with (v := v); eauto; simpl.
    + reflexivity.
    + node_tac Ct.
      match goal with H : CtRecv _ _ = CtRecv _ _ |- _ => inversion H; subst end.
      split; [assumption|]. split; [|assumption]. intros y Hy. apply Hin; assumption.
    + intros e He Hs. specialize (HE e He). unfold EdgeInv in HE. rewrite Hs in HE.
      destruct HE as [e1 e2 e3 e4]. constructor; simpl; auto.
    + intros e He Hd. specialize (HE e He). unfold EdgeInv in HE. rewrite Hd in HE.
      destruct HE as [e1 e2 e3 e4]. constructor; simpl; auto.
      unfold hand, rx in *; simpl. rewrite Ct in e2.
      assert (H : In e perm) by (apply Hin, in_ins; auto). apply existsb_eqb_In in H. rewrite H. lia.
Qed.


Ltac setup HI Hv Hstep :=
  pose proof HI as [HN HE]; simpl in Hstep;
  pose proof (HN _ Hv) as NI; unfold NodeInv in NI; destruct NI as [n1 n2 n3 n4 n5 n6 n7].

Lemma existsb_cons_ne e y todo : e <> y -> existsb (Nat.eqb e) (y :: todo) = existsb (Nat.eqb e) todo.
Proof. intros H. simpl. destruct (Nat.eqb_spec e y); [congruence|reflexivity]. Qed.

(* ---------------- ARecv ---------------- *)
Lemma pres_recv s v s' : Inv s -> v < nn c -> step c s (ARecv v) = Some s' -> Inv s'.
Proof.
  intros HI Hv Hstep. setup HI Hv Hstep.
  destruct (ct (ns s v)) as [|todo0 saw| |] eqn:Ct; try discriminate.
  destruct todo0 as [|y todo]; try discriminate.
  destruct (n6 _ _ eq_refl) as [ND [Hsub Hsl]].
  assert (Hy : In y (ins c v)) by (apply Hsub; left; reflexivity).
  apply in_ins in Hy. destruct Hy as [HyE Hyd].
  pose proof (src_ne_dst y HyE) as Hsd.
  apply NoDup_cons_iff in ND. destruct ND as [Hnin ND'].
  pose proof (HE y HyE) as EY. unfold EdgeInv in EY. rewrite Hyd in EY. destruct EY as [y1 y2 y3 y4].
  pose proof (snt_le_len c len WF s y HI HyE) as Hsl'. rewrite (wf_bal _ _ WF y HyE), Hyd in Hsl'.
  unfold hand, rx in y2. rewrite Ct in y2.
  destruct (Nat.ltb (rcv (es s y)) (snt (es s y))) eqn:Hq.
  - (* receive *)
    apply Nat.ltb_lt in Hq. inv_some.
    destruct saw.
    { (* saw closed earlier: impossible *)
      specialize (n5 _ eq_refl). simpl in y2. lia. }
    simpl in y2. rewrite Nat.eqb_refl in y2. simpl in y2.
    eapply frame with (v := v); eauto; simpl.
    + reflexivity.
    + node_tac Ct.
      match goal with H : CtRecv _ _ = CtRecv _ _ |- _ => inversion H; subst end.
      split; [assumption|]. split; [|assumption]. intros z Hz. apply Hsub. right; assumption.
    + intros e He Hs. assert (e <> y) by congruence.
      unfold upd. destruct (Nat.eqb_spec e y); [congruence|].
      specialize (HE e He). unfold EdgeInv in HE. rewrite Hs in HE.
      destruct HE as [e1 e2 e3 e4]. constructor; simpl; auto.
    + intros e He Hd. unfold upd. destruct (Nat.eqb_spec e y) as [->|Hne].
      * constructor; simpl; auto; try lia.
        unfold hand, rx; simpl. apply existsb_eqb_false in Hnin. rewrite Hnin. lia.
      * specialize (HE e He). unfold EdgeInv in HE. rewrite Hd in HE.
        destruct HE as [e1 e2 e3 e4]. constructor; simpl; auto.
        unfold hand, rx in *; simpl. rewrite Ct in e2. rewrite existsb_cons_ne in e2 by assumption. exact e2.
    + intros e He Hs Hd. unfold upd. destruct (Nat.eqb_spec e y); [congruence|reflexivity].
  - apply Nat.ltb_ge in Hq.
    destruct (clo (es s y)) eqn:Hc; [|discriminate]. inv_some.
    (* saw closed now: cN = len v *)
    assert (HcN : cN (ns s v) = len v).
    { clear Hc. assert (Hc : rn (ns s (esrc c y)) = RFin) by (apply y4; reflexivity).
      assert (Hu : esrc c y < nn c) by (destruct (wf_topo _ _ WF y HyE); lia).
      pose proof (HN _ Hu) as NU. unfold NodeInv in NU. destruct NU as [u1 u2 u3 u4 u5 u6 u7].
      destruct (u2 Hc) as [Hd [Hf He]]. specialize (u4 Hd).
      unfold sx in y1. rewrite Hc in y1.
      rewrite (wf_bal _ _ WF y HyE), Hyd in u4.
      destruct saw; simpl in y2; [|rewrite Nat.eqb_refl in y2; simpl in y2]; lia. }
    eapply frame with (v := v); eauto; simpl.
    + reflexivity.
    + node_tac Ct.
      match goal with H : CtRecv _ _ = CtRecv _ _ |- _ => inversion H; subst end.
      split; [assumption|]. split; [|assumption]. intros z Hz. apply Hsub. right; assumption.
    + intros e He Hs.
      specialize (HE e He). unfold EdgeInv in HE. rewrite Hs in HE.
      destruct HE as [e1 e2 e3 e4]. constructor; simpl; auto.
    + intros e He Hd. pose proof (HE e He) as EE. unfold EdgeInv in EE. rewrite Hd in EE.
      destruct EE as [e1 e2 e3 e4]. constructor; simpl; auto.
      unfold hand, rx in *; simpl. rewrite Ct in e2.
      destruct saw; [exact e2|].
      destruct (existsb (Nat.eqb e) (y :: todo)) eqn:Hex; [lia|].
      (* e already received this round: rcv e = len v + 1 > snt e : impossible *)
      pose proof (snt_le_len c len WF s e HI He) as Hse. rewrite (wf_bal _ _ WF e He), Hd in Hse. lia.
Qed.

(* ---------------- AEndRound ---------------- *)
Lemma pres_endround s v s' : Inv s -> v < nn c -> step c s (AEndRound v) = Some s' -> Inv s'.
Proof.
  intros HI Hv Hstep. setup HI Hv Hstep.
  destruct (ct (ns s v)) as [|todo0 saw| |] eqn:Ct; try discriminate.
  destruct (n6 _ _ eq_refl) as [ND [Hsub Hsl]].
  destruct saw; [destruct (forallb (epar c) todo0); try discriminate|destruct todo0; try discriminate]; cbn [andb] in *; inv_some.
  - specialize (n5 _ eq_refl).
    eapply frame with (v := v); eauto; simpl.
    + reflexivity.
    + node_tac Ct.
    + intros e He Hs. specialize (HE e He). unfold EdgeInv in HE. rewrite Hs in HE.
      destruct HE as [e1 e2 e3 e4]. constructor; simpl; auto.
    + intros e He Hd. specialize (HE e He). unfold EdgeInv in HE. rewrite Hd in HE.
      destruct HE as [e1 e2 e3 e4]. constructor; simpl; auto.
      unfold hand, rx in *; simpl. rewrite Ct in e2. exact e2.
  - (* all ports delivered: cN + 1 <= len v *)
    assert (Hle : cN (ns s v) + 1 <= len v).
    { pose proof (wf_proc _ _ WF v Hv Hsl) as Hne.
      destruct (ins c v) as [|e r] eqn:Hi; [congruence|].
      assert (Hin : In e (ins c v)) by (rewrite Hi; left; reflexivity).
      apply in_ins in Hin. destruct Hin as [He Hd].
      pose proof (HE e He) as EE. unfold EdgeInv in EE. rewrite Hd in EE. destruct EE as [e1 e2 e3 e4].
      unfold hand, rx in e2. rewrite Ct in e2. simpl in e2.
      pose proof (snt_le_len c len WF s e HI He) as Hse. rewrite (wf_bal _ _ WF e He), Hd in Hse. lia. }
    eapply frame with (v := v); eauto; simpl.
    + reflexivity.
    + node_tac Ct.
    + intros e He Hs. specialize (HE e He). unfold EdgeInv in HE. rewrite Hs in HE.
      destruct HE as [e1 e2 e3 e4]. constructor; simpl; auto.
    + intros e He Hd. specialize (HE e He). unfold EdgeInv in HE. rewrite Hd in HE.
      destruct HE as [e1 e2 e3 e4]. constructor; simpl; auto.
      unfold hand, rx in *; simpl. rewrite Ct in e2. simpl in e2. lia.
Qed.


Ltac edge_src HE e He Hs :=
  specialize (HE e He); unfold EdgeInv in HE; rewrite Hs in HE;
  let e1 := fresh "e1" in let e2 := fresh "e2" in let e3 := fresh "e3" in let e4 := fresh "e4" in
  destruct HE as [e1 e2 e3 e4]; constructor; simpl; auto.

(* ---------------- AHand ---------------- *)
Lemma pres_hand s v s' : Inv s -> v < nn c -> step c s (AHand v) = Some s' -> Inv s'.
Proof.
  intros HI Hv Hstep. setup HI Hv Hstep.
  destruct (ct (ns s v)) eqn:Ct; try discriminate.
  destruct (rn (ns s v)) eqn:Rn; try discriminate. inv_some.
  eapply frame with (v := v); eauto; simpl.
  - reflexivity.
  - constructor; unfold sending, hand in *; simpl in *; rewrite ?Ct, ?Rn in *; intros; try discriminate; try lia; auto.
    rewrite app_length; simpl. assert (H0 : RSel <> RFin) by congruence. specialize (n1 H0). lia.
  - intros e He Hs. edge_src HE e He Hs. unfold sx in *; simpl. rewrite Rn in *. assumption.
    rewrite Rn in *. assumption.
  - intros e He Hd. edge_src HE e He Hd. unfold hand, rx in *; simpl. rewrite Ct in *. lia.
Qed.

(* ---------------- AExit ---------------- *)
Lemma pres_exit s v i s' : Inv s -> v < nn c -> step c s (AExit v i) = Some s' -> Inv s'.
Proof.
  intros HI Hv Hstep. setup HI Hv Hstep.
  destruct (nth_error (fl (ns s v)) i) as [[|]|] eqn:Hn; try discriminate. inv_some.
  eapply frame with (v := v); eauto; simpl.
  - reflexivity.
  - constructor; unfold sending, hand in *; simpl in *; intros; eauto.
    + rewrite length_set_nth. auto.
    + destruct (n2 H) as [A [B C]]. rewrite B in Hn. destruct i; discriminate.
  - intros e He Hs. edge_src HE e He Hs.
  - intros e He Hd. edge_src HE e He Hd.
Qed.

(* ---------------- APop ---------------- *)
Lemma pres_pop s v perm s' : Inv s -> v < nn c -> step c s (APop v perm) = Some s' -> Inv s'.
Proof.
  intros HI Hv Hstep. setup HI Hv Hstep.
  destruct (rn (ns s v)) eqn:Rn; try discriminate.
  destruct (fl (ns s v)) as [|[|] rest] eqn:Fl; try discriminate.
  destruct (is_perm perm (outs c v)) eqn:Hp; [|discriminate]. inv_some.
  destruct (is_perm_in _ _ Hp (nodup_outs c v)) as [Hin NDp].
  eapply frame with (v := v); eauto; simpl.
  - reflexivity.
  - constructor; unfold sending, hand in *; simpl in *; rewrite ?Rn, ?Fl in *; intros; try discriminate; eauto.
    + assert (H0 : RSel <> RFin) by congruence. specialize (n1 H0). simpl in n1. lia.
    + match goal with H : RSend _ = RSend _ |- _ => injection H as <- end. split; auto. intros x Hx. apply Hin; assumption.
  - intros e He Hs. edge_src HE e He Hs.
    + unfold sx in *; simpl. rewrite Rn in *.
      assert (H : In e perm) by (apply Hin, in_outs; auto). apply existsb_eqb_In in H. rewrite H. lia.
    + rewrite Rn in *. split; intros; try discriminate. apply e4 in H. discriminate.
  - intros e He Hd. edge_src HE e He Hd.
Qed.

(* ---------------- ASend ---------------- *)
Lemma pres_send s v s' : Inv s -> v < nn c -> step c s (ASend v) = Some s' -> Inv s'.
Proof.
  intros HI Hv Hstep. setup HI Hv Hstep.
  destruct (rn (ns s v)) as [|todo0|] eqn:Rn; try discriminate.
  destruct todo0 as [|x todo]; try discriminate.
  destruct (Nat.ltb (snt (es s x) - rcv (es s x)) (cap c)) eqn:Hq; [|discriminate]. inv_some.
  apply Nat.ltb_lt in Hq.
  destruct (n7 _ eq_refl) as [ND Hsub].
  assert (Hx : In x (outs c v)) by (apply Hsub; left; reflexivity).
  apply in_outs in Hx. destruct Hx as [HxE Hxs].
  pose proof (src_ne_dst x HxE) as Hsd.
  apply NoDup_cons_iff in ND. destruct ND as [Hnin ND'].
  eapply frame with (v := v); eauto; simpl.
  - reflexivity.
  - constructor; unfold sending, hand in *; simpl in *; rewrite ?Rn in *; intros; try discriminate; eauto.
    + assert (H0 : RSend (x :: todo) <> RFin) by congruence. specialize (n1 H0). simpl in n1. lia.
    + match goal with H : RSend _ = RSend _ |- _ => injection H as <- end. split; auto; intros z Hz; apply Hsub; right; assumption.
  - intros e He Hs. unfold upd. destruct (Nat.eqb_spec e x) as [->|Hne].
    + pose proof (HE x He) as EX. unfold EdgeInv in EX. rewrite Hs in EX. destruct EX as [x1 x2 x3 x4].
      constructor; simpl; auto; try lia.
      * unfold sx in *; simpl. rewrite Rn in x1. simpl in x1. rewrite Nat.eqb_refl in x1. simpl in x1.
        apply existsb_eqb_false in Hnin. rewrite Hnin. lia.
      * rewrite Rn in x4. split; intros H; try discriminate. apply x4 in H. discriminate.
    + edge_src HE e He Hs.
      * unfold sx in *; simpl. rewrite Rn in *. rewrite existsb_cons_ne in e1 by assumption. exact e1.
      * rewrite Rn in *. split; intros H; [apply e4 in H; discriminate | discriminate].
  - intros e He Hd. assert (e <> x) by congruence.
    unfold upd. destruct (Nat.eqb_spec e x); [congruence|]. edge_src HE e He Hd.
  - intros e He Hs Hd. unfold upd. destruct (Nat.eqb_spec e x); [congruence|reflexivity].
Qed.

(* ---------------- AEndSend ---------------- *)
Lemma pres_endsend s v s' : Inv s -> v < nn c -> step c s (AEndSend v) = Some s' -> Inv s'.
Proof.
  intros HI Hv Hstep. setup HI Hv Hstep.
  destruct (rn (ns s v)) as [|todo0|] eqn:Rn; try discriminate.
  destruct todo0; try discriminate. inv_some.
  eapply frame with (v := v); eauto; simpl.
  - reflexivity.
  - constructor; unfold sending, hand in *; simpl in *; rewrite ?Rn in *; intros; try discriminate; eauto.
    assert (H0 : RSend [] <> RFin) by congruence. specialize (n1 H0). simpl in n1. lia.
  - intros e He Hs. edge_src HE e He Hs.
    + unfold sx in *; simpl. rewrite Rn in *. simpl in e1. lia.
    + rewrite Rn in *. split; intros H; try discriminate. apply e4 in H. discriminate.
  - intros e He Hd. edge_src HE e He Hd.
Qed.

(* ---------------- AFin ---------------- *)
Lemma pres_fin s v s' : Inv s -> v < nn c -> step c s (AFin v) = Some s' -> Inv s'.
Proof.
  intros HI Hv Hstep. setup HI Hv Hstep.
  destruct (rn (ns s v)) eqn:Rn; try discriminate.
  destruct (ct (ns s v)) eqn:Ct; try discriminate.
  destruct (fl (ns s v)) eqn:Fl; try discriminate. inv_some.
  eapply frame with (v := v) (n' := {| ct := CtDone; rn := RFin; cN := cN (ns s v); eN := eN (ns s v); fl := [] |}); eauto.
  - intros w. rewrite close_all_ns. reflexivity.
  - constructor; unfold sending, hand in *; simpl in *; rewrite ?Rn, ?Ct, ?Fl in *; intros; try discriminate; try congruence; eauto.
    assert (H0 : RSel <> RFin) by congruence. specialize (n1 H0). simpl in n1. split; auto. split; auto. lia.
  - intros e He Hs. rewrite close_all_es. simpl.
    assert (Hin : In e (outs c v)) by (apply in_outs; auto). apply existsb_eqb_In in Hin. rewrite Hin.
    specialize (HE e He). unfold EdgeInv in HE. rewrite Hs in HE. destruct HE as [e1 e2 e3 e4].
    constructor; simpl; auto.
    + unfold sx in *; simpl. rewrite Rn in e1. exact e1.
    + split; auto.
  - intros e He Hd. rewrite close_all_es. simpl.
    assert (Hnin : ~ In e (outs c v)).
    { intros Hin. apply in_outs in Hin. destruct Hin as [_ Hs]. pose proof (src_ne_dst e He). congruence. }
    apply existsb_eqb_false in Hnin. rewrite Hnin.
    specialize (HE e He). unfold EdgeInv in HE. rewrite Hd in HE. destruct HE as [e1 e2 e3 e4].
    constructor; simpl; auto.
    unfold hand, rx in *; simpl. rewrite Ct in e2. exact e2.
  - intros e He Hs Hd. rewrite close_all_es. simpl.
    assert (Hnin : ~ In e (outs c v)).
    { intros Hin. apply in_outs in Hin. destruct Hin as [_ Hs']. congruence. }
    apply existsb_eqb_false in Hnin. rewrite Hnin. reflexivity.
Qed.

Theorem step_inv s a s' : Inv s -> node_of a < nn c -> step c s a = Some s' -> Inv s'.
Proof.
  destruct a; simpl; intros.
  - eapply pres_begin; eauto.
  - eapply pres_recv; eauto.
  - eapply pres_endround; eauto.
  - eapply pres_hand; eauto.
  - eapply pres_exit; eauto.
  - eapply pres_pop; eauto.
  - eapply pres_send; eauto.
  - eapply pres_endsend; eauto.
  - eapply pres_fin; eauto.
Qed.

End Pres.
