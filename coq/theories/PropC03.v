(* C03 -- Restart after a crash converges to the uninterrupted result.  Model: TaskFS + the sequential reference `result`. *)
From Coq Require Import List Arith Lia Bool PeanoNat String.
Import ListNotations.
From SP Require Import Skel Gen Expected ExpectedCones Result TaskFS TInv TPres Glue Cor TaskTop History.

Theorem C03_code_conforms :
  skel_eqb skel_Task_Execute exp_Task_Execute
  && skel_eqb skel_FinalizePaths exp_FinalizePaths
  && skel_eqb skel_Task_tempDirsExist exp_Task_tempDirsExist
  && skel_eqb skel_Task_anyOutputsExist exp_Task_anyOutputsExist
  && skel_eqb skel_Process_Run exp_Process_Run = true.
Proof. vm_compute. reflexivity. Qed.

(* a completed run, under any schedule, equals the sequential reference at every declared output *)
Theorem C03_complete_is_result : forall (c : cfg) (f0 : fs) (left0 : nat -> bool), wfc c ->
  forall fR, pre c f0 (nt c) = Some fR ->
  forall s, reachable c f0 left0 s -> (forall t, t < nt c -> is_done (pcs s t) = true) ->
  forall t x, t < nt c -> In x (tout (tk c t)) -> fin s x = fR x.
Proof. exact TaskTop.complete_is_result. Qed.

(* crash anywhere (any reachable state in which no task is strictly between two of its renames), remove the temp dirs,
   run again: the run completes with exactly the files of the uninterrupted run *)
Theorem C03_converges : forall (c : cfg) (f0 : fs) (left0 : nat -> bool), wfc c ->
  forall fR, pre c f0 (nt c) = Some fR ->
  forall s, reachable c f0 left0 s -> finalize_atomic c s ->
  exists fR', result (tl c (nt c)) (fin s) = Some fR' /\ forall x, fR' x = fR x.
Proof. exact TaskTop.crash_restart_converges. Qed.

(* every history: any finite sequence of runs, each started on what the previous one left (with or without left-over temp
   dirs) and killed at any instant at which no task is strictly between two of its renames -- nested crashes during
   recovery included -- leaves a store from which the next run computes the uninterrupted result ... *)
Theorem C03_any_history : forall (c : cfg), wfc c -> forall (f0 fR : fs), pre c f0 (nt c) = Some fR ->
  forall f, hist c f0 f -> exists fR', result (tl c (nt c)) f = Some fR' /\ forall x, fR' x = fR x.
Proof. exact History.any_history_converges. Qed.

(* ... and every concurrent execution of that run that gets all its tasks done holds the uninterrupted run's content at
   every declared output *)
Theorem C03_any_history_run : forall (c : cfg), wfc c -> forall (f0 fR : fs), pre c f0 (nt c) = Some fR ->
  forall f left s, hist c f0 f -> reachable c f left s -> (forall t, t < nt c -> is_done (pcs s t) = true) ->
  forall t x, t < nt c -> In x (tout (tk c t)) -> fin s x = fR x.
Proof. exact History.any_history_run_completes. Qed.

(* tasks whose outputs were final at the crash are not executed again (C02 applied to the crash state's files) *)
Theorem C03_no_reexecution : forall (c : cfg) (f1 : fs) (left1 : nat -> bool), wfc c ->
  forall s t x cnt, reachable c f1 left1 s -> t < nt c -> In x (tout (tk c t)) -> f1 x = Some cnt ->
  past_chk (pcs s t) = false /\ fin s x = Some cnt.
Proof.
  intros c f1 left1 WF s t x cnt R Ht Hx Hf. split.
  - exact (Cor.C02_skip c f1 left1 WF s t x cnt R Ht Hx Hf).
  - exact (Cor.C02_untouched c f1 left1 WF s t x cnt R Ht Hx Hf).
Qed.

(* left-over temp dirs are not adopted: the task that meets its own temp dir exits the program, and what was finalized
   before is still correct (the C01 invariant holds in every reachable state, whatever `left0` is) *)
Theorem C03_refuses_leftovers : forall (c : cfg) (s : st) (t : nat),
  exited s = false -> t < nt c -> pcs s t = ChkTemp -> tdir s t = true ->
  exists s', step c s (AChkTemp t) = Some s' /\ exited s' = true /\ fin s' = fin s.
Proof.
  intros c s t He Ht P D. unfold step. rewrite He. simpl.
  assert (L : Nat.ltb t (nt c) = true) by (apply Nat.ltb_lt; exact Ht). rewrite L. simpl. rewrite P, D.
  eexists. split; [reflexivity|]. split; reflexivity.
Qed.

(* the guard is necessary (finding D2): a two-output task killed between its two renames is skipped by the re-run and its
   second output never appears *)
Theorem C03_midfinalize_refuted :
  exists fR fR', result [t2] f_empty = Some fR /\ result [t2] f_half = Some fR' /\ fR 1 = Some 8 /\ fR' 1 = None.
Proof. exact Result.C03_midfinalize_refuted. Qed.

(* T1, call cones: every function of scipipe that the functions above can reach (calls and function values, interface calls
   resolved to every implementation) is one the models were compared with -- a helper that is new to the cone, or a new call
   of an old one, changes a list (the lists are regenerated from /repo on every run; ExpectedCones.v holds the accepted ones) *)
Theorem C03_cone_conforms :
  strs_eqb cone_Task_Execute exp_cone_Task_Execute
  && strs_eqb cone_FinalizePaths exp_cone_FinalizePaths
  && strs_eqb cone_Task_tempDirsExist exp_cone_Task_tempDirsExist
  && strs_eqb cone_Task_anyOutputsExist exp_cone_Task_anyOutputsExist
  && strs_eqb cone_Process_Run exp_cone_Process_Run = true.
Proof. vm_compute. reflexivity. Qed.

Print Assumptions C03_code_conforms.
Print Assumptions C03_complete_is_result.
Print Assumptions C03_converges.
Print Assumptions C03_any_history.
Print Assumptions C03_any_history_run.
Print Assumptions C03_no_reexecution.
Print Assumptions C03_refuses_leftovers.
Print Assumptions C03_midfinalize_refuted.
Print Assumptions C03_cone_conforms.
