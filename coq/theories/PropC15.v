(* C15 -- Placeholders and path modifiers expand as documented.
   Statements only; every proof is `exact` of a lemma proved elsewhere (or a computation on a finite table). *)
From Coq Require Import List Ascii String Arith Bool.
Import ListNotations.
From SP Require Import Skel Gen Expected Str PathLex Format FormatParse.

(* T1: the five regular expressions the model implements by hand are those in the source *)
Theorem C15_code_conforms :
  strs_eqb regexps_getShellCommandPlaceHolderRegex exp_regexps_getShellCommandPlaceHolderRegex
  && strs_eqb regexps_applyPathModifiers exp_regexps_applyPathModifiers
  && strs_eqb regexps_Process_initPortsFromCmdPattern exp_regexps_Process_initPortsFromCmdPattern
  && String.eqb const_parentDirPlaceHolder exp_const_parentDirPlaceHolder
  && String.eqb const_FSRootPlaceHolder exp_const_FSRootPlaceHolder = true.
Proof. vm_compute. reflexivity. Qed.

(* the scanner finds exactly the placeholders of a rendered pattern, in order, for every pattern
   made of brace-free text and placeholders of the six kinds with a non-empty brace-free body *)
Theorem C15_parse_render : forall ps : list FormatParse.piece,
  Forall FormatParse.piece_ok ps -> find_all (FormatParse.flat ps) 0 = phs ps.
Proof. exact FormatParse.C15_parse_render. Qed.

(* one global strings.Replace of a placeholder acts piece-wise: every occurrence is replaced, nothing else changes *)
Theorem C15_replace_pieces : forall (ob new : str) (ps : list Str.piece),
  brace_free ob -> Forall Str.piece_ok ps ->
  replace_all (ph ob) new (Str.flat ps) = Str.flat (map (subst1 ob new) ps).
Proof. exact Str.replace_all_pieces. Qed.

(* the thirteen vectors of TestFormatCommand, reproduced by the model (a finite table, not the unbounded claim) *)
Definition vectors : list (string * string) :=
  [("echo {i:foo}", "echo ../data/foofile.txt");
   ("echo {i:foo} {i:bar}", "echo ../data/foofile.txt ../barfile.txt");
   ("cat {i:foo} > {o:baz|%.txt}", "cat ../data/foofile.txt > data/outfile");
   ("cat {i:foo} > {o:baz|%.txt|basename}", "cat ../data/foofile.txt > outfile");
   ("cat {i:foo|s/foo/bar/} > {o:baz|%.txt}", "cat ../data/barfile.txt > data/outfile");
   ("cat {i:foo|dirname}/newfile.txt {i:foo} > {o:baz}", "cat ../data/newfile.txt ../data/foofile.txt > data/outfile.txt");
   ("cat ../{i:foo|basename} {i:foo} > {o:baz}", "cat ../foofile.txt ../data/foofile.txt > data/outfile.txt");
   ("cat {i:foo} > {o:bax}", "cat ../data/foofile.txt > __parent____parent__ref/ref.txt");
   ("cat {i:foo} > {o:bay}", "cat ../data/foofile.txt > __fsroot__/tmp/scipipe/bay_outfile.txt")]%string.
Theorem C15_test_vectors :
  forallb (fun v => match format_command (s2l (fst v)) env0 with Ok r => String.eqb (l2s r) (snd v) | Fail => false end) vectors = true.
Proof. vm_compute. reflexivity. Qed.

(* a missing value never yields a command: absent in-path, absent or empty parameter, absent or empty tag *)
Theorem C15_missing_fails_examples :
  format_command (s2l "echo {p:x}") {| e_in := []; e_sub := []; e_out := []; e_par := [(s2l "x", [])]; e_tag := [] |} = Fail
  /\ format_command (s2l "echo {p:x}") {| e_in := []; e_sub := []; e_out := []; e_par := []; e_tag := [] |} = Fail
  /\ format_command (s2l "echo {t:x}") {| e_in := []; e_sub := []; e_out := []; e_par := []; e_tag := [(s2l "x", [])] |} = Fail
  /\ format_command (s2l "echo {i:x}") {| e_in := []; e_sub := []; e_out := []; e_par := []; e_tag := [] |} = Fail.
Proof. vm_compute. repeat split; reflexivity. Qed.

Print Assumptions C15_code_conforms.
Print Assumptions C15_parse_render.
Print Assumptions C15_replace_pieces.
Print Assumptions C15_test_vectors.
Print Assumptions C15_missing_fails_examples.
