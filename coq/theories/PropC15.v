(* C15 -- Placeholders and path modifiers expand as documented.
   Statements only; every proof is `exact` of a lemma proved elsewhere (or a computation on a finite table). *)
From Coq Require Import List Ascii String Arith Bool.
Import ListNotations.
From SP Require Import Skel Gen Expected ExpectedCones Str PathLex Format FormatParse FormatCommand.
From SP Require WfModel FormatPaths.
From Coq Require Import Permutation.
Notation length := List.length.

(* T1: the five regular expressions the model implements by hand are those in the source *)
Theorem C15_code_conforms :
  strs_eqb regexps_getShellCommandPlaceHolderRegex exp_regexps_getShellCommandPlaceHolderRegex
  && strs_eqb regexps_applyPathModifiers exp_regexps_applyPathModifiers
  && strs_eqb regexps_Process_initPortsFromCmdPattern exp_regexps_Process_initPortsFromCmdPattern
  && String.eqb const_parentDirPlaceHolder exp_const_parentDirPlaceHolder
  && String.eqb const_FSRootPlaceHolder exp_const_FSRootPlaceHolder = true.
Proof. vm_compute. reflexivity. Qed.

(* the scanner finds exactly the placeholders of a rendered pattern, in order, for every pattern
   made of brace-free text and placeholders of the six kinds with a non-empty brace-free body *)
Theorem C15_parse_render : forall ps : list FormatParse.piece,
  Forall FormatParse.piece_ok ps -> find_all (FormatParse.flat ps) 0 = phs ps.
Proof. exact FormatParse.C15_parse_render. Qed.

(* one global strings.Replace of a placeholder acts piece-wise: every occurrence is replaced, nothing else changes *)
Theorem C15_replace_pieces : forall (ob new : str) (ps : list Str.piece),
  brace_free ob -> Forall Str.piece_ok ps ->
  replace_all (ph ob) new (Str.flat ps) = Str.flat (map (subst1 ob new) ps).
Proof. exact Str.replace_all_pieces. Qed.

(* THE command theorem: for every pattern made of brace-free literals and placeholders of the six kinds (any number of
   occurrences of the same placeholder), if every placeholder has a value (`replacement` = Ok) and the values are brace free
   -- which holds for all paths and parameter values over the valid alphabet -- then the iterated global strings.Replace of
   formatCommand yields exactly the concatenation of the literals and the values, in order *)
Theorem C15_command : forall (e : env) (ps : list FormatParse.piece) (val : str -> str -> str),
  Forall piece_ok2 ps ->
  (forall k rest, In (FormatParse.PhK k rest) ps ->
     replacement (port_infos (FormatParse.flat ps)) e k rest = Ok (val k rest) /\ brace_free (val k rest)) ->
  format_command (FormatParse.flat ps) e =
  Ok (List.concat (map (fun p => match p with FormatParse.Txt u => u | FormatParse.PhK k rest => val k rest end) ps)).
Proof. exact FormatCommand.format_command_spec. Qed.

(* the modifiers as documented: basename / dirname / %suffix, applied left to right *)
Theorem C15_modifiers_documented :
  (forall p, apply_mod p (s2l "basename") = after_last_slash p)
  /\ (forall p, apply_mod p (s2l "dirname") = before_last_slash p)
  /\ (forall p suf, find_subst (pct :: suf) = None ->
        apply_mod p (pct :: suf) = if Nat.ltb (length suf) (length p) && is_suffix suf p then firstn (length p - length suf) p else p)
  /\ (forall p m ms, apply_mods p (m :: ms) = apply_mods (apply_mod p m) ms).
Proof.
  split; [exact FormatCommand.apply_mod_basename|]. split; [exact FormatCommand.apply_mod_dirname|].
  split; [exact FormatCommand.apply_mod_suffix|exact FormatCommand.apply_mods_cons].
Qed.

(* the thirteen vectors of TestFormatCommand, reproduced by the model (a finite table, not the unbounded claim) *)
Definition vectors : list (string * string) :=
  [("echo {i:foo}", "echo ../data/foofile.txt");
   ("echo {i:foo} {i:bar}", "echo ../data/foofile.txt ../barfile.txt");
   ("cat {i:foo} > {o:baz|%.txt}", "cat ../data/foofile.txt > data/outfile");
   ("cat {i:foo} > {o:baz|%.txt|basename}", "cat ../data/foofile.txt > outfile");
   ("cat {i:foo|s/foo/bar/} > {o:baz|%.txt}", "cat ../data/barfile.txt > data/outfile");
   ("cat {i:foo|dirname}/newfile.txt {i:foo} > {o:baz}", "cat ../data/newfile.txt ../data/foofile.txt > data/outfile.txt");
   ("cat ../{i:foo|basename} {i:foo} > {o:baz}", "cat ../foofile.txt ../data/foofile.txt > data/outfile.txt");
   ("cat {i:foo} > {o:bax}", "cat ../data/foofile.txt > __parent____parent__ref/ref.txt");
   ("cat {i:foo} > {o:bay}", "cat ../data/foofile.txt > __fsroot__/tmp/scipipe/bay_outfile.txt")]%string.
Theorem C15_test_vectors :
  forallb (fun v => match format_command (s2l (fst v)) env0 with Ok r => String.eqb (l2s r) (snd v) | Fail => false end) vectors = true.
Proof. vm_compute. reflexivity. Qed.

(* a missing value stops the workflow instead of producing a command: if the replacement of ANY placeholder the scanner
   finds in the pattern fails, formatCommand fails -- wherever the placeholder stands, whatever the others are ... *)
Theorem C15_missing_fails : forall (cmd : str) (e : env) (whole kind rest : str),
  In (whole, kind, rest) (find_all cmd 0) -> replacement (port_infos cmd) e kind rest = Fail -> format_command cmd e = Fail.
Proof. exact FormatCommand.missing_value_fails. Qed.

(* ... and the replacement fails for an absent or empty parameter, an absent or empty tag, an absent in-path, and for a
   name that port discovery does not know *)
Theorem C15_missing_cases :
  (forall infos e name mods pi, lookup name infos = Some pi -> ptype pi = s2l "p" ->
     (lookup name (e_par e) = None \/ lookup name (e_par e) = Some []) ->
     hd [] (split_on pipe (name ++ mods)%list) = name -> replacement infos e (s2l "p") (name ++ mods)%list = Fail)
  /\ (forall infos e name mods pi, lookup name infos = Some pi -> ptype pi = s2l "t" ->
     (lookup name (e_tag e) = None \/ lookup name (e_tag e) = Some []) ->
     hd [] (split_on pipe (name ++ mods)%list) = name -> replacement infos e (s2l "t") (name ++ mods)%list = Fail)
  /\ (forall infos e name mods pi, lookup name infos = Some pi -> ptype pi = s2l "i" -> pjoin pi = None ->
     (lookup name (e_in e) = None \/ lookup name (e_in e) = Some []) ->
     hd [] (split_on pipe (name ++ mods)%list) = name -> replacement infos e (s2l "i") (name ++ mods)%list = Fail)
  /\ (forall infos e kind rest, lookup (hd [] (split_on pipe rest)) infos = None -> replacement infos e kind rest = Fail).
Proof.
  split; [exact FormatCommand.replacement_param_missing|]. split; [exact FormatCommand.replacement_tag_missing|].
  split; [exact FormatCommand.replacement_in_missing|exact FormatCommand.replacement_unknown].
Qed.

(* output-path patterns (SetOut): a placeholder without a value makes the expansion fail *)
Theorem C15_setout_missing_fails : forall (pat : str) (ins pars tags : list (str * str)) (whole kind rest : str),
  In (whole, kind, rest) (find_all pat 0) -> FormatPaths.value_of ins pars tags kind rest = None ->
  WfModel.expand pat ins pars tags = Fail.
Proof. exact FormatPaths.setout_missing_fails. Qed.

(* the default output name is a deterministic function of input names, process name, parameters, tags, port name and
   extension: it does not depend on the order in which the maps are enumerated *)
Theorem C15_default_path_deterministic : forall (pname pattern port : str) (ins ins' pars pars' tags tags' : list (str * str)),
  NoDup (map fst ins) -> NoDup (map fst pars) -> NoDup (map fst tags) ->
  Permutation ins ins' -> Permutation pars pars' -> Permutation tags tags' ->
  WfModel.default_path pname pattern port ins pars tags = WfModel.default_path pname pattern port ins' pars' tags'.
Proof. exact FormatPaths.default_path_order_independent. Qed.

(* a missing value never yields a command: absent in-path, absent or empty parameter, absent or empty tag *)
Theorem C15_missing_fails_examples :
  format_command (s2l "echo {p:x}") {| e_in := []; e_sub := []; e_out := []; e_par := [(s2l "x", [])]; e_tag := [] |} = Fail
  /\ format_command (s2l "echo {p:x}") {| e_in := []; e_sub := []; e_out := []; e_par := []; e_tag := [] |} = Fail
  /\ format_command (s2l "echo {t:x}") {| e_in := []; e_sub := []; e_out := []; e_par := []; e_tag := [(s2l "x", [])] |} = Fail
  /\ format_command (s2l "echo {i:x}") {| e_in := []; e_sub := []; e_out := []; e_par := []; e_tag := [] |} = Fail.
Proof. vm_compute. repeat split; reflexivity. Qed.

(* T1, call cones: every function of scipipe that the functions this property's models stand for can reach (calls and
   function values, interface calls resolved to every implementation) is one the models were compared with -- a helper that
   is new to the cone, or a new call of an old one, changes a list (regenerated from /repo on every run; ExpectedCones.v
   holds the accepted ones) *)
Theorem C15_cone_conforms :
  strs_eqb cone_NewTask exp_cone_NewTask
  && strs_eqb cone_Task_formatCommand exp_cone_Task_formatCommand
  && strs_eqb cone_applyPathModifiers exp_cone_applyPathModifiers
  && strs_eqb cone_Process_initPortsFromCmdPattern exp_cone_Process_initPortsFromCmdPattern
  && strs_eqb cone_Process_initDefaultPathFuncs exp_cone_Process_initDefaultPathFuncs = true.
Proof. vm_compute. reflexivity. Qed.

Print Assumptions C15_code_conforms.
Print Assumptions C15_parse_render.
Print Assumptions C15_replace_pieces.
Print Assumptions C15_command.
Print Assumptions C15_modifiers_documented.
Print Assumptions C15_test_vectors.
Print Assumptions C15_missing_fails.
Print Assumptions C15_missing_cases.
Print Assumptions C15_setout_missing_fails.
Print Assumptions C15_default_path_deterministic.
Print Assumptions C15_missing_fails_examples.
Print Assumptions C15_cone_conforms.
