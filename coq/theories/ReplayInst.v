(* The replay engine instantiated with the three transition systems, and what acceptance of an observed history means:
   the history is an execution of the system from its initial state, so every theorem about reachable states
   applies to the state the real run was observed in. *)
From Coq Require Import List Arith Lia Bool PeanoNat.
Import ListNotations.
From SP Require Import Replay.
From SP Require Slots Slots7 SlotsTop Result TaskFS TInv Cor NetA Inv Pres Top Ghost GhostPres Early NetTop Port.

(* ------------------------------------------------------------------ slots *)
Module RS.
Import Slots SlotsTop.

Definition slots_replay (cap0 : nat) (cs : list nat) (script : list (line state nat)) : verdict state nat :=
  replay state nat step (init cap0 cs) script.

Lemma run_same s l : Replay.run state nat step s l = Slots.run s l.
Proof. revert s. induction l as [|a r IH]; simpl; intros s; auto. Qed.

(* an accepted slot history is an execution of the slot machine; in its last state -- and, the script being arbitrary,
   in the state after every prefix of the observed log -- the executing tasks hold at most [cap0] cores *)
Theorem slots_replay_explained cap0 cs script s' sched stp :
  slots_replay cap0 cs script = Accepted s' sched stp ->
  Slots.run (init cap0 cs) sched = Some s' /\ tsum executing (tasks s') <= cap0.
Proof.
  intros H. apply replay_sound in H. rewrite run_same in H. split; [exact H|].
  pose proof (C06_slots_never_exceeded (init cap0 cs) sched s' (init_inv cap0 cs) H) as Hle.
  assert (G : forall l s, Slots.run s l = Some s' -> cap s' = cap s).
  { induction l as [|a r IH]; simpl; intros s E; [now inversion E|].
    destruct (step s a) as [s1|] eqn:E1; [|discriminate]. rewrite (IH _ E).
    destruct (step_shape s a s1 E1) as [Hc _]. exact Hc. }
  assert (Hc : cap s' = cap0) by (rewrite (G _ _ H); reflexivity).
  rewrite Hc in Hle. exact Hle.
Qed.
End RS.

(* ------------------------------------------------------------------ tasks and the file store *)
Module RT.
Import Result TaskFS TInv Cor.

Definition task_replay (c : cfg) (f0 : fs) (left0 : nat -> bool) (script : list (line st act)) : verdict st act :=
  replay st act (step c) (init c f0 left0) script.

Lemma run_same c s l : Replay.run st act (step c) s l = TaskFS.run c s l.
Proof. revert s. induction l as [|a r IH]; simpl; intros s; auto. destruct (step c s a); auto. Qed.

(* a task table given as data: per task its input locations, output locations, the contents its command is expected
   to read and what it writes ([None]: the command fails); the command semantics of the table rejects any other input *)
Definition trow := (list nat * list nat * list (option nat) * option (list nat))%type.

Fixpoint ocont_eqb (a b : list (option nat)) : bool :=
  match a, b with
  | [], [] => true
  | Some x :: r, Some y :: r' => Nat.eqb x y && ocont_eqb r r'
  | None :: r, None :: r' => ocont_eqb r r'
  | _, _ => false
  end.

Definition row_task (r : trow) : task :=
  let '(i, o, expect, outc) := r in
  {| tin := i; tout := o; sem := fun xs => if ocont_eqb xs expect then outc else None |}.

Definition table_cfg (rows : list trow) : cfg :=
  {| nt := length rows; tk := fun t => row_task (nth t rows ([], [], [], None)) |}.

Definition row_ok (r : trow) : bool :=
  let '(i, o, expect, outc) := r in
  match outc with Some cs => Nat.eqb (length cs) (length o) | None => true end.

Fixpoint nodupb (l : list nat) : bool :=
  match l with [] => true | a :: r => negb (existsb (Nat.eqb a) r) && nodupb r end.

Definition disjb (l1 l2 : list nat) : bool := forallb (fun x => negb (existsb (Nat.eqb x) l2)) l1.

(* decidable well-formedness of a table: outputs duplicate free and pairwise disjoint, no task reads what it or a later
   task writes, the number of contents matches the number of outputs *)
Fixpoint rows_ok (rows : list trow) : bool :=
  match rows with
  | [] => true
  | r :: rest =>
    let '(i, o, _, _) := r in
    row_ok r && nodupb o && disjb i o
    && forallb (fun r' => let '(_, o', _, _) := r' in disjb o o' && disjb i o') rest
    && rows_ok rest
  end.

Lemma nodupb_sound l : nodupb l = true -> NoDup l.
Proof.
  induction l as [|a r IH]; simpl; intros H; [constructor|].
  apply andb_true_iff in H. destruct H as [H1 H2]. constructor; auto.
  apply negb_true_iff in H1. intros Hin. assert (existsb (Nat.eqb a) r = true); [|congruence].
  apply existsb_exists. exists a. split; auto. apply Nat.eqb_refl.
Qed.

Lemma disjb_sound l1 l2 x : disjb l1 l2 = true -> In x l1 -> ~ In x l2.
Proof.
  unfold disjb. rewrite forallb_forall. intros H H1 H2. specialize (H x H1). apply negb_true_iff in H.
  assert (existsb (Nat.eqb x) l2 = true); [|congruence]. apply existsb_exists. exists x. split; auto. apply Nat.eqb_refl.
Qed.

Lemma disjb_sym_sound l1 l2 x : disjb l1 l2 = true -> In x l2 -> ~ In x l1.
Proof. intros H H2 H1. exact (disjb_sound l1 l2 x H H1 H2). Qed.

Definition rin (r : trow) := let '(i, _, _, _) := r in i.
Definition rout (r : trow) := let '(_, o, _, _) := r in o.

Lemma row_task_in r : tin (row_task r) = rin r.  Proof. destruct r as [[[i o] e] c]; reflexivity. Qed.
Lemma row_task_out r : tout (row_task r) = rout r.  Proof. destruct r as [[[i o] e] c]; reflexivity. Qed.

Lemma rows_ok_facts rows : rows_ok rows = true ->
  (forall t, t < length rows -> NoDup (rout (nth t rows ([], [], [], None)))) /\
  (forall t d x, t < d -> d < length rows -> In x (rout (nth t rows ([], [], [], None))) -> ~ In x (rout (nth d rows ([], [], [], None)))) /\
  (forall t d x, t <= d -> d < length rows -> In x (rin (nth t rows ([], [], [], None))) -> ~ In x (rout (nth d rows ([], [], [], None)))) /\
  (forall t, t < length rows -> row_ok (nth t rows ([], [], [], None)) = true).
Proof.
  induction rows as [|r rest IH]; simpl; intros H.
  - repeat split; intros; lia.
  - destruct r as [[[i o] e] cc]. repeat (apply andb_true_iff in H; destruct H as [H ?]).
    match goal with H : rows_ok rest = true |- _ => destruct (IH H) as [A [B [C D]]] end.
    match goal with H : forallb _ rest = true |- _ => rename H into HF end.
    rewrite forallb_forall in HF.
    assert (HFn : forall d, d < length rest -> disjb o (rout (nth d rest ([], [], [], None))) = true /\ disjb i (rout (nth d rest ([], [], [], None))) = true).
    { intros d Hd. specialize (HF (nth d rest ([], [], [], None)) (nth_In _ _ Hd)).
      destruct (nth d rest ([], [], [], None)) as [[[i' o'] e'] c']. simpl. apply andb_true_iff in HF. exact HF. }
    repeat split.
    + intros [|t] Ht; simpl; [apply nodupb_sound; assumption|apply A; lia].
    + intros [|t] [|d] x Htd Hd Hx; simpl in *; try lia.
      * destruct (HFn d) as [F1 _]; [lia|]. eapply disjb_sound; eauto.
      * apply (B t d x); auto; lia.
    + intros [|t] [|d] x Htd Hd Hx; simpl in *; try lia.
      * eapply disjb_sound; eauto.
      * destruct (HFn d) as [_ F2]; [lia|]. eapply disjb_sound; eauto.
      * apply (C t d x); auto; lia.
    + intros [|t] Ht; simpl; [assumption|apply D; lia].
Qed.

Theorem table_wfc rows : rows_ok rows = true -> wfc (table_cfg rows).
Proof.
  intros H. destruct (rows_ok_facts rows H) as [A [B [C D]]]. constructor; unfold table_cfg; simpl.
  - intros t Ht. rewrite row_task_out. apply A; auto.
  - intros t t' x Ht Ht' Hne. rewrite !row_task_out. intros Hx.
    destruct (Nat.lt_ge_cases t t') as [L|L].
    + apply (B t t' x); auto.
    + assert (L' : t' < t) by lia. intros Hx'. exact (B t' t x L' Ht Hx' Hx).
  - intros t d x Ht Hd Hle. rewrite row_task_in, row_task_out. apply C; auto.
  - intros t xs cs Ht. specialize (D t Ht). destruct (nth t rows ([], [], [], None)) as [[[i o] e] cc]. simpl in *.
    destruct (ocont_eqb xs e); [|discriminate]. intros ->. apply Nat.eqb_eq in D. exact D.
Qed.

(* an accepted task history over a well-formed table is an execution of the task machine; so the state the real run
   was observed in satisfies the conclusion of C01_atomic (and of every other theorem about reachable states) *)
Theorem task_replay_explained rows f0 left0 script s' sched stp :
  rows_ok rows = true ->
  task_replay (table_cfg rows) f0 left0 script = Accepted s' sched stp ->
  reachable (table_cfg rows) f0 left0 s' /\
  forall t x, t < nt (table_cfg rows) -> In x (tout (tk (table_cfg rows) t)) ->
    fin s' x = f0 x \/
    (past_cmd (pcs s' t) = true /\ fin s' x = TInv.lookup x (tout (tk (table_cfg rows) t)) (val s' t) /\ fin s' x <> None).
Proof.
  intros Hok H. apply replay_sound in H. rewrite run_same in H.
  assert (R : reachable (table_cfg rows) f0 left0 s') by (exists sched; exact H).
  split; [exact R|]. intros t x Ht Hx.
  pose proof (table_wfc rows Hok) as WF.
  destruct (TInv.C01_atomic (table_cfg rows) f0 left0 s' (reach_inv _ f0 left0 WF s' R) t x Ht Hx) as [E|[E1 [_ [E3 E4]]]]; auto.
Qed.
End RT.

(* ------------------------------------------------------------------ the process network with its histories *)
Module RN.
Import NetA Inv Top Ghost NetTop.

Definition net_step (c : cfg) (gc : gcfg) (x : st * gst) (a : act) : option (st * gst) :=
  if negb (Nat.ltb (node_of a) (nn c)) then None else
  match step c (fst x) a with
  | Some s' => Some (s', gstep c gc (fst x) (snd x) a)
  | None => None
  end.

Definition net_replay (c : cfg) (gc : gcfg) (script : list (line (st * gst) act)) : verdict (st * gst) act :=
  replay (st * gst) act (net_step c gc) (init c, ginit) script.

Lemma run_grun c gc l : forall s g s' g',
  Replay.run (st * gst) act (net_step c gc) (s, g) l = Some (s', g') -> grun c gc s g l = Some (s', g') /\ sched_ok c l.
Proof.
  induction l as [|a r IH]; simpl; intros s g s' g' H.
  - inversion H; subst. split; [reflexivity|exact I].
  - unfold net_step in H. simpl in H. destruct (Nat.ltb (node_of a) (nn c)) eqn:L; simpl in H; [|discriminate].
    destruct (step c s a) as [s1|] eqn:E; [|discriminate].
    destruct (IH _ _ _ _ H) as [G O]. split; [exact G|]. split; [apply Nat.ltb_lt; exact L|exact O].
Qed.

(* an accepted network history over a well-formed configuration is an execution of the network; the state it ends in
   satisfies the counting and the history invariants, in particular: what was sent on every edge is, in order, the
   image of the tasks its source created (C08), and the tasks created are the zip of the in-edge histories (C04) *)
Theorem net_replay_explained c len gc script s' g' sched stp :
  wf c len -> (forall v L, slen c v = Some L -> length (sitems gc v) = L) ->
  net_replay c gc script = Accepted (s', g') sched stp ->
  AllInv c len gc s' g'.
Proof.
  intros WF SL H. apply replay_sound in H. destruct (run_grun c gc sched _ _ _ _ H) as [G O].
  exact (reachable_inv c len gc WF sched s' g' O G).
Qed.
End RN.

(* ------------------------------------------------------------------ a stable interface for the extracted driver:
   constructors and observers under names that do not depend on how extraction disambiguates the three systems *)
Module RSI.
Import Slots.
Definition pc_tag (p : pc) : nat * nat :=
  match p with Idle => (0, 0) | WaitLock => (1, 0) | Depositing k => (2, k) | Running => (3, 0) | Releasing k => (4, k) | Finished => (5, 0) end.
Definition task_tag (s : state) (i : nat) : nat * nat :=
  match nth_error (tasks s) i with Some t => pc_tag (st t) | None => (9, 0) end.
Definition tokens_of (s : state) : nat := tokens s.
Definition mutex_of (s : state) : option nat := mutex s.
Definition ntasks (s : state) : nat := length (tasks s).
End RSI.

Module RTI.
Import Result TaskFS.
Definition a_start := AStart.      Definition a_chktemp := AChkTemp.  Definition a_chkout := AChkOut.
Definition a_mktemp := AMkTemp.    Definition a_write := AWrite.      Definition a_cmdok := ACmdOk.
Definition a_cmdfail := ACmdFail.  Definition a_ensure := AEnsure.    Definition a_rename := ARename.
Definition a_endren := AEndRen.    Definition a_rmtemp := ARmTemp.
Definition pc_tag (p : pc) : nat * list nat :=
  match p with
  | Wait => (0, []) | ChkTemp => (1, []) | ChkOut => (2, []) | MkTemp => (3, []) | Cmd => (4, []) | Ensure => (5, [])
  | Ren todo => (6, todo) | RmTemp => (7, []) | DoneRan => (8, []) | DoneSkip => (9, [])
  end.
Definition task_tag (s : st) (t : nat) : nat * list nat := pc_tag (pcs s t).
Definition fin_of (s : st) (x : nat) : option nat := fin s x.
Definition tmp_of (s : st) (t x : nat) : option nat := tmp s t x.
Definition tdir_of (s : st) (t : nat) : bool := tdir s t.
Definition exited_of (s : st) : bool := exited s.
End RTI.

Module RNI.
Import NetA Ghost.
Definition mk_cfg (n : nat) (es : list (nat * nat)) (sl : nat -> option nat) (cp : nat) (ep : nat -> bool) : cfg :=
  {| nn := n; edges := es; slen := sl; cap := cp; epar := ep |}.
Definition mk_gcfg (si : nat -> list nat) (f : nat -> nat -> list nat -> nat) : gcfg := {| sitems := si; outf := f |}.
Definition a_begin := ABegin.   Definition a_recv := ARecv.   Definition a_endround := AEndRound.
Definition a_hand := AHand.     Definition a_exit := AExit.   Definition a_pop := APop.
Definition a_send := ASend.     Definition a_endsend := AEndSend.   Definition a_fin := AFin.
Definition ct_tag (x : st * gst) (v : nat) : nat * (list nat * bool) :=
  match ct (ns (fst x) v) with
  | CtIdle => (0, ([], false)) | CtRecv todo saw => (1, (todo, saw)) | CtHand => (2, ([], false)) | CtDone => (3, ([], false))
  end.
Definition rn_tag (x : st * gst) (v : nat) : nat * list nat :=
  match rn (ns (fst x) v) with RSel => (0, []) | RSend todo => (1, todo) | RFin => (2, []) end.
Definition counts (x : st * gst) (v : nat) : nat * nat * list bool := (cN (ns (fst x) v), eN (ns (fst x) v), fl (ns (fst x) v)).
Definition edge_of (x : st * gst) (e : nat) : nat * nat * bool := (snt (es (fst x) e), rcv (es (fst x) e), clo (es (fst x) e)).
Definition hist_of (x : st * gst) (e : nat) : list nat := hist (snd x) e.
Definition crt_of (x : st * gst) (v : nat) : list (list nat) := crt (snd x) v.
Definition cur_of (x : st * gst) (v : nat) : list (nat * nat) := cur (snd x) v.
End RNI.

(* ------------------------------------------------------------------ one in-port with several upstreams (fan-in) *)
Module RP.
Definition port_replay (c : Port.cfg) (script : list (line Port.st Port.act)) : verdict Port.st Port.act :=
  replay Port.st Port.act (Port.step c) (Port.init c) script.

Lemma run_same c s l : Replay.run Port.st Port.act (Port.step c) s l = Port.run c s l.
Proof. revert s. induction l as [|a r IH]; simpl; intros s; auto. destruct (Port.step c s a); auto. Qed.

(* an accepted port history is an execution of the port machine: per upstream, what was received is a prefix, in order,
   of what that upstream sends; and if the receiver was observed to see the port closed, it has received everything *)
Theorem port_replay_explained c script s' sched stp :
  1 <= Port.cap c -> 1 <= Port.ns c ->
  port_replay c script = Accepted s' sched stp ->
  (forall r, r < Port.ns c -> Port.from r (Port.hist s') = firstn (Port.rcv s' r) (Port.plan c r)) /\
  (Port.seen s' = true -> forall r, r < Port.ns c -> Port.from r (Port.hist s') = Port.plan c r).
Proof.
  intros C N H. apply replay_sound in H. rewrite run_same in H. split.
  - exact (proj1 (Port.merge_is_orderly c C N sched s' H)).
  - intros Hs. exact (Port.complete_when_seen c C N sched s' H Hs).
Qed.
End RP.

Module RPI.
Definition mk_cfg (n : nat) (pl : nat -> list nat) (cp : nat) : Port.cfg := {| Port.ns := n; Port.plan := pl; Port.cap := cp |}.
Definition a_send := Port.PSend.   Definition a_close := Port.PClose.
Definition a_recv := Port.PRecv.   Definition a_seeclosed := Port.PSeeClosed.
Definition hist_of (s : Port.st) : list (nat * nat) := Port.hist s.
Definition counts (s : Port.st) (r : nat) : nat * nat * bool := (Port.sent s r, Port.rcv s r, Port.opn s r).
Definition flags (s : Port.st) : bool * bool := (Port.closed s, Port.seen s).
End RPI.
