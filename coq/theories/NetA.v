(* Prototype: abstract rate-1 dataflow network, merge-free, bounded channels.
   Goal: deadlock freedom for every reachable state (C05 core argument). *)
From Coq Require Import List Arith Lia Bool PeanoNat.
Import ListNotations.

Set Implicit Arguments.

(* ---------- configuration ---------- *)
Record cfg := {
  nn    : nat;                    (* nodes 0 .. nn-1, in topological order *)
  edges : list (nat * nat);       (* (src,dst); edge id = position *)
  slen  : nat -> option nat;      (* Some L : source emitting L items *)
  cap   : nat;
  epar  : nat -> bool             (* the edge ends in a parameter port (read after the file in-ports of its process) *)
}.

Definition esrc (c : cfg) (e : nat) := fst (nth e (edges c) (0,0)).
Definition edst (c : cfg) (e : nat) := snd (nth e (edges c) (0,0)).
Definition eids (c : cfg) := seq 0 (length (edges c)).
Definition ins  (c : cfg) (v : nat) := filter (fun e => Nat.eqb (edst c e) v) (eids c).
Definition outs (c : cfg) (v : nat) := filter (fun e => Nat.eqb (esrc c e) v) (eids c).

(* ---------- state ---------- *)
Inductive ctst :=
| CtIdle
| CtRecv (todo : list nat) (saw : bool)
| CtHand
| CtDone.

Inductive runst := RSel | RSend (todo : list nat) | RFin.

Record nst := { ct : ctst; rn : runst; cN : nat; eN : nat; fl : list bool }.
Record est := { snt : nat; rcv : nat; clo : bool }.
Record st := { ns : nat -> nst; es : nat -> est }.

Definition upd {A} (f : nat -> A) (i : nat) (a : A) : nat -> A :=
  fun j => if Nat.eqb j i then a else f j.

Lemma upd_same A (f : nat -> A) i a : upd f i a i = a.
Proof. unfold upd. now rewrite Nat.eqb_refl. Qed.
Lemma upd_other A (f : nat -> A) i a j : j <> i -> upd f i a j = f j.
Proof. unfold upd. intros H. destruct (Nat.eqb_spec j i); congruence. Qed.

Definition init (c : cfg) : st :=
  {| ns := fun _ => {| ct := CtIdle; rn := RSel; cN := 0; eN := 0; fl := [] |};
     es := fun _ => {| snt := 0; rcv := 0; clo := false |} |}.

Inductive act :=
| ABegin (v : nat) (perm : list nat)
| ARecv (v : nat)
| AEndRound (v : nat)
| AHand (v : nat)
| AExit (v : nat) (i : nat)
| APop (v : nat) (perm : list nat)
| ASend (v : nat)
| AEndSend (v : nat)
| AFin (v : nat).

Fixpoint set_nth (l : list bool) (i : nat) (b : bool) : list bool :=
  match l, i with
  | [], _ => []
  | _ :: r, O => b :: r
  | a :: r, S j => a :: set_nth r j b
  end.

Fixpoint is_perm (l1 l2 : list nat) : bool :=    (* executable permutation test *)
  match l1 with
  | [] => match l2 with [] => true | _ => false end
  | a :: r => existsb (Nat.eqb a) l2 && is_perm r (remove Nat.eq_dec a l2)
  end.

(* a round reads the file in-ports first (in any order), then the parameter ports (in any order) *)
Fixpoint par_sorted (c : cfg) (l : list nat) : bool :=
  match l with
  | [] => true
  | a :: r => (if epar c a then forallb (epar c) r else true) && par_sorted c r
  end.

Definition set_ns (s : st) v n := {| ns := upd (ns s) v n; es := es s |}.
Definition set_es (s : st) e x := {| ns := ns s; es := upd (es s) e x |}.

Definition close_all (s : st) (l : list nat) : st :=
  fold_left (fun s e => set_es s e {| snt := snt (es s e); rcv := rcv (es s e); clo := true |}) l s.

Definition step (c : cfg) (s : st) (a : act) : option st :=
  match a with
  | ABegin v perm =>
    let n := ns s v in
    match ct n with
    | CtIdle =>
      match slen c v with
      | Some L =>
        if Nat.ltb (cN n) L
        then Some (set_ns s v {| ct := CtHand; rn := rn n; cN := cN n; eN := eN n; fl := fl n |})
        else Some (set_ns s v {| ct := CtDone; rn := rn n; cN := cN n; eN := eN n; fl := fl n |})
      | None =>
        if is_perm perm (ins c v) && par_sorted c perm
        then Some (set_ns s v {| ct := CtRecv perm false; rn := rn n; cN := cN n; eN := eN n; fl := fl n |})
        else None
      end
    | _ => None
    end
  | ARecv v =>
    let n := ns s v in
    match ct n with
    | CtRecv (y :: todo) saw =>
      let e := es s y in
      if Nat.ltb (rcv e) (snt e)
      then Some (set_es (set_ns s v {| ct := CtRecv todo saw; rn := rn n; cN := cN n; eN := eN n; fl := fl n |})
                        y {| snt := snt e; rcv := S (rcv e); clo := clo e |})
      else if clo e
           then Some (set_ns s v {| ct := CtRecv todo true; rn := rn n; cN := cN n; eN := eN n; fl := fl n |})
           else None
    | _ => None
    end
  | AEndRound v =>
    let n := ns s v in
    match ct n with
    | CtRecv todo saw =>
      (* receiveOnInPorts reads every file in-port even after it met a closed one; when one was closed createTasks
         leaves its loop without reading the parameter ports, so a round that saw a closed port may end with
         parameter edges (only) left in [todo]; a round that saw no closed port ends when every port has delivered *)
      if saw && forallb (epar c) todo then Some (set_ns s v {| ct := CtDone; rn := rn n; cN := cN n; eN := eN n; fl := fl n |})
      else if saw then None
      else match todo with
           | [] => Some (set_ns s v {| ct := CtHand; rn := rn n; cN := cN n; eN := eN n; fl := fl n |})
           | _ :: _ => None
           end
    | _ => None
    end
  | AHand v =>
    let n := ns s v in
    match ct n, rn n with
    | CtHand, RSel =>
      Some (set_ns s v {| ct := CtIdle; rn := RSel; cN := S (cN n); eN := eN n; fl := fl n ++ [false] |})
    | _, _ => None
    end
  | AExit v i =>
    let n := ns s v in
    match nth_error (fl n) i with
    | Some false => Some (set_ns s v {| ct := ct n; rn := rn n; cN := cN n; eN := eN n; fl := set_nth (fl n) i true |})
    | _ => None
    end
  | APop v perm =>
    let n := ns s v in
    match rn n, fl n with
    | RSel, true :: rest =>
      if is_perm perm (outs c v)
      then Some (set_ns s v {| ct := ct n; rn := RSend perm; cN := cN n; eN := eN n; fl := rest |})
      else None
    | _, _ => None
    end
  | ASend v =>
    let n := ns s v in
    match rn n with
    | RSend (x :: todo) =>
      let e := es s x in
      if Nat.ltb (snt e - rcv e) (cap c)
      then Some (set_es (set_ns s v {| ct := ct n; rn := RSend todo; cN := cN n; eN := eN n; fl := fl n |})
                        x {| snt := S (snt e); rcv := rcv e; clo := clo e |})
      else None
    | _ => None
    end
  | AEndSend v =>
    let n := ns s v in
    match rn n with
    | RSend [] => Some (set_ns s v {| ct := ct n; rn := RSel; cN := cN n; eN := S (eN n); fl := fl n |})
    | _ => None
    end
  | AFin v =>
    let n := ns s v in
    match rn n, ct n, fl n with
    | RSel, CtDone, [] =>
      Some (close_all (set_ns s v {| ct := CtDone; rn := RFin; cN := cN n; eN := eN n; fl := [] |}) (outs c v))
    | _, _, _ => None
    end
  end.

Fixpoint run (c : cfg) (s : st) (sched : list act) : option st :=
  match sched with
  | [] => Some s
  | a :: r => match step c s a with Some s' => run c s' r | None => None end
  end.

Definition node_of (a : act) : nat :=
  match a with
  | ABegin v _ | ARecv v | AEndRound v | AHand v | AExit v _ | APop v _ | ASend v | AEndSend v | AFin v => v
  end.
