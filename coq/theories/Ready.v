(* C16: the set of processes whose wiring is checked before a run covers the set of processes that are started.
   Workflow.Run passes wf.procs itself to runProcs; reconnectDeadEndConnections makes a process without out-ports the
   driver and, when other processes exist, deletes it from wf.procs -- hence from the map readyToRun ranges over.
   The driver is started all the same.  [checked_before] is the check as it was; [checked] includes the driver. *)
From Coq Require Import List Arith Bool.
Import ListNotations.

Section Ready.
Variable noout : nat -> bool.      (* the process has neither out-ports nor parameter out-ports *)
Variable ready : nat -> bool.      (* every port of the process is connected *)

(* the process that replaces the sink as driver: the (single) selected process without out-ports *)
Definition driver (sel : list nat) : option nat :=
  match filter noout sel with [d] => Some d | _ => None end.

(* the map handed to readyToRun and to the start loop, after reconnectDeadEndConnections;
   [aliased]: it is wf.procs itself (Run), not a fresh map (RunTo) *)
Definition procs_after (aliased : bool) (sel : list nat) : list nat :=
  match driver sel with
  | Some d => if aliased && Nat.ltb 1 (length sel) then remove Nat.eq_dec d sel else sel
  | None => sel
  end.

Definition started (aliased : bool) (sel : list nat) : list nat :=
  match driver sel with
  | Some d => remove Nat.eq_dec d (procs_after aliased sel) ++ [d]
  | None => procs_after aliased sel          (* plus the sink, which has no unconnected port that matters *)
  end.

Definition checked_before (aliased : bool) (sel : list nat) : list nat := procs_after aliased sel.

Definition checked (aliased : bool) (sel : list nat) : list nat :=
  match driver sel with
  | Some d => procs_after aliased sel ++ [d]
  | None => procs_after aliased sel
  end.

(* runProcs: the check comes first; if it fails nothing is started *)
Definition run_starts (chk : list nat) (aliased : bool) (sel : list nat) : list nat :=
  if forallb ready chk then started aliased sel else [].

Lemma in_remove_iff x a l : In x (remove Nat.eq_dec a l) <-> In x l /\ x <> a.
Proof. split. - apply in_remove. - intros [H1 H2]. now apply in_in_remove. Qed.

Theorem started_are_checked aliased sel p : In p (started aliased sel) -> In p (checked aliased sel).
Proof.
  unfold started, checked. destruct (driver sel) as [d|]; auto.
  rewrite !in_app_iff. intros [H|H]; [|right; exact H].
  apply in_remove_iff in H. left. tauto.
Qed.

(* an unconnected port of any process that would be started makes the run start nothing *)
Theorem unready_refused aliased sel p :
  In p (started aliased sel) -> ready p = false -> run_starts (checked aliased sel) aliased sel = [].
Proof.
  intros Hs Hr. unfold run_starts.
  destruct (forallb ready (checked aliased sel)) eqn:E; auto.
  rewrite forallb_forall in E. rewrite (E p (started_are_checked _ _ _ Hs)) in Hr. discriminate.
Qed.

(* a fully wired selection is not refused *)
Theorem ready_runs aliased sel :
  (forall p, In p sel -> ready p = true) -> run_starts (checked aliased sel) aliased sel = started aliased sel.
Proof.
  intros H. unfold run_starts.
  assert (E : forallb ready (checked aliased sel) = true).
  { apply forallb_forall. intros p Hp. apply H. unfold checked, procs_after in Hp.
    destruct (driver sel) as [d|] eqn:D.
    - assert (Hd : In d sel).
      { unfold driver in D. destruct (filter noout sel) as [|a [|b r]] eqn:F; try discriminate. injection D as <-.
        assert (In a (filter noout sel)) by (rewrite F; left; reflexivity). apply filter_In in H0. tauto. }
      apply in_app_iff in Hp. destruct Hp as [Hp|[<-|[]]]; auto.
      destruct (aliased && Nat.ltb 1 (length sel)); auto. apply in_remove_iff in Hp. tauto.
    - exact Hp. }
  rewrite E. reflexivity.
Qed.

End Ready.

(* before the repair: source 0 feeds process 1, which has no out-ports and an unconnected in-port; under Run the driver
   is missing from the checked set, the check passes, and both processes are started *)
Theorem driver_unchecked_before_repair :
  let noout := fun p => Nat.eqb p 1 in
  let ready := fun p => negb (Nat.eqb p 1) in
  run_starts noout ready (checked_before noout true [0; 1]) true [0; 1] = [0; 1] /\
  run_starts noout ready (checked noout true [0; 1]) true [0; 1] = [].
Proof. split; vm_compute; reflexivity. Qed.
