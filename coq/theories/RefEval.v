(* Prototype: executable reference evaluation of a workflow spec (the oracle side of T3). *)
From Coq Require Import List Ascii String Arith Bool.
Import ListNotations.
Require Import Str PathLex Format.
Notation length := List.length.

Inductive ckind := KWrite | KCat | KCatTok.

Record proc := {
  p_kind : ckind;
  p_tok  : str;
  p_ins  : list (str * (nat * str));     (* in-port  -> (upstream node, its out-port) *)
  p_pars : list (str * nat);             (* param port -> upstream param-source node *)
  p_outs : list (str * str)              (* out-port -> path pattern (SetOut) *)
}.

Inductive node :=
| NSrc (paths : list str)                (* FileSource on port "out" *)
| NPSrc (vals : list str)                (* ParamSource *)
| NProc (p : proc).

Definition fsmap := list (str * str).    (* path -> content *)
Definition fs_get (f : fsmap) (p : str) : option str := lookup p f.
Definition fs_set (f : fsmap) (p c : str) : fsmap := (p, c) :: filter (fun kv => negb (str_eqb (fst kv) p)) f.

(* streams produced so far: (node, port) -> items *)
Definition streams := list (nat * str * list str).
Definition st_get (s : streams) (n : nat) (port : str) : list str :=
  match find (fun e => Nat.eqb (fst (fst e)) n && str_eqb (snd (fst e)) port) s with
  | Some e => snd e | None => [] end.

(* SetOut pattern expansion: {i:port|mods}, {p:name|mods}; anything else fails *)
Definition expand (pat : str) (ins pars : list (str * str)) : res :=
  fold_left (fun acc m =>
    match acc with
    | Fail => Fail
    | Ok cur =>
      let '(whole, kind, rest) := m in
      let parts := split_on pipe rest in
      let name := hd [] parts in
      let mods := tl parts in
      let v := if str_eqb kind (s2l "i") then lookup name ins
               else if str_eqb kind (s2l "p") then lookup name pars else None in
      match v with
      | Some x => Ok (replace_all whole (match mods with [] => x | _ => apply_mods x mods end) cur)
      | None => Fail
      end
    end) (find_all pat 0) (Ok pat).

Fixpoint transpose_n (n : nat) (cols : list (list str)) : list (list str) :=
  match n with
  | O => []
  | S k => map (fun c => hd [] c) cols :: transpose_n k (map (@tl str) cols)
  end.
Definition min_len (cols : list (list str)) : nat :=
  match cols with [] => 1 | c :: r => fold_left (fun a x => Nat.min a (length x)) r (length c) end.

Definition nl : ascii := ascii_of_nat 10.

Definition content (k : ckind) (tok : str) (inputs : list str) : str :=
  match k with
  | KWrite => tok ++ [nl]
  | KCat => List.concat inputs
  | KCatTok => List.concat inputs ++ tok ++ [nl]
  end.

(* one task: returns new fs and the out paths per out-port; None = workflow fails *)
Definition run_one (p : proc) (f : fsmap) (ins pars : list (str * str)) : option (fsmap * list (str * str)) :=
  let outs := map (fun o => (fst o, expand (snd o) ins pars)) (p_outs p) in
  if existsb (fun o => match snd o with Fail => true | Ok _ => false end) outs then None else
  let outs' := map (fun o => (fst o, match snd o with Ok x => x | Fail => [] end)) outs in
  if existsb (fun o => match fs_get f (snd o) with Some _ => true | None => false end) outs'
  then Some (f, outs')                                         (* skipped *)
  else
    let inputs := map (fun i => match fs_get f (snd i) with Some c => Some c | None => None end) ins in
    if existsb (fun x => match x with None => true | Some _ => false end) inputs then None   (* missing input: command fails *)
    else
      let c := content (p_kind p) (p_tok p) (map (fun x => match x with Some c => c | None => [] end) inputs) in
      Some (fold_left (fun f o => fs_set f (snd o) c) outs' f, outs').

Definition eval_node (idx : nat) (nd : node) (acc : option (streams * fsmap)) : option (streams * fsmap) :=
  match acc with
  | None => None
  | Some (ss, f) =>
    match nd with
    | NSrc paths => Some ((idx, s2l "out", paths) :: ss, f)
    | NPSrc vals => Some ((idx, s2l "out", vals) :: ss, f)
    | NProc p =>
      let incols := map (fun i => st_get ss (fst (snd i)) (snd (snd i))) (p_ins p) in
      let parcols := map (fun q => st_get ss (snd q) (s2l "out")) (p_pars p) in
      let n := min_len (incols ++ parcols) in
      let inrows := transpose_n n incols in
      let parrows := transpose_n n parcols in
      let tasks := combine inrows parrows in
      let step := fun (a : option (fsmap * list (str * list str))) (t : list str * list str) =>
        match a with
        | None => None
        | Some (f, outstreams) =>
          let ins := combine (map fst (p_ins p)) (fst t) in
          let pars := combine (map fst (p_pars p)) (snd t) in
          match run_one p f ins pars with
          | None => None
          | Some (f', outs) =>
            Some (f', map (fun os => (fst os, snd os ++ match lookup (fst os) outs with Some x => [x] | None => [] end)) outstreams)
          end
        end in
      match fold_left step tasks (Some (f, map (fun o => (fst o, [])) (p_outs p))) with
      | None => None
      | Some (f', outstreams) => Some (map (fun os => (idx, fst os, snd os)) outstreams ++ ss, f')
      end
    end
  end.

Fixpoint eval_from (idx : nat) (nodes : list node) (acc : option (streams * fsmap)) : option (streams * fsmap) :=
  match nodes with [] => acc | nd :: r => eval_from (S idx) r (eval_node idx nd acc) end.

Definition eval (nodes : list node) (f0 : fsmap) : option fsmap :=
  match eval_from 0 nodes (Some ([], f0)) with Some (_, f) => Some f | None => None end.

