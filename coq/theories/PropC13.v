(* C13 -- A file written at an output placeholder ends up exactly at the declared path. *)
From Coq Require Import List Ascii String Arith Lia Bool.
Import ListNotations.
From SP Require Import Skel Gen Expected ExpectedCones Str Encode PathLex Format.
From SP Require PathFS PathBridge.

(* T1: the rename of a declared output goes from <temp dir>/<TempPath> to exactly the declared path; remaining files are
   decoded and moved; the temp dir is removed last; the command runs inside the task's temp dir; the place-holder strings
   are the ones the model uses *)
Theorem C13_code_conforms :
  skel_eqb skel_FinalizePaths exp_FinalizePaths
  && skel_eqb skel_Task_finalizePaths exp_Task_finalizePaths
  && skel_eqb skel_Task_createDirs exp_Task_createDirs
  && skel_eqb skel_Task_executeCommand exp_Task_executeCommand
  && skel_eqb skel_Task_ensureAllOutputsExist exp_Task_ensureAllOutputsExist
  && String.eqb const_parentDirPlaceHolder "__parent__"
  && String.eqb const_FSRootPlaceHolder "__fsroot__" = true.
Proof. vm_compute. reflexivity. Qed.

(* the temp path of any path contains no "../" anywhere *)
Theorem C13_no_parent_in_temp_path : forall (s : str) (k : nat),
  prefixb up (skipn k (replace_all up PH s)) = false.
Proof. exact Encode.C13_no_parent_in_temp_path. Qed.

(* the temp path of a non-empty path is relative: it never starts with '/', so <temp dir>/<temp path> stays beneath the temp dir *)
Lemma enc_nonempty_head c r : exists d t, enc (c :: r) = d :: t /\ (d = c \/ d = "_"%char).
Proof. destruct (enc_head c r) as [t [E|E]]; rewrite E; eauto. Qed.

Theorem C13_temp_path_relative : forall p : str, p <> [] ->
  exists d t, temp_path p = d :: t /\ d <> "/"%char.
Proof.
  intros p Hp. destruct p as [|c r]; [congruence|]. unfold temp_path.
  change (s2l "../") with up. change (s2l "__parent__") with PH.
  rewrite replace_all_up_enc. destruct (enc_nonempty_head c r) as [d [t [E Hd]]]. rewrite E.
  destruct (Ascii.eqb d sl) eqn:Q.
  - exists "_"%char. eexists. split; [reflexivity|discriminate].
  - exists d, t. split; [reflexivity|]. intro H. subst d. discriminate.
Qed.

(* ---- the property itself, on path segments and a store with directories (PathFS) ----
   canonical output path: k leading "..", then proper segments, or absolute.  For every such path, every working
   directory, every temp-dir name that is one proper segment, every content and every store in which the destination
   directory exists when it lies outside the working directory, the destination not being inside the task's temp dir:
   Task.createDirs, the command writing at the substituted placeholder from inside the temp dir, the audit write and
   the rename of FinalizePaths succeed, and afterwards the file is at exactly the declared path and gone from the temp dir *)
Theorem C13_out_lands : forall (cwd : list PathFS.seg) (D : PathFS.seg) (p : PathFS.opath) (c : nat) (f : PathFS.store),
  PathFS.canonical p -> PathFS.proper D ->
  (match p with PathFS.ORel O _ => True | _ => PathFS.is_dir f (PathFS.parent (PathFS.target cwd p)) = true end) ->
  ~ PathFS.beneath (cwd ++ [D])%list (PathFS.target cwd p) ->
  exists f', PathFS.task_out cwd D p c f = Some f' /\ f' (PathFS.target cwd p) = Some (PathFS.File c) /\
             f' (cwd ++ [D] ++ PathFS.enc p)%list = None.
Proof. exact PathFS.out_lands. Qed.

(* the temp path consists of proper segments only, so from inside the temp dir it names the location beneath the temp
   dir that FinalizePaths renames *)
Theorem C13_temp_location : forall (cwd : list PathFS.seg) (D : PathFS.seg) (p : PathFS.opath), PathFS.canonical p ->
  PathFS.resolve (cwd ++ [D])%list (PathFS.enc p) = (cwd ++ [D] ++ PathFS.enc p)%list.
Proof. exact PathFS.temp_location. Qed.

(* an input placeholder ("../" ++ q, for any relative q) resolves from inside the temp dir to the input itself *)
Theorem C13_in_resolves : forall (cwd : list PathFS.seg) (D : PathFS.seg) (q : list PathFS.seg), PathFS.proper D ->
  PathFS.resolve (cwd ++ [D])%list (PathFS.dd :: q) = PathFS.resolve cwd q.
Proof. exact PathFS.in_resolves. Qed.

(* additional files are moved to the same relative location under the working directory *)
Theorem C13_extra_files : forall (cwd : list PathFS.seg) (D : PathFS.seg) (r : list PathFS.seg) (c : nat) (f : PathFS.store),
  Forall PathFS.proper r -> r <> [] -> PathFS.proper D -> f (cwd ++ [D] ++ r)%list = Some (PathFS.File c) ->
  ~ PathFS.beneath (cwd ++ [D])%list (cwd ++ r)%list ->
  exists f', PathFS.move_extra cwd D r f = Some f' /\ f' (cwd ++ r)%list = Some (PathFS.File c) /\ f' (cwd ++ [D] ++ r)%list = None.
Proof. exact PathFS.extra_lands. Qed.

(* the bridge to the string function of the code: for every canonical path whose segments do not end in ".." (the
   complement is finding D15), FileIP.TempPath of the rendered path, split at "/", is the segment-level encoding *)
Theorem C13_temp_path_is_enc : forall p : PathFS.opath, PathBridge.nice p ->
  split_sl (temp_path (PathBridge.render p)) [] = PathFS.enc p.
Proof. exact PathBridge.temp_path_is_enc. Qed.

Theorem C13_out_lands_example :
  let cwd := [PathFS.S "w"] in let p := PathFS.ORel 1 [PathFS.S "sib"; PathFS.S "out.txt"] in
  let f0 : PathFS.store := PathFS.put (fun _ => None) [PathFS.S "sib"] PathFS.Dir in
  PathFS.enc p = [PathFS.S "__parent__sib"; PathFS.S "out.txt"] /\ PathFS.target cwd p = [PathFS.S "sib"; PathFS.S "out.txt"] /\
  match PathFS.task_out cwd (PathFS.S "t") p 7 f0 with Some f' => f' [PathFS.S "sib"; PathFS.S "out.txt"] = Some (PathFS.File 7) | None => False end.
Proof. exact PathFS.out_lands_example. Qed.

(* shapes outside the canonical grammar: a directory segment that ends in ".." is folded into the file name, so the
   temp file is created at top level of the temp dir and the final rename needs the directory "a.." to exist already *)
Theorem C13_noncanonical_refuted :
  l2s (temp_path (s2l "a../out.txt")) = "a__parent__out.txt"%string /\ l2s (dir (temp_path (s2l "a../out.txt"))) = "."%string.
Proof. vm_compute. split; reflexivity. Qed.

(* an additional file whose name contains the internal place-holder is decoded to a parent-relative path *)
Theorem C13_extra_placeholder_refuted :
  l2s (replace_all PH up (s2l "__parent__x")) = "../x"%string.
Proof. vm_compute. reflexivity. Qed.

(* T1, call cones: every function of scipipe that the functions above can reach (calls and function values, interface calls
   resolved to every implementation) is one the models were compared with -- a helper that is new to the cone, or a new call
   of an old one, changes a list (the lists are regenerated from /repo on every run; ExpectedCones.v holds the accepted ones) *)
Theorem C13_cone_conforms :
  strs_eqb cone_FinalizePaths exp_cone_FinalizePaths
  && strs_eqb cone_Task_finalizePaths exp_cone_Task_finalizePaths
  && strs_eqb cone_Task_createDirs exp_cone_Task_createDirs
  && strs_eqb cone_Task_executeCommand exp_cone_Task_executeCommand
  && strs_eqb cone_Task_ensureAllOutputsExist exp_cone_Task_ensureAllOutputsExist = true.
Proof. vm_compute. reflexivity. Qed.

Print Assumptions C13_code_conforms.
Print Assumptions C13_no_parent_in_temp_path.
Print Assumptions C13_temp_path_relative.
Print Assumptions C13_out_lands.
Print Assumptions C13_temp_location.
Print Assumptions C13_in_resolves.
Print Assumptions C13_extra_files.
Print Assumptions C13_temp_path_is_enc.
Print Assumptions C13_out_lands_example.
Print Assumptions C13_noncanonical_refuted.
Print Assumptions C13_extra_placeholder_refuted.
Print Assumptions C13_cone_conforms.
