(* C13 -- A file written at an output placeholder ends up exactly at the declared path. *)
From Coq Require Import List Ascii String Arith Lia Bool.
Import ListNotations.
From SP Require Import Skel Gen Expected Str Encode PathLex Format.

(* T1: the rename of a declared output goes from <temp dir>/<TempPath> to exactly the declared path; remaining files are
   decoded and moved; the temp dir is removed last; the command runs inside the task's temp dir; the place-holder strings
   are the ones the model uses *)
Theorem C13_code_conforms :
  skel_eqb skel_FinalizePaths exp_FinalizePaths
  && skel_eqb skel_Task_finalizePaths exp_Task_finalizePaths
  && skel_eqb skel_Task_createDirs exp_Task_createDirs
  && skel_eqb skel_Task_executeCommand exp_Task_executeCommand
  && skel_eqb skel_Task_ensureAllOutputsExist exp_Task_ensureAllOutputsExist
  && String.eqb const_parentDirPlaceHolder "__parent__"
  && String.eqb const_FSRootPlaceHolder "__fsroot__" = true.
Proof. vm_compute. reflexivity. Qed.

(* the temp path of any path contains no "../" anywhere *)
Theorem C13_no_parent_in_temp_path : forall (s : str) (k : nat),
  prefixb up (skipn k (replace_all up PH s)) = false.
Proof. exact Encode.C13_no_parent_in_temp_path. Qed.

(* the temp path of a non-empty path is relative: it never starts with '/', so <temp dir>/<temp path> stays beneath the temp dir *)
Lemma enc_nonempty_head c r : exists d t, enc (c :: r) = d :: t /\ (d = c \/ d = "_"%char).
Proof. destruct (enc_head c r) as [t [E|E]]; rewrite E; eauto. Qed.

Theorem C13_temp_path_relative : forall p : str, p <> [] ->
  exists d t, temp_path p = d :: t /\ d <> "/"%char.
Proof.
  intros p Hp. destruct p as [|c r]; [congruence|]. unfold temp_path.
  change (s2l "../") with up. change (s2l "__parent__") with PH.
  rewrite replace_all_up_enc. destruct (enc_nonempty_head c r) as [d [t [E Hd]]]. rewrite E.
  destruct (Ascii.eqb d sl) eqn:Q.
  - exists "_"%char. eexists. split; [reflexivity|discriminate].
  - exists d, t. split; [reflexivity|]. intro H. subst d. discriminate.
Qed.

(* shapes outside the canonical grammar: a directory segment that ends in ".." is folded into the file name, so the
   temp file is created at top level of the temp dir and the final rename needs the directory "a.." to exist already *)
Theorem C13_noncanonical_refuted :
  l2s (temp_path (s2l "a../out.txt")) = "a__parent__out.txt"%string /\ l2s (dir (temp_path (s2l "a../out.txt"))) = "."%string.
Proof. vm_compute. split; reflexivity. Qed.

(* an additional file whose name contains the internal place-holder is decoded to a parent-relative path *)
Theorem C13_extra_placeholder_refuted :
  l2s (replace_all PH up (s2l "__parent__x")) = "../x"%string.
Proof. vm_compute. reflexivity. Qed.

Print Assumptions C13_code_conforms.
Print Assumptions C13_no_parent_in_temp_path.
Print Assumptions C13_temp_path_relative.
Print Assumptions C13_noncanonical_refuted.
Print Assumptions C13_extra_placeholder_refuted.
