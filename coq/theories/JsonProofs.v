(* Round trip of the audit-record schema at token level, and of string escaping (C11). *)
From Coq Require Import List Ascii String Arith Bool Lia.
Import ListNotations.
From SP Require Import Str PathLex Json.
Notation length := List.length.

Lemma str_eqb_refl' a : str_eqb a a = true.
Proof. unfold str_eqb. destruct (list_eq_dec ascii_dec a a); congruence. Qed.

(* ---------------- string maps ---------------- *)
Lemma ppairs_tpairs l : l <> [] -> forall rest, ppairs (tpairs l ++ TRBrace :: rest) = Some (l, rest).
Proof.
  induction l as [|[k v] l IH]; intros Hne rest; [congruence|].
  destruct l as [|[k2 v2] l2].
  - reflexivity.
  - change (tpairs ((k, v) :: (k2, v2) :: l2)) with (TStr k :: TColon :: TStr v :: TComma :: tpairs ((k2, v2) :: l2)).
    cbn [app ppairs]. rewrite IH by discriminate. reflexivity.
Qed.

Lemma psmap_tsmap l rest : psmap (tsmap l ++ rest) = Some (l, rest).
Proof.
  unfold tsmap. destruct l as [|[k v] l].
  - reflexivity.
  - cbn [app]. rewrite <- app_assoc. cbn [app].
    assert (E : exists t r, tpairs ((k, v) :: l) ++ TRBrace :: rest = TStr t :: r).
    { destruct l as [|[k2 v2] l2]; simpl; eauto. }
    destruct E as [t [r E]]. unfold psmap. rewrite E. rewrite <- E.
    apply ppairs_tpairs. discriminate.
Qed.

(* ---------------- upstream entries ---------------- *)
Fixpoint tups (l : list (str * jrec)) : list jtok :=
  match l with
  | [] => []
  | (k, u) :: r => match r with
                   | [] => TStr k :: TColon :: ptoks u
                   | _ => TStr k :: TColon :: ptoks u ++ TComma :: tups r
                   end
  end.

Definition head_toks (id proc cmd : str) (params tags : list (str * str)) (start finish : str) (neg : bool) (exec : nat)
           (outs : list (str * str)) (tail : list jtok) : list jtok :=
  TLBrace :: tkey "ID" ++ TStr id :: TComma :: tkey "ProcessName" ++ TStr proc :: TComma :: tkey "Command" ++ TStr cmd :: TComma
  :: tkey "Params" ++ tsmap params ++ TComma :: tkey "Tags" ++ tsmap tags ++ TComma
  :: tkey "StartTime" ++ TStr start :: TComma :: tkey "FinishTime" ++ TStr finish :: TComma
  :: tkey "ExecTimeNS" ++ TNum neg exec :: TComma :: tkey "OutFiles" ++ tsmap outs ++ TComma
  :: tkey "Upstream" ++ TLBrace :: tail.

Lemma ptoks_unfold id proc cmd params tags start finish neg exec outs up :
  ptoks (JRec id proc cmd params tags start finish neg exec outs up) =
  head_toks id proc cmd params tags start finish neg exec outs (tups up ++ [TRBrace; TRBrace]).
Proof.
  reflexivity.
Qed.

(* the Upstream entries, given that the child parser is right on every child *)
Lemma pups_tups (child : list jtok -> option (jrec * list jtok)) up :
  up <> [] ->
  (forall k u, In (k, u) up -> forall rest, child (ptoks u ++ rest) = Some (u, rest)) ->
  forall n rest, length up <= n -> pups child n (tups up ++ TRBrace :: rest) = Some (up, rest).
Proof.
  induction up as [|[k u] up IH]; intros Hne Hc n rest Hn; [congruence|].
  destruct n as [|n]; [simpl in Hn; lia|].
  destruct up as [|[k2 u2] up2].
  - cbn [tups app pups].
    rewrite (Hc k u (or_introl eq_refl)). reflexivity.
  - cbn [tups]. cbn [app]. rewrite <- app_assoc. cbn [app pups].
    rewrite (Hc k u (or_introl eq_refl)). cbn [bind snd fst].
    rewrite IH; [reflexivity|discriminate| |simpl in *; lia].
    intros k' u' Hin. apply (Hc k' u'). right. exact Hin.
Qed.

(* ---------------- the head of a record ---------------- *)
Lemma expect_key_tkey (k : string) r : expect_key k (tkey k ++ r) = Some r.
Proof. unfold expect_key, tkey. cbn [app]. now rewrite str_eqb_refl'. Qed.

Lemma phead_head id proc cmd params tags start finish neg exec outs tail :
  phead (head_toks id proc cmd params tags start finish neg exec outs tail) =
  Some ({| h_id := id; h_proc := proc; h_cmd := cmd; h_params := params; h_tags := tags; h_start := start;
           h_finish := finish; h_neg := neg; h_exec := exec; h_outs := outs |}, tail).
Proof.
  unfold phead, head_toks.
  cbn [expect bind].
  rewrite expect_key_tkey. cbn [bind get_str expect snd fst].
  rewrite expect_key_tkey. cbn [bind get_str expect snd fst].
  rewrite expect_key_tkey. cbn [bind get_str expect snd fst].
  rewrite expect_key_tkey. cbn [bind]. rewrite psmap_tsmap. cbn [bind expect snd fst].
  rewrite expect_key_tkey. cbn [bind]. rewrite psmap_tsmap. cbn [bind expect snd fst].
  rewrite expect_key_tkey. cbn [bind get_str expect snd fst].
  rewrite expect_key_tkey. cbn [bind get_str expect snd fst].
  rewrite expect_key_tkey. cbn [bind get_num expect snd fst].
  rewrite expect_key_tkey. cbn [bind]. rewrite psmap_tsmap. cbn [bind expect snd fst].
  rewrite expect_key_tkey. cbn [bind expect snd fst].
  reflexivity.
Qed.

Lemma head_toks_app id proc cmd params tags start finish neg exec outs tail rest :
  head_toks id proc cmd params tags start finish neg exec outs tail ++ rest =
  head_toks id proc cmd params tags start finish neg exec outs (tail ++ rest).
Proof.
  unfold head_toks, tkey, tsmap. cbn [app].
  repeat (rewrite <- app_assoc; cbn [app]). reflexivity.
Qed.

(* nested induction principle for records *)
Section JrecInd.
Variable P : jrec -> Prop.
Hypothesis H : forall id proc cmd params tags start finish neg exec outs up,
  Forall (fun ku => P (snd ku)) up -> P (JRec id proc cmd params tags start finish neg exec outs up).
Fixpoint jrec_ind' (r : jrec) : P r :=
  match r with
  | JRec id proc cmd params tags start finish neg exec outs up =>
    H id proc cmd params tags start finish neg exec outs up
      ((fix go (l : list (str * jrec)) : Forall (fun ku => P (snd ku)) l :=
          match l with [] => Forall_nil _ | x :: xs => Forall_cons _ (jrec_ind' (snd x)) (go xs) end) up)
  end.
End JrecInd.

Lemma height_child id proc cmd params tags start finish neg exec outs up k u :
  In (k, u) up -> height u < height (JRec id proc cmd params tags start finish neg exec outs up).
Proof.
  cbn [height]. intros Hin. apply Nat.lt_succ_r.
  induction up as [|[k' u'] up IH]; [destruct Hin|]. cbn [fold_right snd].
  destruct Hin as [E|Hin]; [injection E as <- <-; apply Nat.le_max_l|].
  etransitivity; [apply IH; exact Hin|apply Nat.le_max_r].
Qed.

Lemma tups_length up : length up <= length (tups up ++ [TRBrace]) .
Proof.
  induction up as [|[k u] up IH]; [simpl; lia|].
  destruct up as [|[k2 u2] up2].
  - cbn [tups]. rewrite app_length. cbn [length]. lia.
  - change (tups ((k, u) :: (k2, u2) :: up2)) with (TStr k :: TColon :: ptoks u ++ TComma :: tups ((k2, u2) :: up2)).
    remember (tups ((k2, u2) :: up2)) as T. rewrite app_length in *. cbn [length] in *. rewrite app_length. cbn [length]. lia.
Qed.

(* writing a record as tokens and reading it back loses nothing: for every record tree, with any continuation *)
Theorem prec_ptoks : forall r fuel rest, height r <= fuel -> prec fuel (ptoks r ++ rest) = Some (r, rest).
Proof.
  induction r as [id proc cmd params tags start finish neg exec outs up IH] using jrec_ind'.
  intros fuel rest Hf. destruct fuel as [|f]; [cbn [height] in Hf; lia|].
  rewrite ptoks_unfold, head_toks_app.
  cbn [prec]. rewrite phead_head.
  destruct up as [|[k u] up'].
  - reflexivity.
  - set (up := (k, u) :: up') in *.
    assert (Ht : exists t r0, (tups up ++ [TRBrace; TRBrace]) ++ rest = TStr t :: r0).
    { unfold up. destruct up' as [|[k2 u2] up2]; cbn [tups app]; eauto. }
    destruct Ht as [t [r0 Ht]]. rewrite Ht. rewrite <- Ht.
    assert (Hp : pups (prec f) (length ((tups up ++ [TRBrace; TRBrace]) ++ rest)) ((tups up ++ [TRBrace; TRBrace]) ++ rest) = Some (up, TRBrace :: rest)).
    { rewrite <- app_assoc. cbn [app].
      apply pups_tups; [discriminate| |].
      - intros k' u' Hin rest'. rewrite Forall_forall in IH. apply (IH (k', u') Hin).
        pose proof (height_child id proc cmd params tags start finish neg exec outs up k' u' Hin). cbn [snd]. lia.
      - rewrite app_length. pose proof (tups_length up). rewrite app_length in H. cbn [length] in *. lia. }
    rewrite Hp. reflexivity.
Qed.

(* ---------------- strings ---------------- *)
Definition is_ascii7 (c : ascii) : Prop := match c with Ascii _ _ _ _ _ _ _ b7 => b7 = false end.

Lemma unescape_char (b0 b1 b2 b3 b4 b5 b6 : bool) f tail :
  unescape (S f) (escape_char (Ascii b0 b1 b2 b3 b4 b5 b6 false) ++ tail) =
  match unescape f tail with Some (t, r) => Some (Ascii b0 b1 b2 b3 b4 b5 b6 false :: t, r) | None => None end.
Proof. destruct b0, b1, b2, b3, b4, b5, b6; reflexivity. Qed.

(* reading back an escaped string literal gives the string, for every ASCII string (control characters, quotes, back-slashes,
   the HTML-sensitive characters included) and any continuation *)
Theorem unescape_escape : forall s rest, Forall is_ascii7 s ->
  unescape (S (length s)) (escape s ++ dq :: rest) = Some (s, rest).
Proof.
  induction s as [|c s IH]; intros rest Hs.
  - reflexivity.
  - inversion Hs as [|? ? Hc Hs']; subst. destruct c as [b0 b1 b2 b3 b4 b5 b6 b7]. simpl in Hc. subst b7.
    change (escape (Ascii b0 b1 b2 b3 b4 b5 b6 false :: s)) with (escape_char (Ascii b0 b1 b2 b3 b4 b5 b6 false) ++ escape s).
    rewrite <- app_assoc. cbn [length]. rewrite unescape_char. rewrite (IH rest Hs'). reflexivity.
Qed.

(* worked example at byte level: render, then lex and parse *)
Definition ex_leaf := JRec (s2l "id0") [] [] [] [] (s2l "0001-01-01T00:00:00Z") (s2l "0001-01-01T00:00:00Z") true 1 [] [].
Definition ex_rec := JRec (s2l "id1") (s2l "proc") (s2l "echo ""a<b>&"" > x\y") [(s2l "k", s2l "v"); (s2l "k2", [ascii_of_nat 10; ascii_of_nat 1])] []
                          (s2l "2026-01-01T10:00:00.5Z") (s2l "2026-01-01T10:00:01Z") false 1234 [(s2l "o", s2l "x")] [(s2l "in.txt", ex_leaf); (s2l "b.txt", ex_leaf)].
Theorem decode_render_example : decode (jrender 0 ex_rec) = Some ex_rec.
Proof. vm_compute. reflexivity. Qed.
