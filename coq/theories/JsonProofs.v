(* Round trip of the audit-record schema at token level, and of string escaping (C11). *)
From Coq Require Import List Ascii String Arith Bool Lia.
Import ListNotations.
From SP Require Import Str PathLex Json.
Notation length := List.length.

Lemma str_eqb_refl' a : str_eqb a a = true.
Proof. unfold str_eqb. destruct (list_eq_dec ascii_dec a a); congruence. Qed.

(* ---------------- string maps ---------------- *)
Lemma ppairs_tpairs l : l <> [] -> forall rest, ppairs (tpairs l ++ TRBrace :: rest) = Some (l, rest).
Proof.
  induction l as [|[k v] l IH]; intros Hne rest; [congruence|].
  destruct l as [|[k2 v2] l2].
  - reflexivity.
  - change (tpairs ((k, v) :: (k2, v2) :: l2)) with (TStr k :: TColon :: TStr v :: TComma :: tpairs ((k2, v2) :: l2)).
    cbn [app ppairs]. rewrite IH by discriminate. reflexivity.
Qed.

Lemma psmap_tsmap l rest : psmap (tsmap l ++ rest) = Some (l, rest).
Proof.
  unfold tsmap. destruct l as [|[k v] l].
  - reflexivity.
  - cbn [app]. rewrite <- app_assoc. cbn [app].
    assert (E : exists t r, tpairs ((k, v) :: l) ++ TRBrace :: rest = TStr t :: r).
    { destruct l as [|[k2 v2] l2]; simpl; eauto. }
    destruct E as [t [r E]]. unfold psmap. rewrite E. rewrite <- E.
    apply ppairs_tpairs. discriminate.
Qed.

(* ---------------- upstream entries ---------------- *)
Fixpoint tups (l : list (str * jrec)) : list jtok :=
  match l with
  | [] => []
  | (k, u) :: r => match r with
                   | [] => TStr k :: TColon :: ptoks u
                   | _ => TStr k :: TColon :: ptoks u ++ TComma :: tups r
                   end
  end.

Definition head_toks (id proc cmd : str) (params tags : list (str * str)) (start finish : str) (neg : bool) (exec : nat)
           (outs : list (str * str)) (tail : list jtok) : list jtok :=
  TLBrace :: tkey "ID" ++ TStr id :: TComma :: tkey "ProcessName" ++ TStr proc :: TComma :: tkey "Command" ++ TStr cmd :: TComma
  :: tkey "Params" ++ tsmap params ++ TComma :: tkey "Tags" ++ tsmap tags ++ TComma
  :: tkey "StartTime" ++ TStr start :: TComma :: tkey "FinishTime" ++ TStr finish :: TComma
  :: tkey "ExecTimeNS" ++ TNum neg exec :: TComma :: tkey "OutFiles" ++ tsmap outs ++ TComma
  :: tkey "Upstream" ++ TLBrace :: tail.

Lemma ptoks_unfold id proc cmd params tags start finish neg exec outs up :
  ptoks (JRec id proc cmd params tags start finish neg exec outs up) =
  head_toks id proc cmd params tags start finish neg exec outs (tups up ++ [TRBrace; TRBrace]).
Proof.
  reflexivity.
Qed.

(* the Upstream entries, given that the child parser is right on every child *)
Lemma pups_tups (child : list jtok -> option (jrec * list jtok)) up :
  up <> [] ->
  (forall k u, In (k, u) up -> forall rest, child (ptoks u ++ rest) = Some (u, rest)) ->
  forall n rest, length up <= n -> pups child n (tups up ++ TRBrace :: rest) = Some (up, rest).
Proof.
  induction up as [|[k u] up IH]; intros Hne Hc n rest Hn; [congruence|].
  destruct n as [|n]; [simpl in Hn; lia|].
  destruct up as [|[k2 u2] up2].
  - cbn [tups app pups].
    rewrite (Hc k u (or_introl eq_refl)). reflexivity.
  - cbn [tups]. cbn [app]. rewrite <- app_assoc. cbn [app pups].
    rewrite (Hc k u (or_introl eq_refl)). cbn [bind snd fst].
    rewrite IH; [reflexivity|discriminate| |simpl in *; lia].
    intros k' u' Hin. apply (Hc k' u'). right. exact Hin.
Qed.
