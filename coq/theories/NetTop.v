(* Whole-execution statements for the process network: every schedule, every reachable state, final states. *)
From Coq Require Import List Arith Lia Bool PeanoNat.
Import ListNotations.
From SP Require Import NetA Inv Pres Dead Top Ghost GhostPres Term Early.

Section NetTop.
Variable c : cfg.
Variable len : nat -> nat.
Variable gc : gcfg.
Hypothesis WF : wf c len.
Hypothesis SL : forall v L, slen c v = Some L -> length (sitems gc v) = L.

(* the network and its history variables, run together *)
Fixpoint grun (s : st) (g : gst) (sched : list act) : option (st * gst) :=
  match sched with
  | [] => Some (s, g)
  | a :: r => match step c s a with Some s' => grun s' (gstep c gc s g a) r | None => None end
  end.

Lemma grun_run s g sched s' g' : grun s g sched = Some (s', g') -> run c s sched = Some s'.
Proof.
  revert s g. induction sched as [|a r IH]; simpl; intros s g H.
  - inversion H; reflexivity.
  - destruct (step c s a); [|discriminate]. eapply IH; eauto.
Qed.

Lemma ginit_inv : GInv c gc (init c) ginit.
Proof.
  constructor; simpl; intros; auto; try lia.
Qed.

Definition AllInv (s : st) (g : gst) : Prop := Inv c len s /\ Inv2 c s /\ GInv c gc s g.

Theorem grun_inv sched : forall s g s' g', AllInv s g -> sched_ok c sched -> grun s g sched = Some (s', g') -> AllInv s' g'.
Proof.
  induction sched as [|a r IH]; simpl; intros s g s' g' HI Hok H.
  - inversion H; subst; assumption.
  - destruct Hok as [Ha Hr]. destruct (step c s a) as [s1|] eqn:E; [|discriminate].
    destruct HI as [I1 [I2 I3]].
    apply (IH s1 (gstep c gc s g a) s' g'); auto.
    split; [|split].
    + eapply step_inv; eauto.
    + eapply step_inv2; eauto.
    + eapply gstep_inv; eauto.
Qed.

Theorem reachable_inv sched s g : sched_ok c sched -> grun (init c) ginit sched = Some (s, g) -> AllInv s g.
Proof.
  intros Hok H. eapply grun_inv; eauto. split; [apply init_inv|split; [apply init_inv2|apply ginit_inv]].
Qed.

Definition final (s : st) : Prop := forall v, v < nn c -> rn (ns s v) = RFin.

(* in a final state every node has created and emitted exactly len v tasks, and on every edge everything sent was received *)
Theorem final_complete s : Inv c len s -> final s ->
  (forall v, v < nn c -> cN (ns s v) = len v /\ eN (ns s v) = len v /\ fl (ns s v) = []) /\
  (forall e, e < E c -> snt (es s e) = len (esrc c e) /\ rcv (es s e) = snt (es s e)).
Proof.
  intros [HN HE] HF. assert (Hnode : forall v, v < nn c -> cN (ns s v) = len v /\ eN (ns s v) = len v /\ fl (ns s v) = []).
  { intros v Hv. destruct (HN v Hv) as [n1 n2 n3 n4 n5 n6 n7].
    destruct (n2 (HF v Hv)) as [Hct [Hfl HeN]]. specialize (n4 Hct). repeat split; auto; lia. }
  split; [exact Hnode|].
  intros e He. destruct (wf_topo c len WF e He) as [Hlt Hd].
  assert (Hu : esrc c e < nn c) by lia.
  destruct (HE e He) as [e1 e2 e3 e4].
  destruct (HN _ Hu) as [u1 u2 u3 u4 u5 u6 u7]. destruct (HN _ Hd) as [w1 w2 w3 w4 w5 w6 w7].
  destruct (u2 (HF _ Hu)) as [Uct [Ufl UeN]]. destruct (w2 (HF _ Hd)) as [Wct [Wfl WeN]].
  unfold sx in e1. rewrite (HF _ Hu) in e1. unfold hand, rx in e2. rewrite Wct in e2.
  destruct (Hnode _ Hu) as [A [B _]]. destruct (Hnode _ Hd) as [C [D _]].
  pose proof (wf_bal c len WF e He). split; lia.
Qed.

(* in a final state the history of an edge is the image of ALL tasks its source created *)
Lemma final_hist s g e : AllInv s g -> final s -> e < E c ->
  hist g e = map (outf gc (esrc c e) e) (crt g (esrc c e)).
Proof.
  intros [I1 [I2 I3]] HF He. rewrite (g_emit c gc s g I3 e He).
  destruct (final_complete s I1 HF) as [Hn Hed]. destruct (Hed e He) as [Hs _].
  destruct (wf_topo c len WF e He) as [Hlt Hd]. assert (Hu : esrc c e < nn c) by lia.
  destruct (Hn _ Hu) as [Hc _]. rewrite Hs, <- Hc, <- (g_crtn c gc s g I3 _ Hu). now rewrite firstn_all.
Qed.

(* schedule independence: two completed executions created exactly the same tasks, in the same order, at every node *)
Theorem final_tasks_deterministic s1 g1 s2 g2 :
  AllInv s1 g1 -> final s1 -> AllInv s2 g2 -> final s2 ->
  forall v, v < nn c -> crt g1 v = crt g2 v.
Proof.
  intros A1 F1 A2 F2 v. induction v as [v IH] using lt_wf_ind. intros Hv.
  pose proof A1 as [I1 [_ G1]]. pose proof A2 as [J1 [_ G2]].
  destruct (final_complete s1 I1 F1) as [N1 _]. destruct (final_complete s2 J1 F2) as [N2 _].
  destruct (N1 v Hv) as [C1 _]. destruct (N2 v Hv) as [C2 _].
  apply nth_ext with (d := []) (d' := []).
  - rewrite (g_crtn c gc s1 g1 G1 v Hv), (g_crtn c gc s2 g2 G2 v Hv). lia.
  - intros k Hk. rewrite (g_crtn c gc s1 g1 G1 v Hv) in Hk.
    rewrite (g_crt c gc s1 g1 G1 v k Hv Hk).
    assert (Hk2 : k < cN (ns s2 v)) by lia.
    rewrite (g_crt c gc s2 g2 G2 v k Hv Hk2).
    unfold tuple_of. destruct (slen c v); [reflexivity|].
    apply map_ext_in. intros y Hy. apply in_ins in Hy. destruct Hy as [HyE Hyd].
    rewrite (final_hist s1 g1 y A1 F1 HyE), (final_hist s2 g2 y A2 F2 HyE).
    destruct (wf_topo c len WF y HyE) as [Hlt _].
    rewrite IH; auto; lia.
Qed.

(* the zip equation of a completed run: the k-th task of a process is made of the outputs of the k-th tasks of its
   producers -- exactly the recursion the sequential reference evaluator (WfModel.eval_proc: transpose of the in-columns)
   computes, so the concurrent network and the sequential evaluator create the same tasks *)
Theorem final_zip_equation s g v k : AllInv s g -> final s -> v < nn c -> k < len v ->
  nth k (crt g v) [] =
  match slen c v with
  | Some _ => [nth k (sitems gc v) 0]
  | None => map (fun y => nth k (map (outf gc (esrc c y) y) (crt g (esrc c y))) 0) (ins c v)
  end.
Proof.
  intros A F Hv Hk. pose proof A as [I1 [_ G]].
  destruct (final_complete s I1 F) as [Hn _]. destruct (Hn v Hv) as [Hc _].
  assert (Hk' : k < cN (ns s v)) by lia.
  rewrite (g_crt c gc s g G v k Hv Hk'). unfold tuple_of. destruct (slen c v); [reflexivity|].
  apply map_ext_in. intros y Hy. apply in_ins in Hy. destruct Hy as [HyE _].
  now rewrite (final_hist s g y A F HyE).
Qed.

End NetTop.
