(* Expected skeletons and constants: the code shape the transition systems of this development were written against.
   Snapshot of the translator output on the repaired tree, reviewed by hand; conformance obligations in the
   Prop files compare it with Gen.v, which is regenerated from /repo on every check. *)
From Coq Require Import List String.
From SP Require Import Skel.
Import ListNotations.
Open Scope string_scope.

Definition exp_const_parentDirPlaceHolder : string := "__parent__".
Definition exp_const_FSRootPlaceHolder : string := "__fsroot__".
Definition exp_const_tempDirPrefix : string := "_scipipe_tmp".
Definition exp_const_BUFSIZE : string := "128".
Definition exp_const_finalizePathMaxTries : string := "3".
Definition exp_const_Version : string := "0.12.0".

Definition exp_regexps_getShellCommandPlaceHolderRegex : list string := ["regex={(o|os|i|is|p|t):([^{}]+)}"; "$regex"].
Definition exp_regexps_pathIsValid : list string := ["expr=^[0-9A-Za-z\/\.\-_]+$"; "$expr"].
Definition exp_regexps_sanitizePathFragment : list string := ["[^a-z0-9_\-\.]+"].
Definition exp_regexps_applyPathModifiers : list string := ["s\/([^\/]+)\/([^\/]*)\/"; "%(.*)"; ".*\/"; "\/[^\/]*$"].
Definition exp_regexps_Process_initPortsFromCmdPattern : list string := ["\.([a-z0-9\.\-\_]+)"; "join:([^{}|]+)"].
Definition exp_regexps_NewWorkflow : list string := ["[^a-z0-9_]"].

Definition exp_Task_Execute : list stm :=
  [SIf "t.tempDirsExist()" [SFail] []; SIf "t.anyOutputsExist()" [SCall "t.drainStreamingInputs"; SCall "t.signalDone"; SReturn ""] []; SCall "t.workflow.IncConcurrentTasks"; SCall "t.createDirs"; SIf "err != nil" [SFail] []; SIf "t.CustomExecute != nil" [SRange "t.OutIPs" []; SCall "t.CustomExecute"] [SCall "t.executeCommand"]; SCall "t.writeAuditLogs"; SCall "t.ensureAllOutputsExist"; SCall "t.finalizePaths"; SIf "finErr != nil" [SFail] []; SCall "t.workflow.DecConcurrentTasks"; SCall "t.signalDone"].

Definition exp_FinalizePaths : list stm :=
  [SRange "ips" [SIf "!oip.doStream" [SCall "oip.Path"; SCall "os.Rename(tempPath, finPath)"; SIf "renameErr != nil" [SReturn "<error>"] []] []]; SBlock [SCall "filepath.Walk"; SFunc "arg1" [SIf "!fileInfo.IsDir()" [SCall "replacePlaceholdersWithParentDirs"; SBlock [SCall "os.Stat"; SIf "os.IsNotExist(err)" [SCall "os.MkdirAll(finPathDir, 0777)"; SIf "errMkdir != nil" [] []] []]; SCall "os.Rename(tempPath, finPath)"; SIf "renameErr != nil" [SReturn "<error>"] []] []; SReturn "err"]]; SIf "err != nil" [] []; SIf "tempExecDir != """" && tempExecDir != ""."" && tempExecDir[0] != '/'" [SCall "os.RemoveAll(tempExecDir)"; SIf "remErr != nil" [SReturn "<error>"] []] []; SReturn "nil"].

Definition exp_Task_finalizePaths : list stm :=
  [SRange "t.OutIPs" []; SBlock [SCall "FinalizePaths(t.TempDir(), outIPs)"; SReturn "FinalizePaths(t.TempDir(), outIPs...)"]].

Definition exp_Task_anyOutputsExist : list stm :=
  [SAssign "anyFileExists = false"; SRange "t.OutIPs" [SIf "!oip.doStream" [SCall "oip.Path"; SBlock [SCall "os.Stat"; SIf "err == nil" [SAssign "anyFileExists = true"] []]] []]; SReturn ""].

Definition exp_Task_tempDirsExist : list stm :=
  [SBlock [SCall "os.Stat"; SIf "os.IsNotExist(err)" [SReturn "false"] []]; SReturn "true"].

Definition exp_Task_ensureAllOutputsExist : list stm :=
  [SRange "t.OutIPs" [SBlock [SCall "os.Stat"; SIf "os.IsNotExist(err) && !ip.doStream" [SFail] []]]].

Definition exp_Task_createDirs : list stm :=
  [SCall "os.MkdirAll(t.TempDir(), 0777)"; SIf "err != nil" [SFail] []; SRange "t.OutIPs" [SCall "oip.TempDir"; SIf "oip.doStream" [] []; SCall "os.MkdirAll(oipDir, 0777)"; SIf "err != nil" [SReturn "<error>"] []]; SReturn "nil"].

Definition exp_Task_executeCommand : list stm :=
  [SCall "exec.Command(""bash"", ""-c"", ""cd ""+t.TempDir()+"" && ""+cmd+"" && cd .."").CombinedOutput"; SIf "err != nil" [SFail] []].

Definition exp_Task_writeAuditLogs : list stm :=
  [SAssign "auditInfo.Command"; SCall "t.Process.Name"; SAssign "auditInfo.Params"; SAssign "auditInfo.StartTime"; SAssign "auditInfo.FinishTime"; SAssign "auditInfo.ExecTimeNS"; SRange "t.InIPs" [SIf "t.portInfos[inpName].join" [SRange "t.subStreamIPs[inpName]" [SCall "subIP.auditInfoSnapshot"]; SBranch "continue"] []; SCall "iip.auditInfoSnapshot"]; SRange "t.OutIPs" [SCall "oip.Path"]; SRange "t.OutIPs" [SAssign "oipAuditInfo.Tags"; SCall "oip.SetAuditInfo"; SRange "t.InIPs" [SCall "oip.AddTags"]; SCall "oip.WriteAuditLogToFile"]].

(* after the repair of D22: one goroutine per FIFO, all waited for *)
Definition exp_Task_drainStreamingInputs : list stm :=
  [SRange "t.InIPs" [SIf "iip.doStream" [SCall "drains.Add"; SGo (SBlock [SDefer (SCall "drains.Done"); SCall "os.Open"; SIf "err != nil" [SReturn ""] []; SCall "io.Copy"; SCall "fifo.Close"])] []]; SCall "drains.Wait"].

Definition exp_Workflow_IncConcurrentTasks : list stm :=
  [SLock "wf.concurrentTasksMx"; SFor "i < slots" [SSend "wf.concurrentTasks"]; SUnlock "wf.concurrentTasksMx"].

Definition exp_Workflow_DecConcurrentTasks : list stm :=
  [SFor "i < slots" [SRecv "wf.concurrentTasks"]].

Definition exp_Process_Run : list stm :=
  [SDefer (SCall "p.CloseOutPorts"); SIf "p.CoresPerTask > cap(p.workflow.concurrentTasks)" [SFail] []; SAssign "startedTasks := taskQueue{}"; SAssign "tasks := p.createTasks()"; SFor "tasks != nil || len(startedTasks) > 0" [SSelect [(SRecv "tasks", [SIf "!ok" [SAssign "tasks = nil"] [SRange "t.OutIPs" [SIf "oip.doStream" [SIf "oip.FifoFileExists()" [SFail] []; SCall "oip.CreateFifo"; SCall "p.Out(oname).Send"] []]; SGo (SCall "t.Execute"); SAssign "startedTasks = append(startedTasks, t)"]]); (SRecv "startedTasks.NextTaskDone()", [SAssign "nextTask, startedTasks = startedTasks[0], startedTasks[1:]"; SRange "nextTask.OutIPs" [SIf "!oip.doStream" [SCall "p.Out(oname).Send"] []; SIf "oip.doStream && oip.FifoFileExists()" [SCall "os.Remove(oip.FifoPath())"; SIf "err != nil" [SFail] []] []]])]]].

Definition exp_Process_createTasks : list stm :=
  [SGo (SBlock [SDefer (SClose "ch"); SAssign "inPortsOpen := true"; SAssign "paramPortsOpen := true"; SLoop [SIf "len(p.inPorts) > 0" [SAssign "inIPs, inPortsOpen = p.receiveOnInPorts()"; SIf "!inPortsOpen" [SBranch "break"] []] []; SIf "len(p.inParamPorts) > 0" [SAssign "params, paramPortsOpen = p.receiveOnInParamPorts()"; SIf "!paramPortsOpen" [SBranch "break"] []] []; SRange "inIPs" [SRange "ip.Tags()" [SAssign "tags[iname+"".""+k]"]]; SSend "ch"; SIf "len(p.inPorts) == 0 && len(p.inParamPorts) == 0" [SBranch "break"] []]]); SReturn "ch"].

Definition exp_BaseProcess_receiveOnInPorts : list stm :=
  [SAssign "inPortsOpen = true"; SRange "p.InPorts()" [SRecv "inPort.Chan"; SIf "!open" [SAssign "inPortsOpen = false"; SBranch "continue"] []; SAssign "ips[inpName]"]; SReturn ""].

Definition exp_BaseProcess_receiveOnInParamPorts : list stm :=
  [SAssign "paramPortsOpen = true"; SRange "p.InParamPorts()" [SRecv "pport.Chan"; SIf "!open" [SAssign "paramPortsOpen = false"; SBranch "continue"] []; SAssign "params[pname]"]; SReturn ""].

Definition exp_BaseProcess_CloseOutPorts : list stm :=
  [SRange "p.OutPorts()" [SCall "p.Close"]].

Definition exp_BaseProcess_Ready : list stm :=
  [SAssign "isReady = true"; SRange "p.inPorts" [SIf "!port.Ready()" [SFail; SAssign "isReady = false"] []]; SRange "p.outPorts" [SIf "!port.Ready()" [SFail; SAssign "isReady = false"] []]; SRange "p.inParamPorts" [SIf "!port.Ready()" [SFail; SAssign "isReady = false"] []]; SRange "p.outParamPorts" [SIf "!port.Ready()" [SFail; SAssign "isReady = false"] []]; SReturn "isReady"].

Definition exp_taskQueue_NextTaskDone : list stm :=
  [SIf "len(tq) > 0" [SReturn "tq[0].Done"] []; SReturn "nil"].

Definition exp_InPort_Send : list stm :=
  [SSend "pt.Chan"].

Definition exp_InPort_CloseConnection : list stm :=
  [SLock "pt.closeLock"; SDelete "pt.RemotePorts"; SIf "len(pt.RemotePorts) == 0" [SClose "pt.Chan"] []; SUnlock "pt.closeLock"].

Definition exp_InParamPort_Send : list stm :=
  [SSend "pip.Chan"].

Definition exp_InParamPort_CloseConnection : list stm :=
  [SLock "pip.closeLock"; SDelete "pip.RemotePorts"; SIf "len(pip.RemotePorts) == 0" [SClose "pip.Chan"] []; SUnlock "pip.closeLock"].

Definition exp_OutPort_Send : list stm :=
  [SRange "pt.RemotePorts" [SCall "rpt.Send"]].

Definition exp_OutPort_Close : list stm :=
  [SRange "pt.RemotePorts" [SCall "rpt.CloseConnection"; SCall "pt.removeRemotePort"]].

Definition exp_OutParamPort_Send : list stm :=
  [SRange "pop.RemotePorts" [SCall "pip.Send"]].

Definition exp_OutParamPort_Close : list stm :=
  [SRange "pop.RemotePorts" [SCall "pip.CloseConnection"; SCall "pop.removeRemotePort"]].

(* D20: the remote-port map of a parameter in-port is read and written under the port's lock *)
Definition exp_InParamPort_AddRemotePort : list stm :=
  [SLock "pip.closeLock"; SDefer (SUnlock "pip.closeLock"); SIf "pip.RemotePorts[pop.Name()] != nil" [SFail] []; SAssign "pip.RemotePorts[pop.Name()]"].

Definition exp_InParamPort_connectedOutParamPorts : list stm :=
  [SLock "pip.closeLock"; SDefer (SUnlock "pip.closeLock"); SRange "pip.RemotePorts" []; SReturn "pops"].

Definition exp_InParamPort_FromStr : list stm :=
  [SCall "NewOutParamPort"; SCall "pip.Process"; SCall "pip.From"; SGo (SBlock [SDefer (SCall "pop.Close"); SRange "strings" [SCall "pop.Send"]])].

Definition exp_InPort_From : list stm :=
  [SCall "pt.AddRemotePort"; SCall "rpt.AddRemotePort"; SCall "pt.SetReady"; SCall "rpt.SetReady"].

Definition exp_OutPort_To : list stm :=
  [SCall "pt.AddRemotePort"; SCall "rpt.AddRemotePort"; SCall "pt.SetReady"; SCall "rpt.SetReady"].

Definition exp_OutPort_Disconnect : list stm :=
  [SCall "pt.removeRemotePort"; SIf "len(pt.RemotePorts) == 0" [SCall "pt.SetReady"] []].

Definition exp_InPort_Disconnect : list stm :=
  [SCall "pt.removeRemotePort"; SIf "len(pt.RemotePorts) == 0" [SCall "pt.SetReady"] []].

Definition exp_Workflow_Run : list stm :=
  [SCall "wf.runProcs"].

Definition exp_Workflow_RunToProcs : list stm :=
  [SRange "finalProcs" [SCall "mergeWFMaps"; SAssign "procsToRun[finalProc.Name()]"]; SCall "wf.runProcs"].

Definition exp_Workflow_runProcs : list stm :=
  [SCall "wf.reconnectDeadEndConnections"; SIf "!wf.readyToRun(procs)" [SFail] []; SFunc "startProc" [SCall "wg.Add"; SGo (SBlock [SDefer (SCall "wg.Done"); SCall "proc.Run"])]; SRange "procs" [SIf "proc == wf.driver" [SBranch "continue"] []; SCall "startProc"]; SIf "wf.driver != WorkflowProcess(wf.sink) && (wf.sink.in().Ready() || wf.sink.paramIn().Ready())" [SCall "startProc"] []; SCall "wf.driver.Run"; SCall "wg.Wait"].

Definition exp_Workflow_readyToRun : list stm :=
  [SIf "len(procs) == 0" [SReturn "false"] []; SIf "wf.sink == nil" [SReturn "false"] []; SRange "procs" [SIf "!proc.Ready()" [SReturn "false"] []]; SIf "wf.driver != nil && wf.driver != WorkflowProcess(wf.sink) && !wf.driver.Ready()" [SReturn "false"] []; SReturn "true"].

Definition exp_Workflow_reconnectDeadEndConnections : list stm :=
  [SAssign "foundNewDriverProc := false"; SRange "procs" [SRange "proc.OutPorts()" [SRange "opt.RemotePorts" [SIf "ipt.Process() == nil" [SCall "opt.Disconnect"] [SIf "!ok" [SCall "opt.Disconnect"] []]]; SIf "!opt.Ready()" [SCall "wf.sink.From"] []]; SRange "proc.OutParamPorts()" [SRange "pop.RemotePorts" [SIf "rpp.Process() == nil" [SCall "pop.Disconnect"] [SIf "!ok" [SCall "pop.Disconnect"] []]]; SIf "!pop.Ready()" [SCall "wf.sink.FromParam"] []]; SIf "len(proc.OutPorts()) == 0 && len(proc.OutParamPorts()) == 0" [SIf "foundNewDriverProc" [SFail] []; SAssign "foundNewDriverProc = true"; SAssign "wf.driver"] []]; SIf "foundNewDriverProc && len(procs) > 1" [SDelete "wf.procs"] []].

Definition exp_upstreamProcsForProc : list stm :=
  [SCall "collectUpstreamProcs"; SReturn "procs"].

(* after the repair of D20: the parameter in-ports are traversed through the locked accessor (a feeder goroutine of FromStr
   may be deleting its entry from the map at that moment) *)
Definition exp_collectUpstreamProcs : list stm :=
  [SFunc "visit" [SIf "seen" [SReturn ""] []; SAssign "procs[upProc.Name()]"; SCall "collectUpstreamProcs"]; SRange "proc.InPorts()" [SRange "inp.RemotePorts" [SCall "visit"]]; SRange "proc.InParamPorts()" [SRange "pip.connectedOutParamPorts()" [SCall "visit"]]].

(* after the repair of D19: a streaming IP that reaches the sink has its FIFO drained by a goroutine of its own, which the
   sink does not wait for (the receive loop, the close protocol and what Run waits for are as before) *)
Definition exp_Sink_Run : list stm :=
  [SIf "p.in().Ready()" [SGo (SBlock [SRange "p.in().Chan" [SIf "ip.doStream" [SGo (SCall "drainFifo")] []]; SSend "merged"])] []; SIf "p.paramIn().Ready()" [SGo (SBlock [SRange "p.paramIn().Chan" []; SSend "merged"])] []; SIf "p.in().Ready()" [SRecv "merged"] []; SIf "p.paramIn().Ready()" [SRecv "merged"] []; SClose "merged"].

Definition exp_Fail : list stm :=
  [SFail].

Definition exp_Failf : list stm :=
  [SFail].

Definition exp_CheckWithMsg : list stm :=
  [SIf "err != nil" [SCall "errWrap"; SFail] []].

Definition exp_FileIP_Write : list stm :=
  [SCall "ip.createDirs"; SCall "ip.TempPath"; SIf "ip.tempBaseDir != """"" [] []; SCall "ioutil.WriteFile(tempPath, dat, 0644)"; SCall "CheckWithMsg(err, ""Could not write to temp file: "" + tempPath)"].

Definition exp_FileIP_AddTag : list stm :=
  [SCall "ip.AuditInfo"; SLock "ip.lock"; SDefer (SUnlock "ip.lock"); SIf "ai.Tags[k] != """" && ai.Tags[k] != v" [SFail] []; SAssign "ai.Tags[k]"].

Definition exp_FileIP_AuditInfo : list stm :=
  [SDefer (SUnlock "ip.lock"); SLock "ip.lock"; SIf "ip.auditInfo == nil" [SCall "UnmarshalAuditInfoJSONFile"] []; SReturn "ip.auditInfo"].

Definition exp_FileIP_SetAuditInfo : list stm :=
  [SLock "ip.lock"; SAssign "ip.auditInfo"; SUnlock "ip.lock"].

Definition exp_FileIP_WriteAuditLogToFile : list stm :=
  [SCall "ip.AuditInfo"; SLock "ip.lock"; SCall "json.MarshalIndent"; SUnlock "ip.lock"; SCall "CheckWithMsg(jsonErr, ""Could not marshall JSON"")"; SCall "ip.createDirs"; SCall "ioutil.WriteFile(tmpAuditPath, auditInfoJSON, 0644)"; SCall "CheckWithMsg(writeErr, ""Could not write audit file: "" + ip.Path())"; SCall "os.Rename(tmpAuditPath, ip.AuditFilePath())"; SCall "CheckWithMsg(renameErr, ""Could not write audit file: "" + ip.Path())"].

Definition exp_FileIP_CreateFifo : list stm :=
  [SCall "ip.createDirs"; SLock "ip.lock"; SBlock [SCall "os.Stat"; SIf "err == nil" [] [SCall "exec.Command(""bash"", ""-c"", cmd).Output"; SCall "CheckWithMsg(err, ""Could not execute command: "" + cmd)"]]; SUnlock "ip.lock"].

Definition exp_NewTask : list stm :=
  [SRange "portInfos" [SIf "ptInfo.join && ptInfo.joinSep != """"" [SRange "inIPs[ptName].SubStream.Chan" []; SAssign "t.subStreamIPs[ptName]"] []]; SRange "outPathFuncs" [SCall "NewFileIP"; SIf "err != nil" [SFail] []; SIf "ok" [SIf "ptInfo.doStream" [SAssign "oip.doStream"] []] []; SAssign "t.OutIPs[oname]"]; SRange "t.OutIPs" [SCall "t.TempDir"]; SCall "t.formatCommand"; SReturn "t"].

Definition exp_NewFileIP : list stm :=
  [SCall "pathIsValid"; SIf "err != nil" [SReturn "nil, err"] []; SIf "!isValid" [SReturn "nil, <error>"] []; SIf "ip.Exists()" [SCall "ip.AuditInfo"] []; SReturn "ip, nil"].

Definition exp_FileIP_Tags : list stm :=
  [SCall "ip.AuditInfo"; SLock "ip.lock"; SDefer (SUnlock "ip.lock"); SRange "ai.Tags" [SAssign "tags[k]"]; SReturn "tags"].

Definition exp_FileIP_Tag : list stm :=
  [SCall "ip.AuditInfo"; SLock "ip.lock"; SRead "ai.Tags[k]"; SUnlock "ip.lock"; SIf "!ok" [SReturn """"""] []; SReturn "v"].

Definition exp_FileIP_AddTags : list stm :=
  [SRange "tags" [SCall "ip.AddTag"]].

Definition exp_FileIP_auditInfoSnapshot : list stm :=
  [SCall "ip.AuditInfo"; SLock "ip.lock"; SDefer (SUnlock "ip.lock"); SAssign "snapshot.Tags"; SRange "ai.Tags" [SAssign "snapshot.Tags[k]"]; SReturn "&snapshot"].

Definition exp_FileIP_Exists : list stm :=
  [SAssign "exists := false"; SLock "ip.lock"; SBlock [SCall "os.Stat"; SIf "err == nil" [SAssign "exists = true"] []]; SUnlock "ip.lock"; SReturn "exists"].

Definition exp_FileIP_FifoFileExists : list stm :=
  [SLock "ip.lock"; SBlock [SCall "os.Stat"; SIf "err == nil" [] []]; SUnlock "ip.lock"; SReturn "fifoFileExists"].

Definition exp_UnmarshalAuditInfoJSONFile : list stm :=
  [SCall "ioutil.ReadFile"; SIf "readFileErr != nil" [SIf "os.IsNotExist(readFileErr)" [] [SFail]] [SCall "json.Unmarshal"; SCall "CheckWithMsg(unmarshalErr, ""Could not unmarshal audit log file content: "" + fileName)"]; SReturn "auditInfo"].

Definition exp_components_MapToTags_Run : list stm :=
  [SDefer (SCall "p.CloseAllOutPorts"); SRange "p.In().Chan" [SCall "p.mapFunc"; SCall "ip.AddTags"; SCall "ip.WriteAuditLogToFile"; SCall "p.Out().Send"]].

Definition exp_components_StreamToSubStream_Run : list stm :=
  [SDefer (SCall "p.CloseAllOutPorts"); SCall "ioutil.TempFile"; SIf "err != nil" [SCall "panic"] []; SDefer (SCall "os.Remove(tmpfile.Name())"); SCall "scipipe.Debug.Println"; SCall "scipipe.NewFileIP"; SIf "err != nil" [SFail] []; SCall "scipipe.Debug.Printf"; SCall "p.In"; SCall "scipipe.Debug.Printf"; SCall "p.OutSubStream().Send"; SCall "scipipe.Debug.Printf"].

Definition exp_components_FileCombinator_Run : list stm :=
  [SDefer (SCall "p.CloseAllOutPorts"); SRange "p.InPorts()" [SAssign "inIPs[pName]"; SRange "inPort.Chan" [SAssign "inIPs[pName]"]]; SRange "inIPs" []; SCall "p.combine"; SRange "outIPs" [SCall "wg.Add"; SGo (SBlock [SRange "ips" [SCall "p.Out(pName).Send"]; SCall "wg.Done"])]; SCall "wg.Wait"].

Definition exp_components_ParamCombinator_Run : list stm :=
  [SDefer (SCall "p.CloseAllOutPorts"); SRange "p.InParamPorts()" [SAssign "inParams[pName]"; SRange "inPort.Chan" [SAssign "inParams[pName]"]]; SRange "inParams" []; SCall "combine"; SRange "outIPs" [SCall "wg.Add"; SGo (SBlock [SRange "ps" [SCall "p.OutParam(pName).Send"]; SCall "wg.Done"])]; SCall "wg.Wait"].

Definition exp_components_IPSelectorSync_Run : list stm :=
  [SDefer (SCall "p.CloseAllOutPorts"); SRange "p.syncRead()" [SRange "ips" [SIf "!p.includeFunc(ip)" [SBranch "goto"] []]; SRange "ips" [SCall "p.Out(iname).Send"]; SUnknown "End: continue"]].

Definition exp_components_Concatenator_Run : list stm :=
  [SDefer (SCall "p.CloseAllOutPorts"); SCall "scipipe.NewFileIP"; SIf "err != nil" [SFail] []; SCall "os.MkdirAll(oipDir, 0777)"; SIf "err != nil" [SFail] []; SCall "os.Create"; SIf "err != nil" [SFail] []; SRange "p.In().Chan" [SCall "inIP.Tag"; SIf "tagVal != """"" [SIf "!ok" [SCall "scipipe.NewFileIP"; SIf "err != nil" [SFail] []; SCall "outIPForTag.AddTag"; SAssign "outIPsByTag[tagVal]"; SCall "os.Create"; SIf "err != nil" [SFail] []; SAssign "outFhsByTag[tagVal]"] []; SCall "ioutil.ReadFile"; SIf "err != nil" [SFail] []; SCall "outFhsByTag[tagVal].Write"; SIf "err != nil" [SFail] []; SCall "outFhsByTag[tagVal].Write"; SIf "err != nil" [SFail] []] [SCall "ioutil.ReadFile"; SIf "err != nil" [SFail] []; SCall "outFh.Write"; SIf "err != nil" [SFail] []; SCall "outFh.Write"; SIf "err != nil" [SFail] []]]; SCall "outFh.Close"; SIf "err != nil" [SFail] []; SRange "outFhsByTag" [SCall "taggedFh.Close"]; SCall "p.Out().Send"; SRange "outIPsByTag" [SCall "p.Out().Send"]].

Definition exp_components_FileSplitter_Run : list stm :=
  [SDefer (SCall "p.CloseAllOutPorts"); SRange "p.InFile().Chan" [SCall "p.newSplitIPFromIndex"; SIf "!splitIP.Exists()" [SCall "os.Open"; SIf "err != nil" [SCall "errWrapf"; SFail] []; SDefer (SCall "inFile.Close"); SCall "p.createNewSplitFile"; SCall "bufio.NewScanner"; SFor "scanner.Scan()" [SCall "splitFile.WriteString"; SIf "lineNo == splitNo*p.LinesPerSplit" [SCall "splitFile.Close"; SCall "scipipe.FinalizePaths"; SCall "p.OutSplitFile().Send"; SCall "p.newSplitIPFromIndex"; SCall "p.createNewSplitFile"] []]; SCall "splitFile.Close"; SCall "scipipe.FinalizePaths"; SCall "p.OutSplitFile().Send"; SIf "scanner.Err() != nil" [SCall "errWrapf"; SFail] []] []]].

Definition exp_components_FileSource_Run : list stm :=
  [SDefer (SCall "p.CloseAllOutPorts"); SRange "p.filePaths" [SCall "scipipe.NewFileIP"; SIf "err != nil" [SFail] []; SCall "p.Out().Send"]].

Definition exp_components_ParamSource_Run : list stm :=
  [SDefer (SCall "p.CloseAllOutPorts"); SRange "p.params" [SCall "p.Out().Send"]].

