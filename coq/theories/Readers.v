(* FileToParamsReader and CommandToParams (C19): both hand the text they read to bufio.Scanner with ScanLines and emit one
   parameter per token.  lines_of (Splitter.v) is that scanner; these are the "exactly the read items, in order" statements. *)
From Coq Require Import List Arith Lia Bool.
Import ListNotations.
Require Import Splitter.

Definition no_lf (l : list byte) : Prop := ~ In LF l.
Definition no_trailing_cr (l : list byte) : Prop := forall r, l <> r ++ [CR].

Lemma dropCR_id l : no_trailing_cr l -> dropCR l = l.
Proof.
  intros H. unfold dropCR. destruct (rev l) as [|c r] eqn:E; [reflexivity|].
  destruct (Nat.eqb_spec c CR) as [->|]; [|reflexivity].
  exfalso. apply (H (rev r)). rewrite <- (rev_involutive l), E. simpl. reflexivity.
Qed.

Lemma scan_line l : forall cur r, no_lf l -> scan_lines (l ++ LF :: r) cur = dropCR (rev cur ++ l) :: scan_lines r [].
Proof.
  induction l as [|c l IH]; intros cur r H; simpl.
  - rewrite app_nil_r. reflexivity.
  - destruct (Nat.eqb_spec c LF) as [->|N]; [exfalso; apply H; left; reflexivity|].
    rewrite IH; [|intros X; apply H; right; exact X]. simpl. rewrite <- app_assoc. reflexivity.
Qed.

Lemma scan_last l : forall cur, no_lf l -> scan_lines l cur = match rev cur ++ l with [] => [] | _ => [dropCR (rev cur ++ l)] end.
Proof.
  induction l as [|c l IH]; intros cur H; simpl.
  - rewrite app_nil_r. destruct cur; simpl; [reflexivity|]. destruct (rev cur ++ [b]) eqn:E; [destruct (rev cur); discriminate|reflexivity].
  - destruct (Nat.eqb_spec c LF) as [->|N]; [exfalso; apply H; left; reflexivity|].
    rewrite IH; [|intros X; apply H; right; exact X]. simpl. rewrite <- app_assoc. reflexivity.
Qed.

(* text made of complete lines: one parameter per line, in order, nothing else *)
Theorem reader_emits_the_lines (ls : list (list byte)) :
  Forall no_lf ls -> Forall no_trailing_cr ls ->
  lines_of (concat (map (fun l => l ++ [LF]) ls)) = ls.
Proof.
  unfold lines_of. induction ls as [|l ls IH]; intros F C; simpl; [reflexivity|].
  inversion F as [|? ? Fl Fr]; inversion C as [|? ? Cl Cr]; subst.
  rewrite <- app_assoc. simpl. rewrite (scan_line l [] _ Fl). simpl. rewrite (dropCR_id l Cl), (IH Fr Cr). reflexivity.
Qed.

(* a last line without a newline is a line too *)
Theorem reader_emits_an_unterminated_last_line (ls : list (list byte)) (last : list byte) :
  Forall no_lf ls -> Forall no_trailing_cr ls -> no_lf last -> no_trailing_cr last -> last <> [] ->
  lines_of (concat (map (fun l => l ++ [LF]) ls) ++ last) = ls ++ [last].
Proof.
  unfold lines_of. induction ls as [|l ls IH]; intros F C Fl Cl NE; simpl.
  - rewrite (scan_last last [] Fl). simpl. destruct last; [congruence|]. rewrite (dropCR_id _ Cl). reflexivity.
  - inversion F as [|? ? F1 Fr]; inversion C as [|? ? C1 Cr]; subst.
    rewrite <- !app_assoc. simpl. rewrite (scan_line l [] _ F1). simpl. rewrite (dropCR_id l C1), (IH Fr Cr Fl Cl NE). reflexivity.
Qed.

(* nothing read, nothing emitted: a command that prints nothing, an empty parameter file *)
Theorem reader_of_nothing_emits_nothing : lines_of [] = [].
Proof. reflexivity. Qed.

(* blank lines are items (the empty value) -- they are neither dropped nor merged *)
Example reader_keeps_blank_lines : lines_of [97; LF; LF; 98; LF] = [[97]; []; [98]].
Proof. reflexivity. Qed.
