(* Audit files beside outputs, on top of TaskFS.

   Task.Execute calls writeAuditLogs after the command and before ensureAllOutputsExist / finalizePaths (T1: exp_Task_Execute), and
   WriteAuditLogToFile writes <final path>.audit.json directly -- not into the temp directory.  So the record of an output is on
   disk before the output is renamed to its final path.  `late = false` is that order; `late = true` is a variant in which the
   record reaches its place only after the renames (as when it is written into the temp dir and moved with the remaining files).

   audited: in every reachable state -- every schedule, every kill instant -- a declared output path whose content is no longer
   the initial one has the audit record of its own task next to it.  That is what lets a re-run that skips the task (C02, C03)
   still load the lineage (C11), and what C10's "every output has a complete record" needs at crash points. *)
From Coq Require Import List Arith Lia Bool PeanoNat.
Import ListNotations.
Require Import Result TaskFS TInv TPres Glue Cor.

Record ast := { base : st; aud : nat -> option nat }.     (* aud x = Some t: the record written by task t lies next to path x *)

Fixpoint set_all (f : nat -> option nat) (xs : list nat) (t : nat) : nat -> option nat :=
  match xs with [] => f | x :: r => set_all (upd f x (Some t)) r t end.

Lemma set_all_in f xs t x : In x xs -> set_all f xs t x = Some t.
Proof.
  revert f. induction xs as [|y r IH]; intros f H; [destruct H|]. simpl.
  destruct (in_dec Nat.eq_dec x r) as [I|N]; [apply IH; exact I|].
  destruct H as [->|H]; [|contradiction].
  assert (G : forall g, g x = Some t -> set_all g r t x = Some t).
  { clear IH. induction r as [|z r IH]; intros g E; simpl; [exact E|].
    apply IH; [intros X; apply N; right; exact X|]. unfold upd. destruct (Nat.eqb_spec x z); [reflexivity|exact E]. }
  apply G. unfold upd. rewrite Nat.eqb_refl. reflexivity.
Qed.

Lemma set_all_out f xs t x : ~ In x xs -> set_all f xs t x = f x.
Proof.
  revert f. induction xs as [|y r IH]; intros f H; [reflexivity|]. simpl.
  rewrite IH; [|intros X; apply H; right; exact X]. unfold upd. destruct (Nat.eqb_spec x y) as [->|]; [exfalso; apply H; left; reflexivity|reflexivity].
Qed.

Section AuditFS.
Variable c : cfg.
Variable late : bool.

Definition astep (s : ast) (a : act) : option ast :=
  match step c (base s) a with
  | None => None
  | Some s' =>
    Some {| base := s';
            aud := match a with
                   | ACmdOk t _ => if late then aud s else set_all (aud s) (tout (tk c t)) t
                   | AEndRen t => if late then set_all (aud s) (tout (tk c t)) t else aud s
                   | _ => aud s
                   end |}
  end.

Fixpoint arun (s : ast) (l : list act) : option ast :=
  match l with [] => Some s | a :: r => match astep s a with Some s' => arun s' r | None => None end end.

Lemma arun_base l : forall s s', arun s l = Some s' -> run c (base s) l = Some (base s').
Proof.
  induction l as [|a r IH]; simpl; intros s s' H; [injection H as <-; reflexivity|].
  unfold astep in H. destruct (step c (base s) a) as [s1|] eqn:S; [|discriminate]. simpl in H. apply (IH _ _ H).
Qed.

End AuditFS.

Section Audited.
Variable c : cfg.
Variable f0 : fs.
Variable left0 : nat -> bool.
Hypothesis WF : wfc c.

Definition ainit : ast := {| base := init c f0 left0; aud := fun _ => None |}.

(* a task past its command has the records of all its outputs in place *)
Definition AInv (s : ast) : Prop :=
  forall t x, t < nt c -> In x (tout (tk c t)) -> past_cmd (pcs (base s) t) = true -> aud s x = Some t.

Lemma step_pcs_other s a s' t : step c s a = Some s' -> node_of a <> t -> pcs s' t = pcs s t.
Proof.
  unfold step. destruct (exited s) eqn:E; [discriminate|]. destruct (negb _); [discriminate|].
  intros H N.
  destruct a; simpl in *;
    repeat match type of H with
           | match ?d with _ => _ end = _ => let Q := fresh "Q" in destruct d eqn:Q; try discriminate
           | (if ?d then _ else _) = _ => let Q := fresh "Q" in destruct d eqn:Q; try discriminate
           end;
    injection H as <-; simpl; try reflexivity; apply upd_other; congruence.
Qed.

Lemma step_node_lt s a s' : step c s a = Some s' -> node_of a < nt c.
Proof.
  unfold step. destruct (exited s); [discriminate|]. destruct (Nat.ltb (node_of a) (nt c)) eqn:L; simpl; [|discriminate].
  intros _. apply Nat.ltb_lt. exact L.
Qed.

(* the only step that takes a task past its command is ACmdOk *)
Lemma step_past_cmd s a s' : step c s a = Some s' -> past_cmd (pcs s (node_of a)) = false -> past_cmd (pcs s' (node_of a)) = true ->
  exists t omit, a = ACmdOk t omit.
Proof.
  unfold step. destruct (exited s) eqn:E; [discriminate|]. destruct (negb _); [discriminate|].
  intros H B A.
  destruct a; simpl in *;
    repeat match type of H with
           | match ?d with _ => _ end = _ => let Q := fresh "Q" in destruct d eqn:Q; try discriminate
           | (if ?d then _ else _) = _ => let Q := fresh "Q" in destruct d eqn:Q; try discriminate
           end;
    injection H as <-; simpl in A; rewrite ?upd_same in A; try discriminate; try congruence; eauto.
Qed.

Lemma astep_inv s a s' : AInv s -> astep c false s a = Some s' -> AInv s'.
Proof.
  intros I H. unfold astep in H. destruct (step c (base s) a) as [s1|] eqn:S; [|discriminate]. injection H as <-.
  intros t x Ht Hx P. simpl in *.
  destruct (Nat.eq_dec (node_of a) t) as [E|N].
  - (* the acting task *)
    destruct (past_cmd (pcs (base s) t)) eqn:B.
    + (* it was past its command already: the records are there, and this step does not take them away *)
      pose proof (I t x Ht Hx B) as A.
      destruct a; simpl in *; try exact A.
      subst t0. unfold step in S. destruct (exited (base s)); [discriminate|]. destruct (negb _); [discriminate|].
      destruct (pcs (base s) t) eqn:Q; try discriminate.
    + subst t. destruct (step_past_cmd _ _ _ S B P) as (t & omit & ->). simpl in *.
      apply set_all_in. exact Hx.
  - rewrite (step_pcs_other _ _ _ t S N) in P. pose proof (I t x Ht Hx P) as A.
    destruct a; simpl in *; try exact A.
    rewrite set_all_out; [exact A|]. intros X. apply (w_disj c WF t0 t x); auto. eapply step_node_lt in S. exact S.
Qed.

Lemma arun_inv l : forall s s', AInv s -> arun c false s l = Some s' -> AInv s'.
Proof.
  induction l as [|a r IH]; simpl; intros s s' I H; [injection H as <-; exact I|].
  destruct (astep c false s a) as [s1|] eqn:S; [|discriminate]. apply (IH s1 s'); [eapply astep_inv; eauto|exact H].
Qed.

Lemma ainit_inv : AInv ainit.
Proof. intros t x _ _ P. simpl in P. discriminate. Qed.

(* every declared output path that no longer holds its initial content has the audit record of its task next to it *)
Theorem audited l s : arun c false ainit l = Some s ->
  forall t x, t < nt c -> In x (tout (tk c t)) -> fin (base s) x <> f0 x -> aud s x = Some t.
Proof.
  intros R t x Ht Hx D.
  pose proof (arun_inv l _ _ ainit_inv R) as I.
  assert (RB : reachable c f0 left0 (base s)) by (exists l; exact (arun_base c false l _ _ R)).
  destruct (TInv.C01_atomic c f0 left0 (base s) (reach_inv c f0 left0 WF _ RB) t x Ht Hx) as [E|(P & _)]; [contradiction|].
  exact (I t x Ht Hx P).
Qed.

End Audited.

(* ---- the other order: the record arrives after the renames ---- *)
Definition one : cfg := {| nt := 1; tk := fun _ => {| tin := []; tout := [0]; sem := fun _ => Some [42] |} |}.

(* killed after the rename of the output: the output is final, its record is not there -- and a re-run skips the task *)
Theorem late_record_refuted :
  exists s, arun one true (ainit one (fun _ => None) (fun _ => false))
                 [AStart 0; AChkTemp 0; AChkOut 0; AMkTemp 0; ACmdOk 0 []; AEnsure 0 [0]; ARename 0] = Some s
            /\ fin (base s) 0 = Some 42 /\ aud s 0 = None.
Proof. eexists. split; [vm_compute; reflexivity|]. split; reflexivity. Qed.

Example audited_nonvacuous :
  exists s, arun one false (ainit one (fun _ => None) (fun _ => false))
                 [AStart 0; AChkTemp 0; AChkOut 0; AMkTemp 0; ACmdOk 0 []; AEnsure 0 [0]; ARename 0] = Some s
            /\ fin (base s) 0 = Some 42 /\ aud s 0 = Some 0.
Proof. eexists. split; [vm_compute; reflexivity|]. split; reflexivity. Qed.
