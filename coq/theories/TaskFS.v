(* Prototype: Task.Execute / FinalizePaths over an abstract file store, for a DAG
   of tasks, any interleaving, crash = stop anywhere. *)
From Coq Require Import List Arith Lia Bool PeanoNat.
Import ListNotations.
Require Import Result.

Inductive pc :=
| Wait | ChkTemp | ChkOut | MkTemp | Cmd | Ensure
| Ren (todo : list nat)      (* declared outputs still to be renamed, in the chosen order *)
| RmTemp | DoneRan | DoneSkip.

Record cfg := { nt : nat; tk : nat -> task }.

Record st := {
  fin  : fs;                          (* files at final paths *)
  tmp  : nat -> nat -> option content;(* tmp t x : file for final location x inside t's temp dir *)
  tdir : nat -> bool;                 (* temp dir of t exists *)
  pcs  : nat -> pc;
  val  : nat -> list content;         (* ghost: what t's command produced *)
  exited : bool
}.

Definition upd {A} (f : nat -> A) (i : nat) (a : A) : nat -> A := fun j => if Nat.eqb j i then a else f j.

Definition init (c : cfg) (f0 : fs) (leftover : nat -> bool) : st :=
  {| fin := f0; tmp := fun _ _ => None; tdir := leftover; pcs := fun _ => Wait; val := fun _ => []; exited := false |}.

Definition is_done (p : pc) := match p with DoneRan | DoneSkip => true | _ => false end.

Definition shares (l1 l2 : list nat) : bool := existsb (fun x => existsb (Nat.eqb x) l2) l1.

(* all producers of t's inputs are done *)
Definition deps_done (c : cfg) (s : st) (t : nat) : bool :=
  forallb (fun d => negb (shares (tout (tk c d)) (tin (tk c t))) || is_done (pcs s d)) (seq 0 t).

Fixpoint is_perm (l1 l2 : list nat) : bool :=
  match l1 with
  | [] => match l2 with [] => true | _ => false end
  | a :: r => existsb (Nat.eqb a) l2 && is_perm r (remove Nat.eq_dec a l2)
  end.

Inductive act :=
| AStart (t : nat)
| AChkTemp (t : nat)
| AChkOut (t : nat)
| AMkTemp (t : nat)
| AWrite (t x : nat) (cnt : content)        (* the command writes (part of) a file in its temp dir *)
| ACmdOk (t : nat) (omit : list nat)        (* exit 0; outputs in `omit` were not produced *)
| ACmdFail (t : nat)                        (* non-zero exit / signal *)
| AEnsure (t : nat) (perm : list nat)
| ARename (t : nat)
| AEndRen (t : nat)
| ARmTemp (t : nat).

Definition set_pc (s : st) (t : nat) (p : pc) : st :=
  {| fin := fin s; tmp := tmp s; tdir := tdir s; pcs := upd (pcs s) t p; val := val s; exited := exited s |}.
Definition fail (s : st) : st :=
  {| fin := fin s; tmp := tmp s; tdir := tdir s; pcs := pcs s; val := val s; exited := true |}.

Fixpoint write_tmp (f : nat -> option content) (os : list nat) (cs : list content) (omit : list nat) : nat -> option content :=
  match os, cs with
  | o :: os', c :: cs' =>
    write_tmp (fun x => if Nat.eqb x o then (if existsb (Nat.eqb o) omit then None else Some c) else f x) os' cs' omit
  | _, _ => f
  end.

Definition node_of (a : act) : nat :=
  match a with
  | AStart t | AChkTemp t | AChkOut t | AMkTemp t | AWrite t _ _ | ACmdOk t _ | ACmdFail t
  | AEnsure t _ | ARename t | AEndRen t | ARmTemp t => t
  end.

Definition step (c : cfg) (s : st) (a : act) : option st :=
  if exited s then None else
  if negb (Nat.ltb (node_of a) (nt c)) then None else
  match a with
  | AStart t =>
    match pcs s t with
    | Wait => if deps_done c s t then Some (set_pc s t ChkTemp) else None
    | _ => None end
  | AChkTemp t =>
    match pcs s t with
    | ChkTemp => if tdir s t then Some (fail s) else Some (set_pc s t ChkOut)
    | _ => None end
  | AChkOut t =>
    match pcs s t with
    | ChkOut => if any_exists (fin s) (tout (tk c t)) then Some (set_pc s t DoneSkip) else Some (set_pc s t MkTemp)
    | _ => None end
  | AMkTemp t =>
    match pcs s t with
    | MkTemp => Some {| fin := fin s; tmp := tmp s; tdir := upd (tdir s) t true; pcs := upd (pcs s) t Cmd; val := val s; exited := false |}
    | _ => None end
  | AWrite t x cnt =>
    match pcs s t with
    | Cmd => Some {| fin := fin s; tmp := upd (tmp s) t (upd (tmp s t) x (Some cnt)); tdir := tdir s; pcs := pcs s; val := val s; exited := false |}
    | _ => None end
  | ACmdOk t omit =>
    match pcs s t with
    | Cmd =>
      match sem (tk c t) (map (fin s) (tin (tk c t))) with
      | Some cs => Some {| fin := fin s; tmp := upd (tmp s) t (write_tmp (tmp s t) (tout (tk c t)) cs omit);
                           tdir := tdir s; pcs := upd (pcs s) t Ensure; val := upd (val s) t cs; exited := false |}
      | None => None     (* a failing command exits through ACmdFail *)
      end
    | _ => None end
  | ACmdFail t =>
    match pcs s t with
    | Cmd => Some (fail s)
    | _ => None end
  | AEnsure t perm =>
    match pcs s t with
    | Ensure =>
      if forallb (fun x => isSome (tmp s t x)) (tout (tk c t))
      then (if is_perm perm (tout (tk c t)) then Some (set_pc s t (Ren perm)) else None)
      else Some (fail s)
    | _ => None end
  | ARename t =>
    match pcs s t with
    | Ren (x :: todo) =>
      Some {| fin := upd (fin s) x (tmp s t x); tmp := upd (tmp s) t (upd (tmp s t) x None);
              tdir := tdir s; pcs := upd (pcs s) t (Ren todo); val := val s; exited := false |}
    | _ => None end
  | AEndRen t =>
    match pcs s t with
    | Ren [] => Some (set_pc s t RmTemp)
    | _ => None end
  | ARmTemp t =>
    match pcs s t with
    | RmTemp => Some {| fin := fin s; tmp := upd (tmp s) t (fun _ => None); tdir := upd (tdir s) t false;
                        pcs := upd (pcs s) t DoneRan; val := val s; exited := false |}
    | _ => None end
  end.

Fixpoint run (c : cfg) (s : st) (sched : list act) : option st :=
  match sched with
  | [] => Some s
  | a :: r => match step c s a with Some s' => run c s' r | None => None end
  end.
