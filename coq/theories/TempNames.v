(* Prototype: Task.TempDir naming (C14): validity, stability, reduction of injectivity to SHA-1 collisions. *)
From Coq Require Import List Ascii String NArith Arith Lia Bool.
Import ListNotations.
Require Import Sha1.
Local Open Scope N_scope.
Notation length := List.length.

Definition str := list ascii.
Definition s2l (s : string) : str := list_ascii_of_string s.

(* ---- sanitizePathFragment on ASCII: ToLower, then runs of [^a-z0-9_.-] -> "_" ---- *)
Definition lower (c : ascii) : ascii :=
  let n := N_of_ascii c in if (65 <=? n) && (n <=? 90) then ascii_of_N (n + 32) else c.
Definition allowed (c : ascii) : bool :=
  let n := N_of_ascii c in
  ((97 <=? n) && (n <=? 122)) || ((48 <=? n) && (n <=? 57)) || (n =? 95) || (n =? 45) || (n =? 46).
Fixpoint squash (s : str) (inrun : bool) : str :=
  match s with
  | [] => []
  | c :: r => if allowed c then c :: squash r false
              else if inrun then squash r true else "_"%char :: squash r true
  end.
Definition sanitize (s : str) : str := squash (map lower s) false.

Lemma squash_allowed s b : Forall (fun c => allowed c = true) (squash s b).
Proof.
  revert b; induction s as [|c r IH]; intros b; simpl; [constructor|].
  destruct (allowed c) eqn:A; [constructor; auto|].
  destruct b; [apply IH|constructor; [reflexivity|apply IH]].
Qed.

(* ---- hex ---- *)
Definition hexd (n : N) : ascii := if n <? 10 then ascii_of_N (48 + n) else ascii_of_N (87 + n).
Definition hexb (b : N) : str := [hexd (b / 16); hexd (b mod 16)].
Definition hexs (l : list N) : str := flat_map hexb l.

Lemma hexd_allowed n : n < 16 -> allowed (hexd n) = true.
Proof.
  intros H. assert (n = 0 \/ n = 1 \/ n = 2 \/ n = 3 \/ n = 4 \/ n = 5 \/ n = 6 \/ n = 7 \/ n = 8 \/ n = 9 \/
                    n = 10 \/ n = 11 \/ n = 12 \/ n = 13 \/ n = 14 \/ n = 15) by lia.
  repeat (destruct H0 as [->|H0]; [reflexivity|]). subst; reflexivity.
Qed.

Lemma hexd_inj a b : a < 16 -> b < 16 -> hexd a = hexd b -> a = b.
Proof.
  intros Ha Hb.
  assert (A : a = 0 \/ a = 1 \/ a = 2 \/ a = 3 \/ a = 4 \/ a = 5 \/ a = 6 \/ a = 7 \/ a = 8 \/ a = 9 \/
              a = 10 \/ a = 11 \/ a = 12 \/ a = 13 \/ a = 14 \/ a = 15) by lia.
  assert (B : b = 0 \/ b = 1 \/ b = 2 \/ b = 3 \/ b = 4 \/ b = 5 \/ b = 6 \/ b = 7 \/ b = 8 \/ b = 9 \/
              b = 10 \/ b = 11 \/ b = 12 \/ b = 13 \/ b = 14 \/ b = 15) by lia.
  repeat (destruct A as [->|A]); subst;
    repeat (destruct B as [->|B]); subst; try reflexivity; intros E; vm_compute in E; discriminate E.
Qed.

Definition bytes (l : list N) := Forall (fun b => b < 256) l.

Lemma hexs_length l : length (hexs l) = (2 * length l)%nat.
Proof. induction l; simpl; auto. lia. Qed.

Lemma hexs_inj l1 : forall l2, bytes l1 -> bytes l2 -> hexs l1 = hexs l2 -> l1 = l2.
Proof.
  induction l1 as [|a l1 IH]; intros [|b l2] B1 B2 E; simpl in E; try discriminate; auto.
  inversion B1; subst. inversion B2; subst. injection E as E1 E2 E3.
  assert (a / 16 < 16 /\ b / 16 < 16 /\ a mod 16 < 16 /\ b mod 16 < 16).
  { repeat split; try (apply N.mod_lt; lia); apply N.div_lt_upper_bound; lia. }
  destruct H as [h1 [h2 [h3 h4]]].
  apply hexd_inj in E1; auto. apply hexd_inj in E2; auto.
  f_equal; [|apply IH; auto].
  rewrite (N.div_mod a 16), (N.div_mod b 16) by lia. lia.
Qed.

Lemma hexs_allowed l : bytes l -> Forall (fun c => allowed c = true) (hexs l).
Proof.
  induction 1 as [|b l Hb Hl IH]; simpl; [constructor|].
  constructor; [apply hexd_allowed; apply N.div_lt_upper_bound; lia|].
  constructor; [apply hexd_allowed; apply N.mod_lt; lia|exact IH].
Qed.

(* ---- SHA-1 output shape ---- *)
Lemma be_bytes_len n x : length (be_bytes n x) = n.
Proof. unfold be_bytes. now rewrite rev_length, map_length, seq_length. Qed.
Lemma be_bytes_bytes n x : bytes (be_bytes n x).
Proof.
  unfold be_bytes, bytes. apply Forall_rev. apply Forall_forall. intros b Hb.
  apply in_map_iff in Hb. destruct Hb as [i [<- _]].
  change 255 with (N.ones 8). rewrite N.land_ones. apply N.mod_lt. discriminate.
Qed.

Lemma sha1_shape m : length (sha1 m) = 20%nat /\ bytes (sha1 m).
Proof.
  unfold sha1. destruct (fold_left _ _ _) as [[[[h0 h1] h2] h3] h4].
  split.
  - rewrite !app_length, !be_bytes_len. reflexivity.
  - unfold bytes. rewrite !Forall_app. repeat split; apply be_bytes_bytes.
Qed.

(* ---- the directory name ---- *)
Definition to_bytes (s : str) : list N := map N_of_ascii s.
Definition pfx : str := s2l "_scipipe_tmp".
Definition dot : ascii := "."%char.

(* `pre` is the joined hash pre-image (name, input path pieces, params, tags) *)
Definition tempdir (name pre : str) : str :=
  let p := pfx ++ dot :: sanitize name in
  if Nat.ltb 214 (length p)
  then pfx ++ dot :: hexs (sha1 (to_bytes (pre ++ p)))
  else p ++ dot :: hexs (sha1 (to_bytes pre)).

Definition hashed (name pre : str) : str :=
  let p := pfx ++ dot :: sanitize name in if Nat.ltb 214 (length p) then pre ++ p else pre.

Lemma pfx_allowed : Forall (fun c => allowed c = true) pfx.
Proof. repeat constructor. Qed.

(* C14: the name is one valid path segment of at most 255 bytes, for every identity *)
Theorem C14_valid_segment name pre :
  (length (tempdir name pre) <= 255)%nat /\ Forall (fun c => allowed c = true) (tempdir name pre).
Proof.
  unfold tempdir. set (p := pfx ++ dot :: sanitize name).
  assert (Hp : Forall (fun c => allowed c = true) p).
  { unfold p. apply Forall_app. split; [apply pfx_allowed|]. constructor; [reflexivity|apply squash_allowed]. }
  clearbody p.
  destruct (Nat.ltb_spec 214 (length p)) as [L|L].
  - destruct (sha1_shape (to_bytes (pre ++ p))) as [Hl Hb]. split.
    + rewrite app_length. simpl length. rewrite hexs_length, Hl. simpl. lia.
    + apply Forall_app. split; [apply pfx_allowed|]. constructor; [reflexivity|apply hexs_allowed; auto].
  - destruct (sha1_shape (to_bytes pre)) as [Hl Hb]. split.
    + rewrite app_length. simpl length. rewrite hexs_length, Hl. lia.
    + apply Forall_app. split; auto. constructor; [reflexivity|apply hexs_allowed; auto].
Qed.

Lemma app_tail_inj {A} (l1 l2 s1 s2 : list A) :
  l1 ++ s1 = l2 ++ s2 -> length s1 = length s2 -> l1 = l2 /\ s1 = s2.
Proof.
  revert l2; induction l1 as [|a l1 IH]; intros [|b l2] E L; simpl in *.
  - auto.
  - subst. simpl in L. rewrite app_length in L. lia.
  - subst. simpl in L. rewrite app_length in L. lia.
  - injection E as -> E. destruct (IH l2 E L) as [-> ->]. auto.
Qed.

(* C14: a clash of temp-dir names between tasks with different hashed pre-images
   exhibits a SHA-1 collision; nothing about SHA-1 is assumed *)
Theorem C14_reduction n1 p1 n2 p2 :
  tempdir n1 p1 = tempdir n2 p2 ->
  sha1 (to_bytes (hashed n1 p1)) = sha1 (to_bytes (hashed n2 p2)).
Proof.
  unfold tempdir, hashed.
  set (q1 := pfx ++ dot :: sanitize n1). set (q2 := pfx ++ dot :: sanitize n2).
  assert (Hsuf : forall (a b : str) (m1 m2 : list N),
     a ++ dot :: hexs (sha1 m1) = b ++ dot :: hexs (sha1 m2) -> sha1 m1 = sha1 m2).
  { intros a b m1 m2 E. destruct (sha1_shape m1) as [L1 B1]. destruct (sha1_shape m2) as [L2 B2].
    apply app_tail_inj in E; [|simpl; rewrite !hexs_length; lia].
    destruct E as [_ E]. injection E as E. apply hexs_inj; auto. }
  destruct (Nat.ltb 214 (length q1)); destruct (Nat.ltb 214 (length q2)); intros E; eapply Hsuf; eauto.
Qed.
Print Assumptions C14_valid_segment.
Print Assumptions C14_reduction.
