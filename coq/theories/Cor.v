(* Prototype: corollaries for C02 / C03 / C09 on the TaskFS machine. *)
From Coq Require Import List Arith Lia Bool PeanoNat.
Import ListNotations.
Require Import Result TaskFS TInv TPres Glue.

Section Cor.
Variable c : cfg.
Variable f0 : fs.
Variable left0 : nat -> bool.
Hypothesis WF : wfc c.

Lemma run_inv sched : forall s s', Inv c f0 s -> run c s sched = Some s' -> Inv c f0 s'.
Proof.
  induction sched as [|a r IH]; simpl; intros s s' HI H.
  - injection H as <-. exact HI.
  - destruct (step c s a) eqn:E; [|discriminate]. apply (IH s0 s'); auto. eapply step_inv; eauto.
Qed.

Definition reachable (s : st) := exists sched, run c (init c f0 left0) sched = Some s.

Lemma reach_inv s : reachable s -> Inv c f0 s.
Proof. intros [sched H]. eapply run_inv; eauto. apply init_inv. Qed.

(* C02_skip: a task one of whose declared outputs pre-exists never gets past the
   skip check: its temp dir is never made and its command never runs *)
Theorem C02_skip s t x cnt : reachable s -> t < nt c -> In x (tout (tk c t)) -> f0 x = Some cnt ->
  past_chk (pcs s t) = false.
Proof.
  intros R Ht Hx Hf. destruct (reach_inv s R) as [HT _]. destruct (HT t Ht) as [_ a2 _ _ _ _ _].
  destruct (past_chk (pcs s t)) eqn:P; auto. rewrite (a2 eq_refl x Hx) in Hf. discriminate.
Qed.

(* C02_untouched: every pre-existing file at a declared output path keeps its content *)
Theorem C02_untouched s t x cnt : reachable s -> t < nt c -> In x (tout (tk c t)) -> f0 x = Some cnt ->
  fin s x = Some cnt.
Proof.
  intros R Ht Hx Hf. pose proof (C02_skip s t x cnt R Ht Hx Hf) as P.
  destruct (reach_inv s R) as [HT _]. destruct (HT t Ht) as [a1 _ _ _ _ _ _].
  destruct (a1 x Hx) as [_ b2]. rewrite <- Hf. apply b2.
  intros C. destruct (pcs s t); simpl in *; try discriminate; tauto.
Qed.

(* C09: after a failure nothing moves any more, and the failing task's outputs are untouched *)
Theorem C09_exit_is_final s a : exited s = true -> step c s a = None.
Proof. intros H. unfold step. now rewrite H. Qed.

Theorem C09_failed_outputs_untouched s t x : reachable s -> t < nt c -> In x (tout (tk c t)) ->
  past_cmd (pcs s t) = false -> fin s x = f0 x.
Proof.
  intros R Ht Hx P. destruct (reach_inv s R) as [HT _]. destruct (HT t Ht) as [a1 _ _ _ _ _ _].
  destruct (a1 x Hx) as [_ b2]. apply b2. intros C. destruct (pcs s t); simpl in *; try discriminate; tauto.
Qed.

(* a dependant never starts before its producer is done *)
Theorem C09_no_dependants s t d : reachable s -> t < nt c -> d < t ->
  shares (tout (tk c d)) (tin (tk c t)) = true -> pcs s t <> Wait -> is_done (pcs s d) = true.
Proof.
  intros R Ht Hd Hs Hw. destruct (reach_inv s R) as [HT _]. destruct (HT t Ht) as [_ _ _ _ _ a6 _]. auto.
Qed.

(* C03 link: a crash state in which no task is in the middle of its renames lies
   task-atomically between the initial files and the reference result *)
Definition finalize_atomic (s : st) : Prop :=
  forall t todo, t < nt c -> pcs s t = Ren todo -> todo = [] \/ (forall x, In x (tout (tk c t)) -> In x todo).

Variable fR : fs.
Hypothesis HR : pre c f0 (nt c) = Some fR.

Theorem crash_between s : reachable s -> finalize_atomic s ->
  (forall x, (forall t, t < nt c -> ~ In x (tout (tk c t))) -> fin s x = f0 x) /\
  (forall t, t < nt c -> agree_on (tout (tk c t)) (fin s) f0 \/ agree_on (tout (tk c t)) (fin s) fR).
Proof.
  intros R FA. pose proof (reach_inv s R) as HI. destruct HI as [HT HG]. split; [exact HG|].
  intros t Ht. destruct (HT t Ht) as [a1 _ _ _ _ _ _].
  destruct (committed_is_ref c f0 WF fR HR s (conj HT HG) t Ht) as [Hc _].
  assert (Hall : (forall x, In x (tout (tk c t)) -> committed (pcs s t) x) \/
                 (forall x, In x (tout (tk c t)) -> ~ committed (pcs s t) x)).
  { destruct (pcs s t) eqn:P; simpl; try (right; tauto); try (left; intros; exact I).
    destruct (FA t todo Ht P) as [->|Hin]; [left; intros x Hx []|right; intros x Hx Hn; apply Hn; auto]. }
  destruct Hall as [A|A]; [right|left]; intros x Hx.
  - apply Hc; auto.
  - apply a1; auto.
Qed.

End Cor.
Print Assumptions crash_between.
Print Assumptions C02_untouched.
