(* Draining the FIFOs of a skipped task's streaming inputs (finding D22).
   A task that is skipped on a re-run reads and discards what arrives on the FIFOs of its streaming inputs.  Opening a
   FIFO blocks until the other side opens it too, and the upstream task writes its FIFOs in an order of its own.
   Sequential draining in another order waits for ever; concurrent draining never does. *)
From Coq Require Import List Arith Lia Bool PeanoNat.
Import ListNotations.

(* the producer's remaining writes, in order; the FIFOs a reader is currently waiting to open *)
Record st := { pw : list nat; waiting : list nat; later : list nat }.

(* one rendezvous: the producer's next FIFO is one a reader is waiting on; it is written, read to EOF, closed.
   A sequential drainer waits on one FIFO at a time ([waiting] holds one, [later] the rest, in the drainer's order);
   a concurrent drainer waits on all of them ([later] is empty). *)
Definition step (s : st) : option st :=
  match pw s with
  | f :: r =>
      if existsb (Nat.eqb f) (waiting s)
      then let w := filter (fun x => negb (Nat.eqb x f)) (waiting s) in
           match w, later s with
           | [], g :: l => Some {| pw := r; waiting := [g]; later := l |}     (* the sequential drainer moves on *)
           | _, _ => Some {| pw := r; waiting := w; later := later s |}
           end
      else None
  | [] => None
  end.

Definition sequential (order : list nat) (writes : list nat) : st :=
  match order with [] => {| pw := writes; waiting := []; later := [] |} | g :: l => {| pw := writes; waiting := [g]; later := l |} end.
Definition concurrent (fifos : list nat) (writes : list nat) : st := {| pw := writes; waiting := fifos; later := [] |}.

(* concurrent draining: whatever the producer's order, as long as it writes each FIFO the drainer waits on (once), every state
   before the end can step -- for any number of FIFOs *)
Theorem concurrent_progress : forall (writes fifos : list nat),
  NoDup writes -> (forall f, In f writes -> In f fifos) ->
  forall n s, n <= length writes ->
  s = {| pw := skipn n writes; waiting := filter (fun x => negb (existsb (Nat.eqb x) (firstn n writes))) fifos; later := [] |} ->
  pw s <> [] -> step s <> None.
Proof.
  intros writes fifos ND Hin n s Hn -> Hne. unfold step. simpl in *.
  destruct (skipn n writes) as [|f r] eqn:E; [congruence|].
  assert (Hf : In f writes). { rewrite <- (firstn_skipn n writes). apply in_or_app. right. rewrite E. left. reflexivity. }
  assert (Hnf : ~ In f (firstn n writes)).
  { rewrite <- (firstn_skipn n writes) in ND. rewrite E in ND. apply NoDup_remove_2 in ND. intros H. apply ND. apply in_or_app. left. exact H. }
  assert (W : existsb (Nat.eqb f) (filter (fun x => negb (existsb (Nat.eqb x) (firstn n writes))) fifos) = true).
  { apply existsb_exists. exists f. split; [|apply Nat.eqb_refl]. apply filter_In. split; [apply Hin; exact Hf|].
    apply negb_true_iff. destruct (existsb (Nat.eqb f) (firstn n writes)) eqn:X; auto.
    apply existsb_exists in X. destruct X as [y [Hy Ey]]. apply Nat.eqb_eq in Ey. subst. contradiction. }
  rewrite W. destruct (filter _ (filter _ fifos)); discriminate.
Qed.

(* sequential draining in an order that differs from the producer's: stuck at once (two FIFOs, the D22 shape) *)
Theorem sequential_stuck : step (sequential [2; 1] [1; 2]) = None /\ pw (sequential [2; 1] [1; 2]) <> [].
Proof. split; [reflexivity|discriminate]. Qed.

(* ... while the concurrent drainer gets through the same producer *)
Example concurrent_example :
  match step (concurrent [2; 1] [1; 2]) with Some s1 => match step s1 with Some s2 => pw s2 = [] | None => False end | None => False end.
Proof. reflexivity. Qed.
