(* Prototype: every action of the network strictly decreases a potential, so every
   execution is finite (C05: Run returns after finitely many steps). *)
From Coq Require Import List Arith Lia Bool PeanoNat.
Import ListNotations.
Require Import NetA Inv Pres.

Local Arguments Nat.sub : simpl never.
Local Arguments Nat.mul : simpl never.

Section Term.
Variable c : cfg.
Variable len : nat -> nat.
Hypothesis WF : wf c len.

Definition EE := E c.
Definition K := EE + 5.

Definition ct_rank (x : ctst) : nat :=
  match x with CtIdle => EE + 3 | CtRecv todo _ => length todo + 2 | CtHand => 1 | CtDone => 0 end.
Definition rn_rank (x : runst) : nat :=
  match x with RSel => EE + 2 | RSend todo => length todo + 1 | RFin => 0 end.
Fixpoint nfalse (l : list bool) : nat := match l with [] => 0 | b :: r => (if b then 0 else 1) + nfalse r end.

Definition phi (v : nat) (n : nst) : nat :=
  (len v - cN n) * K + (len v - eN n) * K + ct_rank (ct n) + rn_rank (rn n) + nfalse (fl n).

Fixpoint sumto (f : nat -> nat) (n : nat) : nat := match n with O => 0 | S k => f k + sumto f k end.

Definition Phi (s : st) : nat := sumto (fun v => phi v (ns s v)) (nn c).

Lemma sumto_ext f g n : (forall i, i < n -> f i = g i) -> sumto f n = sumto g n.
Proof. induction n; simpl; intros H; auto. rewrite H, IHn; auto. Qed.

Lemma sumto_upd f g n v : v < n -> (forall i, i <> v -> f i = g i) ->
  sumto f n + g v = sumto g n + f v.
Proof.
  induction n as [|n IH]; intros Hv Hext; [lia|]. simpl.
  destruct (Nat.eq_dec v n) as [->|Hne].
  - rewrite (sumto_ext f g n) by (intros i Hi; apply Hext; lia). lia.
  - rewrite (Hext n) by lia. assert (v < n) by lia. specialize (IH H Hext). lia.
Qed.

Lemma perm_len l1 l2 : is_perm l1 l2 = true -> NoDup l2 -> length l1 = length l2.
Proof.
  intros H ND. destruct (is_perm_in _ _ H ND) as [Hin ND1].
  apply Nat.le_antisymm; apply NoDup_incl_length; auto; intros x Hx; apply Hin; auto.
Qed.

Lemma filter_len {A} (f : A -> bool) l : length (filter f l) <= length l.
Proof. induction l; simpl; auto. destruct (f a); simpl; lia. Qed.
Lemma ins_len v : length (ins c v) <= EE.
Proof. unfold ins, eids, EE, E. etransitivity; [apply filter_len|]. now rewrite seq_length. Qed.
Lemma outs_len v : length (outs c v) <= EE.
Proof. unfold outs, eids, EE, E. etransitivity; [apply filter_len|]. now rewrite seq_length. Qed.

Lemma nfalse_app l1 l2 : nfalse (l1 ++ l2) = nfalse l1 + nfalse l2.
Proof. induction l1 as [|[|] l1 IH]; simpl; auto; lia. Qed.

Lemma nfalse_set l : forall i, nth_error l i = Some false -> nfalse l = S (nfalse (set_nth l i true)).
Proof.
  induction l as [|b l IH]; intros [|i] H; simpl in *; try discriminate.
  - injection H as ->. reflexivity.
  - rewrite (IH i H). destruct b; simpl; lia.
Qed.

Lemma Phi_lt s s' v n' : v < nn c -> (forall w, w <> v -> ns s' w = ns s w) -> ns s' v = n' ->
  phi v n' < phi v (ns s v) -> Phi s' < Phi s.
Proof.
  intros Hv Hoth Hn Hlt. unfold Phi.
  pose proof (sumto_upd (fun w => phi w (ns s' w)) (fun w => phi w (ns s w)) (nn c) v Hv) as Hu.
  simpl in Hu. rewrite Hn in Hu. specialize (Hu (fun i Hi => f_equal (phi i) (Hoth i Hi))). lia.
Qed.

Lemma upd_o (f : nat -> nst) v n' w : w <> v -> upd f v n' w = f w.
Proof. intros Hw. unfold upd. destruct (Nat.eqb_spec w v); congruence. Qed.
Lemma upd_s (f : nat -> nst) v n' : upd f v n' v = n'.
Proof. unfold upd. now rewrite Nat.eqb_refl. Qed.

(* node-local decrease, given the counting invariant *)
Theorem step_decreases s a s' :
  Inv c len s -> node_of a < nn c -> step c s a = Some s' -> Phi s' < Phi s.
Proof.
  intros HI Hv Hstep. pose proof HI as [HN HE].
  destruct a as [v perm|v|v|v|v i|v perm|v|v|v]; simpl in Hv, Hstep;
    pose proof (HN v Hv) as NI; unfold NodeInv in NI; destruct NI as [n1 n2 n3 n4 n5 n6 n7];
    pose proof (Phi_lt s s' v) as Hkey; pose proof (fun f n' => upd_o f v n') as Hupd;
    pose proof (fun f n' => upd_s f v n') as Hupds; unfold phi, K in *.
  - (* ABegin *)
    destruct (ct (ns s v)) eqn:Ct; try discriminate.
    destruct (slen c v) as [L|].
    + destruct (Nat.ltb (cN (ns s v)) L); injection Hstep as <-;
        (eapply Hkey; [exact Hv|intros w Hw; simpl; apply Hupd; auto|simpl; apply Hupds|simpl; rewrite ?Ct; simpl; lia]).
    + destruct (is_perm perm (ins c v)) eqn:Hp; [|discriminate]. destruct (par_sorted c perm); [|discriminate]. cbn [andb] in *. injection Hstep as <-.
      pose proof (perm_len _ _ Hp (nodup_ins c v)) as Hl. pose proof (ins_len v).
      eapply Hkey; [exact Hv|intros w Hw; simpl; apply Hupd; auto|simpl; apply Hupds|simpl; rewrite ?Ct; simpl; lia].
  - (* ARecv *)
    destruct (ct (ns s v)) as [|todo0 saw| |] eqn:Ct; try discriminate.
    destruct todo0 as [|y todo]; try discriminate.
    destruct (Nat.ltb (rcv (es s y)) (snt (es s y))).
    + injection Hstep as <-.
      eapply Hkey; [exact Hv|intros w Hw; simpl; apply Hupd; auto|simpl; apply Hupds|simpl; rewrite ?Ct; simpl; lia].
    + destruct (clo (es s y)); [|discriminate]. injection Hstep as <-.
      eapply Hkey; [exact Hv|intros w Hw; simpl; apply Hupd; auto|simpl; apply Hupds|simpl; rewrite ?Ct; simpl; lia].
  - (* AEndRound *)
    destruct (ct (ns s v)) as [|todo0 saw| |] eqn:Ct; try discriminate.
    destruct saw; [destruct (forallb (epar c) todo0); try discriminate|destruct todo0; try discriminate]; cbn [andb] in *; injection Hstep as <-;
    (eapply Hkey; [exact Hv|intros w Hw; simpl; apply Hupd; auto|simpl; apply Hupds|simpl; rewrite ?Ct; simpl; lia]).
  - (* AHand *)
    destruct (ct (ns s v)) eqn:Ct; try discriminate.
    destruct (rn (ns s v)) eqn:Rn; try discriminate. injection Hstep as <-.
    unfold hand in n3. rewrite Ct in n3.
    eapply Hkey; [exact Hv|intros w Hw; simpl; apply Hupd; auto|simpl; apply Hupds|].
    simpl. rewrite ?Ct, ?Rn, nfalse_app. simpl in *.
    replace (len v - cN (ns s v)) with (S (len v - S (cN (ns s v)))) by lia. rewrite Nat.mul_succ_l. lia.
  - (* AExit *)
    destruct (nth_error (fl (ns s v)) i) as [[|]|] eqn:Hn; try discriminate. injection Hstep as <-.
    eapply Hkey; [exact Hv|intros w Hw; simpl; apply Hupd; auto|simpl; apply Hupds|].
    simpl. rewrite (nfalse_set _ _ Hn). lia.
  - (* APop *)
    destruct (rn (ns s v)) eqn:Rn; try discriminate.
    destruct (fl (ns s v)) as [|[|] rest] eqn:Fl; try discriminate.
    destruct (is_perm perm (outs c v)) eqn:Hp; [|discriminate]. injection Hstep as <-.
    pose proof (perm_len _ _ Hp (nodup_outs c v)) as Hl. pose proof (outs_len v).
    eapply Hkey; [exact Hv|intros w Hw; simpl; apply Hupd; auto|simpl; apply Hupds|simpl; rewrite ?Rn, ?Fl; simpl; lia].
  - (* ASend *)
    destruct (rn (ns s v)) as [|todo0|] eqn:Rn; try discriminate.
    destruct todo0 as [|x todo]; try discriminate.
    destruct (Nat.ltb (snt (es s x) - rcv (es s x)) (cap c)); [|discriminate]. injection Hstep as <-.
    eapply Hkey; [exact Hv|intros w Hw; simpl; apply Hupd; auto|simpl; apply Hupds|simpl; rewrite ?Rn; simpl; lia].
  - (* AEndSend *)
    destruct (rn (ns s v)) as [|todo0|] eqn:Rn; try discriminate.
    destruct todo0; try discriminate. injection Hstep as <-.
    assert (H : RSend [] <> RFin) by congruence. specialize (n1 H). unfold sending in n1. rewrite Rn in n1.
    unfold hand in n3.
    eapply Hkey; [exact Hv|intros w Hw; simpl; apply Hupd; auto|simpl; apply Hupds|].
    simpl. rewrite ?Rn. simpl in *. assert (eN (ns s v) < len v) by (destruct (ct (ns s v)); lia).
    replace (len v - eN (ns s v)) with (S (len v - S (eN (ns s v)))) by lia. rewrite Nat.mul_succ_l. lia.
  - (* AFin *)
    destruct (rn (ns s v)) eqn:Rn; try discriminate.
    destruct (ct (ns s v)) eqn:Ct; try discriminate.
    destruct (fl (ns s v)) eqn:Fl; try discriminate. injection Hstep as <-.
    eapply Hkey; [exact Hv|intros w Hw; rewrite close_all_ns; simpl; apply Hupd; auto
                 |rewrite close_all_ns; simpl; apply Hupds|simpl; rewrite ?Rn, ?Ct, ?Fl; simpl; lia].
Qed.

End Term.
Print Assumptions step_decreases.
