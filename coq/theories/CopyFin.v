(* What TaskFS takes from the operating system: a declared output reaches its final path by rename(2), which (within one file
   system) makes the complete file appear in one step -- ARename moves the whole temp content.  A finalization that *copies*
   onto the final path (say, as a fall-back when rename fails across file systems) makes a prefix visible first.  This file adds
   that one step to TaskFS and exhibits the state C01 and C03 exclude: a kill there leaves a partial file under the final name. *)
From Coq Require Import List Arith Lia Bool PeanoNat.
Import ListNotations.
Require Import Result TaskFS.

Inductive cact :=
| Plain (a : act)
| CopyPart (t x : nat) (part : content).      (* the copy loop has written `part`, a proper prefix, to the final path *)

Definition cstep (c : cfg) (s : st) (a : cact) : option st :=
  match a with
  | Plain a => step c s a
  | CopyPart t x part =>
    if exited s then None else
    match pcs s t with
    | Ren (y :: _) => if Nat.eqb x y
                      then Some {| fin := upd (fin s) x (Some part); tmp := tmp s; tdir := tdir s; pcs := pcs s; val := val s; exited := false |}
                      else None
    | _ => None
    end
  end.

Fixpoint crun (c : cfg) (s : st) (l : list cact) : option st :=
  match l with [] => Some s | a :: r => match cstep c s a with Some s' => crun c s' r | None => None end end.

Definition one : cfg := {| nt := 1; tk := fun _ => {| tin := []; tout := [0]; sem := fun _ => Some [42] |} |}.

(* the command succeeded with 42; the program is killed (no further step) while the copy has put 4 at the final path *)
Theorem copying_finalize_refuted :
  exists s, crun one (init one (fun _ => None) (fun _ => false))
                 [Plain (AStart 0); Plain (AChkTemp 0); Plain (AChkOut 0); Plain (AMkTemp 0); Plain (ACmdOk 0 []); Plain (AEnsure 0 [0]);
                  CopyPart 0 0 4] = Some s
            /\ fin s 0 = Some 4 /\ val s 0 = [42] /\ sem (tk one 0) [] = Some [42].
Proof. eexists. split; [vm_compute; reflexivity|]. repeat split. Qed.
