(* C12 -- No data races: concurrent branches never interfere through shared memory.   PARTIAL.
   A data race is a property of the Go memory model and of every access in the library; no executable model exhibits it.
   What is proved: (1) soundness of the lock discipline in a trace semantics with acquire / release / access events;
   (2) on the skeletons regenerated from the current source, every access to the shared audit record (tags map, record
   pointer), to the remote-port maps at close time and to the slot channel's deposit loop happens with the owning mutex held.
   Not covered by any theorem: completeness of the access enumeration (aliasing), channel hand-offs, logging, the runtime. *)
From Coq Require Import List String Bool Arith.
Import ListNotations.
From SP Require Import Skel Gen Expected ExpectedCones Lockset.
From SP Require TagShare.
Open Scope string_scope.

(* (1) two accesses of different threads that are both made while holding a common mutex are ordered by happens-before
   (program order, release -> later acquire, transitivity) in every valid trace: they do not race *)
Theorem C12_lockset_sound : forall (tr : nat -> ev) (N : nat), valid tr N ->
  forall (i j t1 t2 x : nat) (w1 w2 : bool) (l : nat),
  i < j -> j < N -> tr i = Acc t1 x w1 -> tr j = Acc t2 x w2 -> t1 <> t2 ->
  holder tr i l = Some t1 -> holder tr j l = Some t2 -> hb tr N i j.
Proof. exact Lockset.C12_lockset_sound. Qed.

(* the synchronised accessors of the shared audit record have the shape the discipline argument was made for: in particular
   every snapshot and every Tags() result gets a map of its own, unconditionally *)
Theorem C12_code_conforms :
  skel_eqb skel_FileIP_auditInfoSnapshot exp_FileIP_auditInfoSnapshot
  && skel_eqb skel_FileIP_Tags exp_FileIP_Tags
  && skel_eqb skel_FileIP_AddTag exp_FileIP_AddTag
  && skel_eqb skel_FileIP_AddTags exp_FileIP_AddTags
  && skel_eqb skel_FileIP_AuditInfo exp_FileIP_AuditInfo
  && skel_eqb skel_FileIP_SetAuditInfo exp_FileIP_SetAuditInfo
  && skel_eqb skel_FileIP_WriteAuditLogToFile exp_FileIP_WriteAuditLogToFile
  && skel_eqb skel_Task_writeAuditLogs exp_Task_writeAuditLogs
  && skel_eqb skel_InPort_CloseConnection exp_InPort_CloseConnection
  && skel_eqb skel_InParamPort_CloseConnection exp_InParamPort_CloseConnection
  && skel_eqb skel_Task_drainStreamingInputs exp_Task_drainStreamingInputs
  && skel_eqb skel_Sink_Run exp_Sink_Run = true.
Proof. vm_compute. reflexivity. Qed.

(* no `go func() {...}()` literal anywhere in the two packages mentions a variable of an enclosing for / range header: the
   module says `go 1.13`, so such a variable is one variable for all iterations and the goroutine would read it while the loop
   assigns it (computed by the translator with go/types on every run; the idiom is to pass the value as an argument) *)
Theorem C12_no_goroutine_captures_a_loop_variable : go_captures_loop_var = [].
Proof. vm_compute. reflexivity. Qed.

(* (2) the discipline, computed on the skeletons regenerated in this run *)
Theorem C12_discipline_tags :
  guarded "ip.lock" ".Tags" skel_FileIP_AddTag
  && guarded "ip.lock" ".Tags" skel_FileIP_Tags
  && guarded "ip.lock" ".Tags" skel_FileIP_Tag
  && guarded "ip.lock" ".Tags" skel_FileIP_auditInfoSnapshot
  && guarded "ip.lock" "json.MarshalIndent" skel_FileIP_WriteAuditLogToFile
  && guarded "ip.lock" "ip.auditInfo" skel_FileIP_AuditInfo
  && guarded "ip.lock" "ip.auditInfo" skel_FileIP_SetAuditInfo = true.
Proof. vm_compute. reflexivity. Qed.

Theorem C12_discipline_ports_and_slots :
  guarded "pt.closeLock" "pt.RemotePorts" skel_InPort_CloseConnection
  && guarded "pt.closeLock" "pt.Chan" skel_InPort_CloseConnection
  && guarded "pip.closeLock" "pip.RemotePorts" skel_InParamPort_CloseConnection
  && guarded "pip.closeLock" "pip.Chan" skel_InParamPort_CloseConnection
  (* the feeder goroutine of FromStr / FromInt / FromFloat deletes its entry while the caller still wires and traverses
     the workflow (finding D20): every access to the map goes through the lock, and the upstream traversal of RunTo
     reads it through the locked accessor only *)
  && guarded "pip.closeLock" "pip.RemotePorts" skel_InParamPort_AddRemotePort
  && guarded "pip.closeLock" "pip.RemotePorts" skel_InParamPort_connectedOutParamPorts
  && negb (touches "pip.RemotePorts" (SBlock skel_collectUpstreamProcs))
  && skel_eqb skel_Workflow_IncConcurrentTasks [SLock "wf.concurrentTasksMx"; SFor "i < slots" [SSend "wf.concurrentTasks"]; SUnlock "wf.concurrentTasksMx"] = true.
Proof. vm_compute. reflexivity. Qed.

(* nobody touches the tags map of an IP except through the guarded accessors: the task, the process and the tagging
   component use Tags() (a copy), AddTags / AddTag, and the snapshot *)
Theorem C12_only_accessors :
  let raw s := touches ".Tags[" s || touches "ai.Tags" s || touches "auditInfo.Tags" s in
  negb (raw (SBlock skel_Task_writeAuditLogs))
  && negb (raw (SBlock skel_Process_createTasks))
  && negb (raw (SBlock skel_components_MapToTags_Run))
  && negb (raw (SBlock skel_components_Concatenator_Run))
  && negb (raw (SBlock skel_NewTask)) = true.
Proof. vm_compute. reflexivity. Qed.

(* no function of the library or of the components assigns to a package-level variable, except InitLog, which sets the
   loggers when the workflow object is created, before any goroutine of the run exists: there is no shared memory outside
   the structures whose access discipline is checked above (evaluated on the table regenerated from the source) *)
Theorem C12_no_writes_to_package_variables :
  forallb (fun p => String.eqb (fst p) "InitLog") global_writes = true.
Proof. vm_compute. reflexivity. Qed.

(* the predicate is not vacuous: the pre-repair shape of AddTag (no lock around the map write) is rejected (defect D6) *)
Theorem C12_tags_refuted_before_repair :
  guarded "ip.lock" ".Tags" [SCall "ip.AuditInfo"; SIf "ai.Tags[k] != """" && ai.Tags[k] != v" [SFail] []; SAssign "ai.Tags[k]"] = false.
Proof. vm_compute. reflexivity. Qed.

(* ... and the pre-repair shapes of D20 are rejected: AddRemotePort wrote the map without the lock, the upstream traversal
   ranged over it directly *)
Theorem C12_feeder_refuted_before_repair :
  guarded "pip.closeLock" "pip.RemotePorts" [SIf "pip.RemotePorts[pop.Name()] != nil" [SFail] []; SAssign "pip.RemotePorts[pop.Name()]"] = false
  /\ touches "pip.RemotePorts" (SBlock [SRange "proc.InParamPorts()" [SRange "pip.RemotePorts" [SCall "visit"]]]) = true.
Proof. split; vm_compute; reflexivity. Qed.

(* T1, call cones: every function of scipipe that the functions above can reach (calls and function values, interface calls
   resolved to every implementation) is one the models were compared with -- a helper that is new to the cone, or a new call
   of an old one, changes a list (the lists are regenerated from /repo on every run; ExpectedCones.v holds the accepted ones) *)
Theorem C12_cone_conforms :
  strs_eqb cone_Task_drainStreamingInputs exp_cone_Task_drainStreamingInputs
  && strs_eqb cone_Sink_Run exp_cone_Sink_Run
  &&   strs_eqb cone_FileIP_auditInfoSnapshot exp_cone_FileIP_auditInfoSnapshot
  && strs_eqb cone_FileIP_Tags exp_cone_FileIP_Tags
  && strs_eqb cone_FileIP_AddTag exp_cone_FileIP_AddTag
  && strs_eqb cone_FileIP_AddTags exp_cone_FileIP_AddTags
  && strs_eqb cone_FileIP_AuditInfo exp_cone_FileIP_AuditInfo
  && strs_eqb cone_FileIP_SetAuditInfo exp_cone_FileIP_SetAuditInfo
  && strs_eqb cone_FileIP_WriteAuditLogToFile exp_cone_FileIP_WriteAuditLogToFile
  && strs_eqb cone_Task_writeAuditLogs exp_cone_Task_writeAuditLogs
  && strs_eqb cone_InPort_CloseConnection exp_cone_InPort_CloseConnection
  && strs_eqb cone_InParamPort_CloseConnection exp_cone_InParamPort_CloseConnection = true.
Proof. vm_compute. reflexivity. Qed.

(* the second sentence of the property ("what one consumer does with an item it received is never observed half-done by a
   sibling consumer of the same out-port") fails for a tagging component that returns two or more tags (finding D24): AddTags
   takes the lock once per tag, and between two of them a sibling reads some of the tags and not the others.  No data race --
   every access is under ip.lock, which is what the discipline theorems above establish -- but a half-done observation *)
Theorem C12_shared_ip_half_done_refuted : forall (tag : Type) (init_tags new_tags : list tag), 2 <= List.length new_tags ->
  exists l s, TagShare.run tag init_tags new_tags true (TagShare.init tag) l = Some s /\ TagShare.complete tag new_tags s /\
              TagShare.view tag s = Some ((init_tags ++ firstn 1 new_tags)%list) /\
              firstn 1 new_tags <> [] /\ firstn 1 new_tags <> new_tags.
Proof. exact TagShare.shared_object_half_done. Qed.

Print Assumptions C12_code_conforms.
Print Assumptions C12_lockset_sound.
Print Assumptions C12_discipline_tags.
Print Assumptions C12_discipline_ports_and_slots.
Print Assumptions C12_only_accessors.
Print Assumptions C12_no_writes_to_package_variables.
Print Assumptions C12_tags_refuted_before_repair.
Print Assumptions C12_feeder_refuted_before_repair.
Print Assumptions C12_cone_conforms.
Print Assumptions C12_shared_ip_half_done_refuted.
Print Assumptions C12_no_goroutine_captures_a_loop_variable.
