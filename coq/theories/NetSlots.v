(* The process network (NetA) composed with the task-slot machine (Slots): C05 "whatever the stream lengths relative to
   buffer sizes and slot counts".
   In NetA a task's exit is always possible.  Here a task handed over by createTasks (AHand) is spawned into the slot
   machine, where it goes through IncConcurrentTasks / command / DecConcurrentTasks competing with every other task of
   the workflow for the tokens; the network sees its Done (PExit) only once the slot machine has brought it to Finished.
   Theorems: no reachable state of the product is stuck while a process is unfinished; every step decreases a measure;
   the slot bound holds in every reachable state; when every process has finished, every spawned task has finished and
   all tokens are back. *)
From Coq Require Import List Arith Lia Bool PeanoNat.
Import ListNotations.
From SP Require NetA Inv Pres Dead Term Slots Slots7 SlotsTop.

Record pcfg := { ncfg : NetA.cfg; pcap : nat; pcores : nat -> nat }.
Record pst := { net : NetA.st; sl : Slots.state; tid : list (nat * nat) }.

Definition pinit (p : pcfg) : pst :=
  {| net := NetA.init (ncfg p); sl := SlotsTop.init (pcap p) []; tid := [] |}.

Definition new_task (c : nat) : Slots.task := {| Slots.cores := c; Slots.st := Slots.Idle |}.
Definition add_task (s : Slots.state) (c : nat) : Slots.state :=
  {| Slots.cap := Slots.cap s; Slots.tokens := Slots.tokens s; Slots.mutex := Slots.mutex s;
     Slots.tasks := Slots.tasks s ++ [new_task c] |}.

(* the number, in creation order, of the task at position i of the in-flight list of a process *)
Definition absno (n : NetA.nst) (i : nat) : nat := NetA.eN n + Inv.sending n + i.

Definition is_finished (t : Slots.task) : bool := match Slots.st t with Slots.Finished => true | _ => false end.

Inductive pact :=
| PNet (a : NetA.act)        (* a step of the network other than a task's exit *)
| PSlot (k : nat)            (* a step of spawned task k in the slot machine *)
| PExit (v i k : nat).       (* the Done of the task at position i of process v: it is spawned task k, which has finished *)

Definition with_net (s : pst) (n : NetA.st) : pst := {| net := n; sl := sl s; tid := tid s |}.

Definition pstep (p : pcfg) (s : pst) (a : pact) : option pst :=
  match a with
  | PSlot k => option_map (fun x => {| net := net s; sl := x; tid := tid s |}) (Slots.step (sl s) k)
  | PExit v i k =>
      match nth_error (tid s) k, nth_error (Slots.tasks (sl s)) k with
      | Some (v', j), Some t =>
          if Nat.ltb v (NetA.nn (ncfg p)) && Nat.eqb v' v && Nat.eqb j (absno (NetA.ns (net s) v) i) && is_finished t
          then option_map (with_net s) (NetA.step (ncfg p) (net s) (NetA.AExit v i))
          else None
      | _, _ => None
      end
  | PNet (NetA.AExit _ _) => None
  | PNet (NetA.AHand v) =>
      if Nat.ltb v (NetA.nn (ncfg p))
      then option_map (fun n => {| net := n; sl := add_task (sl s) (pcores p v);
                                   tid := tid s ++ [(v, NetA.cN (NetA.ns (net s) v))] |})
                      (NetA.step (ncfg p) (net s) (NetA.AHand v))
      else None
  | PNet a =>
      if Nat.ltb (NetA.node_of a) (NetA.nn (ncfg p))
      then option_map (with_net s) (NetA.step (ncfg p) (net s) a)
      else None
  end.

Fixpoint prun (p : pcfg) (s : pst) (l : list pact) : option pst :=
  match l with [] => Some s | a :: r => match pstep p s a with Some s' => prun p s' r | None => None end end.

(* ---------- what a network step does to the counters of its node ---------- *)
Lemma net_frame c s a s' : NetA.step c s a = Some s' -> forall w, w <> NetA.node_of a -> NetA.ns s' w = NetA.ns s w.
Proof.
  intros H w Hw. destruct a; simpl in *;
    repeat match type of H with
           | match ?x with _ => _ end = _ => destruct x eqn:?; try discriminate
           | (if ?b then _ else _) = _ => destruct b eqn:?; try discriminate
           end;
    injection H as <-; rewrite ?Pres.close_all_ns; simpl; rewrite ?NetA.upd_other by assumption; reflexivity.
Qed.

Definition same_counters (n n' : NetA.nst) : Prop :=
  NetA.cN n' = NetA.cN n /\ NetA.eN n' = NetA.eN n /\ NetA.fl n' = NetA.fl n /\ Inv.sending n' = Inv.sending n.

Lemma net_node c s a s' : NetA.step c s a = Some s' ->
  let v := NetA.node_of a in let n := NetA.ns s v in let n' := NetA.ns s' v in
  match a with
  | NetA.AHand _ => NetA.cN n' = S (NetA.cN n) /\ NetA.eN n' = NetA.eN n /\ NetA.fl n' = NetA.fl n ++ [false]
                    /\ Inv.sending n = 0 /\ Inv.sending n' = 0 /\ NetA.rn n = NetA.RSel
  | NetA.AExit _ i => NetA.cN n' = NetA.cN n /\ NetA.eN n' = NetA.eN n /\ Inv.sending n' = Inv.sending n
                    /\ nth_error (NetA.fl n) i = Some false /\ NetA.fl n' = NetA.set_nth (NetA.fl n) i true
  | NetA.APop _ _ => NetA.cN n' = NetA.cN n /\ NetA.eN n' = NetA.eN n /\ NetA.fl n = true :: NetA.fl n'
                    /\ Inv.sending n = 0 /\ Inv.sending n' = 1
  | NetA.AEndSend _ => NetA.cN n' = NetA.cN n /\ NetA.eN n' = S (NetA.eN n) /\ NetA.fl n' = NetA.fl n
                    /\ Inv.sending n = 1 /\ Inv.sending n' = 0
  | NetA.AFin _ => NetA.cN n' = NetA.cN n /\ NetA.eN n' = NetA.eN n /\ NetA.fl n = [] /\ NetA.fl n' = []
  | _ => same_counters n n'
  end.
Proof.
  intros H. destruct a; simpl in *;
    repeat match type of H with
           | match ?x with _ => _ end = _ => destruct x eqn:?; try discriminate
           | (if ?b then _ else _) = _ => destruct b eqn:?; try discriminate
           end;
    injection H as <-; rewrite ?Pres.close_all_ns; simpl; rewrite ?NetA.upd_same; unfold same_counters, Inv.sending; simpl;
    repeat match goal with H : NetA.rn _ = _ |- _ => rewrite H; clear H end;
    repeat match goal with H : NetA.fl _ = _ |- _ => rewrite H; clear H end;
    repeat split; auto.
Qed.

(* ---------- the slot machine under spawning ---------- *)
Lemma add_task_all s c : SlotsTop.AllInv s -> c <= Slots.cap s -> SlotsTop.AllInv (add_task s c).
Proof.
  intros [[I1 I2] [M1 [M2 M3]] I3] Hc. constructor.
  - split; simpl; auto. rewrite Slots.sum_app. cbn [Slots.tsum]. change (Slots.held (new_task c)) with 0. lia.
  - assert (NE : forall i t, nth_error (Slots.tasks s ++ [new_task c]) i = Some t ->
                 nth_error (Slots.tasks s) i = Some t \/ t = new_task c).
    { intros i t H. destruct (Nat.lt_ge_cases i (length (Slots.tasks s))) as [L|L].
      - rewrite nth_error_app1 in H by assumption. auto.
      - rewrite nth_error_app2 in H by assumption. destruct (i - length (Slots.tasks s)) as [|[|m]]; simpl in H; try discriminate.
        injection H as <-. auto. }
    split; [|split]; simpl.
    + intros i t H D. destruct (NE i t H) as [H2| ->]; [eauto|discriminate].
    + intros i Hm. destruct (M2 i Hm) as [t [Ht Hd]]. exists t. split; auto.
      rewrite nth_error_app1; auto. apply nth_error_Some. congruence.
    + intros i t k H D. destruct (NE i t H) as [H2| ->]; [eauto|discriminate].
  - intros i t H. simpl in *.
    destruct (Nat.lt_ge_cases i (length (Slots.tasks s))) as [L|L].
    + rewrite nth_error_app1 in H by assumption. eauto.
    + rewrite nth_error_app2 in H by assumption. destruct (i - length (Slots.tasks s)) as [|[|m]]; simpl in H; try discriminate.
      injection H as <-. simpl. exact Hc.
Qed.

Lemma slot_step_all s k s' : SlotsTop.AllInv s -> Slots.step s k = Some s' -> SlotsTop.AllInv s'.
Proof.
  intros [I1 I2 I3] H. constructor; [eapply Slots.step_inv|eapply Slots7.step_minv|eapply SlotsTop.step_cinv]; eauto.
Qed.

Lemma slot_step_cap s k s' : Slots.step s k = Some s' -> Slots.cap s' = Slots.cap s.
Proof. intros H. apply (SlotsTop.run_cap [k] s s'). simpl. rewrite H. reflexivity. Qed.

Lemma upd_length l : forall i t, length (Slots.upd l i t) = length l.
Proof. induction l as [|a l IH]; intros [|i] t; simpl; auto. Qed.

Lemma slot_step_len s k s' : Slots.step s k = Some s' -> length (Slots.tasks s') = length (Slots.tasks s).
Proof.
  unfold Slots.step. intros H.
  repeat match type of H with
         | match ?x with _ => _ end = _ => destruct x eqn:?; try discriminate
         | (if ?b then _ else _) = _ => destruct b eqn:?; try discriminate
         end; injection H as <-; simpl; apply upd_length.
Qed.

Section Product.
Variable p : pcfg.
Variable len : nat -> nat.
Hypothesis WF : Inv.wf (ncfg p) len.
(* the guard of C07: no process asks for more cores per task than the workflow has (such a process is rejected at start) *)
Hypothesis FIT : forall v, v < NetA.nn (ncfg p) -> pcores p v <= pcap p.

Let c := ncfg p.

Record PInv (s : pst) : Prop := {
  pi_net : Inv.Inv c len (net s);
  pi_sl : SlotsTop.AllInv (sl s);
  pi_cap : Slots.cap (sl s) = pcap p;
  pi_len : length (tid s) = length (Slots.tasks (sl s));
  (* every task a process has created is registered *)
  pi_reg : forall v j, v < NetA.nn c -> j < NetA.cN (NetA.ns (net s) v) -> exists k, nth_error (tid s) k = Some (v, j)
}.

Lemma pinit_inv : PInv (pinit p).
Proof.
  constructor; simpl.
  - apply Inv.init_inv.
  - apply SlotsTop.init_all. intros ? [].
  - reflexivity.
  - reflexivity.
  - intros v j _ H. lia.
Qed.

Lemma net_inv_step s a n' : PInv s -> NetA.node_of a < NetA.nn c -> NetA.step c (net s) a = Some n' -> Inv.Inv c len n'.
Proof. intros I Hv H. eapply Pres.step_inv; eauto. apply (pi_net _ I). Qed.

(* registration is kept by a network step that creates no task *)
Lemma reg_keep s a n' : PInv s -> NetA.step c (net s) a = Some n' ->
  (forall v, NetA.cN (NetA.ns n' v) = NetA.cN (NetA.ns (net s) v)) ->
  forall v j, v < NetA.nn c -> j < NetA.cN (NetA.ns n' v) -> exists k, nth_error (tid s) k = Some (v, j).
Proof. intros I H Hc v j Hv Hj. rewrite Hc in Hj. apply (pi_reg _ I); auto. Qed.

Lemma cN_same a s n' : NetA.step c s a = Some n' -> (forall v, a <> NetA.AHand v) ->
  forall v, NetA.cN (NetA.ns n' v) = NetA.cN (NetA.ns s v).
Proof.
  intros H Hne v. destruct (Nat.eq_dec v (NetA.node_of a)) as [->|Hv].
  - pose proof (net_node _ _ _ _ H) as N. destruct a; simpl in N; unfold same_counters in N; try tauto.
    exfalso. eapply Hne. reflexivity.
  - now rewrite (net_frame _ _ _ _ H v Hv).
Qed.

Lemma pstep_inv s a s' : PInv s -> pstep p s a = Some s' -> PInv s'.
Proof.
  intros I H. destruct a as [a|k|v i k]; cbn [pstep] in H.
  - (* network *)
    destruct a as [v perm|v|v|v|v i|v perm|v|v|v]; cbn [NetA.node_of] in H; try discriminate;
      match type of H with (if ?b then _ else _) = _ => destruct b eqn:B; [|discriminate] end;
      apply Nat.ltb_lt in B;
      match type of H with option_map _ ?x = _ => destruct x as [n'|] eqn:S; [|discriminate] end;
      simpl in H; injection H as <-.
    4: { (* AHand: a task is spawned *)
      pose proof (net_node _ _ _ _ S) as [Hc _]. simpl in Hc.
      constructor; simpl.
      - eapply net_inv_step; eauto. exact B.
      - apply add_task_all; [apply (pi_sl _ I)|]. rewrite (pi_cap _ I). apply FIT. exact B.
      - apply (pi_cap _ I).
      - rewrite !app_length. simpl. rewrite (pi_len _ I). reflexivity.
      - intros w j Hw Hj. destruct (Nat.eq_dec w v) as [->|Hne].
        + fold c in Hc. rewrite Hc in Hj. destruct (Nat.eq_dec j (NetA.cN (NetA.ns (net s) v))) as [->|Hj'].
          * exists (length (tid s)). rewrite nth_error_app2 by lia. rewrite Nat.sub_diag. reflexivity.
          * destruct (pi_reg _ I v j Hw ltac:(lia)) as [k Hk]. exists k. rewrite nth_error_app1; auto.
            apply nth_error_Some. congruence.
        + rewrite (net_frame _ _ _ _ S w) in Hj by (simpl; exact Hne).
          destruct (pi_reg _ I w j Hw Hj) as [k Hk]. exists k. rewrite nth_error_app1; auto.
          apply nth_error_Some. congruence. }
    all: constructor; simpl; try apply (pi_sl _ I); try apply (pi_cap _ I); try apply (pi_len _ I);
      [eapply net_inv_step; eauto; exact B|eapply reg_keep; eauto; apply (cN_same _ _ _ S); intros; discriminate].
  - (* slot machine *)
    destruct (Slots.step (sl s) k) as [x|] eqn:S; [|discriminate]. simpl in H. injection H as <-.
    constructor; simpl.
    + apply (pi_net _ I).
    + eapply slot_step_all; eauto. apply (pi_sl _ I).
    + rewrite (slot_step_cap _ _ _ S). apply (pi_cap _ I).
    + rewrite (slot_step_len _ _ _ S). apply (pi_len _ I).
    + apply (pi_reg _ I).
  - (* exit *)
    destruct (nth_error (tid s) k) as [[v' j]|]; [|discriminate].
    destruct (nth_error (Slots.tasks (sl s)) k) as [t|]; [|discriminate].
    match type of H with (if ?b then _ else _) = _ => destruct b eqn:B; [|discriminate] end.
    apply andb_true_iff in B. destruct B as [B _]. apply andb_true_iff in B. destruct B as [B _].
    apply andb_true_iff in B. destruct B as [B _]. apply Nat.ltb_lt in B.
    destruct (NetA.step (ncfg p) (net s) (NetA.AExit v i)) as [n'|] eqn:S; [|discriminate]. simpl in H. injection H as <-.
    constructor; simpl; try apply (pi_sl _ I); try apply (pi_cap _ I); try apply (pi_len _ I).
    + eapply (net_inv_step s (NetA.AExit v i)); eauto.
    + eapply reg_keep; eauto. apply (cN_same _ _ _ S). intros; discriminate.
Qed.

Lemma prun_inv l : forall s s', PInv s -> prun p s l = Some s' -> PInv s'.
Proof.
  induction l as [|a l IH]; simpl; intros s s' I H.
  - injection H as <-. exact I.
  - destruct (pstep p s a) as [s1|] eqn:E; [|discriminate]. apply (IH s1 s'); auto. eapply pstep_inv; eauto.
Qed.

(* ---------- no deadlock ---------- *)
Theorem product_not_stuck l s :
  prun p (pinit p) l = Some s ->
  (exists v, v < NetA.nn c /\ NetA.rn (NetA.ns (net s) v) <> NetA.RFin) ->
  exists a, pstep p s a <> None.
Proof.
  intros R Hun. pose proof (prun_inv l _ _ pinit_inv R) as I.
  destruct (Dead.no_deadlock c len WF (net s) (pi_net _ I) Hun) as [a [Hv Ha]].
  assert (NX : (forall v i, a <> NetA.AExit v i) -> exists a', pstep p s a' <> None).
  { intros Hne. exists (PNet a). apply Nat.ltb_lt in Hv. unfold c in *.
    destruct a; cbn [pstep NetA.node_of] in *; try (exfalso; eapply Hne; reflexivity); rewrite Hv;
      match goal with |- option_map _ ?x <> None => destruct x eqn:E; [simpl; congruence|exfalso; congruence] end. }
  destruct a as [v perm|v|v|v|v i|v perm|v|v|v]; try (apply NX; intros; discriminate).
  (* the network could take the exit of task i of v: find the spawned task *)
  simpl in Hv. destruct (NetA.step c (net s) (NetA.AExit v i)) as [n'|] eqn:S; [|congruence].
  pose proof (net_node _ _ _ _ S) as [_ [_ [_ [Hfl _]]]]. simpl in Hfl.
  pose proof (pi_net _ I) as [HN _]. pose proof (HN v Hv) as NI. unfold Inv.NodeInv in NI.
  assert (Hlen : i < length (NetA.fl (NetA.ns (net s) v))) by (apply nth_error_Some; congruence).
  assert (Hrn : NetA.rn (NetA.ns (net s) v) <> NetA.RFin).
  { intros F. destruct (Inv.ni_fin _ _ _ _ NI F) as [_ [Hf _]]. rewrite Hf in Hlen. simpl in Hlen. lia. }
  pose proof (Inv.ni_count _ _ _ _ NI Hrn) as Hcount.
  destruct (pi_reg _ I v (absno (NetA.ns (net s) v) i) Hv ltac:(unfold absno; lia)) as [k Hk].
  assert (Hk2 : k < length (Slots.tasks (sl s))) by (rewrite <- (pi_len _ I); apply nth_error_Some; congruence).
  destruct (nth_error (Slots.tasks (sl s)) k) as [t|] eqn:Ht; [|apply nth_error_None in Ht; lia].
  destruct (is_finished t) eqn:Fin.
  - exists (PExit v i k). cbn [pstep]. rewrite Hk, Ht. apply Nat.ltb_lt in Hv. unfold c in *.
    rewrite Hv, !Nat.eqb_refl, Fin. cbn [andb]. rewrite S. simpl. congruence.
  - (* the task is still in the slot machine, which is never stuck on an unfinished task *)
    destruct (pi_sl _ I) as [A1 A2 A3].
    destruct (Slots7.C07_progress (sl s) A1 A2 A3) as [k' Hk'].
    { exists k, t. split; auto. intros F. unfold is_finished in Fin. rewrite F in Fin. discriminate. }
    exists (PSlot k'). simpl. destruct (Slots.step (sl s) k'); simpl; congruence.
Qed.

(* ---------- the slot bound, in every reachable state of the product ---------- *)
Theorem product_slots_never_exceeded l s :
  prun p (pinit p) l = Some s -> Slots.tsum Slots.executing (Slots.tasks (sl s)) <= pcap p.
Proof.
  intros R. pose proof (prun_inv l _ _ pinit_inv R) as I. destruct (pi_sl _ I) as [[Hc Hs] _ _].
  pose proof (Slots.sum_le Slots.executing Slots.held (Slots.tasks (sl s)) Slots.executing_le_held).
  rewrite <- (pi_cap _ I). lia.
Qed.

(* ---------- termination ---------- *)
Definition trank (t : Slots.task) : nat :=
  match Slots.st t with
  | Slots.Idle => 2 * Slots.cores t + 5
  | Slots.WaitLock => 2 * Slots.cores t + 4
  | Slots.Depositing k => (Slots.cores t - k) + Slots.cores t + 3
  | Slots.Running => Slots.cores t + 2
  | Slots.Releasing k => k + 1
  | Slots.Finished => 0
  end.
Definition W : nat := 2 * pcap p + 6.
Definition pmeasure (s : pst) : nat := W * Term.Phi c len (net s) + Slots.tsum trank (Slots.tasks (sl s)).

Lemma slot_step_rank s k s' : Slots7.MInv s -> Slots.step s k = Some s' ->
  Slots.tsum trank (Slots.tasks s') < Slots.tsum trank (Slots.tasks s).
Proof.
  intros [_ [_ M3]] H. unfold Slots.step in H.
  destruct (nth_error (Slots.tasks s) k) as [t|] eqn:Hn; [|discriminate].
  assert (D : forall X, trank (Slots.set_pc t X) < trank t ->
              Slots.tsum trank (Slots.upd (Slots.tasks s) k (Slots.set_pc t X)) < Slots.tsum trank (Slots.tasks s)).
  { intros X L. pose proof (Slots.sum_upd trank (Slots.tasks s) k t (Slots.set_pc t X) Hn). lia. }
  destruct (Slots.st t) eqn:St.
  - injection H as <-. cbn [Slots.tasks]. apply D. unfold trank. cbn [Slots.st Slots.cores Slots.set_pc]. rewrite St. lia.
  - destruct (Slots.mutex s); [discriminate|]. injection H as <-. cbn [Slots.tasks]. apply D.
    unfold trank. cbn [Slots.st Slots.cores Slots.set_pc]. rewrite St. lia.
  - pose proof (M3 k t k0 Hn St) as Hk.
    destruct (Nat.eqb k0 (Slots.cores t)) eqn:Ek.
    + injection H as <-. cbn [Slots.tasks]. apply D. unfold trank. cbn [Slots.st Slots.cores Slots.set_pc]. rewrite St. lia.
    + apply Nat.eqb_neq in Ek. destruct (Nat.ltb (Slots.tokens s) (Slots.cap s)); [|discriminate]. injection H as <-.
      cbn [Slots.tasks]. apply D. unfold trank. cbn [Slots.st Slots.cores Slots.set_pc]. rewrite St. lia.
  - injection H as <-. cbn [Slots.tasks]. apply D. unfold trank. cbn [Slots.st Slots.cores Slots.set_pc]. rewrite St. lia.
  - destruct k0 as [|k0].
    + injection H as <-. cbn [Slots.tasks]. apply D. unfold trank. cbn [Slots.st Slots.cores Slots.set_pc]. rewrite St. lia.
    + destruct (Slots.tokens s); [discriminate|]. injection H as <-.
      cbn [Slots.tasks]. apply D. unfold trank. cbn [Slots.st Slots.cores Slots.set_pc]. rewrite St. lia.
  - discriminate.
Qed.

Theorem product_step_decreases s a s' : PInv s -> pstep p s a = Some s' -> pmeasure s' < pmeasure s.
Proof.
  intros I H. unfold pmeasure. destruct a as [a|k|v i k]; cbn [pstep] in H.
  - destruct a as [v perm|v|v|v|v i|v perm|v|v|v]; cbn [NetA.node_of] in H; try discriminate;
      match type of H with (if ?b then _ else _) = _ => destruct b eqn:B; [|discriminate] end;
      apply Nat.ltb_lt in B;
      match type of H with option_map _ ?x = _ => destruct x as [n'|] eqn:S; [|discriminate] end;
      simpl in H; injection H as <-; simpl;
      match type of S with NetA.step _ _ ?a = _ =>
        pose proof (Term.step_decreases c len (net s) a n' (pi_net _ I) B S) as D end.
    4: { rewrite Slots.sum_app. simpl. unfold trank at 2. simpl. pose proof (FIT v B). unfold W. nia. }
    all: unfold W; nia.
  - destruct (Slots.step (sl s) k) as [x|] eqn:S; [|discriminate]. simpl in H. injection H as <-. simpl.
    pose proof (slot_step_rank _ _ _ (SlotsTop.ai_minv _ (pi_sl _ I)) S). lia.
  - destruct (nth_error (tid s) k) as [[v' j]|]; [|discriminate].
    destruct (nth_error (Slots.tasks (sl s)) k) as [t|]; [|discriminate].
    match type of H with (if ?b then _ else _) = _ => destruct b eqn:B; [|discriminate] end.
    apply andb_true_iff in B. destruct B as [B _]. apply andb_true_iff in B. destruct B as [B _].
    apply andb_true_iff in B. destruct B as [B _]. apply Nat.ltb_lt in B.
    destruct (NetA.step (ncfg p) (net s) (NetA.AExit v i)) as [n'|] eqn:S; [|discriminate]. simpl in H. injection H as <-. simpl.
    pose proof (Term.step_decreases c len (net s) (NetA.AExit v i) n' (pi_net _ I) B S) as D. unfold W. nia.
Qed.

(* ---------- when every process has finished, every spawned task has, and all tokens are back ---------- *)
Lemma nth_set_nth_other (l : list bool) : forall i j b, i <> j -> nth_error (NetA.set_nth l i b) j = nth_error l j.
Proof. induction l as [|a l IH]; intros [|i] [|j] b H; simpl; auto; try congruence. Qed.

Lemma nodup_snoc {A} (l : list A) x : NoDup l -> ~ In x l -> NoDup (l ++ [x]).
Proof.
  induction l as [|a l IH]; intros N H; simpl.
  - constructor; [intros []|constructor].
  - inversion N; subst. constructor.
    + rewrite in_app_iff. simpl. intros [?|[?|[]]]; [auto|subst; apply H; left; reflexivity].
    + apply IH; auto. intros ?. apply H. right. assumption.
Qed.

Lemma nodup_nth_inj {A} (l : list A) : NoDup l -> forall i j x, nth_error l i = Some x -> nth_error l j = Some x -> i = j.
Proof.
  induction 1 as [|a l Hn N IH]; intros [|i] [|j] x Hi Hj; simpl in *; try discriminate; auto.
  - injection Hi as <-. exfalso. apply Hn. eapply nth_error_In; eauto.
  - injection Hj as <-. exfalso. apply Hn. eapply nth_error_In; eauto.
  - f_equal. eapply IH; eauto.
Qed.

Definition live (n : NetA.nst) (j : nat) : Prop := exists i, j = absno n i /\ nth_error (NetA.fl n) i = Some false.

Record QInv (s : pst) : Prop := {
  q_bound : forall k v j, nth_error (tid s) k = Some (v, j) -> v < NetA.nn c /\ j < NetA.cN (NetA.ns (net s) v);
  q_nodup : NoDup (tid s);
  (* a spawned task that has not finished is in flight in its process *)
  q_live : forall k v j t, nth_error (tid s) k = Some (v, j) -> nth_error (Slots.tasks (sl s)) k = Some t ->
           is_finished t = false -> live (NetA.ns (net s) v) j
}.

Lemma qinit_inv : QInv (pinit p).
Proof. constructor; simpl; [intros [|k] ? ? H; discriminate|constructor|intros [|k] ? ? ? H; discriminate]. Qed.

(* how a network step other than a hand-over or an exit moves the in-flight positions of its node *)
Lemma live_keep a s0 n' : NetA.step c s0 a = Some n' -> (forall v, a <> NetA.AHand v) -> (forall v i, a <> NetA.AExit v i) ->
  forall w j, live (NetA.ns s0 w) j -> live (NetA.ns n' w) j.
Proof.
  intros S H1 H2 w j [i [Hj Hi]]. destruct (Nat.eq_dec w (NetA.node_of a)) as [->|Hw].
  2: { rewrite (net_frame _ _ _ _ S w Hw). exists i. auto. }
  pose proof (net_node _ _ _ _ S) as N. unfold live, absno in *.
  destruct a; simpl in N; unfold same_counters in N; simpl in *;
    try (exfalso; eapply H1; reflexivity); try (exfalso; eapply H2; reflexivity).
  - destruct N as [_ [E [F G]]]. exists i. rewrite E, F, G. auto.
  - destruct N as [_ [E [F G]]]. exists i. rewrite E, F, G. auto.
  - destruct N as [_ [E [F G]]]. exists i. rewrite E, F, G. auto.
  - destruct N as [_ [E [F [G1 G2]]]]. rewrite F in Hi. destruct i as [|i]; [simpl in Hi; discriminate|]. simpl in Hi.
    exists i. rewrite E, G2. rewrite G1 in Hj. split; [lia|exact Hi].
  - destruct N as [_ [E [F G]]]. exists i. rewrite E, F, G. auto.
  - destruct N as [_ [E [F [G1 G2]]]]. exists i. rewrite E, F, G2. rewrite G1 in Hj. split; [lia|exact Hi].
  - destruct N as [_ [_ [F _]]]. rewrite F in Hi. destruct i; discriminate.
Qed.

Lemma pstep_qinv s a s' : PInv s -> QInv s -> pstep p s a = Some s' -> QInv s'.
Proof.
  intros I Q H. destruct a as [a|k0|v i k0]; cbn [pstep] in H.
  - destruct a as [v perm|v|v|v|v i|v perm|v|v|v]; cbn [NetA.node_of] in H; try discriminate;
      match type of H with (if ?b then _ else _) = _ => destruct b eqn:B; [|discriminate] end;
      apply Nat.ltb_lt in B;
      match type of H with option_map _ ?x = _ => destruct x as [n'|] eqn:S; [|discriminate] end;
      simpl in H; injection H as <-.
    4: { (* AHand *)
      pose proof (net_node _ _ _ _ S) as [Hc [He [Hf [Hs0 [Hs1 Hr]]]]]. simpl in Hc, He, Hf, Hs0, Hs1, Hr.
      pose proof (pi_net _ I) as [HN _]. pose proof (HN v B) as NI. unfold Inv.NodeInv in NI.
      assert (Hcount := Inv.ni_count _ _ _ _ NI ltac:(rewrite Hr; discriminate)).
      assert (SPLIT : forall k x, nth_error (tid s ++ [(v, NetA.cN (NetA.ns (net s) v))]) k = Some x ->
                      nth_error (tid s) k = Some x \/ (k = length (tid s) /\ x = (v, NetA.cN (NetA.ns (net s) v)))).
      { intros k x Hk. destruct (Nat.lt_ge_cases k (length (tid s))) as [L|L].
        - rewrite nth_error_app1 in Hk by assumption. auto.
        - rewrite nth_error_app2 in Hk by assumption. destruct (k - length (tid s)) as [|m] eqn:D; simpl in Hk.
          + injection Hk as <-. right. split; [lia|reflexivity].
          + destruct m; discriminate. }
      constructor; simpl.
      - intros k w j Hk. destruct (SPLIT _ _ Hk) as [Hk'|[_ E]].
        + destruct (q_bound _ Q _ _ _ Hk') as [Hw Hj]. split; auto.
          destruct (Nat.eq_dec w v) as [->|Hne]; [fold c in Hc; rewrite Hc; lia|].
          rewrite (net_frame _ _ _ _ S w) by (simpl; exact Hne). exact Hj.
        + injection E as -> ->. split; [exact B|]. fold c in Hc. rewrite Hc. lia.
      - apply nodup_snoc; [apply (q_nodup _ Q)|]. intros Hin. apply In_nth_error in Hin. destruct Hin as [k Hk].
        destruct (q_bound _ Q _ _ _ Hk) as [_ Hj]. lia.
      - intros k w j t Hk Ht Hfin. destruct (SPLIT _ _ Hk) as [Hk'|[Ek E]].
        + assert (Lk : k < length (tid s)) by (apply nth_error_Some; congruence).
          rewrite nth_error_app1 in Ht by (rewrite <- (pi_len _ I); exact Lk).
          pose proof (q_live _ Q _ _ _ _ Hk' Ht Hfin) as [i [Hj Hi]].
          destruct (Nat.eq_dec w v) as [->|Hne].
          * exists i. unfold absno in *. fold c in He, Hf, Hs1. rewrite He, Hf, Hs1. rewrite Hs0 in Hj. split; [exact Hj|].
            rewrite nth_error_app1; [exact Hi|]. apply nth_error_Some. congruence.
          * rewrite (net_frame _ _ _ _ S w) by (simpl; exact Hne). exists i. auto.
        + injection E as -> ->. exists (length (NetA.fl (NetA.ns (net s) v))). unfold absno. fold c in He, Hf, Hs1.
          rewrite He, Hf, Hs1. rewrite Hs0 in Hcount. split; [lia|].
          rewrite nth_error_app2 by lia. rewrite Nat.sub_diag. reflexivity. }
    all: constructor; simpl; [|apply (q_nodup _ Q)|];
      [intros k w j Hk; destruct (q_bound _ Q _ _ _ Hk) as [Hw Hj]; split; auto;
       rewrite (cN_same _ _ _ S) by (intros; discriminate); exact Hj
      |intros k w j t Hk Ht Hfin; eapply live_keep; eauto; try (intros; discriminate); eapply (q_live _ Q); eauto].
  - (* slot machine *)
    destruct (Slots.step (sl s) k0) as [x|] eqn:S; [|discriminate]. simpl in H. injection H as <-.
    constructor; simpl; [apply (q_bound _ Q)|apply (q_nodup _ Q)|].
    intros k w j t Hk Ht Hfin.
    destruct (SlotsTop.step_shape _ _ _ S) as [_ [t0 [pc0 [Ht0 E]]]]. rewrite E in Ht.
    destruct (Nat.eq_dec k0 k) as [->|Hne].
    + eapply (q_live _ Q); eauto. unfold is_finished. unfold Slots.step in S. rewrite Ht0 in S.
      destruct (Slots.st t0); try reflexivity. discriminate.
    + rewrite Slots7.nth_upd_other in Ht by exact Hne. eapply (q_live _ Q); eauto.
  - (* exit *)
    destruct (nth_error (tid s) k0) as [[v' j0]|] eqn:Hk0; [|discriminate].
    destruct (nth_error (Slots.tasks (sl s)) k0) as [t0|] eqn:Ht0; [|discriminate].
    match type of H with (if ?b then _ else _) = _ => destruct b eqn:B; [|discriminate] end.
    apply andb_true_iff in B. destruct B as [B Fin0]. apply andb_true_iff in B. destruct B as [B Ej].
    apply andb_true_iff in B. destruct B as [B Ev]. apply Nat.ltb_lt in B. apply Nat.eqb_eq in Ej, Ev. subst v' j0.
    destruct (NetA.step (ncfg p) (net s) (NetA.AExit v i)) as [n'|] eqn:S; [|discriminate]. simpl in H. injection H as <-.
    pose proof (net_node _ _ _ _ S) as [Hc [He [Hs [Hfi Hfl]]]]. simpl in Hc, He, Hs, Hfi, Hfl.
    constructor; simpl; [|apply (q_nodup _ Q)|].
    + intros k w j Hk. destruct (q_bound _ Q _ _ _ Hk) as [Hw Hj]. split; auto.
      rewrite (cN_same _ _ _ S) by (intros; discriminate). exact Hj.
    + intros k w j t Hk Ht Hfin. pose proof (q_live _ Q _ _ _ _ Hk Ht Hfin) as [i' [Hj Hi']].
      destruct (Nat.eq_dec w v) as [->|Hne].
      * assert (i' <> i).
        { intros ->. assert (k = k0) by (eapply nodup_nth_inj; [apply (q_nodup _ Q)|exact Hk|rewrite Hk0, Hj; reflexivity]).
          subst k. rewrite Ht0 in Ht. injection Ht as ->. congruence. }
        exists i'. unfold absno in *. fold c in He, Hs, Hfl. rewrite He, Hs, Hfl. split; [exact Hj|].
        rewrite nth_set_nth_other by auto. exact Hi'.
      * rewrite (net_frame _ _ _ _ S w) by (simpl; exact Hne). exists i'. auto.
Qed.

Lemma prun_qinv l : forall s s', PInv s -> QInv s -> prun p s l = Some s' -> QInv s'.
Proof.
  induction l as [|a l IH]; simpl; intros s s' I Q H.
  - injection H as <-. exact Q.
  - destruct (pstep p s a) as [s1|] eqn:E; [|discriminate]. apply (IH s1 s'); auto; [eapply pstep_inv|eapply pstep_qinv]; eauto.
Qed.

Lemma all_finished_no_tokens (l : list Slots.task) :
  (forall k t, nth_error l k = Some t -> is_finished t = true) -> Slots.tsum Slots.held l = 0.
Proof.
  induction l as [|t l IH]; intros H; simpl; auto.
  rewrite IH by (intros k t' Hk; apply (H (S k)); exact Hk).
  pose proof (H 0 t eq_refl) as F. unfold is_finished in F. unfold Slots.held. destruct (Slots.st t); try discriminate. reflexivity.
Qed.

Theorem product_all_done l s :
  prun p (pinit p) l = Some s ->
  (forall v, v < NetA.nn c -> NetA.rn (NetA.ns (net s) v) = NetA.RFin) ->
  (forall k t, nth_error (Slots.tasks (sl s)) k = Some t -> Slots.st t = Slots.Finished) /\ Slots.tokens (sl s) = 0.
Proof.
  intros R Hall. pose proof (prun_inv l _ _ pinit_inv R) as I. pose proof (prun_qinv l _ _ pinit_inv qinit_inv R) as Q.
  assert (F : forall k t, nth_error (Slots.tasks (sl s)) k = Some t -> is_finished t = true).
  { intros k t Ht. destruct (is_finished t) eqn:Fin; auto. exfalso.
    assert (Lk : k < length (tid s)) by (rewrite (pi_len _ I); apply nth_error_Some; congruence).
    destruct (nth_error (tid s) k) as [[v j]|] eqn:Hk; [|apply nth_error_None in Hk; lia].
    destruct (q_bound _ Q _ _ _ Hk) as [Hv _].
    pose proof (q_live _ Q _ _ _ _ Hk Ht Fin) as [i [_ Hi]].
    pose proof (pi_net _ I) as [HN _]. pose proof (HN v Hv) as NI. unfold Inv.NodeInv in NI.
    destruct (Inv.ni_fin _ _ _ _ NI (Hall v Hv)) as [_ [Hf _]]. rewrite Hf in Hi. destruct i; discriminate. }
  split.
  - intros k t Ht. pose proof (F k t Ht) as Fin. unfold is_finished in Fin. destruct (Slots.st t); try discriminate. reflexivity.
  - destruct (pi_sl _ I) as [[_ Hs] _ _]. rewrite <- Hs. apply all_finished_no_tokens. exact F.
Qed.

(* a run that cannot be extended has finished everything: with termination (product_step_decreases) this is "Run returns,
   and exactly when all work is done" for the product *)
Theorem product_maximal_run_completes l s :
  prun p (pinit p) l = Some s -> (forall a, pstep p s a = None) ->
  (forall v, v < NetA.nn c -> NetA.rn (NetA.ns (net s) v) = NetA.RFin) /\
  (forall k t, nth_error (Slots.tasks (sl s)) k = Some t -> Slots.st t = Slots.Finished) /\ Slots.tokens (sl s) = 0.
Proof.
  intros R Hmax.
  assert (A : forall v, v < NetA.nn c -> NetA.rn (NetA.ns (net s) v) = NetA.RFin).
  { intros v Hv. destruct (NetA.rn (NetA.ns (net s) v)) eqn:E; auto; exfalso;
      (destruct (product_not_stuck l s R) as [a Ha]; [exists v; split; [exact Hv|rewrite E; discriminate]|apply Ha, Hmax]). }
  split; [exact A|]. apply (product_all_done l s R A).
Qed.

End Product.


(* non-vacuity: the diamond of Top.v with a two-slot workflow in which the last process asks for both slots; the
   hypotheses of the section hold, and a prefix of a run (the source creates a task, the task goes through the slot
   machine, its Done is seen) executes in the product *)
From SP Require Top.
Definition pdia : pcfg := {| ncfg := Top.dia; pcap := 2; pcores := fun v => if Nat.eqb v 3 then 2 else 1 |}.
Lemma pdia_fit : forall v, v < NetA.nn (ncfg pdia) -> pcores pdia v <= pcap pdia.
Proof. intros v _. simpl. destruct (Nat.eqb v 3); lia. Qed.
Example product_example :
  Inv.wf (ncfg pdia) (fun _ => 2) /\
  match prun pdia (pinit pdia)
          [PNet (NetA.ABegin 0 []); PNet (NetA.AHand 0); PSlot 0; PSlot 0; PSlot 0; PSlot 0; PSlot 0; PSlot 0; PSlot 0;
           PExit 0 0 0; PNet (NetA.APop 0 [0; 1]); PNet (NetA.ASend 0); PNet (NetA.ASend 0); PNet (NetA.AEndSend 0)] with
  | Some s => Slots.tokens (sl s) = 0 /\ map Slots.st (Slots.tasks (sl s)) = [Slots.Finished] /\ tid s = [(0, 0)]
              /\ NetA.eN (NetA.ns (net s) 0) = 1
  | None => False
  end.
Proof. split; [exact Top.dia_wf|]. vm_compute. repeat split; reflexivity. Qed.
(* a task's Done is not seen before the slot machine has finished it *)
Example product_exit_waits :
  prun pdia (pinit pdia) [PNet (NetA.ABegin 0 []); PNet (NetA.AHand 0); PSlot 0; PSlot 0; PExit 0 0 0] = None.
Proof. vm_compute. reflexivity. Qed.
