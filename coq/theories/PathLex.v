(* Prototype: lexical path functions of Go's path/filepath on Unix, as used by scipipe. *)
From Coq Require Import List Ascii String Arith Lia Bool.
Import ListNotations.
Notation length := List.length.

Definition str := list ascii.
Definition sl : ascii := "/"%char.
Definition dot : ascii := "."%char.

Definition str_eqb (a b : str) : bool := if list_eq_dec ascii_dec a b then true else false.

(* split on '/' (like strings.Split(s, "/")) *)
Fixpoint split_sl (s : str) (cur : str) : list str :=
  match s with
  | [] => [rev cur]
  | c :: r => if Ascii.eqb c sl then rev cur :: split_sl r [] else split_sl r (c :: cur)
  end.

Fixpoint join_sl (l : list str) : str :=
  match l with [] => [] | [a] => a | a :: r => a ++ sl :: join_sl r end.

(* filepath.Clean *)
Fixpoint clean_stack (rooted : bool) (segs : list str) (stack : list str) : list str :=   (* stack reversed *)
  match segs with
  | [] => rev stack
  | g :: r =>
    if str_eqb g [] || str_eqb g [dot] then clean_stack rooted r stack
    else if str_eqb g [dot; dot] then
      match stack with
      | top :: st' => if str_eqb top [dot; dot] then clean_stack rooted r (g :: stack) else clean_stack rooted r st'
      | [] => if rooted then clean_stack rooted r stack else clean_stack rooted r (g :: stack)
      end
    else clean_stack rooted r (g :: stack)
  end.

Definition clean (p : str) : str :=
  match p with
  | [] => [dot]
  | c :: _ =>
    let rooted := Ascii.eqb c sl in
    let body := join_sl (clean_stack rooted (split_sl p []) []) in
    if rooted then sl :: body else match body with [] => [dot] | _ => body end
  end.

(* index of the last '/' : everything up to and including it *)
Fixpoint upto_last_sl (s : str) : str :=
  match s with
  | [] => []
  | c :: r => if existsb (Ascii.eqb sl) s then c :: upto_last_sl r else []
  end.

Definition dir (p : str) : str := clean (upto_last_sl p).

Fixpoint strip_trailing_sl (r : str) : str :=      (* on the reversed string *)
  match r with c :: r' => if Ascii.eqb c sl then strip_trailing_sl r' else r | [] => [] end.
Fixpoint take_until_sl (r : str) : str :=
  match r with c :: r' => if Ascii.eqb c sl then [] else c :: take_until_sl r' | [] => [] end.

Definition base (p : str) : str :=
  match p with
  | [] => [dot]
  | _ => let r := strip_trailing_sl (rev p) in
         match r with [] => [sl] | _ => rev (take_until_sl r) end
  end.

(* splitAllPaths *)
Fixpoint split_all_f (fuel : nat) (d f : str) (parts : list str) : list str :=
  match fuel with
  | O => parts
  | S k => if str_eqb d f then parts else split_all_f k (dir d) (base d) (f :: parts)
  end.
Definition split_all (p : str) : list str := split_all_f (S (length p)) (dir p) (base p) [].

Definition s2l (s : string) : str := list_ascii_of_string s.
Definition l2s (l : str) : string := string_of_list_ascii l.
Eval vm_compute in map l2s (split_all (s2l "/a/b/c")).
Eval vm_compute in map l2s (split_all (s2l "a/b")).
Eval vm_compute in map l2s (split_all (s2l "ab")).
Eval vm_compute in map l2s (split_all (s2l "./a/../b//c.txt")).
Eval vm_compute in (l2s (clean (s2l "a/../../b")), l2s (dir (s2l "data/file.txt")), l2s (dir (s2l "file")), l2s (base (s2l "a/b/")), l2s (clean (s2l "/../a"))).
