(* C05, last clause: when every task is done, no temp directory of the run is left (and nothing in it).
   An invariant of the task / file-store machine about [tdir] and [tmp], for every schedule. *)
From Coq Require Import List Arith Lia Bool PeanoNat.
Import ListNotations.
From SP Require Import Result TaskFS.

Section TmpInv.
Variable c : cfg.
Variable f0 : fs.
Variable left0 : nat -> bool.

Definition clean (s : st) (t : nat) : Prop :=
  match pcs s t with
  | Wait | ChkTemp | ChkOut | MkTemp | DoneSkip => tdir s t = left0 t /\ forall x, tmp s t x = None
  | DoneRan => tdir s t = false /\ forall x, tmp s t x = None
  | _ => True
  end.

Definition CInv (s : st) : Prop := forall t, clean s t.

Lemma init_cinv : CInv (init c f0 left0).
Proof. intros t. unfold clean. simpl. auto. Qed.

Lemma upd_same {A} (f : nat -> A) i a : upd f i a i = a.
Proof. unfold upd. now rewrite Nat.eqb_refl. Qed.
Lemma upd_other {A} (f : nat -> A) i a j : j <> i -> upd f i a j = f j.
Proof. unfold upd. intros H. destruct (Nat.eqb_spec j i); congruence. Qed.

Lemma step_cinv s a s' : CInv s -> step c s a = Some s' -> CInv s'.
Proof.
  intros HI Hs u. unfold step in Hs.
  destruct (exited s); [discriminate|].
  destruct (negb (Nat.ltb (node_of a) (nt c))); [discriminate|].
  pose proof (HI u) as Hu. unfold clean in *.
  destruct a as [t|t|t|t|t x cnt|t omit|t|t perm|t|t|t]; simpl in Hs.
  - (* AStart *) destruct (pcs s t) eqn:P; try discriminate. destruct (deps_done c s t); [|discriminate]. injection Hs as <-. simpl.
    destruct (Nat.eq_dec u t) as [->|Hne]; [rewrite upd_same; rewrite P in Hu; exact Hu|rewrite upd_other by assumption; exact Hu].
  - (* AChkTemp *) destruct (pcs s t) eqn:P; try discriminate. destruct (tdir s t).
    + injection Hs as <-. simpl. exact Hu.
    + injection Hs as <-. simpl. destruct (Nat.eq_dec u t) as [->|Hne]; [rewrite upd_same; rewrite P in Hu; exact Hu|rewrite upd_other by assumption; exact Hu].
  - (* AChkOut *) destruct (pcs s t) eqn:P; try discriminate.
    destruct (any_exists (fin s) (tout (tk c t))); injection Hs as <-; simpl;
      (destruct (Nat.eq_dec u t) as [->|Hne]; [rewrite upd_same; rewrite P in Hu; exact Hu|rewrite upd_other by assumption; exact Hu]).
  - (* AMkTemp *) destruct (pcs s t) eqn:P; try discriminate. injection Hs as <-. simpl.
    destruct (Nat.eq_dec u t) as [->|Hne]; [rewrite upd_same; exact I|rewrite !upd_other by assumption; exact Hu].
  - (* AWrite *) destruct (pcs s t) eqn:P; try discriminate. injection Hs as <-. simpl.
    destruct (Nat.eq_dec u t) as [->|Hne]; [rewrite P; exact I|rewrite upd_other by assumption; exact Hu].
  - (* ACmdOk *) destruct (pcs s t) eqn:P; try discriminate.
    destruct (sem (tk c t) (map (fin s) (tin (tk c t)))); [|discriminate]. injection Hs as <-. simpl.
    destruct (Nat.eq_dec u t) as [->|Hne]; [rewrite upd_same; exact I|rewrite !upd_other by assumption; exact Hu].
  - (* ACmdFail *) destruct (pcs s t) eqn:P; try discriminate. injection Hs as <-. simpl. exact Hu.
  - (* AEnsure *) destruct (pcs s t) eqn:P; try discriminate.
    destruct (forallb (fun x => isSome (tmp s t x)) (tout (tk c t))).
    + destruct (is_perm perm (tout (tk c t))); [|discriminate]. injection Hs as <-. simpl.
      destruct (Nat.eq_dec u t) as [->|Hne]; [rewrite upd_same; exact I|rewrite upd_other by assumption; exact Hu].
    + injection Hs as <-. simpl. exact Hu.
  - (* ARename *) destruct (pcs s t) as [| | | | | |todo| | |] eqn:P; try discriminate. destruct todo as [|x todo]; [discriminate|].
    injection Hs as <-. simpl.
    destruct (Nat.eq_dec u t) as [->|Hne]; [rewrite upd_same; exact I|rewrite !upd_other by assumption; exact Hu].
  - (* AEndRen *) destruct (pcs s t) as [| | | | | |todo| | |] eqn:P; try discriminate. destruct todo; [|discriminate].
    injection Hs as <-. simpl.
    destruct (Nat.eq_dec u t) as [->|Hne]; [rewrite upd_same; exact I|rewrite upd_other by assumption; exact Hu].
  - (* ARmTemp *) destruct (pcs s t) eqn:P; try discriminate. injection Hs as <-. simpl.
    destruct (Nat.eq_dec u t) as [->|Hne].
    + rewrite !upd_same. split; [reflexivity|intros x; reflexivity].
    + rewrite !upd_other by assumption. exact Hu.
Qed.

Lemma run_cinv l : forall s s', CInv s -> run c s l = Some s' -> CInv s'.
Proof.
  induction l as [|a l IH]; simpl; intros s s' HI H; [inversion H; subst; exact HI|].
  destruct (step c s a) eqn:E; [|discriminate]. eapply IH; [eapply step_cinv; eauto|exact H].
Qed.

(* when every task is done -- whatever the schedule was -- no task has a temp directory or anything in it, provided the
   run did not start on left-overs (a task that meets its own left-over temp dir exits the program instead) *)
Theorem no_leftovers l s : (forall t, left0 t = false) -> run c (init c f0 left0) l = Some s ->
  forall t, is_done (pcs s t) = true -> tdir s t = false /\ forall x, tmp s t x = None.
Proof.
  intros HL H t HD. pose proof (run_cinv l _ _ init_cinv H t) as Ct. unfold clean in Ct.
  destruct (pcs s t); simpl in HD; try discriminate.
  - exact Ct.
  - destruct Ct as [A B]. rewrite HL in A. auto.
Qed.

End TmpInv.
