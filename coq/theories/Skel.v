(* Statement skeletons emitted by the T1 translator (harness/cmd/skel), with a boolean equality.
   A skeleton keeps: calls (with the arguments of file-system calls), failure exits, lock / unlock,
   channel send / receive / close / range, map delete, assignments to fields, the branching structure
   (conditions as source text), go / defer.  It drops logging, hooks and pure local computation. *)
From Coq Require Import List String Bool Ascii.
Import ListNotations.

Inductive stm : Type :=
| SCall (f : string)
| SFail
| SLock (m : string)
| SUnlock (m : string)
| SSend (ch : string)
| SRecv (ch : string)
| SClose (ch : string)
| SDelete (m : string)
| SAssign (lhs : string)
| SRead (rhs : string)
| SReturn (vals : string)
| SBranch (tok : string)
| SUnknown (src : string)
| SDefer (s : stm)
| SGo (s : stm)
| SBlock (b : list stm)
| SLoop (b : list stm)
| SFor (c : string) (b : list stm)
| SRange (x : string) (b : list stm)
| SRangeCh (x : string) (b : list stm)
| SFunc (name : string) (b : list stm)
| SIf (c : string) (t e : list stm)
| SSelect (cases : list (stm * list stm))
| SSwitch (tag : string) (cases : list (string * list stm)).

Section Eq.
  Fixpoint stm_eqb (a b : stm) {struct a} : bool :=
    let fix l_eqb (x y : list stm) {struct x} : bool :=
        match x, y with
        | [], [] => true
        | h :: r, h' :: r' => stm_eqb h h' && l_eqb r r'
        | _, _ => false
        end in
    match a, b with
    | SCall f, SCall g => String.eqb f g
    | SFail, SFail => true
    | SLock m, SLock n => String.eqb m n
    | SUnlock m, SUnlock n => String.eqb m n
    | SSend c, SSend d => String.eqb c d
    | SRecv c, SRecv d => String.eqb c d
    | SClose c, SClose d => String.eqb c d
    | SDelete c, SDelete d => String.eqb c d
    | SAssign c, SAssign d => String.eqb c d
    | SRead c, SRead d => String.eqb c d
    | SReturn c, SReturn d => String.eqb c d
    | SBranch c, SBranch d => String.eqb c d
    | SUnknown c, SUnknown d => String.eqb c d
    | SDefer s, SDefer s' => stm_eqb s s'
    | SGo s, SGo s' => stm_eqb s s'
    | SBlock x, SBlock y => l_eqb x y
    | SLoop x, SLoop y => l_eqb x y
    | SFor c x, SFor d y => String.eqb c d && l_eqb x y
    | SRange c x, SRange d y => String.eqb c d && l_eqb x y
    | SRangeCh c x, SRangeCh d y => String.eqb c d && l_eqb x y
    | SFunc c x, SFunc d y => String.eqb c d && l_eqb x y
    | SIf c t e, SIf d t' e' => String.eqb c d && l_eqb t t' && l_eqb e e'
    | SSelect cs, SSelect ds =>
      (fix c_eqb (x : list (stm * list stm)) (y : list (stm * list stm)) {struct x} : bool :=
         match x, y with
         | [], [] => true
         | (h, hb) :: r, (h', hb') :: r' => stm_eqb h h' && l_eqb hb hb' && c_eqb r r'
         | _, _ => false
         end) cs ds
    | SSwitch t cs, SSwitch t' ds =>
      String.eqb t t' &&
      (fix c_eqb (x : list (string * list stm)) (y : list (string * list stm)) {struct x} : bool :=
         match x, y with
         | [], [] => true
         | (h, hb) :: r, (h', hb') :: r' => String.eqb h h' && l_eqb hb hb' && c_eqb r r'
         | _, _ => false
         end) cs ds
    | _, _ => false
    end.
End Eq.

Fixpoint skel_eqb (x y : list stm) : bool :=
  match x, y with
  | [], [] => true
  | h :: r, h' :: r' => stm_eqb h h' && skel_eqb r r'
  | _, _ => false
  end.

Fixpoint strs_eqb (x y : list string) : bool :=
  match x, y with
  | [], [] => true
  | h :: r, h' :: r' => String.eqb h h' && strs_eqb r r'
  | _, _ => false
  end.

(* the flat list of atomic statements along the "no branch taken, loop bodies once" path:
   enough to state ordering facts such as "acquire precedes run precedes release" *)
Fixpoint main_path (s : stm) : list stm :=
  let fix go (l : list stm) : list stm := match l with [] => [] | h :: r => main_path h ++ go r end in
  match s with
  | SBlock b | SLoop b | SFor _ b | SRange _ b | SRangeCh _ b => go b
  | SIf _ _ e => go e
  | SDefer _ | SFunc _ _ => []
  | _ => [s]
  end.
Definition path_of (l : list stm) : list stm := flat_map main_path l.

(* position of the first atomic statement satisfying p *)
Fixpoint index_of (p : stm -> bool) (l : list stm) (n : nat) : option nat :=
  match l with [] => None | h :: r => if p h then Some n else index_of p r (S n) end.
Definition is_call (f : string) (s : stm) : bool := match s with SCall g => String.eqb f g | _ => false end.
Definition call_before (f g : string) (l : list stm) : bool :=
  match index_of (is_call f) (path_of l) 0, index_of (is_call g) (path_of l) 0 with
  | Some i, Some j => Nat.ltb i j
  | _, _ => false
  end.

(* ---- lock discipline on a skeleton: every statement that touches a guarded object lies inside a region in which the
   mutex `m` is held (between SLock m and SUnlock m, or after SLock m when the unlock is deferred) ---- *)
Fixpoint str_prefix (p s : string) : bool :=
  match p, s with
  | EmptyString, _ => true
  | String a p', String b s' => Ascii.eqb a b && str_prefix p' s'
  | _, _ => false
  end.
Fixpoint str_contains (needle hay : string) : bool :=
  match hay with
  | EmptyString => match needle with EmptyString => true | _ => false end
  | String _ r => str_prefix needle hay || str_contains needle r
  end.

Fixpoint touches (obj : string) (s : stm) : bool :=
  let fix any (l : list stm) : bool := match l with [] => false | h :: r => touches obj h || any r end in
  match s with
  | SAssign x | SRead x | SDelete x => str_contains obj x
  | SRange x b | SRangeCh x b => str_contains obj x || any b
  | SIf c t e => str_contains obj c || any t || any e
  | SFor c b => str_contains obj c || any b
  | SBlock b | SLoop b | SFunc _ b => any b
  | SCall f => str_contains obj f
  | _ => false
  end.

(* walks a statement list; `held` is whether m is held on entry; returns None when an access happens without the lock *)
Fixpoint guarded_from (m obj : string) (held : bool) (l : list stm) : bool :=
  match l with
  | [] => true
  | SLock n :: r => if String.eqb n m then guarded_from m obj true r else guarded_from m obj held r
  | SUnlock n :: r => if String.eqb n m then guarded_from m obj false r else guarded_from m obj held r
  | SDefer _ :: r => guarded_from m obj held r
  | s :: r => (held || negb (touches obj s)) && guarded_from m obj held r
  end.
Definition guarded (m obj : string) (l : list stm) : bool := guarded_from m obj false l.
