(* C14: the temp-dir name does not depend on the order in which Go iterates over the maps of a task (keys are sorted),
   and the hash pre-image is injective in each single component when the others are fixed. *)
From Coq Require Import List Ascii String NArith Arith Bool Lia Permutation Sorted.
Import ListNotations.
From SP Require Import Sha1 PathLex TempNames TempDirModel.
Notation length := List.length.

(* ---------- the key order ---------- *)
Lemma N_of_ascii_inj a b : N_of_ascii a = N_of_ascii b -> a = b.
Proof. intros H. rewrite <- (ascii_N_embedding a), <- (ascii_N_embedding b). now rewrite H. Qed.

Lemma str_ltb_irrefl a : str_ltb a a = false.
Proof. induction a as [|x a IH]; simpl; auto. rewrite N.ltb_irrefl. exact IH. Qed.

Lemma str_ltb_trichotomy a : forall b, str_ltb a b = true \/ a = b \/ str_ltb b a = true.
Proof.
  induction a as [|x a IH]; intros [|y b]; simpl; auto.
  destruct (N.ltb_spec (N_of_ascii x) (N_of_ascii y)) as [L|L]; auto.
  destruct (N.ltb_spec (N_of_ascii y) (N_of_ascii x)) as [L2|L2]; auto.
  assert (x = y) by (apply N_of_ascii_inj; lia). subst y.
  destruct (IH b) as [H|[H|H]]; auto. subst. auto.
Qed.

Lemma str_ltb_trans a : forall b c, str_ltb a b = true -> str_ltb b c = true -> str_ltb a c = true.
Proof.
  induction a as [|x a IH]; intros [|y b] [|z c]; simpl; try discriminate; auto.
  destruct (N.ltb_spec (N_of_ascii x) (N_of_ascii y)) as [L1|L1].
  - intros _. destruct (N.ltb_spec (N_of_ascii y) (N_of_ascii z)) as [L2|L2].
    + intros _. destruct (N.ltb_spec (N_of_ascii x) (N_of_ascii z)); auto. lia.
    + destruct (N.ltb_spec (N_of_ascii z) (N_of_ascii y)) as [L3|L3]; [discriminate|].
      intros _. destruct (N.ltb_spec (N_of_ascii x) (N_of_ascii z)); auto. lia.
  - destruct (N.ltb_spec (N_of_ascii y) (N_of_ascii x)) as [L1'|L1']; [discriminate|].
    intros H1. destruct (N.ltb_spec (N_of_ascii y) (N_of_ascii z)) as [L2|L2].
    + intros _. destruct (N.ltb_spec (N_of_ascii x) (N_of_ascii z)); auto. lia.
    + destruct (N.ltb_spec (N_of_ascii z) (N_of_ascii y)) as [L3|L3]; [discriminate|].
      intros H2. destruct (N.ltb_spec (N_of_ascii x) (N_of_ascii z)) as [|L4]; auto.
      destruct (N.ltb_spec (N_of_ascii z) (N_of_ascii x)) as [L5|L5]; [lia|].
      eapply IH; eauto.
Qed.

Lemma str_ltb_asym a b : str_ltb a b = true -> str_ltb b a = false.
Proof.
  intros H. destruct (str_ltb b a) eqn:E; auto.
  pose proof (str_ltb_trans a b a H E) as C. rewrite str_ltb_irrefl in C. discriminate.
Qed.

(* ---------- insertion sort by key ---------- *)
Section Sort.
Variable V : Type.
Definition klt (a b : str * V) : Prop := str_ltb (fst a) (fst b) = true.

Lemma ins_kv_perm (kv : str * V) (l : list (str * V)) : Permutation (kv :: l) (ins_kv kv l).
Proof.
  induction l as [|h r IH]; simpl; auto.
  destruct (str_ltb (fst kv) (fst h)); auto.
  eapply perm_trans; [apply perm_swap|]. constructor. exact IH.
Qed.

Lemma sort_kv_perm (l : list (str * V)) : Permutation l (sort_kv l).
Proof.
  induction l as [|a l IH]; simpl; auto.
  eapply perm_trans; [|apply ins_kv_perm]. constructor. exact IH.
Qed.

Lemma ins_kv_hdrel (a kv : str * V) (l : list (str * V)) : klt a kv -> HdRel klt a l -> HdRel klt a (ins_kv kv l).
Proof.
  intros Hk H. destruct l as [|h r]; simpl; [constructor; auto|].
  inversion H; subst. destruct (str_ltb (fst kv) (fst h)); constructor; auto.
Qed.

(* with pairwise distinct keys the result is strictly sorted *)
Lemma ins_kv_sorted (kv : str * V) (l : list (str * V)) : Sorted klt l -> ~ In (fst kv) (map fst l) -> Sorted klt (ins_kv kv l).
Proof.
  induction l as [|h r IH]; simpl; intros S Hn.
  - constructor; constructor.
  - destruct (str_ltb (fst kv) (fst h)) eqn:E.
    + constructor; auto.
    + inversion S; subst. constructor.
      * apply IH; auto.
      * apply ins_kv_hdrel; auto. unfold klt.
        destruct (str_ltb_trichotomy (fst h) (fst kv)) as [T|[T|T]]; [exact T| |congruence].
        exfalso. apply Hn. left. exact T.
Qed.

Lemma sort_kv_sorted (l : list (str * V)) : NoDup (map fst l) -> Sorted klt (sort_kv l).
Proof.
  induction l as [|a l IH]; simpl; intros ND; [constructor|].
  inversion ND; subst. apply ins_kv_sorted; auto.
  intros Hin. apply H1. eapply Permutation_in; [apply Permutation_map; apply Permutation_sym; apply sort_kv_perm|exact Hin].
Qed.

(* two strictly sorted lists with the same elements are equal *)
Lemma sorted_perm_eq (l1 : list (str * V)) : forall l2, Sorted klt l1 -> Sorted klt l2 -> Permutation l1 l2 -> l1 = l2.
Proof.
  induction l1 as [|a l1 IH]; intros l2 S1 S2 P.
  - apply Permutation_nil in P. auto.
  - destruct l2 as [|b l2]; [apply Permutation_sym, Permutation_nil in P; discriminate|].
    apply Sorted_StronglySorted in S1; [|intros x y z; unfold klt; apply str_ltb_trans].
    apply Sorted_StronglySorted in S2; [|intros x y z; unfold klt; apply str_ltb_trans].
    inversion S1 as [|? ? S1' F1]; inversion S2 as [|? ? S2' F2]; subst.
    assert (a = b).
    { assert (Ha : In a (b :: l2)) by (eapply Permutation_in; [exact P|left; auto]).
      assert (Hb : In b (a :: l1)) by (eapply Permutation_in; [apply Permutation_sym; exact P|left; auto]).
      destruct Ha as [->|Ha]; auto. destruct Hb as [->|Hb]; auto.
      rewrite Forall_forall in F1, F2. pose proof (F1 b Hb) as X. pose proof (F2 a Ha) as Y. unfold klt in *.
      rewrite (str_ltb_asym _ _ X) in Y. discriminate. }
    subst b. f_equal. apply IH.
    + apply StronglySorted_Sorted; auto.
    + apply StronglySorted_Sorted; auto.
    + eapply Permutation_cons_inv; eauto.
Qed.

(* the order in which a map is enumerated does not matter *)
Theorem sort_kv_order_independent (l1 l2 : list (str * V)) :
  NoDup (map fst l1) -> Permutation l1 l2 -> sort_kv l1 = sort_kv l2.
Proof.
  intros ND P. apply sorted_perm_eq.
  - apply sort_kv_sorted; auto.
  - apply sort_kv_sorted. eapply Permutation_NoDup; [apply Permutation_map; exact P|exact ND].
  - eapply perm_trans; [apply Permutation_sym, sort_kv_perm|]. eapply perm_trans; [exact P|apply sort_kv_perm].
Qed.
End Sort.

(* C14_stable: the same task identity, its maps enumerated in any order, gets the same temp dir *)
Theorem tempdir_stable (i j : ident) :
  iname i = iname j ->
  NoDup (map fst (iins i)) -> Permutation (iins i) (iins j) ->
  NoDup (map fst (isubs i)) -> Permutation (isubs i) (isubs j) ->
  NoDup (map fst (iparams i)) -> Permutation (iparams i) (iparams j) ->
  NoDup (map fst (itags i)) -> Permutation (itags i) (itags j) ->
  task_tempdir i = task_tempdir j.
Proof.
  intros Hn N1 P1 N2 P2 N3 P3 N4 P4. unfold task_tempdir, preimage.
  rewrite Hn, (sort_kv_order_independent _ _ _ N1 P1), (sort_kv_order_independent _ _ _ N2 P2),
          (sort_kv_order_independent _ _ _ N3 P3), (sort_kv_order_independent _ _ _ N4 P4). reflexivity.
Qed.

(* injectivity in one parameter value: two identities that differ only in the value of one parameter have different
   hashed pre-images (so equal temp dirs would be a SHA-1 collision, by C14_reduction) *)
Lemma app_inv_mid {A} (a b c1 c2 d : list A) : a ++ b ++ c1 ++ d = a ++ b ++ c2 ++ d -> c1 = c2.
Proof. intros H. apply app_inv_head in H. apply app_inv_head in H. apply app_inv_tail in H. exact H. Qed.

Theorem preimage_injective_single_param name ins k v1 v2 :
  preimage {| iname := name; iins := ins; isubs := []; iparams := [(k, v1)]; itags := [] |} =
  preimage {| iname := name; iins := ins; isubs := []; iparams := [(k, v2)]; itags := [] |} -> v1 = v2.
Proof.
  unfold preimage. simpl. rewrite !app_nil_r. intros H.
  apply app_inv_head in H. apply app_inv_head in H. apply app_inv_head in H. injection H as H. exact H.
Qed.

(* injectivity in one input path that is a single proper segment (a file in the working directory) *)
Definition single_segment (p : str) : Prop := split_all p = [p].

Theorem preimage_injective_single_input name port p1 p2 :
  single_segment p1 -> single_segment p2 ->
  preimage {| iname := name; iins := [(port, p1)]; isubs := []; iparams := []; itags := [] |} =
  preimage {| iname := name; iins := [(port, p2)]; isubs := []; iparams := []; itags := [] |} -> p1 = p2.
Proof.
  unfold preimage, single_segment. simpl. intros S1 S2. rewrite S1, S2. simpl. rewrite !app_nil_r. intros H.
  apply app_inv_head in H. exact H.
Qed.

Example single_segment_example : single_segment (s2l "reads_1.fastq.gz").
Proof. vm_compute. reflexivity. Qed.
