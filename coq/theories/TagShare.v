(* One IP object handed to two consumers of the same out-port (finding D24).

   OutPort.Send gives every connected in-port the same *FileIP.  components.MapToTags adds its tags to the object it received
   (FileIP.AddTags: one AddTag -- one lock acquisition -- per tag); a process reads FileIP.Tags() once, when it forms the task
   for that IP, and the task's default output name contains what it read.  Two actors, any interleaving. *)
From Coq Require Import List Arith Lia Bool PeanoNat.
Import ListNotations.

Section TagShare.
Variable tag : Type.
Variable init_tags : list tag.        (* what the IP carries when it is sent *)
Variable new_tags : list tag.         (* what the tagger's map function returns *)

Record st := { added : nat;                      (* how many of new_tags the tagger has added so far *)
               view : option (list tag) }.       (* what the sibling read when it formed its task *)

Inductive act := AddOne | Form.

Definition init : st := {| added := 0; view := None |}.

(* shared = true: the tagger writes to the object the sibling reads (the code); false: the tagger works on a copy of its own *)
Definition cell (shared : bool) (s : st) : list tag :=
  if shared then init_tags ++ firstn (added s) new_tags else init_tags.

Definition step (shared : bool) (s : st) (a : act) : option st :=
  match a with
  | AddOne => if Nat.ltb (added s) (length new_tags) then Some {| added := S (added s); view := view s |} else None
  | Form => match view s with None => Some {| added := added s; view := Some (cell shared s) |} | Some _ => None end
  end.

Fixpoint run (shared : bool) (s : st) (l : list act) : option st :=
  match l with [] => Some s | a :: r => match step shared s a with Some s' => run shared s' r | None => None end end.

Definition complete (s : st) : Prop := added s = length new_tags /\ view s <> None.

(* what the sibling can see: the tags the IP came with plus some prefix of the tagger's *)
Lemma run_view shared l : forall s s', run shared s l = Some s' ->
  added s <= length new_tags ->
  (forall v, view s = Some v -> exists j, j <= added s /\ v = cell shared {| added := j; view := None |}) ->
  added s' <= length new_tags /\
  (forall v, view s' = Some v -> exists j, j <= added s' /\ v = cell shared {| added := j; view := None |}).
Proof.
  induction l as [|a r IH]; simpl; intros s s' R B V.
  - injection R as <-. auto.
  - destruct (step shared s a) as [s1|] eqn:S; [|discriminate]. apply (IH s1 s' R).
    + destruct a; simpl in S.
      * destruct (Nat.ltb_spec (added s) (length new_tags)); [|discriminate]. injection S as <-. simpl. lia.
      * destruct (view s); [discriminate|]. injection S as <-. simpl. exact B.
    + destruct a; simpl in S.
      * destruct (Nat.ltb_spec (added s) (length new_tags)); [|discriminate]. injection S as <-. simpl.
        intros v Hv. destruct (V v Hv) as [j [Hj E]]. exists j. split; [lia|exact E].
      * destruct (view s) eqn:W; [discriminate|]. injection S as <-. simpl.
        intros v Hv. injection Hv as <-. exists (added s). split; [lia|]. unfold cell. simpl. reflexivity.
Qed.

Theorem view_is_some_prefix shared l s : run shared init l = Some s ->
  forall v, view s = Some v -> exists j, j <= length new_tags /\ v = (if shared then init_tags ++ firstn j new_tags else init_tags).
Proof.
  intros R v Hv. destruct (run_view shared l init s R) as [B V]; simpl; [lia|intros ? H; discriminate|].
  destruct (V v Hv) as [j [Hj E]]. exists j. split; [lia|]. rewrite E. unfold cell. simpl. reflexivity.
Qed.

(* with a private copy the sibling's view does not depend on the schedule *)
Theorem private_copy_deterministic l s : run false init l = Some s -> forall v, view s = Some v -> v = init_tags.
Proof. intros R v Hv. destruct (view_is_some_prefix false l s R v Hv) as [j [_ E]]. exact E. Qed.

(* with the shared object every prefix is the view of some complete run: the schedule `j additions, Form, the rest` *)
Lemma run_adds shared k : forall s, added s + k <= length new_tags ->
  run shared s (repeat AddOne k) = Some {| added := added s + k; view := view s |}.
Proof.
  induction k as [|k IH]; intros s H; simpl.
  - rewrite Nat.add_0_r. destruct s; reflexivity.
  - destruct (Nat.ltb_spec (added s) (length new_tags)); [|lia].
    rewrite IH; simpl; [|lia]. f_equal. f_equal. lia.
Qed.

Lemma run_app shared l1 : forall s s1 l2, run shared s l1 = Some s1 -> run shared s (l1 ++ l2) = run shared s1 l2.
Proof.
  induction l1 as [|a r IH]; simpl; intros s s1 l2 H.
  - injection H as <-. reflexivity.
  - destruct (step shared s a) as [s'|]; [|discriminate]. apply IH. exact H.
Qed.

Theorem every_prefix_is_seen j : j <= length new_tags ->
  exists l s, run true init l = Some s /\ complete s /\ view s = Some (init_tags ++ firstn j new_tags).
Proof.
  intros Hj. exists (repeat AddOne j ++ Form :: repeat AddOne (length new_tags - j)).
  eexists. split.
  - rewrite (run_app true (repeat AddOne j) init _ _ (run_adds true j init Hj)). simpl.
    rewrite run_adds; simpl; [reflexivity|lia].
  - split; [split; simpl; [lia|discriminate]|]. simpl. reflexivity.
Qed.

(* hence: as soon as the tagger has a tag to add, two complete runs of the same workflow on the same input disagree about what
   the sibling saw (and so about the name of its output) *)
Theorem shared_object_timing_dependent : new_tags <> [] ->
  exists l1 s1 l2 s2 v1 v2, run true init l1 = Some s1 /\ complete s1 /\ view s1 = Some v1 /\
                            run true init l2 = Some s2 /\ complete s2 /\ view s2 = Some v2 /\ v1 <> v2.
Proof.
  intros NE.
  destruct (every_prefix_is_seen 0 (Nat.le_0_l _)) as (l1 & s1 & R1 & C1 & V1).
  destruct (every_prefix_is_seen (length new_tags) (le_n _)) as (l2 & s2 & R2 & C2 & V2).
  exists l1, s1, l2, s2, (init_tags ++ firstn 0 new_tags), (init_tags ++ firstn (length new_tags) new_tags).
  repeat split; try assumption; try (destruct C1; assumption); try (destruct C2; assumption).
  simpl. rewrite firstn_all. rewrite app_nil_r. intros E.
  assert (L : length init_tags = length (init_tags ++ new_tags)) by (rewrite <- E; reflexivity).
  rewrite app_length in L. destruct new_tags; [congruence|simpl in L; lia].
Qed.

(* and with two or more tags a sibling can observe the tagging half-done: some of the tags, not all *)
Theorem shared_object_half_done : 2 <= length new_tags ->
  exists l s, run true init l = Some s /\ complete s /\ view s = Some (init_tags ++ firstn 1 new_tags) /\
              firstn 1 new_tags <> [] /\ firstn 1 new_tags <> new_tags.
Proof.
  intros H2. destruct (every_prefix_is_seen 1) as (l & s & R & C & V); [lia|].
  exists l, s. repeat split; try assumption; try (destruct C; assumption).
  - destruct new_tags; simpl in *; [lia|discriminate].
  - destruct new_tags as [|a [|b r]]; simpl in *; try lia. discriminate.
Qed.

End TagShare.

(* the witness of the finding: one tag `sample`; the sibling's default name has the tag piece in one run and not in the other *)
Example d24 :
  exists l1 s1 l2 s2, run nat [] [7] true (init nat) l1 = Some s1 /\ view nat s1 = Some [] /\
                      run nat [] [7] true (init nat) l2 = Some s2 /\ view nat s2 = Some [7].
Proof. exists [Form; AddOne], {| added := 1; view := Some [] |}, [AddOne; Form], {| added := 1; view := Some [7] |}. repeat split. Qed.
