(* C17 -- Streaming outputs deliver the producer's bytes through a FIFO and leave no trace.
   Model: Stream -- a producer / consumer pair connected by a named pipe (rendez-vous open, bounded buffer), both tasks
   needing a slot, the producer's audit record set on the shared IP after it exits, the pipe removed by the producer's
   process after the task is done; the consumer either executes, or -- on a re-run, its output being on disk -- is skipped
   and drains the pipe.  StreamN -- any number of such pairs sharing the workflow's slot counter.
   Quantifiers: every number of pairs, every payload, pipe capacity and mode per pair, slot count, schedule. *)
From Coq Require Import List Arith Lia Bool String.
Import ListNotations.
From SP Require Import Skel Gen Expected ExpectedCones Stream StreamLive StreamN.
From SP Require Drain.

(* T1: the FIFO is created and forwarded before the task is spawned, removed after the task's Done; a skipped task
   drains the FIFOs of its streaming inputs *)
Theorem C17_code_conforms :
  skel_eqb skel_Process_Run exp_Process_Run
  && skel_eqb skel_Task_Execute exp_Task_Execute
  && skel_eqb skel_Task_drainStreamingInputs exp_Task_drainStreamingInputs
  && skel_eqb skel_FileIP_CreateFifo exp_FileIP_CreateFifo
  && skel_eqb skel_Task_anyOutputsExist exp_Task_anyOutputsExist
  && skel_eqb skel_Task_ensureAllOutputsExist exp_Task_ensureAllOutputsExist
  && skel_eqb skel_FinalizePaths exp_FinalizePaths = true.
Proof. vm_compute. reflexivity. Qed.

(* whatever the schedule, the payload size and the pipe capacity: a consumer that has executed and finished has finalized
   exactly and completely the bytes the producer wrote *)
Theorem C17_bytes : forall (c : cfg) (l : list act) (s : st),
  skip c = false -> run c (init c) l = Some s -> cp s = CDone -> outfile s = Some (payload c).
Proof. exact Stream.C17_bytes. Qed.

(* every execution completes: with a slot for the producer and one for the executing consumer (the property's guard) and
   a pipe of capacity >= 1, no reachable state is stuck before both tasks are done and the pipe is removed ... *)
Theorem C17_progress : forall (c : cfg) (l : list act) (s : st),
  (if skip c then 1 else 2) <= slots c -> 1 <= pipecap c ->
  run c (init c) l = Some s -> fifo s = true \/ pp s <> PDone \/ cp s <> CDone ->
  exists a, step c s a <> None.
Proof. exact StreamLive.stream_progress. Qed.

(* ... and every execution is finite: each action strictly decreases a natural-number measure *)
Theorem C17_terminates : forall (c : cfg) (s : st) (a : act) (s' : st),
  step c s a = Some s' -> measure c s' < measure c s.
Proof. exact StreamLive.stream_step_decreases. Qed.

(* re-running the workflow after it completed: the consumer's output is on disk, its task is skipped and drains the pipe;
   the run terminates (C17_progress and C17_terminates cover this mode: skip c = true), the consumer's output keeps its
   content in every reachable state, and what was drained is exactly what the re-executed producer wrote *)
Theorem C17_rerun_untouched : forall (c : cfg) (l : list act) (s : st),
  skip c = true -> run c (init c) l = Some s -> outfile s = Some (old c).
Proof. exact Stream.rerun_untouched. Qed.

Theorem C17_rerun_drained : forall (c : cfg) (l : list act) (s : st),
  skip c = true -> run c (init c) l = Some s -> cp s = CDone -> got s = payload c /\ buf s = [].
Proof. exact Stream.rerun_drained. Qed.

(* ---- any number of pairs sharing the task slots ("whenever enough task slots exist for each producer and its consumer
   to run at the same time"): total demand = one slot per producer plus one per executing consumer ---- *)
Theorem C17_pairs_bytes : forall (g : gcfg) (l : list (nat * act)) (s : gst) (i : nat) (c : cfg) (p : st),
  grun g (ginit g) l = Some s -> nth_error (cfgs g) i = Some c -> nth_error (pairs s) i = Some p ->
  skip c = false -> cp p = CDone -> outfile p = Some (payload c).
Proof. exact StreamN.pairs_bytes. Qed.

Theorem C17_pairs_rerun_untouched : forall (g : gcfg) (l : list (nat * act)) (s : gst) (i : nat) (c : cfg) (p : st),
  grun g (ginit g) l = Some s -> nth_error (cfgs g) i = Some c -> nth_error (pairs s) i = Some p ->
  skip c = true -> outfile p = Some (old c).
Proof. exact StreamN.pairs_rerun_untouched. Qed.

(* no reachable state is stuck while any pair is unfinished: the unfinished pair itself can move *)
Theorem C17_pairs_progress : forall (g : gcfg) (l : list (nat * act)) (s : gst) (i : nat) (p : st),
  total_demand g <= gslots g -> Forall (fun c => 1 <= pipecap c) (cfgs g) ->
  grun g (ginit g) l = Some s -> nth_error (pairs s) i = Some p -> unfinished p ->
  exists a, gstep g s (i, a) <> None.
Proof. exact StreamN.pairs_progress. Qed.

(* a run that cannot be extended has finished every pair and removed every pipe *)
Theorem C17_pairs_maximal : forall (g : gcfg) (l : list (nat * act)) (s : gst),
  total_demand g <= gslots g -> Forall (fun c => 1 <= pipecap c) (cfgs g) ->
  grun g (ginit g) l = Some s -> (forall ia, gstep g s ia = None) ->
  forall i p, nth_error (pairs s) i = Some p -> pp p = PDone /\ cp p = CDone /\ fifo p = false.
Proof. exact StreamN.pairs_maximal_run_completes. Qed.

Theorem C17_pairs_terminate : forall (g : gcfg) (s : gst) (ia : nat * act) (s' : gst),
  gstep g s ia = Some s' -> gmeasure (cfgs g) (pairs s') < gmeasure (cfgs g) (pairs s).
Proof. exact StreamN.pairs_terminate. Qed.

(* non-vacuity: an executing pair and a skipped-and-draining pair on three slots, interleaved to completion *)
Theorem C17_pairs_example :
  total_demand g2 <= gslots g2 /\
  match grun g2 (ginit g2) sched2 with
  | Some s => map outfile (pairs s) = [Some [1;2;3]; Some [9]] /\ map fifo (pairs s) = [false; false] /\ gtok s = 0
              /\ map cp (pairs s) = [CDone; CDone]
  | None => False
  end.
Proof. exact StreamN.pairs_example. Qed.

(* the guard is necessary for several pairs too: two executing pairs on two slots deadlock *)
Theorem C17_pairs_too_few_slots_refuted :
  match grun g3 (ginit g3) [(0, AForward); (1, AForward); (0, PAcquire); (1, PAcquire)] with
  | Some s => gstuck g3 s = true /\ map cp (pairs s) = [CWaitSlot; CWaitSlot]
  | None => False
  end.
Proof. exact StreamN.pairs_too_few_slots_refuted. Qed.

(* a skipped consumer with several streaming inputs (finding D22): the FIFOs are drained concurrently.  Whatever the order in
   which the producer writes them, and however many there are, every state before the end can take its next rendezvous ... *)
Theorem C17_drain_concurrent_progress : forall (writes fifos : list nat),
  NoDup writes -> (forall f, In f writes -> In f fifos) ->
  forall n s, n <= List.length writes ->
  s = {| Drain.pw := skipn n writes; Drain.waiting := filter (fun x => negb (existsb (Nat.eqb x) (firstn n writes))) fifos; Drain.later := [] |} ->
  Drain.pw s <> [] -> Drain.step s <> None.
Proof. exact Drain.concurrent_progress. Qed.

(* ... whereas draining them one after the other, in an order that differs from the producer's, waits for ever (the code
   before the repair: the re-run of a completed workflow hung when map iteration gave the other order) *)
Theorem C17_drain_sequential_refuted_before_repair :
  Drain.step (Drain.sequential [2; 1] [1; 2]) = None /\ Drain.pw (Drain.sequential [2; 1] [1; 2]) <> [].
Proof. exact Drain.sequential_stuck. Qed.

(* non-vacuity and the "no trace" part on a complete run: payload longer than the pipe, two slots; at the end both are
   done, the pipe is removed, all slots are free *)
Theorem C17_run_ok :
  after c2 (init c2) [AForward; PAcquire; CAcquire; AOpenBoth; PWrite; PWrite; CRead; PWrite; PExit; CRead; CRead; CEof;
                      PSetAudit; CAudit; CFinalize; CRelease; CDoneA; PRelease; PDoneA; ARemoveFifo]
        (fun s => cp_done s && pp_done s && negb (fifo s) && Nat.eqb (tokens s) 0) = true.
Proof. exact Stream.C17_run_ok. Qed.

(* the property's own guard is necessary: with a single slot the pair deadlocks *)
Theorem C17_one_slot_refuted :
  after c1 (init c1) [AForward; PAcquire] (fun s => stuck c1 s && negb (cp_done s)) = true.
Proof. exact Stream.C17_one_slot_refuted. Qed.

(* finding D12: whether the consumer's record names the producer depends on who finishes first *)
Theorem C17_audit_race_refuted :
  (match run c3 (init c3) [AForward; PAcquire; CAcquire; AOpenBoth; PWrite; PExit; CRead; CEof; PSetAudit; CAudit] with Some s => linked s | None => None end) = Some true /\
  (match run c3 (init c3) [AForward; PAcquire; CAcquire; AOpenBoth; PWrite; PExit; CRead; CEof; CAudit; PSetAudit] with Some s => linked s | None => None end) = Some false.
Proof. exact Stream.C17_audit_race_refuted. Qed.

(* why the drain in the skip branch is demanded: without it, on a re-run the consumer is skipped, never opens the pipe,
   and the re-executed producer blocks in open() for ever (the defect D9, repaired in the source) *)
Theorem C17_rerun_without_drain_refuted :
  after c3 s_rerun [PAcquire] (fun s => stuck c3 s && negb (pp_done s)) = true.
Proof. exact Stream.C17_rerun_refuted. Qed.

(* T1, call cones: every function of scipipe that the functions above can reach (calls and function values, interface calls
   resolved to every implementation) is one the models were compared with -- a helper that is new to the cone, or a new call
   of an old one, changes a list (the lists are regenerated from /repo on every run; ExpectedCones.v holds the accepted ones) *)
Theorem C17_cone_conforms :
  strs_eqb cone_Process_Run exp_cone_Process_Run
  && strs_eqb cone_Task_Execute exp_cone_Task_Execute
  && strs_eqb cone_Task_drainStreamingInputs exp_cone_Task_drainStreamingInputs
  && strs_eqb cone_FileIP_CreateFifo exp_cone_FileIP_CreateFifo
  && strs_eqb cone_Task_anyOutputsExist exp_cone_Task_anyOutputsExist
  && strs_eqb cone_Task_ensureAllOutputsExist exp_cone_Task_ensureAllOutputsExist
  && strs_eqb cone_FinalizePaths exp_cone_FinalizePaths = true.
Proof. vm_compute. reflexivity. Qed.

Print Assumptions C17_code_conforms.
Print Assumptions C17_bytes.
Print Assumptions C17_progress.
Print Assumptions C17_terminates.
Print Assumptions C17_rerun_untouched.
Print Assumptions C17_rerun_drained.
Print Assumptions C17_drain_concurrent_progress.
Print Assumptions C17_drain_sequential_refuted_before_repair.
Print Assumptions C17_pairs_bytes.
Print Assumptions C17_pairs_rerun_untouched.
Print Assumptions C17_pairs_progress.
Print Assumptions C17_pairs_maximal.
Print Assumptions C17_pairs_terminate.
Print Assumptions C17_pairs_example.
Print Assumptions C17_pairs_too_few_slots_refuted.
Print Assumptions C17_run_ok.
Print Assumptions C17_one_slot_refuted.
Print Assumptions C17_audit_race_refuted.
Print Assumptions C17_rerun_without_drain_refuted.
Print Assumptions C17_cone_conforms.
