(* C17 -- Streaming outputs deliver the producer's bytes through a FIFO and leave no trace.
   Model: Stream -- one producer / consumer pair connected by a named pipe (rendez-vous open, bounded buffer), both tasks
   needing a slot, the producer's audit record set on the shared IP after it exits, the pipe removed by the producer's
   process after the task is done.  Quantifiers: every payload, pipe capacity, slot count, schedule. *)
From Coq Require Import List Arith Lia Bool String.
Import ListNotations.
From SP Require Import Skel Gen Expected Stream StreamLive.

(* T1: the FIFO is created and forwarded before the task is spawned, removed after the task's Done; a skipped task
   drains the FIFOs of its streaming inputs *)
Theorem C17_code_conforms :
  skel_eqb skel_Process_Run exp_Process_Run
  && skel_eqb skel_Task_Execute exp_Task_Execute
  && skel_eqb skel_Task_drainStreamingInputs exp_Task_drainStreamingInputs
  && skel_eqb skel_FileIP_CreateFifo exp_FileIP_CreateFifo
  && skel_eqb skel_Task_anyOutputsExist exp_Task_anyOutputsExist
  && skel_eqb skel_Task_ensureAllOutputsExist exp_Task_ensureAllOutputsExist
  && skel_eqb skel_FinalizePaths exp_FinalizePaths = true.
Proof. vm_compute. reflexivity. Qed.

(* whatever the schedule, the payload size and the pipe capacity: a consumer that has finished has finalized exactly
   and completely the bytes the producer wrote *)
Theorem C17_bytes : forall (c : cfg) (l : list act) (s : st),
  run c (init c) l = Some s -> cp s = CDone -> outfile s = Some (payload c).
Proof. exact Stream.C17_bytes. Qed.

(* every execution completes: with at least two slots (the property's guard: >= 2n for n streamed items) and a pipe of
   capacity >= 1, no reachable state is stuck before both tasks are done and the pipe is removed ... *)
Theorem C17_progress : forall (c : cfg) (l : list act) (s : st),
  2 <= slots c -> 1 <= pipecap c ->
  run c (init c) l = Some s -> fifo s = true \/ pp s <> PDone \/ cp s <> CDone ->
  exists a, step c s a <> None.
Proof. exact StreamLive.stream_progress. Qed.

(* ... and every execution is finite: each action strictly decreases a natural-number measure *)
Theorem C17_terminates : forall (c : cfg) (s : st) (a : act) (s' : st),
  step c s a = Some s' -> measure c s' < measure c s.
Proof. exact StreamLive.stream_step_decreases. Qed.

(* non-vacuity and the "no trace" part on a complete run: payload longer than the pipe, two slots; at the end both are
   done, the pipe is removed, all slots are free *)
Theorem C17_run_ok :
  after c2 (init c2) [AForward; PAcquire; CAcquire; AOpenBoth; PWrite; PWrite; CRead; PWrite; PExit; CRead; CRead; CEof;
                      PSetAudit; CAudit; CFinalize; CRelease; CDoneA; PRelease; PDoneA; ARemoveFifo]
        (fun s => cp_done s && pp_done s && negb (fifo s) && Nat.eqb (tokens s) 0) = true.
Proof. exact Stream.C17_run_ok. Qed.

(* the property's own guard is necessary: with a single slot the pair deadlocks *)
Theorem C17_one_slot_refuted :
  after c1 (init c1) [AForward; PAcquire] (fun s => stuck c1 s && negb (cp_done s)) = true.
Proof. exact Stream.C17_one_slot_refuted. Qed.

(* finding D12: whether the consumer's record names the producer depends on who finishes first *)
Theorem C17_audit_race_refuted :
  (match run c3 (init c3) [AForward; PAcquire; CAcquire; AOpenBoth; PWrite; PExit; CRead; CEof; PSetAudit; CAudit] with Some s => linked s | None => None end) = Some true /\
  (match run c3 (init c3) [AForward; PAcquire; CAcquire; AOpenBoth; PWrite; PExit; CRead; CEof; CAudit; PSetAudit] with Some s => linked s | None => None end) = Some false.
Proof. exact Stream.C17_audit_race_refuted. Qed.

(* why the drain in the skip branch is demanded: without it, on a re-run the consumer is skipped, never opens the pipe,
   and the re-executed producer blocks in open() for ever (the defect D9, repaired in the source) *)
Theorem C17_rerun_without_drain_refuted :
  after c3 s_rerun [PAcquire] (fun s => stuck c3 s && negb (pp_done s)) = true.
Proof. exact Stream.C17_rerun_refuted. Qed.

Print Assumptions C17_code_conforms.
Print Assumptions C17_bytes.
Print Assumptions C17_progress.
Print Assumptions C17_terminates.
Print Assumptions C17_run_ok.
Print Assumptions C17_one_slot_refuted.
Print Assumptions C17_audit_race_refuted.
Print Assumptions C17_rerun_without_drain_refuted.
