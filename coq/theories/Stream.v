(* Prototype: a streaming (FIFO) producer/consumer pair under task slots (C17). *)
From Coq Require Import List Arith Lia Bool.
Import ListNotations.

Definition byte := nat.

Inductive ppc := PWaitSlot | POpening | PWriting (rest : list byte) | PExited | PAudited | PReleased | PDone.
(* CSkipOpen / CDraining: the consumer task found its outputs on disk, is skipped, and drains the pipe (drainStreamingInputs) *)
Inductive cpc := CNone | CWaitSlot | COpening | CReading | CExited | CAudited (linked : bool) | CFinal | CReleased | CDone
               | CSkipOpen | CDraining.

Record st := {
  fifo : bool;               (* the named pipe exists in the directory *)
  wclosed : bool;            (* writer end closed *)
  buf : list byte;           (* bytes in the pipe *)
  sent : list byte;          (* ghost: everything written *)
  got : list byte;           (* everything the consumer read *)
  pp : ppc; cp : cpc;
  tokens : nat;
  paudit : bool;             (* producer's audit record has been set on the shared IP *)
  outfile : option (list byte) (* consumer's finalised output *)
}.

(* skip: the consumer's output exists before the run (a re-run of a completed workflow) and holds [old] *)
Record cfg := { payload : list byte; pipecap : nat; slots : nat; skip : bool; old : list byte }.

Definition init (c : cfg) : st :=
  {| fifo := true (* created by Process.Run before the task is spawned *); wclosed := false; buf := []; sent := []; got := [];
     pp := PWaitSlot; cp := CNone; tokens := 0; paudit := false; outfile := if skip c then Some (old c) else None |}.

Inductive act :=
| AForward        (* the IP reaches the consumer, whose task is created *)
| PAcquire | CAcquire
| AOpenBoth       (* open(O_WRONLY) and open(O_RDONLY) return together *)
| PWrite | PExit | PSetAudit | PRelease | PDoneA
| CRead | CEof | CAudit | CFinalize | CRelease | CDoneA
| ARemoveFifo.

Definition step (c : cfg) (s : st) (a : act) : option st :=
  match a with
  | AForward => match cp s with CNone => Some {| fifo := fifo s; wclosed := wclosed s; buf := buf s; sent := sent s; got := got s; pp := pp s; cp := (if skip c then CSkipOpen else CWaitSlot); tokens := tokens s; paudit := paudit s; outfile := outfile s |} | _ => None end
  | PAcquire => match pp s with PWaitSlot => if Nat.ltb (tokens s) (slots c) then Some {| fifo := fifo s; wclosed := wclosed s; buf := buf s; sent := sent s; got := got s; pp := POpening; cp := cp s; tokens := S (tokens s); paudit := paudit s; outfile := outfile s |} else None | _ => None end
  | CAcquire => match cp s with CWaitSlot => if Nat.ltb (tokens s) (slots c) then Some {| fifo := fifo s; wclosed := wclosed s; buf := buf s; sent := sent s; got := got s; pp := pp s; cp := COpening; tokens := S (tokens s); paudit := paudit s; outfile := outfile s |} else None | _ => None end
  | AOpenBoth => match pp s, cp s with
                 | POpening, COpening => Some {| fifo := fifo s; wclosed := false; buf := buf s; sent := sent s; got := got s; pp := PWriting (payload c); cp := CReading; tokens := tokens s; paudit := paudit s; outfile := outfile s |}
                 | POpening, CSkipOpen => Some {| fifo := fifo s; wclosed := false; buf := buf s; sent := sent s; got := got s; pp := PWriting (payload c); cp := CDraining; tokens := tokens s; paudit := paudit s; outfile := outfile s |}
                 | _, _ => None end
  | PWrite => match pp s with PWriting (b :: r) => if Nat.ltb (length (buf s)) (pipecap c) then Some {| fifo := fifo s; wclosed := wclosed s; buf := buf s ++ [b]; sent := sent s ++ [b]; got := got s; pp := PWriting r; cp := cp s; tokens := tokens s; paudit := paudit s; outfile := outfile s |} else None | _ => None end
  | PExit => match pp s with PWriting [] => Some {| fifo := fifo s; wclosed := true; buf := buf s; sent := sent s; got := got s; pp := PExited; cp := cp s; tokens := tokens s; paudit := paudit s; outfile := outfile s |} | _ => None end
  | PSetAudit => match pp s with PExited => Some {| fifo := fifo s; wclosed := wclosed s; buf := buf s; sent := sent s; got := got s; pp := PAudited; cp := cp s; tokens := tokens s; paudit := true; outfile := outfile s |} | _ => None end
  | PRelease => match pp s with PAudited => Some {| fifo := fifo s; wclosed := wclosed s; buf := buf s; sent := sent s; got := got s; pp := PReleased; cp := cp s; tokens := pred (tokens s); paudit := paudit s; outfile := outfile s |} | _ => None end
  | PDoneA => match pp s with PReleased => Some {| fifo := fifo s; wclosed := wclosed s; buf := buf s; sent := sent s; got := got s; pp := PDone; cp := cp s; tokens := tokens s; paudit := paudit s; outfile := outfile s |} | _ => None end
  | CRead => match cp s, buf s with
             | CReading, b :: r | CDraining, b :: r => Some {| fifo := fifo s; wclosed := wclosed s; buf := r; sent := sent s; got := got s ++ [b]; pp := pp s; cp := cp s; tokens := tokens s; paudit := paudit s; outfile := outfile s |}
             | _, _ => None end
  | CEof => match cp s, buf s with
            | CReading, [] => if wclosed s then Some {| fifo := fifo s; wclosed := wclosed s; buf := []; sent := sent s; got := got s; pp := pp s; cp := CExited; tokens := tokens s; paudit := paudit s; outfile := outfile s |} else None
            | CDraining, [] => if wclosed s then Some {| fifo := fifo s; wclosed := wclosed s; buf := []; sent := sent s; got := got s; pp := pp s; cp := CDone; tokens := tokens s; paudit := paudit s; outfile := outfile s |} else None   (* io.Copy returns at EOF; Close; Done *)
            | _, _ => None end
  | CAudit => match cp s with CExited => Some {| fifo := fifo s; wclosed := wclosed s; buf := buf s; sent := sent s; got := got s; pp := pp s; cp := CAudited (paudit s); tokens := tokens s; paudit := paudit s; outfile := outfile s |} | _ => None end
  | CFinalize => match cp s with CAudited l => Some {| fifo := fifo s; wclosed := wclosed s; buf := buf s; sent := sent s; got := got s; pp := pp s; cp := CFinal; tokens := tokens s; paudit := paudit s; outfile := Some (got s) |} | _ => None end
  | CRelease => match cp s with CFinal => Some {| fifo := fifo s; wclosed := wclosed s; buf := buf s; sent := sent s; got := got s; pp := pp s; cp := CReleased; tokens := pred (tokens s); paudit := paudit s; outfile := outfile s |} | _ => None end
  | CDoneA => match cp s with CReleased => Some {| fifo := fifo s; wclosed := wclosed s; buf := buf s; sent := sent s; got := got s; pp := pp s; cp := CDone; tokens := tokens s; paudit := paudit s; outfile := outfile s |} | _ => None end
  | ARemoveFifo => match pp s with PDone => if fifo s then Some {| fifo := false; wclosed := wclosed s; buf := buf s; sent := sent s; got := got s; pp := pp s; cp := cp s; tokens := tokens s; paudit := paudit s; outfile := outfile s |} else None | _ => None end
  end.

Fixpoint run (c : cfg) (s : st) (l : list act) : option st :=
  match l with [] => Some s | a :: r => match step c s a with Some s' => run c s' r | None => None end end.

Definition prest (p : ppc) (c : cfg) : list byte :=
  match p with PWaitSlot | POpening => payload c | PWriting r => r | _ => [] end.

(* data invariant: nothing lost, nothing duplicated, order kept *)
Definition c_after_eof (q : cpc) : bool := match q with CExited | CAudited _ | CFinal | CReleased | CDone => true | _ => false end.
Definition c_finalized (q : cpc) : bool := match q with CFinal | CReleased | CDone => true | _ => false end.
Definition c_skipping (q : cpc) : bool := match q with CNone | CSkipOpen | CDraining | CDone => true | _ => false end.
Definition c_running (q : cpc) : bool := match q with CSkipOpen | CDraining => false | _ => true end.
Definition p_unopened (p : ppc) : bool := match p with PWaitSlot | POpening => true | _ => false end.
Definition p_writing (p : ppc) : bool := match p with PWaitSlot | POpening | PWriting _ => true | _ => false end.
Definition c_unopened (q : cpc) : bool := match q with CNone | CWaitSlot | COpening | CSkipOpen => true | _ => false end.

Definition DInv (c : cfg) (s : st) : Prop :=
  sent s ++ prest (pp s) c = payload c /\ got s ++ buf s = sent s /\
  (c_after_eof (cp s) = true -> buf s = [] /\ prest (pp s) c = [] /\ p_writing (pp s) = false) /\
  (if skip c then outfile s = Some (old c) /\ c_skipping (cp s) = true
   else c_running (cp s) = true /\ outfile s = if c_finalized (cp s) then Some (got s) else None) /\
  (p_unopened (pp s) = true -> sent s = [] /\ c_unopened (cp s) = true) /\
  (wclosed s = true -> p_writing (pp s) = false).

Lemma init_dinv c : DInv c (init c).
Proof. unfold DInv, init; simpl. repeat split; auto; try discriminate. destruct (skip c); auto. Qed.

Lemma step_dinv c s a s' : DInv c s -> step c s a = Some s' -> DInv c s'.
Proof.
  unfold DInv. intros [H1 [H2 [H3 [H4 [H5 H6]]]]].
  destruct a; simpl; destruct (pp s) eqn:P; destruct (cp s) eqn:C; simpl in *; try discriminate;
    try (destruct (Nat.ltb _ _); try discriminate);
    try (destruct rest as [|b rest]; try discriminate);
    try (destruct (buf s) as [|b0 bs] eqn:B; try discriminate);
    try (destruct (wclosed s) eqn:W; try discriminate);
    try (destruct (fifo s); try discriminate);
    try (destruct (Nat.ltb _ _); try discriminate);
    intros E; injection E as <-; simpl; rewrite ?P, ?C; simpl;
    destruct (skip c) eqn:K; simpl;
    repeat match goal with
           | H : _ /\ _ |- _ => destruct H
           | H : true = true -> _ |- _ => specialize (H eq_refl)
           | H : false = true |- _ => discriminate H
           | H : true = false |- _ => discriminate H
           end;
    repeat split; subst; auto; try discriminate; try congruence;
    try (intros; discriminate);
    try (rewrite <- ?app_assoc; simpl; auto; fail);
    try (rewrite ?app_nil_r in *; congruence);
    try (rewrite <- ?app_assoc in *; simpl in *; congruence);
    try (rewrite app_assoc; congruence);
    try (rewrite app_assoc; f_equal; rewrite ?app_nil_r in *; congruence);
    try (match goal with H : got _ ++ _ = sent _ |- _ => rewrite <- H; rewrite <- ?app_assoc; simpl; reflexivity end).
Qed.

Lemma run_dinv c l : forall s s', DInv c s -> run c s l = Some s' -> DInv c s'.
Proof.
  induction l as [|a r IH]; simpl; intros s s' H E.
  - injection E as <-. auto.
  - destruct (step c s a) as [s1|] eqn:S; [|discriminate]. apply (IH s1 s'); auto. apply (step_dinv c s a s1); auto.
Qed.

(* C17_bytes: whatever the schedule, payload size and pipe capacity, a consumer that executed and
   finished has written exactly the producer's bytes *)
Theorem C17_bytes c l s : skip c = false -> run c (init c) l = Some s -> cp s = CDone -> outfile s = Some (payload c).
Proof.
  intros K R C. pose proof (run_dinv c l _ _ (init_dinv c) R) as [H1 [H2 [H3 [H4 [H5 H6]]]]].
  rewrite K in H4. rewrite C in *. simpl in *. destruct (H3 eq_refl) as [Hb [Hr _]]. destruct H4 as [_ ->]. f_equal.
  rewrite Hb, app_nil_r in H2. rewrite Hr, app_nil_r in H1. congruence.
Qed.

(* re-run of a completed workflow: the consumer's output exists; whatever the schedule, it keeps its content in every
   reachable state, and what the skipped consumer drained is what the producer wrote *)
Theorem rerun_untouched c l s : skip c = true -> run c (init c) l = Some s -> outfile s = Some (old c).
Proof.
  intros K R. pose proof (run_dinv c l _ _ (init_dinv c) R) as [_ [_ [_ [H4 _]]]]. rewrite K in H4. apply H4.
Qed.

Theorem rerun_drained c l s : skip c = true -> run c (init c) l = Some s -> cp s = CDone -> got s = payload c /\ buf s = [].
Proof.
  intros K R C. pose proof (run_dinv c l _ _ (init_dinv c) R) as [H1 [H2 [H3 _]]].
  rewrite C in *. simpl in *. destruct (H3 eq_refl) as [Hb [Hr _]].
  rewrite Hb, app_nil_r in H2. rewrite Hr, app_nil_r in H1. split; congruence.
Qed.

Definition all_acts := [AForward; PAcquire; CAcquire; AOpenBoth; PWrite; PExit; PSetAudit; PRelease; PDoneA;
                        CRead; CEof; CAudit; CFinalize; CRelease; CDoneA; ARemoveFifo].
Definition stuck c s := forallb (fun a => match step c s a with None => true | Some _ => false end) all_acts.

Definition cp_done (s : st) := match cp s with CDone => true | _ => false end.
Definition pp_done (s : st) := match pp s with PDone => true | _ => false end.
Definition linked (s : st) := match cp s with CAudited b => Some b | _ => None end.
Definition after c s0 l (f : st -> bool) := match run c s0 l with Some s => f s | None => false end.

(* with a single slot the pair deadlocks (the property's own guard) *)
Definition c1 := {| payload := [1;2;3]; pipecap := 2; slots := 1; skip := false; old := [] |}.
Example C17_one_slot_refuted :
  after c1 (init c1) [AForward; PAcquire] (fun s => stuck c1 s && negb (cp_done s)) = true.
Proof. vm_compute. reflexivity. Qed.

(* a complete run with two slots, payload longer than the pipe: bytes arrive, pipe removed *)
Definition c2 := {| payload := [1;2;3]; pipecap := 2; slots := 2; skip := false; old := [] |}.
Example C17_run_ok :
  after c2 (init c2) [AForward; PAcquire; CAcquire; AOpenBoth; PWrite; PWrite; CRead; PWrite; PExit; CRead; CRead; CEof;
                      PSetAudit; CAudit; CFinalize; CRelease; CDoneA; PRelease; PDoneA; ARemoveFifo]
        (fun s => cp_done s && pp_done s && negb (fifo s) && Nat.eqb (tokens s) 0) = true.
Proof. vm_compute. reflexivity. Qed.

(* the audit link depends on who finishes first *)
Definition c3 := {| payload := [1]; pipecap := 2; slots := 2; skip := false; old := [] |}.
Example C17_audit_race_refuted :
  (match run c3 (init c3) [AForward; PAcquire; CAcquire; AOpenBoth; PWrite; PExit; CRead; CEof; PSetAudit; CAudit] with Some s => linked s | None => None end) = Some true /\
  (match run c3 (init c3) [AForward; PAcquire; CAcquire; AOpenBoth; PWrite; PExit; CRead; CEof; CAudit; PSetAudit] with Some s => linked s | None => None end) = Some false.
Proof. split; vm_compute; reflexivity. Qed.

(* re-run of a completed workflow: the consumer's output exists, its task is skipped and
   never opens the pipe; the producer re-executes and blocks in open() for ever *)
Definition s_rerun := {| fifo := true; wclosed := false; buf := []; sent := []; got := []; pp := PWaitSlot; cp := CDone;
                         tokens := 0; paudit := false; outfile := Some [1] |}.
Example C17_rerun_refuted :
  after c3 s_rerun [PAcquire] (fun s => stuck c3 s && negb (pp_done s)) = true.
Proof. vm_compute. reflexivity. Qed.
