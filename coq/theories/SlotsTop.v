(* Whole-execution statements for the slot machine: from the initial state, every schedule. *)
From Coq Require Import List Arith Lia Bool.
Import ListNotations.
From SP Require Import Slots Slots7.

Local Arguments Nat.sub : simpl never.

Definition init (cap0 : nat) (cs : list nat) : state :=
  {| cap := cap0; tokens := 0; mutex := None; tasks := map (fun c => {| cores := c; st := Idle |}) cs |}.

Lemma tsum_held_init cs : tsum held (map (fun c => {| cores := c; st := Idle |}) cs) = 0.
Proof. induction cs; simpl; auto. Qed.

Lemma init_inv cap0 cs : Inv (init cap0 cs).
Proof. unfold Inv, init; simpl. rewrite tsum_held_init. lia. Qed.

Lemma nth_init cs i t : nth_error (map (fun c => {| cores := c; st := Idle |}) cs) i = Some t -> st t = Idle /\ In (cores t) cs.
Proof.
  intros H. rewrite nth_error_map in H. destruct (nth_error cs i) eqn:E; simpl in H; [|discriminate].
  injection H as <-. simpl. split; auto. eapply nth_error_In; eauto.
Qed.

Lemma init_minv cap0 cs : MInv (init cap0 cs).
Proof.
  unfold MInv, init; simpl. repeat split.
  - intros i t H D. apply nth_init in H. destruct H as [H _]. unfold is_dep in D. rewrite H in D. discriminate.
  - intros i H. discriminate.
  - intros i t k H D. apply nth_init in H. destruct H as [H _]. congruence.
Qed.

(* every step rewrites one task's program counter and nothing else about the tasks; the capacity is constant *)
Lemma step_shape s i s' : step s i = Some s' ->
  cap s' = cap s /\ exists t p, nth_error (tasks s) i = Some t /\ tasks s' = upd (tasks s) i (set_pc t p).
Proof.
  unfold step. destruct (nth_error (tasks s) i) as [t|] eqn:E; [|discriminate].
  destruct (st t) as [| |k| |[|k]|]; intros H.
  - injection H as <-. simpl. eauto.
  - destruct (mutex s); [discriminate|]. injection H as <-. simpl. eauto.
  - destruct (Nat.eqb k (cores t)); [injection H as <-; simpl; eauto|].
    destruct (Nat.ltb (tokens s) (cap s)); [|discriminate]. injection H as <-. simpl. eauto.
  - injection H as <-. simpl. eauto.
  - injection H as <-. simpl. eauto.
  - destruct (tokens s); [discriminate|]. injection H as <-. simpl. eauto.
  - discriminate.
Qed.

Definition CInv (s : state) : Prop := forall i t, nth_error (tasks s) i = Some t -> cores t <= cap s.

Lemma step_cinv s i s' : CInv s -> step s i = Some s' -> CInv s'.
Proof.
  intros HC H. destruct (step_shape s i s' H) as [Hcap [t [p [Ht Hts]]]].
  intros j u Hu. rewrite Hcap. rewrite Hts in Hu.
  destruct (Nat.eq_dec i j) as [->|Hne].
  - rewrite (nth_upd_same _ _ _ _ Ht) in Hu. injection Hu as <-. simpl. eapply HC; eauto.
  - rewrite nth_upd_other in Hu by assumption. eapply HC; eauto.
Qed.

Record AllInv (s : state) : Prop := { ai_inv : Inv s; ai_minv : MInv s; ai_cinv : CInv s }.

Lemma run_all sched : forall s s', AllInv s -> run s sched = Some s' -> AllInv s'.
Proof.
  induction sched as [|i r IH]; simpl; intros s s' HI H.
  - injection H as <-. exact HI.
  - destruct (step s i) as [s1|] eqn:E; [|discriminate]. apply (IH s1 s'); auto.
    destruct HI as [I1 I2 I3]. constructor.
    + eapply step_inv; eauto.
    + eapply step_minv; eauto.
    + eapply step_cinv; eauto.
Qed.

Lemma init_all cap0 cs : (forall c, In c cs -> c <= cap0) -> AllInv (init cap0 cs).
Proof.
  intros H. constructor; [apply init_inv|apply init_minv|].
  intros i t Ht. apply nth_init in Ht. destruct Ht as [_ Hin]. simpl. auto.
Qed.

Lemma run_cap sched : forall s s', run s sched = Some s' -> cap s' = cap s.
Proof.
  induction sched as [|i r IH]; simpl; intros s s' H; [injection H as <-; auto|].
  destruct (step s i) as [s1|] eqn:E; [|discriminate]. rewrite (IH _ _ H). apply (step_shape s i s1 E).
Qed.

(* C06, from the initial state: whatever the capacity, the core counts and the schedule *)
Theorem never_exceeded cap0 cs sched s' :
  run (init cap0 cs) sched = Some s' -> tsum executing (tasks s') <= cap0.
Proof.
  intros H. pose proof (C06_slots_never_exceeded (init cap0 cs) sched s' (init_inv cap0 cs) H) as L.
  rewrite (run_cap sched _ _ H) in L. exact L.
Qed.

(* C07 progress, from the initial state *)
Theorem progress cap0 cs sched s' :
  (forall c, In c cs -> c <= cap0) ->
  run (init cap0 cs) sched = Some s' ->
  (exists i t, nth_error (tasks s') i = Some t /\ st t <> Finished) ->
  exists i, step s' i <> None.
Proof.
  intros Hc H Hun. destruct (run_all sched _ _ (init_all cap0 cs Hc) H) as [I1 I2 I3].
  apply C07_progress; auto.
Qed.

(* C07 work conservation, from the initial state: if all tasks fit together, an acquire-only run that cannot continue
   has every task Running (or beyond) -- nobody waits for a release *)
Lemma tsum_want_init cs : tsum want (map (fun c => {| cores := c; st := Idle |}) cs) = fold_right Nat.add 0 cs.
Proof. induction cs as [|c r IH]; simpl; auto. unfold want at 1. simpl. rewrite IH. unfold held. simpl. lia. Qed.

Theorem work_conserving cap0 cs sched s' :
  fold_right Nat.add 0 cs <= cap0 ->
  run_acq (init cap0 cs) sched = Some s' ->
  (forall i, acq s' i = true -> step s' i = None) ->
  forall i t, nth_error (tasks s') i = Some t -> contender t = false.
Proof.
  intros Hfit H Hmax. apply (C07_work_conserving (init cap0 cs) sched s'); auto.
  - apply init_inv.
  - apply init_minv.
  - unfold Fits, init; simpl. rewrite tsum_want_init. lia.
Qed.
