(* Facts about the audit records the workflow model (WfModel) attaches to outputs: fields, upstream keys, tag propagation. *)
From Coq Require Import List Ascii String Arith Lia Bool.
Import ListNotations.
From SP Require Import Str PathLex Format TempNames TempDirModel WfModel.
Notation length := List.length.

Lemma str_eqb_refl a : PathLex.str_eqb a a = true.
Proof. unfold PathLex.str_eqb. destruct (list_eq_dec ascii_dec a a); congruence. Qed.
Lemma str_eqb_eq a b : PathLex.str_eqb a b = true <-> a = b.
Proof. unfold PathLex.str_eqb. destruct (list_eq_dec ascii_dec a b); split; congruence. Qed.
Lemma str_eqb_neq a b : PathLex.str_eqb a b = false <-> a <> b.
Proof. unfold PathLex.str_eqb. destruct (list_eq_dec ascii_dec a b); split; congruence. Qed.

Lemma find_filter {A} (P Q : A -> bool) l : (forall x, P x = true -> Q x = true) -> find P (filter Q l) = find P l.
Proof.
  intros H. induction l as [|a l IH]; simpl; auto.
  destruct (Q a) eqn:Qa; simpl.
  - destruct (P a); auto.
  - destruct (P a) eqn:Pa; auto. apply H in Pa. congruence.
Qed.

Lemma lookup_aud_set_same a p r : lookup p (aud_set a p r) = Some r.
Proof. unfold lookup, aud_set. simpl. now rewrite str_eqb_refl. Qed.

Lemma lookup_aud_set_other a p q r : q <> p -> lookup q (aud_set a p r) = lookup q a.
Proof.
  intros H. unfold lookup, aud_set. simpl.
  assert (E : PathLex.str_eqb p q = false) by (apply str_eqb_neq; congruence). rewrite E.
  rewrite find_filter; auto.
  intros x Hx. apply str_eqb_eq in Hx. apply negb_true_iff. apply str_eqb_neq. congruence.
Qed.

(* setting the same record on a list of output paths: every one of them ends up with that record *)
Lemma set_out_aud c r w o : w_aud (set_out c r w o) = aud_set (w_aud w) (snd (snd o)) r.
Proof. unfold set_out. destruct (fst (snd o)); reflexivity. Qed.

Lemma fold_set_keeps c r outs : forall w path, lookup path (w_aud w) = Some r ->
  lookup path (w_aud (fold_left (set_out c r) outs w)) = Some r.
Proof.
  induction outs as [|o outs IH]; intros w path H; simpl; auto.
  apply IH. rewrite set_out_aud.
  destruct (list_eq_dec ascii_dec path (snd (snd o))) as [->|Hne].
  - apply lookup_aud_set_same.
  - rewrite lookup_aud_set_other; auto.
Qed.

Lemma fold_set_sets c r outs : forall w o, In o outs ->
  lookup (snd (snd o)) (w_aud (fold_left (set_out c r) outs w)) = Some r.
Proof.
  induction outs as [|o' outs IH]; intros w o Hin; simpl; [destruct Hin|].
  destruct Hin as [->|Hin].
  - apply fold_set_keeps. rewrite set_out_aud. apply lookup_aud_set_same.
  - apply IH; auto.
Qed.

Lemma fold_extra_aud tok extra : forall w,
  w_aud (fold_left (fun (w : world) (x : str) => {| w_fs := fs_set (w_fs w) x tok; w_vfs := w_vfs w; w_aud := w_aud w |}) extra w) = w_aud w.
Proof. induction extra as [|x extra IH]; intros w; simpl; auto. rewrite IH. reflexivity. Qed.

(* --- tags --- *)
Lemma lookup_cons_same {V} k (v : V) l : lookup k ((k, v) :: l) = Some v.
Proof. unfold lookup. simpl. now rewrite str_eqb_refl. Qed.
Lemma lookup_cons_other {V} k k' (v : V) l : k <> k' -> lookup k ((k', v) :: l) = lookup k l.
Proof. intros H. unfold lookup. simpl. assert (E : PathLex.str_eqb k' k = false) by (apply str_eqb_neq; congruence). now rewrite E. Qed.
Lemma lookup_app_none {V} k (l1 l2 : list (str * V)) : lookup k l1 = None -> lookup k (l1 ++ l2) = lookup k l2.
Proof.
  unfold lookup. induction l1 as [|[a b] l1 IH]; simpl; auto.
  destruct (PathLex.str_eqb a k); [discriminate|]. exact IH.
Qed.
Lemma lookup_app_some {V} k (v : V) (l1 l2 : list (str * V)) : lookup k l1 = Some v -> lookup k (l1 ++ l2) = Some v.
Proof.
  unfold lookup. induction l1 as [|[a b] l1 IH]; simpl; [discriminate|].
  destruct (PathLex.str_eqb a k); auto.
Qed.

(* AddTag never changes or drops a non-empty value once it is there *)
Lemma add_tag_keeps tags kv tags' k v : add_tag tags kv = Some tags' -> lookup k tags = Some v -> v <> [] -> lookup k tags' = Some v.
Proof.
  unfold add_tag. intros H L Hv.
  destruct (lookup (fst kv) tags) as [old|] eqn:E.
  - destruct old as [|c old].
    + injection H as <-. destruct (list_eq_dec ascii_dec k (fst kv)) as [->|Hne].
      * rewrite E in L. injection L as <-. congruence.
      * destruct kv as [k0 v0]; simpl in *. rewrite lookup_cons_other by assumption.
        unfold lookup in *. rewrite find_filter; auto.
        intros x Hx. apply str_eqb_eq in Hx. apply negb_true_iff. apply str_eqb_neq. congruence.
    + destruct (PathLex.str_eqb (c :: old) (snd kv)); [|discriminate]. injection H as <-. exact L.
  - injection H as <-. apply lookup_app_some. exact L.
Qed.

Lemma add_tag_sets tags kv tags' : add_tag tags kv = Some tags' -> snd kv <> [] -> lookup (fst kv) tags' = Some (snd kv).
Proof.
  unfold add_tag. intros H Hv. destruct kv as [k v]; simpl in *.
  destruct (lookup k tags) as [old|] eqn:E.
  - destruct old as [|c old].
    + injection H as <-. apply lookup_cons_same.
    + destruct (PathLex.str_eqb (c :: old) v) eqn:Q; [|discriminate]. injection H as <-.
      apply str_eqb_eq in Q. rewrite E. congruence.
  - injection H as <-. rewrite lookup_app_none by assumption. apply lookup_cons_same.
Qed.

Lemma add_tags_keeps kvs : forall tags tags' k v, add_tags tags kvs = Some tags' -> lookup k tags = Some v -> v <> [] -> lookup k tags' = Some v.
Proof.
  unfold add_tags. induction kvs as [|kv kvs IH]; intros tags tags' k v H L Hv; simpl in H.
  - injection H as <-. exact L.
  - destruct (add_tag tags kv) as [t1|] eqn:E.
    + apply (IH t1 tags' k v H); auto. eapply add_tag_keeps; eauto.
    + exfalso. clear -H. induction kvs; simpl in H; [discriminate|auto].
Qed.

Lemma add_tags_sets kvs : forall tags tags' k v, add_tags tags kvs = Some tags' -> In (k, v) kvs -> v <> [] -> lookup k tags' = Some v.
Proof.
  unfold add_tags. induction kvs as [|kv kvs IH]; intros tags tags' k v H Hin Hv; simpl in H; [destruct Hin|].
  destruct (add_tag tags kv) as [t1|] eqn:E.
  - destruct Hin as [->|Hin].
    + apply (add_tags_keeps kvs t1 tags' k v H); auto. apply (add_tag_sets tags (k, v) t1 E Hv).
    + apply (IH t1 tags' k v H); auto.
  - exfalso. clear -H. induction kvs; simpl in H; [discriminate|auto].
Qed.

(* the union over all in-IPs: every non-empty tag of every in-IP is on the result *)
Lemma fold_add_tags_none {A} (f : A -> list (str * str)) l :
  fold_left (fun acc kv => match acc with Some t => add_tags t (f kv) | None => None end) l None = None.
Proof. induction l; simpl; auto. Qed.

Theorem tags_union_propagates {A} (f : A -> list (str * str)) (ins : list A) : forall t0 tags x k v,
  fold_left (fun acc kv => match acc with Some t => add_tags t (f kv) | None => None end) ins (Some t0) = Some tags ->
  In x ins -> In (k, v) (f x) -> v <> [] -> lookup k tags = Some v.
Proof.
  induction ins as [|a ins IH]; intros t0 tags x k v H Hin Hk Hv; simpl in H; [destruct Hin|].
  destruct (add_tags t0 (f a)) as [t1|] eqn:E; [|rewrite fold_add_tags_none in H; discriminate].
  destruct Hin as [->|Hin].
  - assert (L : lookup k t1 = Some v) by (eapply add_tags_sets; eauto).
    clear -H L Hv. revert t1 H L. induction ins as [|b ins IH]; intros t1 H L; simpl in H.
    + injection H as <-. exact L.
    + destruct (add_tags t1 (f b)) as [t2|] eqn:E2; [|rewrite fold_add_tags_none in H; discriminate].
      apply (IH t2 H). eapply add_tags_keeps; eauto.
  - eapply IH; eauto.
Qed.

(* --- the record a successful task leaves on each of its outputs --- *)
Definition in_tags_of (w : world) (it : item) : list (str * str) :=
  match it with IPath q => rec_tags (rec_of w q) | ISub _ => [] end.

Theorem run_one_record p w ins pars tr w' :
  run_one p w ins pars = (tr, w') -> tr_status tr = TRun ->
  exists cmd tags,
    tr_command tr = Ok cmd /\
    fold_left (fun acc kv => match acc with Some t => add_tags t (in_tags_of w (snd kv)) | None => None end) ins (Some []) = Some tags /\
    forall o, In o (tr_outs tr) ->
      rec_of w' (snd (snd o)) =
      ARec (p_name p) cmd pars tags (map (fun o => (fst o, snd (snd o))) (tr_outs tr))
           (flat_map (fun kv => map (fun q => (q, rec_of w q)) (item_paths (snd kv))) ins).
Proof.
  unfold run_one. intros H St.
  repeat match type of H with
  | (if ?c then _ else _) = _ => destruct c eqn:?
  | (match ?c with Fail => _ | Ok _ => _ end) = _ => destruct c eqn:?
  | (let _ := _ in _) = _ => cbv zeta in H
  end; try (injection H as <- <-; simpl in St; discriminate).
  all: try (cbv zeta in H).
  all: repeat match type of H with
  | (if ?c then _ else _) = _ => destruct c eqn:?
  | (match ?c with Fail => _ | Ok _ => _ end) = _ => destruct c eqn:?
  end; try (injection H as <- <-; simpl in St; discriminate).
  all: injection H as <- <-; simpl tr_command; simpl tr_outs.
  all: match goal with
       | E : orb _ (match ?ot with None => true | Some _ => false end) = false |- _ =>
         destruct ot as [tags|] eqn:Etags; [|rewrite orb_true_r in E; discriminate]
       end.
  all: eexists; exists tags; split; [reflexivity|split; [exact Etags|]].
  all: intros o Ho; unfold rec_of; rewrite fold_extra_aud; erewrite fold_set_sets; [reflexivity|exact Ho].
Qed.

(* --- the zip semantics of the reference evaluator: round k takes the k-th item of every column --- *)
Lemma transpose_nth {A} (d : A) n : forall cols k, k < n ->
  nth k (transpose_n d n cols) [] = map (fun col => nth k col d) cols.
Proof.
  induction n as [|n IH]; intros cols k Hk; [lia|]. cbn [transpose_n].
  destruct k as [|k].
  - cbn [nth]. apply map_ext. intros col. destruct col; reflexivity.
  - cbn [nth]. rewrite IH by lia. rewrite map_map. apply map_ext. intros col. destruct col; [destruct k; reflexivity|reflexivity].
Qed.

Lemma transpose_length {A} (d : A) n cols : length (transpose_n d n cols) = n.
Proof. revert cols. induction n as [|n IH]; intros cols; simpl; auto. Qed.
