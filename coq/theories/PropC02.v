(* C02 -- Existing outputs are never re-executed or modified.  Model: TaskFS (see PropC01). *)
From Coq Require Import List Arith Lia Bool PeanoNat String.
Import ListNotations.
From SP Require Import Skel Gen Expected ExpectedCones Result TaskFS TInv TPres Glue Cor TaskTop.

(* T1: the skip check precedes slot acquisition, directory creation and the command; the skip branch still signals Done *)
Theorem C02_code_conforms :
  skel_eqb skel_Task_Execute exp_Task_Execute
  && skel_eqb skel_Task_anyOutputsExist exp_Task_anyOutputsExist
  && skel_eqb skel_Process_Run exp_Process_Run
  && skel_eqb skel_NewFileIP exp_NewFileIP = true.
Proof. vm_compute. reflexivity. Qed.

(* a task one of whose declared outputs exists initially never gets past the skip check, in any reachable state:
   its temp dir is never made, its command never runs *)
Theorem C02_skip : forall (c : cfg) (f0 : fs) (left0 : nat -> bool), wfc c ->
  forall s t x cnt, reachable c f0 left0 s -> t < nt c -> In x (tout (tk c t)) -> f0 x = Some cnt ->
  past_chk (pcs s t) = false.
Proof. exact Cor.C02_skip. Qed.

(* and the existing file keeps its content in every reachable state *)
Theorem C02_untouched : forall (c : cfg) (f0 : fs) (left0 : nat -> bool), wfc c ->
  forall s t x cnt, reachable c f0 left0 s -> t < nt c -> In x (tout (tk c t)) -> f0 x = Some cnt ->
  fin s x = Some cnt.
Proof. exact Cor.C02_untouched. Qed.

(* re-running a completed workflow: if every task has an output in the initial store, no task ever passes the skip check *)
Theorem C02_rerun_executes_nothing : forall (c : cfg) (f0 : fs) (left0 : nat -> bool), wfc c ->
  (forall t, t < nt c -> exists x cnt, In x (tout (tk c t)) /\ f0 x = Some cnt) ->
  forall s, reachable c f0 left0 s -> forall t, t < nt c -> past_chk (pcs s t) = false.
Proof.
  intros c f0 left0 WF H s R t Ht. destruct (H t Ht) as [x [cnt [Hx Hf]]].
  exact (Cor.C02_skip c f0 left0 WF s t x cnt R Ht Hx Hf).
Qed.

(* downstream still proceeds: the sequential reference passes a skipped task's existing files on unchanged *)
Theorem C02_skipped_outputs_are_inputs : forall (c : cfg) (f0 : fs), wfc c ->
  forall fR, pre c f0 (nt c) = Some fR ->
  forall s, Inv c f0 s -> forall t, t < nt c -> pcs s t = DoneSkip ->
  forall x, In x (tout (tk c t)) -> fR x = f0 x.
Proof.
  intros c f0 WF fR HR s HI t Ht P x Hx.
  destruct (committed_is_ref c f0 WF fR HR s HI t Ht) as [_ Hs]. exact (Hs P x Hx).
Qed.

(* T1, call cones: every function of scipipe that the functions above can reach (calls and function values, interface calls
   resolved to every implementation) is one the models were compared with -- a helper that is new to the cone, or a new call
   of an old one, changes a list (the lists are regenerated from /repo on every run; ExpectedCones.v holds the accepted ones) *)
Theorem C02_cone_conforms :
  strs_eqb cone_Task_Execute exp_cone_Task_Execute
  && strs_eqb cone_Task_anyOutputsExist exp_cone_Task_anyOutputsExist
  && strs_eqb cone_Process_Run exp_cone_Process_Run
  && strs_eqb cone_NewFileIP exp_cone_NewFileIP = true.
Proof. vm_compute. reflexivity. Qed.

Print Assumptions C02_code_conforms.
Print Assumptions C02_skip.
Print Assumptions C02_untouched.
Print Assumptions C02_rerun_executes_nothing.
Print Assumptions C02_skipped_outputs_are_inputs.
Print Assumptions C02_cone_conforms.
