(* Prototype: lock discipline implies happens-before order (C12_lockset_sound). *)
From Coq Require Import Arith Lia Bool.

Inductive ev := Acq (t l : nat) | Rel (t l : nat) | Acc (t x : nat) (w : bool) | Other (t : nat).

Section Trace.
Variable tr : nat -> ev.       (* the trace, event n happens at time n *)
Variable N : nat.              (* its length *)

(* who holds lock l just before event n *)
Fixpoint holder (n l : nat) : option nat :=
  match n with
  | O => None
  | S k => match tr k with
           | Acq t l' => if Nat.eqb l' l then Some t else holder k l
           | Rel t l' => if Nat.eqb l' l then None else holder k l
           | _ => holder k l
           end
  end.

(* mutexes are mutual exclusion; only the holder unlocks *)
Definition valid : Prop := forall n, n < N ->
  match tr n with
  | Acq t l => holder n l = None
  | Rel t l => holder n l = Some t
  | _ => True
  end.

Definition thread (e : ev) := match e with Acq t _ | Rel t _ | Acc t _ _ | Other t => t end.

(* happens-before: program order, release -> later acquire of the same lock, transitivity *)
Inductive hb : nat -> nat -> Prop :=
| hb_po i j : i < j -> j < N -> thread (tr i) = thread (tr j) -> hb i j
| hb_sw i j t t' l : i < j -> j < N -> tr i = Rel t l -> tr j = Acq t' l -> hb i j
| hb_trans i k j : hb i k -> hb k j -> hb i j.

Hypothesis V : valid.

Lemma first_change l t1 i : holder i l = Some t1 -> forall j, i <= j -> j <= N ->
  holder j l = Some t1 \/ exists r, i <= r /\ r < j /\ tr r = Rel t1 l.
Proof.
  intros Hi j Hij. induction Hij as [|j Hij IH]; intros HjN; [left; exact Hi|].
  destruct IH as [Hh|[r [H1 [H2 H3]]]]; [lia| |right; exists r; repeat split; auto].
  simpl. pose proof (V j) as Vj. assert (j < N) by lia. specialize (Vj H).
  destruct (tr j) as [t l'|t l'|t x w|t] eqn:E; auto.
  - destruct (Nat.eqb_spec l' l) as [->|]; auto. rewrite Hh in Vj. discriminate.
  - destruct (Nat.eqb_spec l' l) as [->|]; auto. rewrite Hh in Vj. injection Vj as <-.
    right. exists j. repeat split; auto.
Qed.

Lemma last_acquire l t2 : forall j, holder j l = Some t2 ->
  exists a, a < j /\ tr a = Acq t2 l /\ forall m, a < m -> m <= j -> holder m l = Some t2.
Proof.
  induction j as [|j IH]; simpl; intros H; [discriminate|].
  destruct (tr j) as [t l'|t l'|t x w|t] eqn:E.
  - destruct (Nat.eqb_spec l' l) as [->|Hne].
    + injection H as ->. exists j. repeat split; auto. intros m H1 H2. assert (m = S j) by lia. subst. simpl. rewrite E, Nat.eqb_refl. reflexivity.
    + destruct (IH H) as [a [A1 [A2 A3]]]. exists a. repeat split; auto. intros m H1 H2.
      destruct (Nat.eq_dec m (S j)) as [->|]; [simpl; rewrite E; destruct (Nat.eqb_spec l' l); [congruence|exact H]|apply A3; lia].
  - destruct (Nat.eqb_spec l' l) as [->|Hne]; [discriminate|].
    destruct (IH H) as [a [A1 [A2 A3]]]. exists a. repeat split; auto. intros m H1 H2.
    destruct (Nat.eq_dec m (S j)) as [->|]; [simpl; rewrite E; destruct (Nat.eqb_spec l' l); [congruence|exact H]|apply A3; lia].
  - destruct (IH H) as [a [A1 [A2 A3]]]. exists a. repeat split; auto. intros m H1 H2.
    destruct (Nat.eq_dec m (S j)) as [->|]; [simpl; rewrite E; exact H|apply A3; lia].
  - destruct (IH H) as [a [A1 [A2 A3]]]. exists a. repeat split; auto. intros m H1 H2.
    destruct (Nat.eq_dec m (S j)) as [->|]; [simpl; rewrite E; exact H|apply A3; lia].
Qed.

(* two accesses made while holding a common mutex are ordered by happens-before *)
Theorem C12_lockset_sound i j t1 t2 x w1 w2 l :
  i < j -> j < N -> tr i = Acc t1 x w1 -> tr j = Acc t2 x w2 -> t1 <> t2 ->
  holder i l = Some t1 -> holder j l = Some t2 -> hb i j.
Proof.
  intros Hij HjN Ei Ej Hne Hi Hj.
  destruct (last_acquire l t2 j Hj) as [a [A1 [A2 A3]]].
  assert (Hia : i < a).
  { destruct (Nat.lt_trichotomy a i) as [L|[L|L]]; auto.
    - rewrite (A3 i L) in Hi by lia. congruence.
    - subst. rewrite Ei in A2. discriminate. }
  pose proof (V a) as Va. assert (HaN : a < N) by lia. specialize (Va HaN). rewrite A2 in Va.
  destruct (first_change l t1 i Hi a) as [Hh|[r [R1 [R2 R3]]]]; try lia.
  - rewrite Va in Hh. discriminate.
  - assert (r <> i) by (intros ->; rewrite Ei in R3; discriminate).
    apply hb_trans with r.
    + apply hb_po; try lia. rewrite Ei, R3. reflexivity.
    + apply hb_trans with a.
      * eapply hb_sw; eauto.
      * apply hb_po; try lia. rewrite A2, Ej. reflexivity.
Qed.
End Trace.
Print Assumptions C12_lockset_sound.
