(* The JSON layer of audit records (C11): the record schema as tokens, the printer and the parser for that schema,
   string escaping as encoding/json does it for ASCII, and the byte-level renderer / lexer (MarshalIndent layout).
   Definitions only; theorems are in JsonProofs.v. *)
From Coq Require Import List Ascii String Arith Bool.
Import ListNotations.
From SP Require Import Str PathLex.
Notation length := List.length.

(* a record as it is on disk: the fields of AuditInfo; times are opaque RFC 3339 strings, the duration a number *)
Inductive jrec :=
  JRec (id proc cmd : str) (params tags : list (str * str)) (start finish : str) (neg : bool) (exec : nat)
       (outs : list (str * str)) (up : list (str * jrec)).

Inductive jtok := TLBrace | TRBrace | TColon | TComma | TStr (s : str) | TNum (neg : bool) (n : nat).

(* ---------------- tokens of a record (field order of the Go struct; map keys in the order given) ---------------- *)
Definition tkey (k : string) : list jtok := [TStr (s2l k); TColon].

Fixpoint tpairs (l : list (str * str)) : list jtok :=
  match l with
  | [] => []
  | [(k, v)] => [TStr k; TColon; TStr v]
  | (k, v) :: r => TStr k :: TColon :: TStr v :: TComma :: tpairs r
  end.
Definition tsmap (l : list (str * str)) : list jtok := TLBrace :: tpairs l ++ [TRBrace].

Fixpoint tups (f : jrec -> list jtok) (l : list (str * jrec)) : list jtok :=
  match l with
  | [] => []
  | (k, u) :: r => match r with
                   | [] => TStr k :: TColon :: f u
                   | _ => TStr k :: TColon :: f u ++ TComma :: tups f r
                   end
  end.

Fixpoint ptoks (r : jrec) : list jtok :=
  match r with
  | JRec id proc cmd params tags start finish neg exec outs up =>
    let fix ups (l : list (str * jrec)) : list jtok :=
        match l with
        | [] => []
        | (k, u) :: r => match r with
                         | [] => TStr k :: TColon :: ptoks u
                         | _ => TStr k :: TColon :: ptoks u ++ TComma :: ups r
                         end
        end in
    TLBrace :: tkey "ID" ++ TStr id :: TComma :: tkey "ProcessName" ++ TStr proc :: TComma :: tkey "Command" ++ TStr cmd :: TComma
    :: tkey "Params" ++ tsmap params ++ TComma :: tkey "Tags" ++ tsmap tags ++ TComma
    :: tkey "StartTime" ++ TStr start :: TComma :: tkey "FinishTime" ++ TStr finish :: TComma
    :: tkey "ExecTimeNS" ++ TNum neg exec :: TComma :: tkey "OutFiles" ++ tsmap outs ++ TComma
    :: tkey "Upstream" ++ TLBrace :: ups up ++ [TRBrace; TRBrace]
  end.

(* ---------------- parser for that schema ---------------- *)
Definition expect (t : jtok) (ts : list jtok) : option (list jtok) :=
  match ts with
  | x :: r => match t, x with
              | TLBrace, TLBrace | TRBrace, TRBrace | TColon, TColon | TComma, TComma => Some r
              | _, _ => None
              end
  | [] => None
  end.
Definition expect_key (k : string) (ts : list jtok) : option (list jtok) :=
  match ts with TStr s :: TColon :: r => if str_eqb s (s2l k) then Some r else None | _ => None end.
Definition get_str (ts : list jtok) : option (str * list jtok) :=
  match ts with TStr s :: r => Some (s, r) | _ => None end.
Definition get_num (ts : list jtok) : option (bool * nat * list jtok) :=
  match ts with TNum b n :: r => Some (b, n, r) | _ => None end.

Fixpoint ppairs (ts : list jtok) : option (list (str * str) * list jtok) :=
  match ts with
  | TStr k :: TColon :: TStr v :: TComma :: r =>
    match ppairs r with Some (l, r') => Some ((k, v) :: l, r') | None => None end
  | TStr k :: TColon :: TStr v :: TRBrace :: r => Some ([(k, v)], r)
  | _ => None
  end.
Definition psmap (ts : list jtok) : option (list (str * str) * list jtok) :=
  match ts with
  | TLBrace :: TRBrace :: r => Some ([], r)
  | TLBrace :: r => ppairs r
  | _ => None
  end.

Definition bind {A B} (o : option A) (f : A -> option B) : option B := match o with Some a => f a | None => None end.
Notation "x <- o ;; f" := (bind o (fun x => f)) (at level 61, o at next level, right associativity).

(* the entries of the Upstream object, after its opening brace, up to and including its closing brace *)
Fixpoint pups (child : list jtok -> option (jrec * list jtok)) (n : nat) (ts : list jtok) : option (list (str * jrec) * list jtok) :=
  match n with
  | O => None
  | S m =>
    match ts with
    | TStr k :: TColon :: r =>
      ur <- child r ;;
      match snd ur with
      | TComma :: r' => lr <- pups child m r' ;; Some ((k, fst ur) :: fst lr, snd lr)
      | TRBrace :: r' => Some ([(k, fst ur)], r')
      | _ => None
      end
    | _ => None
    end
  end.

(* everything of a record up to and including the opening brace of its Upstream object (not recursive) *)
Record jhead := { h_id : str; h_proc : str; h_cmd : str; h_params : list (str * str); h_tags : list (str * str);
                  h_start : str; h_finish : str; h_neg : bool; h_exec : nat; h_outs : list (str * str) }.
Definition mkrec (h : jhead) (up : list (str * jrec)) : jrec :=
  JRec (h_id h) (h_proc h) (h_cmd h) (h_params h) (h_tags h) (h_start h) (h_finish h) (h_neg h) (h_exec h) (h_outs h) up.

Definition phead (ts : list jtok) : option (jhead * list jtok) :=
    t1 <- expect TLBrace ts ;;
    t2 <- expect_key "ID" t1 ;; idr <- get_str t2 ;; t3 <- expect TComma (snd idr) ;;
    t4 <- expect_key "ProcessName" t3 ;; pr <- get_str t4 ;; t5 <- expect TComma (snd pr) ;;
    t6 <- expect_key "Command" t5 ;; cr <- get_str t6 ;; t7 <- expect TComma (snd cr) ;;
    t8 <- expect_key "Params" t7 ;; par <- psmap t8 ;; t9 <- expect TComma (snd par) ;;
    t10 <- expect_key "Tags" t9 ;; tgr <- psmap t10 ;; t11 <- expect TComma (snd tgr) ;;
    t12 <- expect_key "StartTime" t11 ;; str_ <- get_str t12 ;; t13 <- expect TComma (snd str_) ;;
    t14 <- expect_key "FinishTime" t13 ;; fir <- get_str t14 ;; t15 <- expect TComma (snd fir) ;;
    t16 <- expect_key "ExecTimeNS" t15 ;; exr <- get_num t16 ;; t17 <- expect TComma (snd exr) ;;
    t18 <- expect_key "OutFiles" t17 ;; our <- psmap t18 ;; t19 <- expect TComma (snd our) ;;
    t20 <- expect_key "Upstream" t19 ;; t21 <- expect TLBrace t20 ;;
    Some ({| h_id := fst idr; h_proc := fst pr; h_cmd := fst cr; h_params := fst par; h_tags := fst tgr; h_start := fst str_;
             h_finish := fst fir; h_neg := fst (fst exr); h_exec := snd (fst exr); h_outs := fst our |}, t21).

Fixpoint prec (fuel : nat) (ts : list jtok) : option (jrec * list jtok) :=
  match fuel with
  | O => None
  | S f =>
    match phead ts with
    | None => None
    | Some (h, t21) =>
      match t21 with
      | TRBrace :: r => match expect TRBrace r with Some t22 => Some (mkrec h [], t22) | None => None end
      | _ => match pups (prec f) (length t21) t21 with
             | Some (ups, r) => match expect TRBrace r with Some t22 => Some (mkrec h ups, t22) | None => None end
             | None => None
             end
      end
    end
  end.

Fixpoint height (r : jrec) : nat :=
  match r with JRec _ _ _ _ _ _ _ _ _ _ up => S (fold_right (fun ku a => Nat.max (height (snd ku)) a) 0 up) end.

(* ---------------- strings: the escaping of encoding/json (HTML-safe mode) for ASCII ---------------- *)
Definition hexdigit (n : nat) : ascii := ascii_of_nat (if Nat.ltb n 10 then 48 + n else 87 + n).
Definition bs : ascii := "\"%char.
Definition dq : ascii := """"%char.
Definition u00 (n : nat) : str := [bs; "u"%char; "0"%char; "0"%char; hexdigit (n / 16); hexdigit (n mod 16)].

Definition escape_char (c : ascii) : str :=
  let n := nat_of_ascii c in
  if Nat.eqb n 34 then [bs; dq]
  else if Nat.eqb n 92 then [bs; bs]
  else if Nat.eqb n 10 then [bs; "n"%char]
  else if Nat.eqb n 13 then [bs; "r"%char]
  else if Nat.eqb n 9 then [bs; "t"%char]
  else if Nat.eqb n 8 then [bs; "b"%char]
  else if Nat.eqb n 12 then [bs; "f"%char]
  else if Nat.ltb n 32 then u00 n
  else if Nat.eqb n 60 || Nat.eqb n 62 || Nat.eqb n 38 then u00 n
  else [c].
Definition escape (s : str) : str := flat_map escape_char s.

Definition unhex (c : ascii) : option nat :=
  let n := nat_of_ascii c in
  if Nat.leb 48 n && Nat.leb n 57 then Some (n - 48)
  else if Nat.leb 97 n && Nat.leb n 102 then Some (n - 87)
  else if Nat.leb 65 n && Nat.leb n 70 then Some (n - 55)
  else None.

(* reads the body of a string literal up to the closing quote; returns the decoded string and what follows the quote *)
Fixpoint unescape (fuel : nat) (s : str) : option (str * str) :=
  match fuel with
  | O => None
  | S f =>
    match s with
    | [] => None
    | c :: r =>
      if Ascii.eqb c dq then Some ([], r)
      else if Ascii.eqb c bs then
        match r with
        | e :: r2 =>
          let simple (x : ascii) := match unescape f r2 with Some (t, rest) => Some (x :: t, rest) | None => None end in
          if Ascii.eqb e dq then simple dq
          else if Ascii.eqb e bs then simple bs
          else if Ascii.eqb e "/"%char then simple "/"%char
          else if Ascii.eqb e "n"%char then simple (ascii_of_nat 10)
          else if Ascii.eqb e "r"%char then simple (ascii_of_nat 13)
          else if Ascii.eqb e "t"%char then simple (ascii_of_nat 9)
          else if Ascii.eqb e "b"%char then simple (ascii_of_nat 8)
          else if Ascii.eqb e "f"%char then simple (ascii_of_nat 12)
          else if Ascii.eqb e "u"%char then
            match r2 with
            | h1 :: h2 :: h3 :: h4 :: r3 =>
              match unhex h1, unhex h2, unhex h3, unhex h4 with
              | Some a, Some b, Some c1, Some d =>
                let v := ((a * 16 + b) * 16 + c1) * 16 + d in
                if Nat.ltb v 128 then
                  match unescape f r3 with Some (t, rest) => Some (ascii_of_nat v :: t, rest) | None => None end
                else None
              | _, _, _, _ => None
              end
            | _ => None
            end
          else None
        | [] => None
        end
      else match unescape f r with Some (t, rest) => Some (c :: t, rest) | None => None end
    end
  end.

(* ---------------- bytes: json.MarshalIndent(v, "", "    ") and a lexer ---------------- *)
Definition nlc : ascii := ascii_of_nat 10.
Definition spc : ascii := " "%char.
Definition indent (d : nat) : str := List.concat (repeat (s2l "    ") d).
Definition jstr (s : str) : str := dq :: escape s ++ [dq].

Fixpoint digits (fuel n : nat) (acc : str) : str :=
  match fuel with
  | O => acc
  | S f => let acc' := ascii_of_nat (48 + n mod 10) :: acc in if Nat.ltb n 10 then acc' else digits f (n / 10) acc'
  end.
Definition jnum (neg : bool) (n : nat) : str := (if neg then ["-"%char] else []) ++ digits (S n) n [].

Fixpoint smap_entries (d : nat) (l : list (str * str)) : str :=
  match l with
  | [] => []
  | (k, v) :: r => match r with
                   | [] => indent (S d) ++ jstr k ++ s2l ": " ++ jstr v ++ [nlc]
                   | _ => indent (S d) ++ jstr k ++ s2l ": " ++ jstr v ++ ","%char :: nlc :: smap_entries d r
                   end
  end.
Definition render_smap (d : nat) (l : list (str * str)) : str :=
  match l with
  | [] => s2l "{}"
  | _ => "{"%char :: nlc :: smap_entries d l ++ indent d ++ ["}"%char]
  end.

Fixpoint jrender (d : nat) (r : jrec) : str :=
  match r with
  | JRec id proc cmd params tags start finish neg exec outs up =>
    let line (k : string) (v : str) := indent (S d) ++ jstr (s2l k) ++ s2l ": " ++ v ++ ","%char :: [nlc] in
    let fix ups (l : list (str * jrec)) : str :=
        match l with
        | [] => []
        | (k, u) :: r => match r with
                         | [] => indent (S (S d)) ++ jstr k ++ s2l ": " ++ jrender (S (S d)) u ++ [nlc]
                         | _ => indent (S (S d)) ++ jstr k ++ s2l ": " ++ jrender (S (S d)) u ++ ","%char :: nlc :: ups r
                         end
        end in
    "{"%char :: nlc ::
    line "ID"%string (jstr id) ++ line "ProcessName"%string (jstr proc) ++ line "Command"%string (jstr cmd) ++
    line "Params"%string (render_smap (S d) params) ++ line "Tags"%string (render_smap (S d) tags) ++
    line "StartTime"%string (jstr start) ++ line "FinishTime"%string (jstr finish) ++ line "ExecTimeNS"%string (jnum neg exec) ++
    line "OutFiles"%string (render_smap (S d) outs) ++
    indent (S d) ++ jstr (s2l "Upstream"%string) ++ s2l ": " ++
    (match up with [] => s2l "{}" | _ => "{"%char :: nlc :: ups up ++ indent (S d) ++ ["}"%char] end) ++
    nlc :: indent d ++ ["}"%char]
  end.

Definition is_digit (c : ascii) : bool := let n := nat_of_ascii c in Nat.leb 48 n && Nat.leb n 57.
Definition digit_val (c : ascii) : nat := nat_of_ascii c - 48.
Definition is_ws (c : ascii) : bool := let n := nat_of_ascii c in Nat.eqb n 32 || Nat.eqb n 10 || Nat.eqb n 9 || Nat.eqb n 13.

(* the lexer: a state machine run over the bytes (a fold, so that it composes over concatenation) *)
Inductive lmode :=
| MNorm                                  (* between tokens *)
| MStr (acc : str)                       (* inside a string literal; acc = decoded characters so far, reversed *)
| MEsc (acc : str)                       (* after a back-slash *)
| MU (acc : str) (k v : nat)             (* inside \uXXXX: k hex digits read, value v *)
| MNum (neg : bool) (v : nat)            (* inside a number *)
| MErr.
Definition lstate := (list jtok * lmode)%type.      (* tokens so far, reversed *)

Definition step_norm (toks : list jtok) (c : ascii) : lstate :=
  if is_ws c then (toks, MNorm)
  else if Ascii.eqb c "{"%char then (TLBrace :: toks, MNorm)
  else if Ascii.eqb c "}"%char then (TRBrace :: toks, MNorm)
  else if Ascii.eqb c ":"%char then (TColon :: toks, MNorm)
  else if Ascii.eqb c ","%char then (TComma :: toks, MNorm)
  else if Ascii.eqb c dq then (toks, MStr [])
  else if Ascii.eqb c "-"%char then (toks, MNum true 0)
  else if is_digit c then (toks, MNum false (digit_val c))
  else (toks, MErr).

Definition lstep (st : lstate) (c : ascii) : lstate :=
  let (toks, m) := st in
  match m with
  | MErr => st
  | MNorm => step_norm toks c
  | MStr acc =>
    if Ascii.eqb c dq then (TStr (rev acc) :: toks, MNorm)
    else if Ascii.eqb c bs then (toks, MEsc acc)
    else (toks, MStr (c :: acc))
  | MEsc acc =>
    if Ascii.eqb c dq then (toks, MStr (dq :: acc))
    else if Ascii.eqb c bs then (toks, MStr (bs :: acc))
    else if Ascii.eqb c "/"%char then (toks, MStr ("/"%char :: acc))
    else if Ascii.eqb c "n"%char then (toks, MStr (ascii_of_nat 10 :: acc))
    else if Ascii.eqb c "r"%char then (toks, MStr (ascii_of_nat 13 :: acc))
    else if Ascii.eqb c "t"%char then (toks, MStr (ascii_of_nat 9 :: acc))
    else if Ascii.eqb c "b"%char then (toks, MStr (ascii_of_nat 8 :: acc))
    else if Ascii.eqb c "f"%char then (toks, MStr (ascii_of_nat 12 :: acc))
    else if Ascii.eqb c "u"%char then (toks, MU acc 0 0)
    else (toks, MErr)
  | MU acc k v =>
    match unhex c with
    | Some h =>
      let v' := v * 16 + h in
      if Nat.eqb k 3 then (if Nat.ltb v' 128 then (toks, MStr (ascii_of_nat v' :: acc)) else (toks, MErr))
      else (toks, MU acc (S k) v')
    | None => (toks, MErr)
    end
  | MNum neg v =>
    if is_digit c then (toks, MNum neg (v * 10 + digit_val c)) else step_norm (TNum neg v :: toks) c
  end.

Definition lrun (st : lstate) (s : str) : lstate := fold_left lstep s st.

Definition lex (s : str) : option (list jtok) :=
  match lrun ([], MNorm) s with
  | (toks, MNorm) => Some (rev toks)
  | (toks, MNum neg v) => Some (rev (TNum neg v :: toks))
  | _ => None
  end.

Definition decode (s : str) : option jrec :=
  match lex s with
  | Some ts => match prec (S (length ts)) ts with Some (r, []) => Some r | _ => None end
  | None => None
  end.
