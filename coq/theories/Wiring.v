(* Prototype: upstreamProcsForProc computes exactly the transitive upstream closure (C16). *)
From Coq Require Import List Arith Lia Bool.
Import ListNotations.

Section Closure.
Variable preds : nat -> list nat.                 (* direct producers over file and parameter edges *)
Hypothesis topo : forall v u, In u (preds v) -> u < v.   (* acyclic: processes indexed topologically *)

(* Go: for each in-port / param-port and each remote: add the remote's process and, recursively, its upstreams *)
Fixpoint up (fuel : nat) (v : nat) : list nat :=
  match fuel with
  | O => []
  | S f => flat_map (fun u => u :: up f u) (preds v)
  end.

Inductive reach : nat -> nat -> Prop :=
| r_step u v : In u (preds v) -> reach u v
| r_trans u w v : In w (preds v) -> reach u w -> reach u v.

Lemma reach_lt u v : reach u v -> u < v.
Proof. induction 1 as [u v H|u w v H _ IH]; [apply topo; auto|]. apply topo in H. lia. Qed.

Theorem up_is_closure fuel : forall v, v <= fuel -> forall u, In u (up fuel v) <-> reach u v.
Proof.
  induction fuel as [|f IH]; intros v Hv u.
  - assert (v = 0) by lia. subst. simpl. split; [tauto|]. intros R. apply reach_lt in R. lia.
  - simpl. rewrite in_flat_map. split.
    + intros [w [Hw [->|Hin]]].
      * constructor; auto.
      * pose proof (topo _ _ Hw). apply (r_trans u w v); auto. apply IH in Hin; auto. lia.
    + intros R. inversion R as [? ? H|? w ? H R']; subst.
      * exists u. split; auto. left; reflexivity.
      * exists w. split; auto. right. pose proof (topo _ _ H). apply IH; auto. lia.
Qed.

(* RunToProcs: the run set is the targets plus everything upstream of a target *)
Definition run_set (fuel : nat) (targets : list nat) : list nat :=
  flat_map (fun t => t :: up fuel t) targets.

Theorem C16_run_set fuel targets : (forall t, In t targets -> t <= fuel) ->
  forall p, In p (run_set fuel targets) <-> exists t, In t targets /\ (p = t \/ reach p t).
Proof.
  intros Hf p. unfold run_set. rewrite in_flat_map. split.
  - intros [t [Ht [E|Hin]]]; exists t; split; auto. right. apply (up_is_closure fuel t); auto.
  - intros [t [Ht [E|R]]]; exists t; split; auto; [left; auto|right]. apply (up_is_closure fuel t); auto.
Qed.

(* every producer of a selected process is selected: in-ports of selected processes keep all their remotes *)
Theorem C16_closed_upward fuel targets p u : (forall t, In t targets -> t <= fuel) ->
  In p (run_set fuel targets) -> In u (preds p) -> In u (run_set fuel targets).
Proof.
  intros Hf Hp Hu. apply (C16_run_set fuel targets Hf) in Hp. destruct Hp as [t [Ht [E|R]]]; [subst p|];
    apply (C16_run_set fuel targets Hf); exists t; split; auto; right.
  - constructor; auto.
  - clear -R Hu. induction R as [p v H|p w v H R IH].
    + apply (r_trans u p v); auto. constructor; auto.
    + apply (r_trans u w v); auto.
Qed.
End Closure.
Print Assumptions C16_run_set.
