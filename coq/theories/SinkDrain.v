(* The sink drains the out-ports nobody consumes: a file in-port and a parameter in-port.

   Sink.Run reads both ports at the same time (one goroutine per port, merged).  An upstream process that feeds both -- a
   combinator whose file and parameter out-ports were left dangling, or were cut off by RunTo -- sends in an order of its own
   and closes its out-ports only after the last send.  `conc = true` is the code; `conc = false` is a sink that reads the file
   port to its end first and the parameter port after it. *)
From Coq Require Import List Arith Lia Bool PeanoNat.
Import ListNotations.

Record st := { plan : list bool;      (* what the upstream still has to send: true = on the file port, false = on the parameter port *)
               qf : nat; qp : nat;    (* items buffered in the two in-ports of the sink *)
               closed : bool }.       (* the upstream has closed its out-ports *)

Inductive act := Send | Close | RecvF | RecvP.

Section Sink.
Variable capf capp : nat.             (* SCIPIPE_BUFSIZE for the two ports *)
Variable conc : bool.

Definition step (s : st) (a : act) : option st :=
  match a with
  | Send => match plan s with
            | true :: r => if Nat.ltb (qf s) capf then Some {| plan := r; qf := S (qf s); qp := qp s; closed := false |} else None
            | false :: r => if Nat.ltb (qp s) capp then Some {| plan := r; qf := qf s; qp := S (qp s); closed := false |} else None
            | [] => None
            end
  | Close => match plan s with [] => if closed s then None else Some {| plan := []; qf := qf s; qp := qp s; closed := true |} | _ => None end
  | RecvF => match qf s with S n => Some {| plan := plan s; qf := n; qp := qp s; closed := closed s |} | 0 => None end
  | RecvP => match qp s with
             | S n => if conc || (closed s && Nat.eqb (qf s) 0)
                      then Some {| plan := plan s; qf := qf s; qp := n; closed := closed s |} else None
             | 0 => None end
  end.

Fixpoint run (s : st) (l : list act) : option st :=
  match l with [] => Some s | a :: r => match step s a with Some s' => run s' r | None => None end end.

Definition final (s : st) : bool := match plan s with [] => closed s && Nat.eqb (qf s) 0 && Nat.eqb (qp s) 0 | _ => false end.
Definition enabled (s : st) : bool := existsb (fun a => match step s a with Some _ => true | None => false end) [Send; Close; RecvF; RecvP].

Definition measure (s : st) : nat := 2 * length (plan s) + qf s + qp s + (if closed s then 0 else 1).

Lemma step_decreases s a s' : (closed s = true -> plan s = []) -> step s a = Some s' ->
  measure s' < measure s /\ (closed s' = true -> plan s' = []).
Proof.
  intros I H. destruct s as [pl f p c]; unfold measure; simpl in *. destruct a; simpl in H.
  - destruct pl as [|[|] r]; try discriminate.
    + destruct c; [specialize (I eq_refl); discriminate|].
      destruct (Nat.ltb f capf); [|discriminate]. injection H as <-. simpl. split; [lia|discriminate].
    + destruct c; [specialize (I eq_refl); discriminate|].
      destruct (Nat.ltb p capp); [|discriminate]. injection H as <-. simpl. split; [lia|discriminate].
  - destruct pl; [|discriminate]. destruct c; [discriminate|]. injection H as <-. simpl. split; [lia|reflexivity].
  - destruct f; [discriminate|]. injection H as <-. simpl. split; [lia|exact I].
  - destruct p; [discriminate|]. destruct (conc || (c && Nat.eqb f 0)); [|discriminate]. injection H as <-. simpl. split; [lia|exact I].
Qed.

End Sink.

(* ---- the code: both ports drained at the same time ---- *)
Theorem concurrent_progress capf capp s : 1 <= capf -> 1 <= capp -> qf s <= capf -> qp s <= capp ->
  (closed s = true -> plan s = []) -> final s = false -> enabled capf capp true s = true.
Proof.
  intros Cf Cp Bf Bp I F. unfold enabled, final in *. destruct s as [pl f p c]; simpl in *.
  destruct f as [|f]; [|simpl; rewrite !orb_true_r; reflexivity].
  destruct p as [|p]; [|simpl; rewrite !orb_true_r; reflexivity].
  destruct pl as [|[|] r]; simpl.
  - destruct c; [simpl in F; discriminate|reflexivity].
  - destruct (Nat.ltb_spec 0 capf); [reflexivity|lia].
  - destruct (Nat.ltb_spec 0 capp); [reflexivity|lia].
Qed.

Theorem concurrent_step_decreases capf capp s a s' : (closed s = true -> plan s = []) -> step capf capp true s a = Some s' ->
  measure s' < measure s /\ (closed s' = true -> plan s' = []).
Proof. exact (step_decreases capf capp true s a s'). Qed.

Definition init (pl : list bool) : st := {| plan := pl; qf := 0; qp := 0; closed := false |}.

Example concurrent_example :
  exists s, run 1 1 true (init [false; false; true; false]) [Send; RecvP; Send; RecvP; Send; Send; RecvF; RecvP; Close] = Some s /\ final s = true.
Proof. eexists. split; [vm_compute; reflexivity|reflexivity]. Qed.

(* ---- reading the ports in turn: an upstream that sends more parameter values than the buffer holds before it closes ---- *)
Theorem in_turn_stuck capp : exists l s,
  run 1 capp false (init (repeat false (S capp) ++ [true])) l = Some s /\ enabled 1 capp false s = false /\ final s = false.
Proof.
  exists (repeat Send capp). exists {| plan := [false; true]; qf := 0; qp := capp; closed := false |}. split.
  - assert (G : forall k q, q + k = capp ->
               run 1 capp false {| plan := false :: (repeat false k ++ [true]); qf := 0; qp := q; closed := false |} (repeat Send k)
               = Some {| plan := [false; true]; qf := 0; qp := q + k; closed := false |}).
    { induction k as [|k IH]; intros q E.
      - simpl. rewrite Nat.add_0_r. reflexivity.
      - cbn [repeat run step plan qp qf app]. destruct (Nat.ltb_spec q capp); [|lia].
        rewrite (IH (S q)); [|lia]. f_equal. f_equal. lia. }
    exact (G capp 0 (Nat.add_0_l _)).
  - split; [|reflexivity]. unfold enabled. simpl. rewrite Nat.ltb_irrefl. destruct capp; reflexivity.
Qed.
