(* C14 -- Tasks in flight never share a temp directory; a task's temp directory is stable.
   Only statements, each closed by `exact`, with Print Assumptions beneath. *)
From Coq Require Import List Ascii String NArith Arith Bool.
Import ListNotations.
From Coq Require Import Permutation.
From SP Require Import Skel Gen Expected ExpectedCones Sha1 PathLex TempNames TempDirModel TempStable.

(* T1: the constants the model has built in are those of the current source *)
Theorem C14_code_conforms :
  String.eqb const_tempDirPrefix exp_const_tempDirPrefix
  && strs_eqb regexps_sanitizePathFragment exp_regexps_sanitizePathFragment = true.
Proof. vm_compute. reflexivity. Qed.

(* the name is one valid path segment of at most 255 bytes, for every identity *)
Theorem C14_valid_segment : forall i : ident,
  (List.length (task_tempdir i) <= 255)%nat /\ Forall (fun c => allowed c = true) (task_tempdir i).
Proof. intro i. exact (TempNames.C14_valid_segment (iname i) (preimage i)). Qed.

(* distinctness up to SHA-1: two identities with the same directory name have hashed pre-images
   with the same SHA-1 digest -- so either the pre-images are equal or this is a SHA-1 collision *)
Theorem C14_reduction : forall i j : ident,
  task_tempdir i = task_tempdir j ->
  sha1 (to_bytes (hashed (iname i) (preimage i))) = sha1 (to_bytes (hashed (iname j) (preimage j))).
Proof. intros i j. exact (TempNames.C14_reduction (iname i) (preimage i) (iname j) (preimage j)). Qed.

(* stable: the same task identity gets the same directory whatever order Go enumerates its maps in (keys are sorted);
   the name is a function of the identity alone -- no clock, no random source, no map order *)
Theorem C14_stable : forall i j : ident,
  iname i = iname j ->
  NoDup (map fst (iins i)) -> Permutation (iins i) (iins j) ->
  NoDup (map fst (isubs i)) -> Permutation (isubs i) (isubs j) ->
  NoDup (map fst (iparams i)) -> Permutation (iparams i) (iparams j) ->
  NoDup (map fst (itags i)) -> Permutation (itags i) (itags j) ->
  task_tempdir i = task_tempdir j.
Proof. exact TempStable.tempdir_stable. Qed.

(* distinct in each component: two tasks of one process that differ in the value of their parameter, or in their input
   file (a file in the working directory), have different hashed pre-images -- so by C14_reduction equal directories would
   exhibit a SHA-1 collision *)
Theorem C14_preimage_injective_param : forall (name : str) (ins : list (str * str)) (k v1 v2 : str),
  preimage {| iname := name; iins := ins; isubs := []; iparams := [(k, v1)]; itags := [] |} =
  preimage {| iname := name; iins := ins; isubs := []; iparams := [(k, v2)]; itags := [] |} -> v1 = v2.
Proof. exact TempStable.preimage_injective_single_param. Qed.

Theorem C14_preimage_injective_input : forall (name port p1 p2 : str),
  single_segment p1 -> single_segment p2 ->
  preimage {| iname := name; iins := [(port, p1)]; isubs := []; iparams := []; itags := [] |} =
  preimage {| iname := name; iins := [(port, p2)]; isubs := []; iparams := []; itags := [] |} -> p1 = p2.
Proof. exact TempStable.preimage_injective_single_input. Qed.

(* the pre-image is not injective: input "a/b" and input "ab" of the same process share a directory (finding D7) *)
Theorem C14_preimage_refuted : iins idA <> iins idB /\ task_tempdir idA = task_tempdir idB.
Proof. exact TempDirModel.C14_preimage_refuted. Qed.

(* T1, call cones: every function of scipipe that the functions this property's models stand for can reach (calls and
   function values, interface calls resolved to every implementation) is one the models were compared with -- a helper that
   is new to the cone, or a new call of an old one, changes a list (regenerated from /repo on every run; ExpectedCones.v
   holds the accepted ones) *)
Theorem C14_cone_conforms :
  strs_eqb cone_Task_TempDir exp_cone_Task_TempDir
  && strs_eqb cone_NewTask exp_cone_NewTask = true.
Proof. vm_compute. reflexivity. Qed.

Print Assumptions C14_code_conforms.
Print Assumptions C14_valid_segment.
Print Assumptions C14_reduction.
Print Assumptions C14_stable.
Print Assumptions C14_preimage_injective_param.
Print Assumptions C14_preimage_injective_input.
Print Assumptions C14_preimage_refuted.
Print Assumptions C14_cone_conforms.
