(* C14 -- Tasks in flight never share a temp directory; a task's temp directory is stable.
   Only statements, each closed by `exact`, with Print Assumptions beneath. *)
From Coq Require Import List Ascii String NArith Arith Bool.
Import ListNotations.
From SP Require Import Skel Gen Expected Sha1 PathLex TempNames TempDirModel.

(* T1: the constants the model has built in are those of the current source *)
Theorem C14_code_conforms :
  String.eqb const_tempDirPrefix exp_const_tempDirPrefix
  && strs_eqb regexps_sanitizePathFragment exp_regexps_sanitizePathFragment = true.
Proof. vm_compute. reflexivity. Qed.

(* the name is one valid path segment of at most 255 bytes, for every identity *)
Theorem C14_valid_segment : forall i : ident,
  (List.length (task_tempdir i) <= 255)%nat /\ Forall (fun c => allowed c = true) (task_tempdir i).
Proof. intro i. exact (TempNames.C14_valid_segment (iname i) (preimage i)). Qed.

(* distinctness up to SHA-1: two identities with the same directory name have hashed pre-images
   with the same SHA-1 digest -- so either the pre-images are equal or this is a SHA-1 collision *)
Theorem C14_reduction : forall i j : ident,
  task_tempdir i = task_tempdir j ->
  sha1 (to_bytes (hashed (iname i) (preimage i))) = sha1 (to_bytes (hashed (iname j) (preimage j))).
Proof. intros i j. exact (TempNames.C14_reduction (iname i) (preimage i) (iname j) (preimage j)). Qed.

(* the pre-image is not injective: input "a/b" and input "ab" of the same process share a directory (finding D7) *)
Theorem C14_preimage_refuted : iins idA <> iins idB /\ task_tempdir idA = task_tempdir idB.
Proof. exact TempDirModel.C14_preimage_refuted. Qed.

Print Assumptions C14_code_conforms.
Print Assumptions C14_valid_segment.
Print Assumptions C14_reduction.
Print Assumptions C14_preimage_refuted.
