(* Prototype: executable model of formatCommand / applyPathModifiers / port discovery (C15, C18). *)
From Coq Require Import List Ascii String Arith Bool.
Import ListNotations.
Require Import Str PathLex.
Notation length := List.length.

Definition lbr : ascii := "{"%char.
Definition rbr : ascii := "}"%char.
Definition colon : ascii := ":"%char.
Definition pipe : ascii := "|"%char.
Definition pct : ascii := "%"%char.
Definition ch_s : ascii := "s"%char.

Definition kinds : list str := map s2l ["o"; "os"; "i"; "is"; "p"; "t"]%string.

Fixpoint span (f : ascii -> bool) (s : str) : str * str :=
  match s with
  | c :: r => if f c then let (a, b) := span f r in (c :: a, b) else ([], s)
  | [] => ([], [])
  end.
Definition nobrace (c : ascii) := negb (Ascii.eqb c lbr || Ascii.eqb c rbr).
Definition noslash (c : ascii) := negb (Ascii.eqb c sl).

(* the placeholder regexp, anchored at the head of s *)
Definition match_here (s : str) : option (str * str * nat) :=
  match s with
  | c :: s1 =>
    if Ascii.eqb c lbr then
      match find (fun k => prefixb (k ++ [colon]) s1) kinds with
      | Some k =>
        let s2 := skipn (length k + 1) s1 in
        let (body, rest) := span nobrace s2 in
        match body, rest with
        | _ :: _, c2 :: _ => if Ascii.eqb c2 rbr then Some (k, body, length k + length body + 3) else None
        | _, _ => None
        end
      | None => None
      end
    else None
  | [] => None
  end.

(* FindAllStringSubmatch: leftmost, non-overlapping *)
Fixpoint find_all (s : str) (skip : nat) : list (str * str * str) :=   (* (whole match, kind, rest) *)
  match s with
  | [] => []
  | _ :: r =>
    match skip with
    | S k => find_all r k
    | O => match match_here s with
           | Some (kind, body, n) => (firstn n s, kind, body) :: find_all r (n - 1)
           | None => find_all r 0
           end
    end
  end.

Definition split_on (d : ascii) (s : str) : list str :=
  (fix go (s cur : str) : list str :=
     match s with
     | [] => [rev cur]
     | c :: r => if Ascii.eqb c d then rev cur :: go r [] else go r (c :: cur)
     end) s [].

(* strings.Replace(s, old, new, 1) for non-empty old *)
Fixpoint replace_first (old new s : str) : str :=
  match s with
  | [] => []
  | c :: r => if prefixb old s then new ++ skipn (length old) s else c :: replace_first old new r
  end.

(* the s/SEARCH/REPLACE/ modifier regexp, unanchored, leftmost *)
Fixpoint find_subst (m : str) : option (str * str) :=
  match m with
  | [] => None
  | c :: r =>
    let here :=
      match m with
      | c1 :: c2 :: r2 =>
        if Ascii.eqb c1 ch_s && Ascii.eqb c2 sl then
          let (a, r3) := span noslash r2 in
          match a, r3 with
          | _ :: _, _ :: r4 => let (b, r5) := span noslash r4 in
                               match r5 with _ :: _ => Some (a, b) | [] => None end
          | _, _ => None
          end
        else None
      | _ => None
      end in
    match here with Some x => Some x | None => find_subst r end
  end.

(* the percent-suffix regexp, unanchored: everything after the first percent sign *)
Fixpoint find_trim (m : str) : option str :=
  match m with [] => None | c :: r => if Ascii.eqb c pct then Some r else find_trim r end.

Definition has_slash (s : str) := existsb (Ascii.eqb sl) s.
Definition after_last_slash (s : str) : str := if has_slash s then rev (fst (span noslash (rev s))) else s.
Definition before_last_slash (s : str) : str :=
  if has_slash s then rev (tl (snd (span noslash (rev s)))) else s.

Definition is_suffix (e s : str) : bool := prefixb (rev e) (rev s).

Definition apply_mod (p m : str) : str :=
  let p1 := match find_subst m with Some (a, b) => replace_first a b p | None => p end in
  let p2 := match find_trim m with
            | Some e => if Nat.ltb (length e) (length p1) && is_suffix e p1
                        then firstn (length p1 - length e) p1 else p1
            | None => p1 end in
  if str_eqb m (s2l "basename") then after_last_slash p2
  else if str_eqb m (s2l "dirname") then before_last_slash p2
  else p2.

Definition apply_mods (p : str) (ms : list str) : str := fold_left apply_mod ms p.

(* port discovery: the LAST occurrence of a name decides type and join separator *)
Record pinfo := { ptype : str; pjoin : option str }.
Definition find_join (part : str) : option str :=       (* join:SEP, unanchored *)
  (fix go (s : str) : option str :=
     match s with
     | [] => None
     | _ :: r => if prefixb (s2l "join:") s
                 then match skipn 5 s with [] => go r | sep => Some sep end
                 else go r
     end) part.

Definition port_infos (cmd : str) : list (str * pinfo) :=
  fold_left (fun acc m =>
    let '(_, kind, rest) := m in
    let parts := split_on pipe rest in
    let name := hd [] parts in
    let j := fold_left (fun a part => match find_join part with Some s => Some s | None => a end) (tl parts) None in
    (name, {| ptype := kind; pjoin := j |}) :: filter (fun kv => negb (str_eqb (fst kv) name)) acc)
    (find_all cmd 0) [].

(* NewProc refuses a pattern in which a port name is met again after it has already been seen with two different types *)
Definition pattern_ok (cmd : str) : bool :=
  snd (fold_left (fun (st : list (str * list str) * bool) m =>
    let '(_, kind, rest) := m in
    let name := hd [] (split_on pipe rest) in
    let seen := match find (fun kv => str_eqb (fst kv) name) (fst st) with Some kv => snd kv | None => [] end in
    let bad := Nat.ltb 1 (length seen) in
    let seen' := if existsb (str_eqb kind) seen then seen else kind :: seen in
    ((name, seen') :: filter (fun kv => negb (str_eqb (fst kv) name)) (fst st), snd st && negb bad))
    (find_all cmd 0) ([], true)).

Definition lookup {V} (k : str) (l : list (str * V)) : option V :=
  match find (fun kv => str_eqb (fst kv) k) l with Some kv => Some (snd kv) | None => None end.

Definition prepend_parent (p : str) : str :=
  match p with c :: _ => if Ascii.eqb c sl then p else s2l "../" ++ p | [] => p end.

Definition temp_path (p : str) : str :=
  let q := replace_all (s2l "../") (s2l "__parent__") p in
  match q with c :: _ => if Ascii.eqb c sl then s2l "__fsroot__" ++ q else q | [] => q end.

Inductive res := Ok (s : str) | Fail.

(* prependParentDirPath indexes the first byte: on an empty string the real code panics, which stops the workflow *)
Definition prepend_parent_res (p : str) : res := match p with [] => Fail | _ => Ok (prepend_parent p) end.

(* environment: in-paths, sub-stream member paths, out-paths, params, tags *)
Record env := { e_in : list (str * str); e_sub : list (str * list str); e_out : list (str * str);
                e_par : list (str * str); e_tag : list (str * str) }.

Definition join_with (sep : str) (l : list str) : str :=
  match l with [] => [] | a :: r => a ++ List.concat (map (fun x => sep ++ x) r) end.

Definition replacement (infos : list (str * pinfo)) (e : env) (kind rest : str) : res :=
  let parts := split_on pipe rest in
  let name := hd [] parts in
  let mods := tl parts in
  match lookup name infos with
  | None => Fail
  | Some pi =>
    let ty := ptype pi in
    if str_eqb ty (s2l "o") then
      match lookup name (e_out e) with
      | Some p => Ok (replace_all (s2l "../") (s2l "__parent__") (apply_mods (temp_path p) mods))
      | None => Fail end
    else if str_eqb ty (s2l "os") then
      match lookup name (e_out e) with
      | Some p => let q := apply_mods (p ++ s2l ".fifo") mods in
                  if existsb (str_eqb (s2l "basename")) mods then Ok q else prepend_parent_res q
      | None => Fail end
    else if str_eqb ty (s2l "i") then
      match pjoin pi with
      | Some sep =>
        match lookup name (e_sub e) with
        | Some ms => if existsb (fun m => match apply_mods m mods with [] => true | _ => false end) ms then Fail
                     else Ok (join_with sep (map (fun m => prepend_parent (apply_mods m mods)) ms))
        | None => Fail end
      | None =>
        match lookup name (e_in e) with
        | Some p => match p with [] => Fail | _ =>
                      let q := apply_mods p mods in
                      if existsb (str_eqb (s2l "basename")) mods then Ok q else prepend_parent_res q end
        | None => Fail end
      end
    else if str_eqb ty (s2l "p") then
      match lookup name (e_par e) with
      | Some v => match v with [] => Fail | _ => Ok (apply_mods v mods) end
      | None => Fail end
    else if str_eqb ty (s2l "t") then
      match lookup name (e_tag e) with
      | Some v => match v with [] => Fail | _ => Ok (apply_mods v mods) end
      | None => Fail end
    else Fail
  end.

Definition format_command (cmd : str) (e : env) : res :=
  let infos := port_infos cmd in
  fold_left (fun acc m =>
    match acc with
    | Fail => Fail
    | Ok c => let '(whole, kind, rest) := m in
              match replacement infos e kind rest with
              | Ok r => Ok (replace_all whole r c)
              | Fail => Fail end
    end) (find_all cmd 0) (Ok cmd).

Definition show (r : res) : string := match r with Ok s => l2s s | Fail => "<FAIL>"%string end.
Definition env0 := {| e_in := [(s2l "foo", s2l "data/foofile.txt"); (s2l "bar", s2l "barfile.txt")];
                      e_sub := [];
                      e_out := [(s2l "bax", s2l "../../ref/ref.txt"); (s2l "bay", s2l "/tmp/scipipe/bay_outfile.txt"); (s2l "baz", s2l "data/outfile.txt")];
                      e_par := []; e_tag := [] |}.
(* the thirteen cases of TestFormatCommand *)
Eval vm_compute in map (fun c => show (format_command (s2l c) env0))
  ["echo {i:foo}"; "echo {i:foo} {i:bar}"; "cat {i:foo} > {o:baz|%.txt}"; "cat {i:foo} > {o:baz|%.txt|basename}";
   "cat {i:foo} | tee {o:baz} > {o:baz|basename|%.txt}"; "cat {i:foo|s/foo/bar/} > {o:baz|%.txt}";
   "cat {i:foo|dirname}/newfile.txt {i:foo} > {o:baz}"; "cat {i:foo|dirname}/some_path/{i:foo|basename}";
   "cat ../{i:foo|basename} {i:foo} > {o:baz}";
   "cat {i:foo} | tee {o:baz} > {o:baz|dirname}/hoge/{o:baz|basename|%.txt}.out.txt";
   "cat {i:foo} > {o:bax}"; "cat {i:foo} > {o:bay}"; "cat {i:foo} > data/{o:bay|basename|%.txt}.csv"]%string.

