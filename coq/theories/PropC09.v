(* C09 -- A failing task stops the workflow; failure is never silent.  Model: TaskFS (see PropC01). *)
From Coq Require Import List Arith Lia Bool PeanoNat String.
Import ListNotations.
From SP Require Import Skel Gen Expected ExpectedCones Result TaskFS TInv TPres Glue Cor TaskTop.
From SP Require FailWindow.

(* T1: Fail is os.Exit(1); a failing command, a missing output and a failing rename all reach Fail; no recover anywhere *)
Theorem C09_code_conforms :
  skel_eqb skel_Fail exp_Fail && skel_eqb skel_Failf exp_Failf && skel_eqb skel_CheckWithMsg exp_CheckWithMsg
  && skel_eqb skel_Task_Execute exp_Task_Execute
  && skel_eqb skel_Task_executeCommand exp_Task_executeCommand
  && skel_eqb skel_Task_ensureAllOutputsExist exp_Task_ensureAllOutputsExist
  && skel_eqb skel_FinalizePaths exp_FinalizePaths
  && skel_eqb skel_NewTask exp_NewTask
  && skel_eqb skel_NewFileIP exp_NewFileIP = true.
Proof. vm_compute. reflexivity. Qed.

(* a failing command, or a declared output missing after exit 0, moves the whole system to `exited` ... *)
Theorem C09_fail_is_exit : forall (c : cfg) (s : st) (t : nat),
  exited s = false -> t < nt c ->
  (pcs s t = Cmd -> exists s', step c s (ACmdFail t) = Some s' /\ exited s' = true) /\
  (pcs s t = Ensure -> forallb (fun x => isSome (tmp s t x)) (tout (tk c t)) = false ->
   forall perm, exists s', step c s (AEnsure t perm) = Some s' /\ exited s' = true).
Proof.
  intros c s t He Ht. assert (L : Nat.ltb t (nt c) = true) by (apply Nat.ltb_lt; exact Ht). split.
  - intros P. unfold step. rewrite He. simpl. rewrite L. simpl. rewrite P. eexists. split; reflexivity.
  - intros P M perm. unfold step. rewrite He. simpl. rewrite L. simpl. rewrite P, M. eexists. split; reflexivity.
Qed.

(* ... from which no step exists: nothing runs after a failure, completion is never reached *)
Theorem C09_exit_is_final : forall (c : cfg) (s : st) (a : act), exited s = true -> step c s a = None.
Proof. exact Cor.C09_exit_is_final. Qed.

(* the failing task's outputs keep their initial value in every reachable state *)
Theorem C09_failed_outputs_untouched : forall (c : cfg) (f0 : fs) (left0 : nat -> bool), wfc c ->
  forall s t x, reachable c f0 left0 s -> t < nt c -> In x (tout (tk c t)) -> past_cmd (pcs s t) = false -> fin s x = f0 x.
Proof. exact Cor.C09_failed_outputs_untouched. Qed.

(* no task that reads an output of task d leaves Wait before d is done: dependants of a failed task never execute *)
Theorem C09_no_dependants : forall (c : cfg) (f0 : fs) (left0 : nat -> bool), wfc c ->
  forall s t d, reachable c f0 left0 s -> t < nt c -> d < t ->
  shares (tout (tk c d)) (tin (tk c t)) = true -> pcs s t <> Wait -> is_done (pcs s d) = true.
Proof. exact Cor.C09_no_dependants. Qed.

(* between the failure and os.Exit (the report is written in between, the other tasks go on -- FailWindow): no task that
   reads an output of the failed task leaves Wait, for as long as the program lives; and once it is gone nothing moves *)
Theorem C09_window_no_dependants : forall (c : cfg) (f0 : fs) (left0 : nat -> bool), wfc c ->
  forall w, FailWindow.wreachable c f0 left0 w ->
  forall t d, t < nt c -> d < t -> FailWindow.failed w d = true ->
  shares (tout (tk c d)) (tin (tk c t)) = true -> pcs (FailWindow.base w) t = Wait.
Proof. intros c f0 left0 WF w R. exact (FailWindow.window_no_dependants c f0 left0 WF w R). Qed.

Theorem C09_window_gone_is_final : forall (c : cfg) (w : FailWindow.wst) (a : FailWindow.wact),
  FailWindow.gone w = true -> FailWindow.wstep c w a = None.
Proof. exact FailWindow.window_gone_is_final. Qed.

(* a failed task takes no further step: its goroutine is inside Fail until the program ends *)
Theorem C09_window_failed_is_stopped : forall (c : cfg) (w : FailWindow.wst) (a : act),
  FailWindow.failed w (node_of a) = true -> FailWindow.wstep c w (FailWindow.WTask a) = None.
Proof. intros c w a F. unfold FailWindow.wstep. rewrite F. destruct (FailWindow.gone w); reflexivity. Qed.

(* T1, call cones: every function of scipipe that the functions above can reach (calls and function values, interface calls
   resolved to every implementation) is one the models were compared with -- a helper that is new to the cone, or a new call
   of an old one, changes a list (the lists are regenerated from /repo on every run; ExpectedCones.v holds the accepted ones) *)
Theorem C09_cone_conforms :
  strs_eqb cone_Fail exp_cone_Fail
  && strs_eqb cone_Failf exp_cone_Failf
  && strs_eqb cone_CheckWithMsg exp_cone_CheckWithMsg
  && strs_eqb cone_Task_Execute exp_cone_Task_Execute
  && strs_eqb cone_Task_executeCommand exp_cone_Task_executeCommand
  && strs_eqb cone_Task_ensureAllOutputsExist exp_cone_Task_ensureAllOutputsExist
  && strs_eqb cone_FinalizePaths exp_cone_FinalizePaths
  && strs_eqb cone_NewTask exp_cone_NewTask
  && strs_eqb cone_NewFileIP exp_cone_NewFileIP = true.
Proof. vm_compute. reflexivity. Qed.

Print Assumptions C09_code_conforms.
Print Assumptions C09_fail_is_exit.
Print Assumptions C09_exit_is_final.
Print Assumptions C09_failed_outputs_untouched.
Print Assumptions C09_no_dependants.
Print Assumptions C09_window_no_dependants.
Print Assumptions C09_window_gone_is_final.
Print Assumptions C09_window_failed_is_stopped.
Print Assumptions C09_cone_conforms.
