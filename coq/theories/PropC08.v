(* C08 -- Outputs leave a process in the order its inputs arrived. *)
From Coq Require Import List Arith Lia Bool PeanoNat String.
Import ListNotations.
Notation length := List.length.
From SP Require Import Skel Gen Expected ExpectedCones NetA Inv Pres Dead Top Ghost GhostPres NetTop.
From SP Require Port.

(* T1: tasks are appended at the tail of startedTasks, only the head's Done is awaited, the head is popped, its out-IPs are sent *)
Theorem C08_code_conforms :
  skel_eqb skel_Process_Run exp_Process_Run
  && skel_eqb skel_taskQueue_NextTaskDone exp_taskQueue_NextTaskDone
  && skel_eqb skel_OutPort_Send exp_OutPort_Send
  && skel_eqb skel_InPort_Send exp_InPort_Send
  && skel_eqb skel_Process_createTasks exp_Process_createTasks = true.   (* tasks are built one after the other, in the order the input sets arrive *)
Proof. vm_compute. reflexivity. Qed.

(* in every reachable state, whatever order the tasks finished in, the sequence sent on an out-edge is the sequence of
   outputs of the tasks in creation order (a prefix of it while the process is still running) *)
Theorem C08_process_order : forall (c : cfg) (len : nat -> nat) (gc : gcfg),
  wf c len -> (forall v L, slen c v = Some L -> length (sitems gc v) = L) ->
  forall sched s g, sched_ok c sched -> grun c gc (init c) ginit sched = Some (s, g) ->
  forall e, e < E c ->
  hist g e = map (outf gc (esrc c e) e) (firstn (snt (es s e)) (crt g (esrc c e))).
Proof.
  intros c len gc WF SL sched s g Hok Hrun e He.
  destruct (reachable_inv c len gc WF sched s g Hok Hrun) as [_ [_ G]].
  exact (Ghost.C08_order c gc s g G e He).
Qed.

(* and creation order is arrival order: the k-th created task holds the k-th item of every in-edge *)
Theorem C08_creation_is_arrival_order : forall (c : cfg) (len : nat -> nat) (gc : gcfg),
  wf c len -> (forall v L, slen c v = Some L -> length (sitems gc v) = L) ->
  forall sched s g, sched_ok c sched -> grun c gc (init c) ginit sched = Some (s, g) ->
  forall v k, v < nn c -> k < cN (ns s v) -> nth k (crt g v) [] = tuple_of c gc g v k.
Proof.
  intros c len gc WF SL sched s g Hok Hrun v k Hv Hk.
  destruct (reachable_inv c len gc WF sched s g Hok Hrun) as [_ [_ G]].
  exact (Ghost.C04_tasks_are_zip c gc s g G v k Hv Hk).
Qed.

(* end to end, for a completed run: an edge carries the outputs of ALL tasks of its source, in creation order *)
Theorem C08_final_order : forall (c : cfg) (len : nat -> nat) (gc : gcfg),
  wf c len -> (forall v L, slen c v = Some L -> length (sitems gc v) = L) ->
  forall sched s g, sched_ok c sched -> grun c gc (init c) ginit sched = Some (s, g) -> final c s ->
  forall e, e < E c -> hist g e = map (outf gc (esrc c e) e) (crt g (esrc c e)).
Proof.
  intros c len gc WF SL sched s g Hok Hrun HF e He.
  exact (final_hist c len gc WF s g e (reachable_inv c len gc WF sched s g Hok Hrun) HF He).
Qed.

(* items that reach a port from the same upstream keep their relative order through fan-in: in every reachable state of a
   port fed by any number of upstreams, the items received from upstream r are, in order, the first ones r sends *)
Theorem C08_fanin_order : forall (c : Port.cfg), 1 <= Port.cap c -> 1 <= Port.ns c ->
  forall l s, Port.run c (Port.init c) l = Some s ->
  forall r, r < Port.ns c -> Port.from r (Port.hist s) = firstn (Port.rcv s r) (Port.plan c r).
Proof. intros c C N l s H. exact (proj1 (Port.merge_is_orderly c C N l s H)). Qed.

(* T1, call cones: every function of scipipe that the functions above can reach (calls and function values, interface calls
   resolved to every implementation) is one the models were compared with -- a helper that is new to the cone, or a new call
   of an old one, changes a list (the lists are regenerated from /repo on every run; ExpectedCones.v holds the accepted ones) *)
Theorem C08_cone_conforms :
  strs_eqb cone_Process_createTasks exp_cone_Process_createTasks
  &&   strs_eqb cone_Process_Run exp_cone_Process_Run
  && strs_eqb cone_taskQueue_NextTaskDone exp_cone_taskQueue_NextTaskDone
  && strs_eqb cone_OutPort_Send exp_cone_OutPort_Send
  && strs_eqb cone_InPort_Send exp_cone_InPort_Send = true.
Proof. vm_compute. reflexivity. Qed.

Print Assumptions C08_code_conforms.
Print Assumptions C08_fanin_order.
Print Assumptions C08_process_order.
Print Assumptions C08_creation_is_arrival_order.
Print Assumptions C08_final_order.
Print Assumptions C08_cone_conforms.
