From SP Require Import Skel.
