(* C11 -- Provenance survives restarts.
   Models: Audit (histories of tasks over a persistent record store) and Json (the record schema as tokens and bytes). *)
From Coq Require Import List Ascii String Arith Bool Lia.
Import ListNotations.
From SP Require Import Skel Gen Expected ExpectedCones Str PathLex Audit Json JsonProofs JsonBytes.
Notation length := List.length.

(* T1: an IP created for an existing file loads <path>.audit.json; the audit file is written before the outputs are
   renamed; the task that finds its outputs skips and keeps the loaded record *)
Theorem C11_code_conforms :
  skel_eqb skel_NewFileIP exp_NewFileIP
  && skel_eqb skel_FileIP_AuditInfo exp_FileIP_AuditInfo
  && skel_eqb skel_UnmarshalAuditInfoJSONFile exp_UnmarshalAuditInfoJSONFile
  && skel_eqb skel_FileIP_WriteAuditLogToFile exp_FileIP_WriteAuditLogToFile
  && skel_eqb skel_Task_writeAuditLogs exp_Task_writeAuditLogs
  && skel_eqb skel_Task_Execute exp_Task_Execute
  && skel_eqb skel_FinalizePaths exp_FinalizePaths
  && skel_eqb skel_Process_Run exp_Process_Run                     (* a resumed run pairs items by position, as the reference *)
  && skel_eqb skel_Process_createTasks exp_Process_createTasks     (* evaluator does: outputs leave in the order of the input sets *)
  && call_before "t.writeAuditLogs" "t.finalizePaths" exp_Task_Execute = true.
Proof. vm_compute. reflexivity. Qed.

(* a run split into several runs over a persistent store: running a prefix of the tasks, keeping the records, and running
   the rest gives on every path the record of one uninterrupted run *)
Theorem C11_resume_keeps_records : forall (P : Type) (ts1 ts2 : list (atask P)) (x : nat),
  get P (fold_left (exec P) ts2 (build P ts1)) x = get P (build P (ts1 ++ ts2)) x.
Proof. exact Audit.build_resume. Qed.

(* the lineage does not depend on the order in which the tasks ran: two well-ordered histories made of the same tasks --
   an uninterrupted run, and a run that was interrupted, resumed, and scheduled differently -- record the same lineage
   (process, command, parameters, out files of every ancestor, recursively) on every path *)
Theorem C11_resume_same_lineage : forall (P : Type) (h1 h2 : list (atask P)),
  WO P h1 -> WO P h2 -> (forall t, In t h1 <-> In t h2) -> forall x, lin P h1 x = lin P h2 x.
Proof. exact Audit.lineage_order_independent. Qed.

(* and what is on a path after any history is the full lineage of that path *)
Theorem C11_store_is_lineage : forall (P : Type) (ts : list (atask P)) (x : nat), get P (build P ts) x = lin P (rev ts) x.
Proof. exact Audit.build_is_lineage. Qed.

(* writing a record and reading it back loses nothing: at the level of JSON tokens, for every record tree (any depth,
   any maps, any strings), with any continuation *)
Theorem C11_roundtrip_tokens : forall (r : jrec) (fuel : nat) (rest : list jtok),
  height r <= fuel -> prec fuel (ptoks r ++ rest) = Some (r, rest).
Proof. exact JsonProofs.prec_ptoks. Qed.

(* and at the level of string literals: un-escaping an escaped string gives the string back, for every ASCII string
   (control characters, quotes, back-slashes and the HTML-sensitive characters included) *)
Theorem C11_roundtrip_strings : forall (s rest : str), Forall is_ascii7 s ->
  unescape (S (length s)) (escape s ++ dq :: rest)%list = Some (s, rest).
Proof. exact JsonProofs.unescape_escape. Qed.

(* the composition on bytes: the lexer reads the MarshalIndent rendering of a record tree, at any nesting depth, as exactly
   the record's tokens ... *)
Theorem C11_lexer_reads_rendering : forall (r : jrec), ascii_rec r -> forall (d : nat) (toks : list jtok),
  lrun (toks, MNorm) (jrender d r) = (rev (ptoks r) ++ toks, MNorm)%list.
Proof. exact JsonBytes.lexes_jrender. Qed.

(* ... and so the bytes written for a record tree decode to that record tree: every tree, every depth, every map, every
   string of 7-bit characters (bytes >= 0x80 belong to UTF-8 sequences in encoding/json; they are outside the model and
   covered by the correspondence with the real encoder only) *)
Theorem C11_roundtrip_bytes : forall (r : jrec), ascii_rec r -> decode (jrender 0 r) = Some r.
Proof. exact JsonBytes.decode_jrender. Qed.

(* the hypothesis is satisfiable by a record with nested upstream records, maps, and escaped characters *)
Theorem C11_roundtrip_bytes_example : ascii_rec ex_rec /\ decode (jrender 0 ex_rec) = Some ex_rec.
Proof. exact (conj JsonBytes.ascii_rec_ex JsonProofs.decode_render_example). Qed.

(* T1, call cones: every function of scipipe that the functions above can reach (calls and function values, interface calls
   resolved to every implementation) is one the models were compared with -- a helper that is new to the cone, or a new call
   of an old one, changes a list (the lists are regenerated from /repo on every run; ExpectedCones.v holds the accepted ones) *)
Theorem C11_cone_conforms :
  strs_eqb cone_Process_Run exp_cone_Process_Run
  && strs_eqb cone_Process_createTasks exp_cone_Process_createTasks
  &&   strs_eqb cone_NewFileIP exp_cone_NewFileIP
  && strs_eqb cone_FileIP_AuditInfo exp_cone_FileIP_AuditInfo
  && strs_eqb cone_UnmarshalAuditInfoJSONFile exp_cone_UnmarshalAuditInfoJSONFile
  && strs_eqb cone_FileIP_WriteAuditLogToFile exp_cone_FileIP_WriteAuditLogToFile
  && strs_eqb cone_Task_writeAuditLogs exp_cone_Task_writeAuditLogs
  && strs_eqb cone_Task_Execute exp_cone_Task_Execute
  && strs_eqb cone_FinalizePaths exp_cone_FinalizePaths = true.
Proof. vm_compute. reflexivity. Qed.

Print Assumptions C11_code_conforms.
Print Assumptions C11_resume_keeps_records.
Print Assumptions C11_resume_same_lineage.
Print Assumptions C11_store_is_lineage.
Print Assumptions C11_roundtrip_tokens.
Print Assumptions C11_roundtrip_strings.
Print Assumptions C11_lexer_reads_rendering.
Print Assumptions C11_roundtrip_bytes.
Print Assumptions C11_roundtrip_bytes_example.
Print Assumptions C11_cone_conforms.
