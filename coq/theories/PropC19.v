(* C19 -- Bundled components compute what they advertise. *)
From Coq Require Import List Ascii Arith Lia Bool.
Import ListNotations.
From SP Require Import Comb Splitter Components.
From SP Require Readers.
From SP Require Import Skel Gen ExpectedCones.
Notation length := List.length.

(* combinators: for every number of ports, every stream lengths (0 included), every element type: out-stream j is column j
   of the Cartesian product -- the out-streams are aligned and together enumerate each combination exactly once *)
Theorem C19_product : forall (A : Type) (ss : list (list A)) (j : nat), j < length ss ->
  map Some (nth j (comb A ss) []) = col A j (prod A ss).
Proof. exact Comb.comb_is_product. Qed.

Theorem C19_product_lengths : forall (A : Type) (ss : list (list A)) (j : nat), j < length ss ->
  length (nth j (comb A ss) []) = length (prod A ss).
Proof. exact Comb.comb_lengths. Qed.

(* ... where the product is what it should be: a tuple occurs in it iff its j-th member occurs in the j-th stream, there
   are (product of the lengths) tuples, and with duplicate-free streams every combination occurs exactly once *)
Theorem C19_product_is_cartesian : forall (A : Type) (ss : list (list A)) (tup : list A),
  In tup (prod A ss) <-> Forall2 (fun a s => In a s) tup ss.
Proof. exact Comb.prod_spec. Qed.

Theorem C19_product_size : forall (A : Type) (ss : list (list A)), length (prod A ss) = lprod A ss.
Proof. exact Comb.prod_length. Qed.

Theorem C19_product_exactly_once : forall (A : Type) (ss : list (list A)), Forall (@NoDup A) ss -> NoDup (prod A ss).
Proof. exact Comb.prod_nodup. Qed.

(* selector: exactly the aligned tuples all of whose members satisfy the predicate, in order *)
Theorem C19_selector : forall (A : Type) (pred : A -> bool) (rows : list (list A)) (r : list A),
  In r (selector pred rows) <-> In r rows /\ forall x, In x r -> pred x = true.
Proof. exact @Components.selector_spec. Qed.

Theorem C19_selector_order : forall (A : Type) (pred : A -> bool) (rows1 rows2 : list (list A)),
  selector pred (rows1 ++ rows2) = selector pred rows1 ++ selector pred rows2.
Proof. exact @Components.selector_order. Qed.

(* splitter: for every byte string and every line limit n >= 1: the parts concatenate back to the input with its last line
   terminated and CR before LF dropped (`normalise`), and no part is longer than n lines *)
Theorem C19_split_bytes : forall (n : nat) (s : list byte), concat (split_bytes n s) = normalise s.
Proof. intros n s. unfold split_bytes. exact (Splitter.C19_split_bytes n s). Qed.

Theorem C19_split_bound : forall (n : nat) (s : list byte), 1 <= n ->
  Forall (fun p => length p <= n) (split n (lines_of s)).
Proof. intros n s H. exact (Splitter.split_bound n (lines_of s) H). Qed.

(* normalise is the identity exactly on inputs whose lines are LF-terminated and CR-free: stated for the common case *)
Theorem C19_split_example :
  split_bytes 2 [97; 10; 98; 10; 99; 10; 100; 10] = [[97; 10; 98; 10]; [99; 10; 100; 10]; []]
  /\ split_bytes 2 [97; 10; 98; 13; 10; 99] = [[97; 10; 98; 10]; [99; 10]]
  /\ split_bytes 3 [] = [[]].
Proof. vm_compute. repeat split; reflexivity. Qed.

(* concatenator: the output is every input's content followed by a newline, in arrival order *)
Theorem C19_concat_unfold : forall (c : list nat) (r : list (list nat)),
  concat_out [] = [] /\ concat_out (c :: r) = c ++ [LF] ++ concat_out r.
Proof. intros c r. split; [reflexivity|]. unfold concat_out. simpl. now rewrite <- app_assoc. Qed.

Theorem C19_concat : forall a b : list (list nat), concat_out (a ++ b) = concat_out a ++ concat_out b.
Proof. exact Components.concat_out_app. Qed.

(* FileToParamsReader and CommandToParams hand what they read to bufio.Scanner / ScanLines (`reader_lines` = `lines_of`, the
   executable model the C19 check runs against both components) and emit one parameter per token: exactly the lines, in order *)
Theorem C19_reader_emits_the_lines : forall ls : list (list byte),
  Forall Readers.no_lf ls -> Forall Readers.no_trailing_cr ls ->
  reader_lines (concat (map (fun l => l ++ [LF]) ls)) = ls.
Proof. exact Readers.reader_emits_the_lines. Qed.

Theorem C19_reader_unterminated_last_line : forall (ls : list (list byte)) (last : list byte),
  Forall Readers.no_lf ls -> Forall Readers.no_trailing_cr ls -> Readers.no_lf last -> Readers.no_trailing_cr last -> last <> [] ->
  reader_lines (concat (map (fun l => l ++ [LF]) ls) ++ last) = ls ++ [last].
Proof. exact Readers.reader_emits_an_unterminated_last_line. Qed.

(* a command that prints nothing, an empty parameter file: no parameter at all (not one empty value) *)
Theorem C19_reader_of_nothing_emits_nothing : reader_lines [] = [].
Proof. exact Readers.reader_of_nothing_emits_nothing. Qed.

(* blank lines are items: neither dropped nor merged *)
Theorem C19_reader_keeps_blank_lines : reader_lines [97; LF; LF; 98; LF] = [[97]; []; [98]].
Proof. exact Readers.reader_keeps_blank_lines. Qed.

(* T1, call cones: every function of scipipe that the functions this property's models stand for can reach (calls and
   function values, interface calls resolved to every implementation) is one the models were compared with -- a helper that
   is new to the cone, or a new call of an old one, changes a list (regenerated from /repo on every run; ExpectedCones.v
   holds the accepted ones) *)
Theorem C19_cone_conforms :
  strs_eqb cone_components_FileCombinator_Run exp_cone_components_FileCombinator_Run
  && strs_eqb cone_components_ParamCombinator_Run exp_cone_components_ParamCombinator_Run
  && strs_eqb cone_components_IPSelectorSync_Run exp_cone_components_IPSelectorSync_Run
  && strs_eqb cone_components_Concatenator_Run exp_cone_components_Concatenator_Run
  && strs_eqb cone_components_FileSplitter_Run exp_cone_components_FileSplitter_Run
  && strs_eqb cone_components_FileSource_Run exp_cone_components_FileSource_Run
  && strs_eqb cone_components_ParamSource_Run exp_cone_components_ParamSource_Run
  && strs_eqb cone_components_StreamToSubStream_Run exp_cone_components_StreamToSubStream_Run
  && strs_eqb cone_components_MapToTags_Run exp_cone_components_MapToTags_Run = true.
Proof. vm_compute. reflexivity. Qed.

Print Assumptions C19_product.
Print Assumptions C19_product_lengths.
Print Assumptions C19_product_is_cartesian.
Print Assumptions C19_product_size.
Print Assumptions C19_product_exactly_once.
Print Assumptions C19_concat_unfold.
Print Assumptions C19_selector.
Print Assumptions C19_selector_order.
Print Assumptions C19_split_bytes.
Print Assumptions C19_split_bound.
Print Assumptions C19_split_example.
Print Assumptions C19_concat.
Print Assumptions C19_cone_conforms.
Print Assumptions C19_reader_emits_the_lines.
Print Assumptions C19_reader_unterminated_last_line.
Print Assumptions C19_reader_of_nothing_emits_nothing.
Print Assumptions C19_reader_keeps_blank_lines.
