(* Whole-execution statements for the task / file-store machine (TaskFS): every schedule, every crash point. *)
From Coq Require Import List Arith Lia Bool PeanoNat.
Import ListNotations.
From SP Require Import Result TaskFS TInv TPres Glue Cor.

Section TaskTop.
Variable c : cfg.
Variable f0 : fs.
Variable left0 : nat -> bool.
Hypothesis WF : wfc c.

Lemma wf_seq k : forall a, a + k <= nt c -> wf (map (tk c) (seq a k)).
Proof.
  induction k as [|k IH]; intros a Ha; simpl; [exact I|].
  repeat split.
  - intros t' Ht' x Hx. apply in_map_iff in Ht'. destruct Ht' as [i [<- Hi]]. apply in_seq in Hi.
    apply (w_disj c WF a i x); auto; lia.
  - intros t' Ht' x Hx. destruct Ht' as [<-|Ht'].
    + apply (w_topo c WF a a x); auto; lia.
    + apply in_map_iff in Ht'. destruct Ht' as [i [<- Hi]]. apply in_seq in Hi.
      apply (w_topo c WF a i x); auto; lia.
  - intros xs cs H. apply (w_len c WF a xs cs); auto; lia.
  - apply IH. lia.
Qed.

Lemma wfc_wf : wf (tl c (nt c)).
Proof. unfold tl. apply wf_seq. lia. Qed.

Variable fR : fs.
Hypothesis HR : pre c f0 (nt c) = Some fR.

(* a completed run, under any schedule, has produced exactly the sequential reference result at every declared output *)
Theorem complete_is_result s : reachable c f0 left0 s ->
  (forall t, t < nt c -> is_done (pcs s t) = true) ->
  forall t x, t < nt c -> In x (tout (tk c t)) -> fin s x = fR x.
Proof.
  intros R HD t x Ht Hx. pose proof (reach_inv c f0 left0 WF s R) as HI.
  destruct (committed_is_ref c f0 WF fR HR s HI t Ht) as [Hc Hs].
  destruct HI as [HT _]. destruct (HT t Ht) as [a1 _ _ _ _ _ _]. destruct (a1 x Hx) as [b1 b2].
  specialize (HD t Ht). destruct (pcs s t) eqn:P; try discriminate.
  - apply Hc; auto. exact I.
  - rewrite (Hs eq_refl x Hx). apply b2. simpl. tauto.
Qed.

(* restart after a crash: from the files of any crash state in which no task was cut between its renames, the re-run
   (temp dirs removed) completes with the files of the uninterrupted run *)
Theorem crash_restart_converges s : reachable c f0 left0 s -> finalize_atomic c s ->
  exists fR', result (tl c (nt c)) (fin s) = Some fR' /\ forall x, fR' x = fR x.
Proof.
  intros R FA. destruct (crash_between c f0 left0 WF fR HR s R FA) as [Hout Hbt].
  apply (C03_converges (tl c (nt c)) f0 (fin s) fR wfc_wf HR).
  split.
  - intros x Hx. apply Hout. intros t Ht Hin. apply (Hx (tk c t)); auto. apply in_tl. exists t. split; auto.
  - intros t Ht. apply in_tl in Ht. destruct Ht as [i [Hi ->]]. apply Hbt; auto.
Qed.

End TaskTop.
