(* Executable reference semantics of a whole workflow (the oracle side of tie T3).
   A workflow spec is a list of nodes in topological order: file sources, parameter sources,
   stream-to-substream adapters and command processes.  `eval` unfolds it into the list of
   tasks (zip semantics of createTasks), decides for each task whether it is skipped, runs,
   fails or cannot be formed, and computes the resulting file map.  Definitions only. *)
From Coq Require Import List Ascii String Arith Bool.
Import ListNotations.
From SP Require Import Str PathLex Format TempNames TempDirModel.
Notation length := List.length.

Inductive ckind := KWrite | KCat | KCatTok.
(* how a task whose key contains the fail key misbehaves *)
Inductive fkind := FNone | FBefore | FPartial | FAfterFull | FOmit | FSignal.

Record inport := { ip_name : str; ip_ups : list (nat * str) }.
Inductive parsrc := PUp (n : nat) | PVals (vs : list str) | PNone.   (* PNone: the parameter port is left unconnected *)
Record outport := { op_name : str; op_pat : option str }.

Record proc := {
  p_name : str; p_kind : ckind; p_tok : str; p_fail : fkind; p_failkey : str;
  p_pattern : str;                         (* the command pattern given to NewProc *)
  p_ins : list inport; p_pars : list (str * parsrc); p_outs : list outport;
  p_extra : list str                       (* extra files the command creates in its working directory *)
}.

Inductive node :=
| NSrc (name : str) (paths : list str)
| NPSrc (name : str) (vals : list str)
| NS2S (name : str) (up : nat) (upport : str)
| NMapTags (name : str) (up : nat) (upport : str) (key : str)    (* MapToTags with the map function path -> {key: basename path} *)
| NProc (p : proc).

Definition node_name (n : node) : str :=
  match n with NSrc a _ | NPSrc a _ | NS2S a _ _ | NMapTags a _ _ _ => a | NProc p => p_name p end.

Definition fsmap := list (str * str).
Definition fs_get (f : fsmap) (p : str) : option str := lookup p f.
Definition fs_set (f : fsmap) (p c : str) : fsmap := (p, c) :: filter (fun kv => negb (str_eqb (fst kv) p)) f.

(* a stream item: a path, or (for the carrier a StreamToSubStream emits) the member paths *)
Inductive item := IPath (p : str) | ISub (members : list str).
Definition streams := list (nat * str * list item).
Definition st_get (s : streams) (n : nat) (port : str) : list item :=
  match find (fun e => Nat.eqb (fst (fst e)) n && str_eqb (snd (fst e)) port) s with
  | Some e => snd e | None => [] end.

Inductive tstatus := TRun | TSkip | TFail | TInvalid.

Record trec := {
  tr_proc : str;
  tr_ins : list (str * item);
  tr_pars : list (str * str);
  tr_outs : list (str * (bool * str));       (* port, streaming?, final path *)
  tr_status : tstatus;
  tr_content : str;
  tr_command : res;
  tr_emitted : bool                          (* false: formed after an earlier round of its process failed; may run, is never forwarded *)
}.

(* --- path validity: ^[0-9A-Za-z/._-]+$ --- *)
Definition path_char_ok (c : ascii) : bool :=
  let n := nat_of_ascii c in
  (Nat.leb 48 n && Nat.leb n 57) || (Nat.leb 65 n && Nat.leb n 90) || (Nat.leb 97 n && Nat.leb n 122)
  || Nat.eqb n 47 || Nat.eqb n 46 || Nat.eqb n 45 || Nat.eqb n 95.
Definition path_valid (p : str) : bool := match p with [] => false | _ => forallb path_char_ok p end.

(* --- SetOut pattern expansion (Process.SetOut) --- *)
Definition expand (pat : str) (ins pars tags : list (str * str)) : res :=
  fold_left (fun acc m =>
    match acc with
    | Fail => Fail
    | Ok cur =>
      let '(whole, kind, rest) := m in
      let parts := split_on pipe rest in
      let name := hd [] parts in
      let mods := tl parts in
      let v := if str_eqb kind (s2l "i") then lookup name ins
               else if str_eqb kind (s2l "p") then lookup name pars
               else if str_eqb kind (s2l "t") then lookup name tags else None in
      match v with
      | Some x => Ok (replace_all whole (match mods with [] => x | _ => apply_mods x mods end) cur)
      | None => Fail
      end
    end) (find_all pat 0) (Ok pat).

(* --- default path function (initDefaultPathFuncs) --- *)
Definition dotc : ascii := "."%char.
Definition usc : ascii := "_"%char.
(* the file-extension regexp of port discovery, unanchored: a dot followed by a run of [a-z0-9._-] *)
Definition ext_char (c : ascii) : bool :=
  let n := nat_of_ascii c in
  (Nat.leb 97 n && Nat.leb n 122) || (Nat.leb 48 n && Nat.leb n 57) || Nat.eqb n 46 || Nat.eqb n 45 || Nat.eqb n 95.
Fixpoint find_ext (part : str) : option str :=
  match part with
  | [] => None
  | c :: r => if Ascii.eqb c dotc then
                match span ext_char r with
                | ((_ :: _) as e, _) => Some e
                | _ => find_ext r
                end
              else find_ext r
  end.

Definition port_ext (pattern port : str) : str :=
  (* the extension configured as {o:port|.ext}: last matching part of the last occurrence wins *)
  fold_left (fun acc m =>
    let '(_, kind, rest) := m in
    let parts := split_on pipe rest in
    if str_eqb (hd [] parts) port then
      fold_left (fun a part => match find_ext part with Some e => e | None => a end) (tl parts) []
    else acc) (find_all pattern 0) [].

Definition default_path (pname pattern port : str) (ins pars tags : list (str * str)) : str :=
  let pcs := map (fun kv => base (snd kv)) (sort_kv ins)
             ++ [sanitize pname]
             ++ map (fun kv => fst kv ++ usc :: snd kv) (sort_kv pars)
             ++ map (fun kv => fst kv ++ usc :: snd kv) (sort_kv tags)
             ++ [port]
             ++ (match port_ext pattern port with [] => [] | e => [e] end) in
  join_with [dotc] pcs.

(* --- content semantics of the command language --- *)
Definition nl : ascii := ascii_of_nat 10.
Definition sp : ascii := " "%char.
Definition item_paths (i : item) : list str := match i with IPath p => [p] | ISub ms => ms end.

Definition content (k : ckind) (tok : str) (pars : list (str * str)) (inputs : list str) : str :=
  let line := tok ++ List.concat (map (fun kv => sp :: snd kv) pars) ++ [nl] in
  match k with
  | KWrite => line
  | KCat => List.concat inputs
  | KCatTok => List.concat inputs ++ line
  end.

(* the key a task is traced under: process, in-paths by port order of the spec, parameter values *)
Definition task_key (p : proc) (ins : list (str * item)) (pars : list (str * str)) : str :=
  p_name p ++ List.concat (map (fun kv => sp :: join_with (s2l ",") (item_paths (snd kv))) ins)
           ++ List.concat (map (fun kv => sp :: snd kv) pars).

Fixpoint contains (needle hay : str) : bool :=
  match hay with
  | [] => match needle with [] => true | _ => false end
  | _ :: r => prefixb needle hay || contains needle r
  end.

Definition out_streaming (pattern port : str) : bool :=
  match lookup port (port_infos pattern) with Some pi => str_eqb (ptype pi) (s2l "os") | None => false end.
Definition in_join (pattern port : str) : bool :=
  match lookup port (port_infos pattern) with Some pi => match pjoin pi with Some _ => true | None => false end | None => false end.

(* audit records: process, command, params, tags, out files, upstream records keyed by input path (IDs and times are not modelled) *)
Inductive arec := ARec (proc cmd : str) (params tags outfiles : list (str * str)) (up : list (str * arec)).
Definition empty_rec : arec := ARec [] [] [] [] [] [].
Definition rec_tags (r : arec) : list (str * str) := match r with ARec _ _ _ t _ _ => t end.
Definition rec_with_tags (r : arec) (t : list (str * str)) : arec := match r with ARec p c ps _ o u => ARec p c ps t o u end.

(* FileIP.AddTag: a different non-empty value for an existing key is fatal; otherwise set *)
Definition add_tag (tags : list (str * str)) (kv : str * str) : option (list (str * str)) :=
  match lookup (fst kv) tags with
  | Some v => match v with
              | [] => Some (kv :: filter (fun x => negb (str_eqb (fst x) (fst kv))) tags)
              | _ => if str_eqb v (snd kv) then Some tags else None
              end
  | None => Some (tags ++ [kv])
  end.
Definition add_tags (tags : list (str * str)) (kvs : list (str * str)) : option (list (str * str)) :=
  fold_left (fun acc kv => match acc with Some t => add_tag t kv | None => None end) kvs (Some tags).

(* the files visible to commands: real ones, and bytes travelling through FIFOs; the audit record known for each path *)
Record world := { w_fs : fsmap; w_vfs : fsmap; w_aud : list (str * arec) }.
Definition rec_of (w : world) (p : str) : arec := match lookup p (w_aud w) with Some r => r | None => empty_rec end.
Definition aud_set (a : list (str * arec)) (p : str) (r : arec) : list (str * arec) :=
  (p, r) :: filter (fun kv => negb (str_eqb (fst kv) p)) a.

(* one output of a successful task: its bytes (to the file system or into the FIFO) and its audit record *)
Definition set_out (c : str) (r : arec) (w : world) (o : str * (bool * str)) : world :=
  if fst (snd o)
  then {| w_fs := w_fs w; w_vfs := fs_set (w_vfs w) (snd (snd o)) c; w_aud := aud_set (w_aud w) (snd (snd o)) r |}
  else {| w_fs := fs_set (w_fs w) (snd (snd o)) c; w_vfs := w_vfs w; w_aud := aud_set (w_aud w) (snd (snd o)) r |}.

Definition first_in_path (ins : list (str * item)) : list (str * str) :=
  flat_map (fun kv => match snd kv with IPath q => [(fst kv, q)] | ISub _ => [] end) ins.

Definition run_one (p : proc) (w : world) (ins : list (str * item)) (pars : list (str * str)) : trec * world :=
  let ins1 := first_in_path ins in
  let in_tags := fun (it : item) => match it with IPath q => rec_tags (rec_of w q) | ISub _ => [] end in
  let tags : list (str * str) := flat_map (fun kv => map (fun t => (fst kv ++ dotc :: fst t, snd t)) (in_tags (snd kv))) ins in
  let mk st c outs cmd := {| tr_proc := p_name p; tr_ins := ins; tr_pars := pars; tr_outs := outs;
                             tr_status := st; tr_content := c; tr_command := cmd; tr_emitted := true |} in
  (* parameters must be non-empty wherever the command pattern uses them; checked by format_command *)
  let outs_r := map (fun o => (op_name o,
                    match op_pat o with
                    | Some pat => expand pat ins1 pars tags
                    | None => Ok (default_path (p_name p) (p_pattern p) (op_name o) ins1 pars tags)
                    end)) (p_outs p) in
  if existsb (fun o => match snd o with Fail => true | Ok q => negb (path_valid q) end) outs_r
  then (mk TInvalid [] [] Fail, w) else
  let outs := map (fun o => (fst o, (out_streaming (p_pattern p) (fst o), match snd o with Ok q => q | Fail => [] end))) outs_r in
  (* an in-IP that was forwarded by a streaming out-port is named by its FIFO in the command *)
  let streamed := fun q => match fs_get (w_vfs w) q with Some _ => true | None => false end in
  let e := {| e_in := map (fun kv => (fst kv, match snd kv with IPath q => if streamed q then q ++ s2l ".fifo" else q | ISub _ => s2l "carrier" end)) ins;
              e_sub := flat_map (fun kv => match snd kv with ISub ms => [(fst kv, ms)] | IPath _ => [] end) ins;
              e_out := map (fun o => (fst o, snd (snd o))) outs; e_par := pars; e_tag := tags |} in
  let cmd := format_command (p_pattern p) e in
  match cmd with
  | Fail => (mk TInvalid [] outs Fail, w)
  | Ok _ =>
    if existsb (fun o => negb (fst (snd o)) && match fs_get (w_fs w) (snd (snd o)) with Some _ => true | None => false end) outs
    then (mk TSkip [] outs cmd, w) else
    let inpaths := flat_map (fun kv => item_paths (snd kv)) ins in
    let inputs := map (fun q => match fs_get (w_fs w) q with Some c => Some c | None => fs_get (w_vfs w) q end) inpaths in
    let needs_inputs := match p_kind p with KWrite => false | _ => true end in
    let fails := match p_fail p with FNone => false | _ => contains (p_failkey p) (task_key p ins pars) end in
    (* the tags of the outputs: the union of the tags of the in-IPs (carriers of sub-streams contribute nothing) *)
    let out_tags := fold_left (fun acc kv => match acc with Some t => add_tags t (in_tags (snd kv)) | None => None end) ins (Some []) in
    if (needs_inputs && existsb (fun x => match x with None => true | Some _ => false end) inputs) || fails
       || match out_tags with None => true | Some _ => false end
    then (mk TFail [] outs cmd, w)
    else
      let c := content (p_kind p) (p_tok p) pars (map (fun x => match x with Some c => c | None => [] end) inputs) in
      let r := ARec (p_name p) (match cmd with Ok x => x | Fail => [] end) pars (match out_tags with Some t => t | None => [] end)
                    (map (fun o => (fst o, snd (snd o))) outs)
                    (flat_map (fun kv => map (fun q => (q, rec_of w q)) (item_paths (snd kv))) ins) in
      let w1 := fold_left (set_out c r) outs w in
      let w2 := fold_left (fun (w : world) (x : str) => {| w_fs := fs_set (w_fs w) x (p_tok p ++ [nl]); w_vfs := w_vfs w; w_aud := w_aud w |}) (p_extra p) w1 in
      (mk TRun c outs cmd, w2)
  end.

Fixpoint transpose_n {A} (d : A) (n : nat) (cols : list (list A)) : list (list A) :=
  match n with
  | O => []
  | S k => map (fun c => hd d c) cols :: transpose_n d k (map (@tl A) cols)
  end.
Definition min_len {A} (cols : list (list A)) : nat :=
  match cols with [] => 1 | c :: r => fold_left (fun a x => Nat.min a (length x)) r (length c) end.

Record acc := { a_streams : streams; a_world : world; a_tasks : list trec; a_failed : bool }.

(* one process: tasks are formed round by round; after the first failing round later tasks may still run (they are spawned
   concurrently) but nothing more is emitted, because outputs leave a process in order *)
Definition eval_proc (idx : nat) (p : proc) (a : acc) : acc :=
  let ss := a_streams a in
  let incols := map (fun i => flat_map (fun u => st_get ss (fst u) (snd u)) (ip_ups i)) (p_ins p) in
  let parcols := map (fun q => match snd q with PUp n => map IPath (flat_map item_paths (st_get ss n (s2l "out"))) | PVals vs => map IPath vs | PNone => [] end) (p_pars p) in
  let n := min_len (incols ++ parcols) in
  let inrows := transpose_n (IPath []) n incols in
  let parrows := transpose_n (IPath []) n parcols in
  let rounds := combine inrows parrows in
  let step := fun (st : acc * list (str * list item) * bool) (t : list item * list item) =>
    let '(a, outstreams, stopped) := st in
    let ins := combine (map ip_name (p_ins p)) (fst t) in
    let pars := combine (map fst (p_pars p)) (map (fun i => match i with IPath v => v | ISub _ => [] end) (snd t)) in
    let (tr0, w') := run_one p (a_world a) ins pars in
    let tr := {| tr_proc := tr_proc tr0; tr_ins := tr_ins tr0; tr_pars := tr_pars tr0; tr_outs := tr_outs tr0; tr_status := tr_status tr0;
                 tr_content := tr_content tr0; tr_command := tr_command tr0; tr_emitted := negb stopped |} in
    let bad := match tr_status tr with TFail | TInvalid => true | _ => false end in
    let a' := {| a_streams := a_streams a; a_world := w'; a_tasks := a_tasks a ++ [tr]; a_failed := a_failed a || bad |} in
    if stopped || bad then (a', outstreams, true)
    else (a', map (fun os => (fst os, snd os ++ match lookup (fst os) (tr_outs tr) with Some x => [IPath (snd x)] | None => [] end)) outstreams, false) in
  let '(a', outstreams, _) := fold_left step rounds (a, map (fun o => (op_name o, [])) (p_outs p), false) in
  {| a_streams := map (fun os => (idx, fst os, snd os)) outstreams ++ a_streams a';
     a_world := a_world a'; a_tasks := a_tasks a'; a_failed := a_failed a' |}.

(* which nodes run: all, or the upstream closure of the RunTo targets *)
Definition ups_of (n : node) : list nat :=
  match n with
  | NSrc _ _ | NPSrc _ _ => []
  | NS2S _ u _ | NMapTags _ u _ _ => [u]
  | NProc p => flat_map (fun i => map fst (ip_ups i)) (p_ins p)
               ++ flat_map (fun q => match snd q with PUp n => [n] | _ => [] end) (p_pars p)
  end.
Fixpoint closure (fuel : nat) (nodes : list node) (sel : list nat) : list nat :=
  match fuel with
  | O => sel
  | S k => let more := flat_map (fun i => match nth_error nodes i with Some n => ups_of n | None => [] end) sel in
           closure k nodes (nodup Nat.eq_dec (sel ++ more))
  end.
Definition selected (nodes : list node) (targets : list nat) : list nat :=
  match targets with [] => seq 0 (length nodes) | _ => closure (length nodes) nodes targets end.

(* every in-port and parameter port of a selected process must be connected *)
Definition node_ready (n : node) : bool :=
  match n with
  | NProc p => forallb (fun i => match ip_ups i with [] => false | _ => true end) (p_ins p)
               && forallb (fun q => match snd q with PNone => false | _ => true end) (p_pars p)
  | _ => true
  end.

Fixpoint eval_from (idx : nat) (nodes : list node) (sel : list nat) (a : acc) : acc :=
  match nodes with
  | [] => a
  | nd :: r =>
    let a' :=
      if negb (existsb (Nat.eqb idx) sel) then a else
      match nd with
      | NSrc _ paths => {| a_streams := (idx, s2l "out", map IPath paths) :: a_streams a; a_world := a_world a; a_tasks := a_tasks a; a_failed := a_failed a |}
      | NPSrc _ vals => {| a_streams := (idx, s2l "out", map IPath vals) :: a_streams a; a_world := a_world a; a_tasks := a_tasks a; a_failed := a_failed a |}
      | NS2S _ u up => {| a_streams := (idx, s2l "substream", [ISub (flat_map item_paths (st_get (a_streams a) u up))]) :: a_streams a;
                          a_world := a_world a; a_tasks := a_tasks a; a_failed := a_failed a |}
      | NMapTags _ u up key =>
        let items := flat_map item_paths (st_get (a_streams a) u up) in
        let step := fun (st : world * bool) (q : str) =>
          match add_tag (rec_tags (rec_of (fst st) q)) (key, base q) with
          | Some t => ({| w_fs := w_fs (fst st); w_vfs := w_vfs (fst st); w_aud := aud_set (w_aud (fst st)) q (rec_with_tags (rec_of (fst st) q) t) |}, snd st)
          | None => (fst st, true)
          end in
        let '(w', bad) := fold_left step items (a_world a, false) in
        {| a_streams := (idx, s2l "out", map IPath items) :: a_streams a; a_world := w'; a_tasks := a_tasks a; a_failed := a_failed a || bad |}
      | NProc p => eval_proc idx p a
      end in
    eval_from (S idx) r sel a'
  end.

Inductive wfres := WNotReady | WDone (tasks : list trec) (fs : fsmap) (failed : bool) (aud : list (str * arec)).

Definition eval (nodes : list node) (targets : list nat) (f0 : fsmap) : wfres :=
  let sel := selected nodes targets in
  if negb (forallb (fun i => match nth_error nodes i with Some n => node_ready n | None => true end) sel)
  then WNotReady else
  let a := eval_from 0 nodes sel {| a_streams := []; a_world := {| w_fs := f0; w_vfs := []; w_aud := [] |}; a_tasks := []; a_failed := false |} in
  WDone (a_tasks a) (w_fs (a_world a)) (a_failed a) (w_aud (a_world a)).
