(* Prototype: Go strings.Replace(s, old, new, -1) for non-empty old, and the
   piece-wise substitution lemmas needed for formatCommand (C15). *)
From Coq Require Import List Ascii Arith Lia Bool.
Import ListNotations.

Definition str := list ascii.

Fixpoint prefixb (p s : str) : bool :=
  match p, s with
  | [], _ => true
  | a :: p', b :: s' => Ascii.eqb a b && prefixb p' s'
  | _ :: _, [] => false
  end.

Lemma prefixb_app p s : prefixb p (p ++ s) = true.
Proof. induction p; simpl; auto. rewrite Ascii.eqb_refl. auto. Qed.

Lemma prefixb_spec p s : prefixb p s = true <-> exists r, s = p ++ r.
Proof.
  revert s; induction p as [|a p IH]; intros s; simpl.
  - split; eauto.
  - destruct s as [|b s]; [split; [discriminate|intros [r H]; discriminate]|].
    rewrite andb_true_iff, IH, Ascii.eqb_eq. split.
    + intros [-> [r ->]]. eauto.
    + intros [r H]. inversion H; subst. eauto.
Qed.

(* leftmost, non-overlapping replacement of every occurrence; `skip` characters
   of the current match still have to be dropped *)
Fixpoint ra (old new s : str) (skip : nat) : str :=
  match s with
  | [] => []
  | c :: r =>
    match skip with
    | S k => ra old new r k
    | O => if prefixb old s then new ++ ra old new r (length old - 1) else c :: ra old new r 0
    end
  end.

Definition replace_all (old new s : str) : str := ra old new s 0.

Lemma ra_skip old new u r : ra old new (u ++ r) (length u) = ra old new r 0.
Proof. induction u; simpl; auto. Qed.

(* a string that does not contain the first character of old is copied verbatim *)
Lemma ra_free old new c0 oldr u r :
  old = c0 :: oldr -> ~ In c0 u ->
  ra old new (u ++ r) 0 = u ++ ra old new r 0.
Proof.
  intros -> . induction u as [|a u IH]; intros Hn; simpl; auto.
  destruct (Ascii.eqb_spec c0 a) as [->|Hne].
  - exfalso. apply Hn. left; reflexivity.
  - simpl. f_equal. apply IH. intros H. apply Hn. right; exact H.
Qed.

Definition lb : ascii := "{"%char.
Definition rb : ascii := "}"%char.
Definition brace_free (u : str) := ~ In lb u /\ ~ In rb u.

(* a rendered placeholder: { body } with brace-free body *)
Definition ph (body : str) : str := lb :: body ++ [rb].

Lemma app_rb_inj b1 b2 r1 r2 :
  ~ In rb b1 -> ~ In rb b2 -> b1 ++ rb :: r1 = b2 ++ rb :: r2 -> b1 = b2 /\ r1 = r2.
Proof.
  revert b2; induction b1 as [|a b1 IH]; intros [|c b2] H1 H2 E; simpl in *.
  - inversion E; auto.
  - inversion E; subst. exfalso. apply H2. left; reflexivity.
  - inversion E; subst. exfalso. apply H1. left; reflexivity.
  - inversion E; subst. destruct (IH b2) as [-> ->]; auto.
Qed.

(* replacing placeholder `ph ob` inside a placeholder piece `ph b` followed by r *)
Lemma ra_ph_same new b r :
  ra (ph b) new (ph b ++ r) 0 = new ++ ra (ph b) new r 0.
Proof.
  unfold ph at 2. simpl app. cbn [ra].
  assert (H : prefixb (ph b) (lb :: (b ++ [rb]) ++ r) = true).
  { change (lb :: (b ++ [rb]) ++ r) with (ph b ++ r). apply prefixb_app. }
  rewrite H. f_equal.
  replace (length (ph b) - 1) with (length (b ++ [rb])) by (unfold ph; simpl; lia).
  apply ra_skip.
Qed.

Lemma ra_ph_other new ob b r :
  brace_free ob -> brace_free b -> ob <> b ->
  ra (ph ob) new (ph b ++ r) 0 = ph b ++ ra (ph ob) new r 0.
Proof.
  intros [Ho1 Ho2] [Hb1 Hb2] Hne.
  unfold ph at 2 3. simpl app. cbn [ra].
  destruct (prefixb (ph ob) (lb :: (b ++ [rb]) ++ r)) eqn:Hp.
  - exfalso. apply prefixb_spec in Hp. destruct Hp as [r' Hr'].
    unfold ph in Hr'. simpl in Hr'. inversion Hr' as [E].
    rewrite <- !app_assoc in E. simpl in E.
    destruct (app_rb_inj b ob r r' Hb2 Ho2 E) as [Eb _]. congruence.
  - f_equal. rewrite <- !app_assoc.
    rewrite (ra_free (ph ob) new lb (ob ++ [rb]) b) by (auto).
    f_equal. (* the closing brace is not an opening brace: by computation *)
Qed.

(* ---- pieces: the shape of a rendered pattern during substitution ---- *)
Inductive piece := Txt (u : str) | Ph (body : str).
Definition piece_ok (p : piece) := match p with Txt u => brace_free u | Ph b => brace_free b end.
Definition pstr (p : piece) : str := match p with Txt u => u | Ph b => ph b end.
Definition flat (ps : list piece) : str := concat (map pstr ps).

Definition str_eqb (a b : str) : bool := if list_eq_dec ascii_dec a b then true else false.

Definition subst1 (ob new : str) (p : piece) : piece :=
  match p with
  | Txt u => Txt u
  | Ph b => if str_eqb ob b then Txt new else Ph b
  end.

(* one global Replace of a placeholder acts piece-wise *)
Theorem replace_all_pieces ob new ps :
  brace_free ob -> Forall piece_ok ps ->
  replace_all (ph ob) new (flat ps) = flat (map (subst1 ob new) ps).
Proof.
  intros Hob Hok. unfold replace_all, flat. induction Hok as [|p ps Hp Hps IH]; [reflexivity|].
  cbn [map concat]. destruct p as [u|b]; cbn [pstr subst1 piece_ok] in *.
  - destruct Hp as [Hl Hr]. rewrite (ra_free (ph ob) new lb (ob ++ [rb]) u); auto. now rewrite IH.
  - unfold str_eqb. destruct (list_eq_dec ascii_dec ob b) as [->|Hne]; cbn [pstr].
    + rewrite ra_ph_same. now rewrite IH.
    + rewrite ra_ph_other; auto. now rewrite IH.
Qed.
Print Assumptions replace_all_pieces.
