(* Prototype: item histories on top of the counting network model (C04 / C08). *)
From Coq Require Import List Arith Lia Bool PeanoNat.
Import ListNotations.
Require Import NetA Inv Pres.

Definition item := nat.

Record gcfg := {
  sitems : nat -> list item;                      (* what a source emits *)
  outf   : nat -> nat -> list item -> item        (* node, out-edge, input tuple -> emitted item *)
}.

Record gst := {
  hist : nat -> list item;            (* per edge: everything ever sent, in order *)
  crt  : nat -> list (list item);     (* per node: input tuples of the tasks created, in order *)
  cur  : nat -> list (nat * item)     (* per node: items received in the current round *)
}.

Definition ginit : gst := {| hist := fun _ => []; crt := fun _ => []; cur := fun _ => [] |}.

Fixpoint alookup (y : nat) (l : list (nat * item)) : item :=
  match l with [] => 0 | (k, a) :: r => if Nat.eqb k y then a else alookup y r end.

Definition gstep (c : cfg) (gc : gcfg) (s : st) (g : gst) (a : act) : gst :=
  match a with
  | ARecv v =>
    match ct (ns s v) with
    | CtRecv (y :: _) _ =>
      if Nat.ltb (rcv (es s y)) (snt (es s y))
      then {| hist := hist g; crt := crt g;
              cur := upd (cur g) v ((y, nth (rcv (es s y)) (hist g y) 0) :: cur g v) |}
      else g
    | _ => g
    end
  | AHand v =>
    let tuple := match slen c v with
                 | Some _ => [nth (cN (ns s v)) (sitems gc v) 0]
                 | None => map (fun y => alookup y (cur g v)) (ins c v)
                 end in
    {| hist := hist g; crt := upd (crt g) v (crt g v ++ [tuple]); cur := upd (cur g) v [] |}
  | ASend v =>
    match rn (ns s v) with
    | RSend (x :: _) =>
      {| hist := upd (hist g) x (hist g x ++ [outf gc v x (nth (eN (ns s v)) (crt g v) [])]);
         crt := crt g; cur := cur g |}
    | _ => g
    end
  | _ => g
  end.

Section Ghost.
Variable c : cfg.
Variable len : nat -> nat.
Variable gc : gcfg.
Hypothesis WF : wf c len.
Hypothesis SL : forall v L, slen c v = Some L -> length (sitems gc v) = L.

Definition tuple_of (g : gst) (v k : nat) : list item :=
  match slen c v with
  | Some _ => [nth k (sitems gc v) 0]
  | None => map (fun y => nth k (hist g y) 0) (ins c v)
  end.

Record GInv (s : st) (g : gst) : Prop := {
  g_len  : forall e, e < E c -> length (hist g e) = snt (es s e);
  g_emit : forall e, e < E c -> hist g e = map (outf gc (esrc c e) e) (firstn (snt (es s e)) (crt g (esrc c e)));
  g_crtn : forall v, v < nn c -> length (crt g v) = cN (ns s v);
  g_crt  : forall v k, v < nn c -> k < cN (ns s v) -> nth k (crt g v) [] = tuple_of g v k;
  g_cur  : forall v y, v < nn c -> In y (ins c v) ->
           (match ct (ns s v) with
            | CtRecv todo false => ~ In y todo
            | CtHand => slen c v = None
            | _ => False end) ->
           alookup y (cur g v) = nth (cN (ns s v)) (hist g y) 0
}.

(* C08 (per process): what leaves on an out-edge is, in order, the outputs of the
   tasks in the order they were created -- whatever order they finished in.
   C04: the created tasks are exactly the zip of the in-edge histories. *)
Theorem C08_order s g : GInv s g -> forall e, e < E c ->
  hist g e = map (outf gc (esrc c e) e) (firstn (snt (es s e)) (crt g (esrc c e))).
Proof. intros G e He. apply (g_emit s g G e He). Qed.

Theorem C04_tasks_are_zip s g : GInv s g -> forall v k, v < nn c -> k < cN (ns s v) ->
  nth k (crt g v) [] = tuple_of g v k.
Proof. intros G v k Hv Hk. apply (g_crt s g G v k Hv Hk). Qed.

End Ghost.
