(* C01 -- Output files appear atomically: never partial, never from a failed command.
   Model: TaskFS -- Task.Execute with FinalizePaths inlined, as a transition system over a DAG of tasks and an abstract
   file store; the command may write any sequence of (partial) files into its temp area, exit 0 with some outputs omitted,
   or fail; declared outputs are renamed one per step in an arbitrary order; a failure exits the whole program; a kill is
   "no further step".  Quantifiers: every task DAG `c`, every initial store `f0`, every set of left-over temp dirs, every
   schedule (so: every interleaving, every instant of a kill, every failure mode). *)
From Coq Require Import List Arith Lia Bool PeanoNat String.
Import ListNotations.
From SP Require Import Skel Gen Expected ExpectedCones Result TaskFS TInv TPres Glue Cor TaskTop.
From SP Require CopyFin.
From SP Require FailWindow.

(* T1: order of phases in Task.Execute and FinalizePaths; every failure exits the process; FileIP.Write goes beneath the temp dir *)
Theorem C01_code_conforms :
  skel_eqb skel_Task_Execute exp_Task_Execute
  && skel_eqb skel_FinalizePaths exp_FinalizePaths
  && skel_eqb skel_Task_finalizePaths exp_Task_finalizePaths
  && skel_eqb skel_Task_tempDirsExist exp_Task_tempDirsExist
  && skel_eqb skel_Task_anyOutputsExist exp_Task_anyOutputsExist
  && skel_eqb skel_Task_createDirs exp_Task_createDirs
  && skel_eqb skel_Task_executeCommand exp_Task_executeCommand
  && skel_eqb skel_Task_ensureAllOutputsExist exp_Task_ensureAllOutputsExist
  && skel_eqb skel_FileIP_Write exp_FileIP_Write
  && skel_eqb skel_NewTask exp_NewTask
  && skel_eqb skel_Fail exp_Fail && skel_eqb skel_Failf exp_Failf && skel_eqb skel_CheckWithMsg exp_CheckWithMsg = true.
Proof. vm_compute. reflexivity. Qed.

(* the ordering facts the transition system builds in, read off the expected skeleton *)
Theorem C01_order_facts :
  call_before "t.workflow.IncConcurrentTasks" "t.createDirs" exp_Task_Execute
  && call_before "t.createDirs" "t.executeCommand" exp_Task_Execute
  && call_before "t.executeCommand" "t.ensureAllOutputsExist" exp_Task_Execute
  && call_before "t.ensureAllOutputsExist" "t.finalizePaths" exp_Task_Execute
  && call_before "t.finalizePaths" "t.workflow.DecConcurrentTasks" exp_Task_Execute = true.
Proof. vm_compute. reflexivity. Qed.

(* in every reachable state a declared output path holds either what it held initially, or exactly the complete value
   produced by a command of its own task that exited successfully on the final inputs *)
Theorem C01_atomic : forall (c : cfg) (f0 : fs) (left0 : nat -> bool), wfc c ->
  forall s, reachable c f0 left0 s ->
  forall t x, t < nt c -> In x (tout (tk c t)) ->
  fin s x = f0 x \/
  (past_cmd (pcs s t) = true /\ sem (tk c t) (map (fin s) (tin (tk c t))) = Some (val s t) /\
   fin s x = TInv.lookup x (tout (tk c t)) (val s t) /\ fin s x <> None).
Proof.
  intros c f0 left0 WF s R. exact (TInv.C01_atomic c f0 left0 s (reach_inv c f0 left0 WF s R)).
Qed.

(* while the command runs, after it failed, or if the run was cut before the command succeeded: nothing new at the final paths *)
Theorem C01_failed_leaves_nothing : forall (c : cfg) (f0 : fs) (left0 : nat -> bool), wfc c ->
  forall s t x, reachable c f0 left0 s -> t < nt c -> In x (tout (tk c t)) ->
  past_cmd (pcs s t) = false -> fin s x = f0 x.
Proof. exact Cor.C09_failed_outputs_untouched. Qed.

(* paths that are no task's declared output never change *)
Theorem C01_confined : forall (c : cfg) (f0 : fs) (left0 : nat -> bool), wfc c ->
  forall s, reachable c f0 left0 s ->
  forall x, (forall t, t < nt c -> ~ In x (tout (tk c t))) -> fin s x = f0 x.
Proof. intros c f0 left0 WF s R. destruct (reach_inv c f0 left0 WF s R) as [_ H]. exact H. Qed.

(* non-vacuity: a two-task chain with a two-output producer *)
Definition ex_cfg : cfg := {| nt := 2; tk := fun t => if Nat.eqb t 0 then {| tin := []; tout := [0; 1]; sem := fun _ => Some [7; 8] |}
                                                        else {| tin := [0]; tout := [2]; sem := fun xs => match xs with [Some v] => Some [S v] | _ => None end |} |}.
Theorem C01_nonvacuous :
  exists s, run ex_cfg (init ex_cfg (fun _ => None) (fun _ => false))
                [AStart 0; AChkTemp 0; AChkOut 0; AMkTemp 0; AWrite 0 0 99; ACmdOk 0 []; AEnsure 0 [1; 0]; ARename 0] = Some s
            /\ fin s 1 = Some 8 /\ fin s 0 = None.
Proof. eexists. split; [vm_compute; reflexivity|]. split; reflexivity. Qed.

(* The program does not end in the step in which a task fails: the report is written first (it contains all the command
   printed; the writer may be slow), os.Exit comes after it, and every other task goes on meanwhile.  FailWindow refines
   TaskFS accordingly (a failed task takes no further step; WExit comes at any later time) and shows that the refined
   system only visits TaskFS states -- so atomicity holds throughout that window, for every length of it ... *)
Theorem C01_window_atomic : forall (c : cfg) (f0 : fs) (left0 : nat -> bool), wfc c ->
  forall w, FailWindow.wreachable c f0 left0 w ->
  forall t x, t < nt c -> In x (tout (tk c t)) ->
  fin (FailWindow.base w) x = f0 x \/
  (past_cmd (pcs (FailWindow.base w) t) = true /\
   sem (tk c t) (map (fin (FailWindow.base w)) (tin (tk c t))) = Some (val (FailWindow.base w) t) /\
   fin (FailWindow.base w) x = TInv.lookup x (tout (tk c t)) (val (FailWindow.base w) t) /\ fin (FailWindow.base w) x <> None).
Proof. intros c f0 left0 WF w R. exact (FailWindow.window_atomic c f0 left0 WF w R). Qed.

(* ... and nothing of a task that failed ever reaches its final paths, whatever the others do before the program is gone *)
Theorem C01_window_failed_leaves_nothing : forall (c : cfg) (f0 : fs) (left0 : nat -> bool), wfc c ->
  forall w, FailWindow.wreachable c f0 left0 w ->
  forall t x, t < nt c -> FailWindow.failed w t = true -> In x (tout (tk c t)) -> fin (FailWindow.base w) x = f0 x.
Proof. intros c f0 left0 WF w R. exact (FailWindow.window_failed_leaves_nothing c f0 left0 WF w R). Qed.

(* the window exists: one task fails, another one finalizes its output before the program ends *)
Theorem C01_window_nonvacuous :
  exists w tr, FailWindow.wrun FailWindow.w_cfg (FailWindow.winit FailWindow.w_cfg (fun _ => None) (fun _ => false)) FailWindow.w_sched = Some (w, tr)
    /\ FailWindow.gone w = true /\ FailWindow.failed w 0 = true /\ fin (FailWindow.base w) 0 = None
    /\ fin (FailWindow.base w) 1 = Some 5 /\ pcs (FailWindow.base w) 1 = DoneRan.
Proof. exact FailWindow.window_example. Qed.

(* what both rest on is that Fail does not return (T1: exp_Fail ends in os.Exit on its only path).  Let a second failure,
   reported while the first report is still being written, return to its caller instead, and the partial file of a command
   that exited non-zero is renamed to its final path: *)
Theorem C01_returning_fail_refuted :
  exists w, FailWindow.returning_run FailWindow.r_cfg (FailWindow.winit FailWindow.r_cfg (fun _ => None) (fun _ => false)) FailWindow.r_sched = Some w
    /\ FailWindow.gone w = true /\ sem (tk FailWindow.r_cfg 1) [] = None /\ fin (FailWindow.base w) 1 = Some 77.
Proof. exact FailWindow.returning_fail_refuted. Qed.

(* T1, call cones: every function of scipipe that the functions above can reach (calls and function values, interface calls
   resolved to every implementation) is one the models were compared with -- a helper that is new to the cone, or a new call
   of an old one, changes a list (the lists are regenerated from /repo on every run; ExpectedCones.v holds the accepted ones) *)
Theorem C01_cone_conforms :
  strs_eqb cone_Task_Execute exp_cone_Task_Execute
  && strs_eqb cone_FinalizePaths exp_cone_FinalizePaths
  && strs_eqb cone_Task_finalizePaths exp_cone_Task_finalizePaths
  && strs_eqb cone_Task_tempDirsExist exp_cone_Task_tempDirsExist
  && strs_eqb cone_Task_anyOutputsExist exp_cone_Task_anyOutputsExist
  && strs_eqb cone_Task_createDirs exp_cone_Task_createDirs
  && strs_eqb cone_Task_executeCommand exp_cone_Task_executeCommand
  && strs_eqb cone_Task_ensureAllOutputsExist exp_cone_Task_ensureAllOutputsExist
  && strs_eqb cone_FileIP_Write exp_cone_FileIP_Write
  && strs_eqb cone_NewTask exp_cone_NewTask
  && strs_eqb cone_Fail exp_cone_Fail
  && strs_eqb cone_Failf exp_cone_Failf
  && strs_eqb cone_CheckWithMsg exp_cone_CheckWithMsg = true.
Proof. vm_compute. reflexivity. Qed.

(* what ARename takes from the operating system: rename(2) makes the complete file appear in one step.  A finalization that
   copies onto the final path (a fall-back for rename across file systems, say) shows a prefix first; killed there, a partial file
   lies under the final name although the command produced something else *)
Theorem C01_copying_finalize_refuted :
  exists s, CopyFin.crun CopyFin.one (init CopyFin.one (fun _ => None) (fun _ => false))
              [CopyFin.Plain (AStart 0); CopyFin.Plain (AChkTemp 0); CopyFin.Plain (AChkOut 0); CopyFin.Plain (AMkTemp 0);
               CopyFin.Plain (ACmdOk 0 []); CopyFin.Plain (AEnsure 0 [0]); CopyFin.CopyPart 0 0 4] = Some s
            /\ fin s 0 = Some 4 /\ val s 0 = [42] /\ sem (tk CopyFin.one 0) [] = Some [42].
Proof. exact CopyFin.copying_finalize_refuted. Qed.

Print Assumptions C01_code_conforms.
Print Assumptions C01_order_facts.
Print Assumptions C01_atomic.
Print Assumptions C01_failed_leaves_nothing.
Print Assumptions C01_confined.
Print Assumptions C01_nonvacuous.
Print Assumptions C01_window_atomic.
Print Assumptions C01_window_failed_leaves_nothing.
Print Assumptions C01_window_nonvacuous.
Print Assumptions C01_returning_fail_refuted.
Print Assumptions C01_cone_conforms.
Print Assumptions C01_copying_finalize_refuted.
