(* C07 -- Task slots are deadlock-free and work-conserving.  Model: Slots (see PropC06). *)
From Coq Require Import List Arith Lia Bool String.
Import ListNotations.
From SP Require Import Skel Gen Expected ExpectedCones Slots Slots7 SlotsTop.
From SP Require NetA NetSlots QueueCap.

Theorem C07_code_conforms :
  skel_eqb skel_Workflow_IncConcurrentTasks exp_Workflow_IncConcurrentTasks
  && skel_eqb skel_Workflow_DecConcurrentTasks exp_Workflow_DecConcurrentTasks
  && skel_eqb skel_Task_Execute exp_Task_Execute
  && skel_eqb skel_Process_Run exp_Process_Run = true.
Proof. vm_compute. reflexivity. Qed.

(* progress: as long as some task is unfinished and every task asks for at most `cap` cores, some task can move --
   tasks with different core counts can never block each other for ever; every schedule, every reachable state *)
Theorem C07_progress : forall (cap0 : nat) (cs : list nat) (sched : list nat) (s' : state),
  (forall c, In c cs -> c <= cap0) ->
  run (init cap0 cs) sched = Some s' ->
  (exists i t, nth_error (tasks s') i = Some t /\ st t <> Finished) ->
  exists i, step s' i <> None.
Proof. exact SlotsTop.progress. Qed.

(* work conservation: if the waiting tasks fit into the free slots together, every maximal run made of acquisition
   steps only ends with all of them executing at the same time -- no release, no command exit is needed *)
Theorem C07_work_conserving : forall (cap0 : nat) (cs : list nat) (sched : list nat) (s' : state),
  fold_right Nat.add 0 cs <= cap0 ->
  run_acq (init cap0 cs) sched = Some s' ->
  (forall i, acq s' i = true -> step s' i = None) ->
  forall i t, nth_error (tasks s') i = Some t -> contender t = false.
Proof. exact SlotsTop.work_conserving. Qed.

Theorem C07_work_conserving_general : forall (s : state) (sched : list nat) (s' : state),
  Inv s -> MInv s -> Fits s -> run_acq s sched = Some s' ->
  (forall i, acq s' i = true -> step s' i = None) ->
  forall i t, nth_error (tasks s') i = Some t -> contender t = false.
Proof. exact Slots7.C07_work_conserving. Qed.

(* a process asking for more cores than the maximum is rejected before it creates any task *)
Theorem C07_oversize_rejected_code :
  match exp_Process_Run with
  | SDefer _ :: SIf c [SFail] [] :: SAssign _ :: SAssign a :: _ =>
      String.eqb c "p.CoresPerTask > cap(p.workflow.concurrentTasks)" && String.eqb a "tasks := p.createTasks()"
  | _ => false
  end = true.
Proof. vm_compute. reflexivity. Qed.

(* why the lock bracket is demanded: in the variant without the mutex two 2-core tasks on capacity 2 get stuck,
   each holding one token *)
Definition step_nomutex (s : state) (i : nat) : option state :=
  match nth_error (tasks s) i with
  | Some t => match st t with
              | WaitLock => Some {| cap := cap s; tokens := tokens s; mutex := None; tasks := upd (tasks s) i (set_pc t (Depositing 0)) |}
              | _ => step s i
              end
  | None => None
  end.
Fixpoint run_nomutex (s : state) (sched : list nat) : option state :=
  match sched with [] => Some s | i :: r => match step_nomutex s i with Some s' => run_nomutex s' r | None => None end end.
Theorem C07_no_mutex_refuted :
  exists s', run_nomutex (init 2 [2; 2]) [0; 1; 0; 1; 0; 1] = Some s'
             /\ step_nomutex s' 0 = None /\ step_nomutex s' 1 = None
             /\ (exists t, nth_error (tasks s') 0 = Some t /\ st t <> Finished).
Proof. eexists. split; [vm_compute; reflexivity|]. repeat split; try (vm_compute; reflexivity). eexists. split; [vm_compute; reflexivity|discriminate]. Qed.

(* work conservation across a process's queue of started tasks (network x slots, NetSlots): when a process has formed a task and
   its Run loop is at the select, the task is spawned -- it enters the slot machine as a new idle task -- whatever the number of
   earlier tasks of that process that are still unforwarded (finished or not) and whatever the slots hold; from there
   C07_work_conserving_general applies to it.  (The T1 tie is exp_Process_Run: both cases of the select are unconditional.  Two
   seeded changes, C07h and C07i, made the receive case wait while the queue was as long as the slot count.) *)
Theorem C07_spawn_never_waits_for_the_queue : forall (p : NetSlots.pcfg) (s : NetSlots.pst) (v : nat),
  v < NetA.nn (NetSlots.ncfg p) ->
  NetA.ct (NetA.ns (NetSlots.net s) v) = NetA.CtHand -> NetA.rn (NetA.ns (NetSlots.net s) v) = NetA.RSel ->
  exists s', NetSlots.pstep p s (NetSlots.PNet (NetA.AHand v)) = Some s'
             /\ List.length (Slots.tasks (NetSlots.sl s')) = S (List.length (Slots.tasks (NetSlots.sl s)))
             /\ Slots.tokens (NetSlots.sl s') = Slots.tokens (NetSlots.sl s).
Proof.
  intros p s v Hv C R. unfold NetSlots.pstep.
  assert (L : Nat.ltb v (NetA.nn (NetSlots.ncfg p)) = true) by (apply Nat.ltb_lt; exact Hv). rewrite L.
  unfold NetA.step. rewrite C, R. simpl. eexists. split; [reflexivity|]. simpl. rewrite app_length. simpl. split; [lia|reflexivity].
Qed.

(* the same, on a model of one process's FIFO of started tasks and the slots alone (QueueCap): a formed task and a free slot
   never wait for each other, whatever the FIFO holds ... *)
Theorem C07_queue_work_conserving : forall (K : nat) (s : QueueCap.st), 0 < QueueCap.todo s -> 0 < QueueCap.free s ->
  exists s1 s2, QueueCap.step K false s QueueCap.Spawn = Some s1
                /\ QueueCap.step K false s1 (QueueCap.Acquire (List.length (QueueCap.fifo s))) = Some s2
                /\ QueueCap.free s2 = QueueCap.free s - 1.
Proof. exact QueueCap.uncapped_work_conserving. Qed.

(* ... whereas a Run loop that stops accepting tasks while the FIFO is as long as the slot count (seeded changes C07h, C07i) idles
   a slot: two slots, the oldest task running, the one behind it finished, a third formed -- nothing can start until the oldest ends *)
Theorem C07_capped_queue_refuted :
  let s := {| QueueCap.todo := 1; QueueCap.fifo := [QueueCap.Running; QueueCap.Finished]; QueueCap.free := 1 |} in
  QueueCap.step 2 true s QueueCap.Spawn = None /\ QueueCap.step 2 true s QueueCap.Forward = None
  /\ (forall i, QueueCap.step 2 true s (QueueCap.Acquire i) = None) /\ 0 < QueueCap.todo s /\ 0 < QueueCap.free s.
Proof. exact QueueCap.capped_idles_a_slot. Qed.

(* T1, call cones: every function of scipipe that the functions above can reach (calls and function values, interface calls
   resolved to every implementation) is one the models were compared with -- a helper that is new to the cone, or a new call
   of an old one, changes a list (the lists are regenerated from /repo on every run; ExpectedCones.v holds the accepted ones) *)
Theorem C07_cone_conforms :
  strs_eqb cone_Workflow_IncConcurrentTasks exp_cone_Workflow_IncConcurrentTasks
  && strs_eqb cone_Workflow_DecConcurrentTasks exp_cone_Workflow_DecConcurrentTasks
  && strs_eqb cone_Task_Execute exp_cone_Task_Execute
  && strs_eqb cone_Process_Run exp_cone_Process_Run = true.
Proof. vm_compute. reflexivity. Qed.

Print Assumptions C07_code_conforms.
Print Assumptions C07_progress.
Print Assumptions C07_work_conserving.
Print Assumptions C07_work_conserving_general.
Print Assumptions C07_oversize_rejected_code.
Print Assumptions C07_no_mutex_refuted.
Print Assumptions C07_cone_conforms.
Print Assumptions C07_spawn_never_waits_for_the_queue.
Print Assumptions C07_queue_work_conserving.
Print Assumptions C07_capped_queue_refuted.
