(* C10 -- Every output carries a complete and faithful audit record.
   Models: WfModel.run_one (what a successful task stores on each of its outputs) and Audit (the incremental construction
   of provenance over a history of tasks vs the recursive lineage). *)
From Coq Require Import List Ascii String Arith Lia Bool.
Import ListNotations.
From SP Require Import Skel Gen Expected ExpectedCones Str PathLex Format WfModel Audit AuditModel.
From SP Require AuditFS.
Notation length := List.length.

(* T1: writeAuditLogs (Upstream from the in-IPs' snapshots, members for joined ports; OutFiles; a copy per out-IP; tags of
   the in-IPs merged; the file written), the tag accessors, NewFileIP loading <path>.audit.json, the tagging component *)
Theorem C10_code_conforms :
  skel_eqb skel_Task_writeAuditLogs exp_Task_writeAuditLogs
  && skel_eqb skel_FileIP_AddTag exp_FileIP_AddTag && skel_eqb skel_FileIP_AddTags exp_FileIP_AddTags
  && skel_eqb skel_FileIP_Tags exp_FileIP_Tags && skel_eqb skel_FileIP_auditInfoSnapshot exp_FileIP_auditInfoSnapshot
  && skel_eqb skel_FileIP_SetAuditInfo exp_FileIP_SetAuditInfo && skel_eqb skel_FileIP_AuditInfo exp_FileIP_AuditInfo
  && skel_eqb skel_FileIP_WriteAuditLogToFile exp_FileIP_WriteAuditLogToFile
  && skel_eqb skel_UnmarshalAuditInfoJSONFile exp_UnmarshalAuditInfoJSONFile
  && skel_eqb skel_NewFileIP exp_NewFileIP
  && skel_eqb skel_Task_Execute exp_Task_Execute
  && skel_eqb skel_Process_createTasks exp_Process_createTasks
  && skel_eqb skel_components_MapToTags_Run exp_components_MapToTags_Run = true.
Proof. vm_compute. reflexivity. Qed.

(* the audit file is written after the command and before the outputs are checked and renamed *)
Theorem C10_order_facts :
  call_before "t.executeCommand" "t.writeAuditLogs" exp_Task_Execute
  && call_before "t.writeAuditLogs" "t.finalizePaths" exp_Task_Execute = true.
Proof. vm_compute. reflexivity. Qed.

(* every output of a successfully executed task carries a record with the process name, the exact formatted command,
   the parameter values, all out paths, and -- keyed by input path, members of joined ports included -- the record each
   input carried; for every process, world, input set and parameter set *)
Theorem C10_record_fields : forall (p : proc) (w : world) (ins : list (str * item)) (pars : list (str * str)) (tr : trec) (w' : world),
  run_one p w ins pars = (tr, w') -> tr_status tr = TRun ->
  exists cmd tags,
    tr_command tr = Ok cmd /\
    fold_left (fun acc kv => match acc with Some t => add_tags t (in_tags_of w (snd kv)) | None => None end) ins (Some []) = Some tags /\
    forall o, In o (tr_outs tr) ->
      rec_of w' (snd (snd o)) =
      ARec (p_name p) cmd pars tags (map (fun o => (fst o, snd (snd o))) (tr_outs tr))
           (flat_map (fun kv => map (fun q => (q, rec_of w q)) (item_paths (snd kv))) ins).
Proof. exact AuditModel.run_one_record. Qed.

(* recursively back to the sources: over any history of tasks, the record found on a path is the full lineage of that path *)
Theorem C10_upstream_is_lineage : forall (P : Type) (ts : list (atask P)) (x : nat),
  get P (build P ts) x = lin P (rev ts) x.
Proof. exact Audit.build_is_lineage. Qed.

(* tags attached upstream are present downstream: every non-empty tag on the record of a (non-joined) input is on the
   record of every output *)
Theorem C10_tags_propagate : forall (p : proc) (w : world) (ins : list (str * item)) (pars : list (str * str)) (tr : trec) (w' : world),
  run_one p w ins pars = (tr, w') -> tr_status tr = TRun ->
  forall port q k v o, In (port, IPath q) ins -> In (k, v) (rec_tags (rec_of w q)) -> v <> [] -> In o (tr_outs tr) ->
  lookup k (rec_tags (rec_of w' (snd (snd o)))) = Some v.
Proof.
  intros p w ins pars tr w' H St port q k v o Hin Hk Hv Ho.
  destruct (AuditModel.run_one_record p w ins pars tr w' H St) as [cmd [tags [_ [Ht Hr]]]].
  rewrite (Hr o Ho). simpl.
  apply (tags_union_propagates (fun kv : str * item => in_tags_of w (snd kv)) ins [] tags (port, IPath q) k v Ht Hin); auto.
Qed.

(* finding D13: tags of sub-stream members are not merged -- the joined task's record has no tag although its upstream
   record (the member) has one *)
Definition d13_nodes : list node :=
  [ NSrc (s2l "s") [s2l "m.txt"];
    NMapTags (s2l "tg") 0 (s2l "out") (s2l "grp");
    NProc {| p_name := s2l "pre"; p_kind := KCat; p_tok := []; p_fail := FNone; p_failkey := []; p_pattern := s2l "cat {i:a} > {o:o}";
             p_ins := [{| ip_name := s2l "a"; ip_ups := [(1, s2l "out")] |}]; p_pars := []; p_outs := [{| op_name := s2l "o"; op_pat := Some (s2l "{i:a}.pre") |}]; p_extra := [] |};
    NS2S (s2l "s2s") 2 (s2l "o");
    NProc {| p_name := s2l "joiner"; p_kind := KCat; p_tok := []; p_fail := FNone; p_failkey := []; p_pattern := s2l "cat {i:a|join:,} > {o:o}";
             p_ins := [{| ip_name := s2l "a"; ip_ups := [(3, s2l "substream")] |}]; p_pars := []; p_outs := [{| op_name := s2l "o"; op_pat := Some (s2l "joined.txt") |}]; p_extra := [] |} ].
Theorem C10_substream_tags_refuted :
  match eval d13_nodes [] [(s2l "m.txt", s2l "x")] with
  | WDone _ _ false aud =>
    match lookup (s2l "joined.txt") aud with
    | Some (ARec _ _ _ tags _ up) => (tags, map (fun x => (l2s (fst x), map (fun t => (l2s (fst t), l2s (snd t))) (rec_tags (snd x)))) up)
    | None => ([], [])
    end
  | _ => ([], [])
  end = ([], [("m.txt.pre"%string, [("grp"%string, "m.txt"%string)])]).
Proof. vm_compute. reflexivity. Qed.

(* T1, call cones: every function of scipipe that the functions above can reach (calls and function values, interface calls
   resolved to every implementation) is one the models were compared with -- a helper that is new to the cone, or a new call
   of an old one, changes a list (the lists are regenerated from /repo on every run; ExpectedCones.v holds the accepted ones) *)
Theorem C10_cone_conforms :
  strs_eqb cone_Task_writeAuditLogs exp_cone_Task_writeAuditLogs
  && strs_eqb cone_FileIP_AddTag exp_cone_FileIP_AddTag
  && strs_eqb cone_FileIP_AddTags exp_cone_FileIP_AddTags
  && strs_eqb cone_FileIP_Tags exp_cone_FileIP_Tags
  && strs_eqb cone_FileIP_auditInfoSnapshot exp_cone_FileIP_auditInfoSnapshot
  && strs_eqb cone_FileIP_SetAuditInfo exp_cone_FileIP_SetAuditInfo
  && strs_eqb cone_FileIP_AuditInfo exp_cone_FileIP_AuditInfo
  && strs_eqb cone_FileIP_WriteAuditLogToFile exp_cone_FileIP_WriteAuditLogToFile
  && strs_eqb cone_UnmarshalAuditInfoJSONFile exp_cone_UnmarshalAuditInfoJSONFile
  && strs_eqb cone_NewFileIP exp_cone_NewFileIP
  && strs_eqb cone_Task_Execute exp_cone_Task_Execute
  && strs_eqb cone_Process_createTasks exp_cone_Process_createTasks
  && strs_eqb cone_components_MapToTags_Run exp_cone_components_MapToTags_Run = true.
Proof. vm_compute. reflexivity. Qed.

(* ---- the record is there whenever the output is (AuditFS) ----
   Task.Execute writes the audit files (directly beside the final paths) after the command and before the outputs are renamed to
   those paths (T1: exp_Task_Execute, call_before below).  On TaskFS extended with the audit files: in every reachable state --
   every schedule, every kill instant -- a declared output path that no longer holds its initial content has the record of its
   own task next to it *)
Theorem C10_every_final_output_is_audited : forall (c : TaskFS.cfg) (f0 : Result.fs) (left0 : nat -> bool), TInv.wfc c ->
  forall l s, AuditFS.arun c false (AuditFS.ainit c f0 left0) l = Some s ->
  forall t x, t < TaskFS.nt c -> In x (Result.tout (TaskFS.tk c t)) -> TaskFS.fin (AuditFS.base s) x <> f0 x -> AuditFS.aud s x = Some t.
Proof. exact AuditFS.audited. Qed.

Theorem C10_audit_order_in_code :
  call_before "t.executeCommand" "t.writeAuditLogs" exp_Task_Execute
  && call_before "t.writeAuditLogs" "t.finalizePaths" exp_Task_Execute = true.
Proof. vm_compute. reflexivity. Qed.

(* with the other order (the record written into the temp dir and moved after the renames) a kill leaves a final output without
   its record, and the re-run, which skips the task, never writes it *)
Theorem C10_late_record_refuted :
  exists s, AuditFS.arun AuditFS.one true (AuditFS.ainit AuditFS.one (fun _ => None) (fun _ => false))
              [TaskFS.AStart 0; TaskFS.AChkTemp 0; TaskFS.AChkOut 0; TaskFS.AMkTemp 0; TaskFS.ACmdOk 0 []; TaskFS.AEnsure 0 [0]; TaskFS.ARename 0] = Some s
            /\ TaskFS.fin (AuditFS.base s) 0 = Some 42 /\ AuditFS.aud s 0 = None.
Proof. exact AuditFS.late_record_refuted. Qed.

Theorem C10_audited_nonvacuous :
  exists s, AuditFS.arun AuditFS.one false (AuditFS.ainit AuditFS.one (fun _ => None) (fun _ => false))
              [TaskFS.AStart 0; TaskFS.AChkTemp 0; TaskFS.AChkOut 0; TaskFS.AMkTemp 0; TaskFS.ACmdOk 0 []; TaskFS.AEnsure 0 [0]; TaskFS.ARename 0] = Some s
            /\ TaskFS.fin (AuditFS.base s) 0 = Some 42 /\ AuditFS.aud s 0 = Some 0.
Proof. exact AuditFS.audited_nonvacuous. Qed.

Print Assumptions C10_code_conforms.
Print Assumptions C10_order_facts.
Print Assumptions C10_record_fields.
Print Assumptions C10_upstream_is_lineage.
Print Assumptions C10_tags_propagate.
Print Assumptions C10_substream_tags_refuted.
Print Assumptions C10_cone_conforms.
Print Assumptions C10_every_final_output_is_audited.
Print Assumptions C10_audit_order_in_code.
Print Assumptions C10_late_record_refuted.
Print Assumptions C10_audited_nonvacuous.
