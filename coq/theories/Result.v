(* Prototype: task-DAG level reference semantics `result` and the convergence
   lemma behind C03: re-running from any task-atomic intermediate file state
   gives the same result as the uninterrupted run. *)
From Coq Require Import List Arith Lia Bool PeanoNat.
Import ListNotations.

Definition content := nat.
Definition fs := nat -> option content.

Record task := {
  tin  : list nat;                                   (* final locations read *)
  tout : list nat;                                   (* final locations written *)
  sem  : list (option content) -> option (list content)  (* None: the command fails *)
}.

Definition isSome {A} (o : option A) := match o with Some _ => true | None => false end.
Definition any_exists (f : fs) (l : list nat) := existsb (fun o => isSome (f o)) l.

Fixpoint write_all (f : fs) (os : list nat) (cs : list content) : fs :=
  match os, cs with
  | o :: os', c :: cs' => write_all (fun x => if Nat.eqb x o then Some c else f x) os' cs'
  | _, _ => f
  end.

Definition run_task (t : task) (f : fs) : option fs :=
  if any_exists f (tout t) then Some f
  else match sem t (map f (tin t)) with
       | None => None
       | Some cs => Some (write_all f (tout t) cs)
       end.

Fixpoint result (ts : list task) (f : fs) : option fs :=
  match ts with
  | [] => Some f
  | t :: r => match run_task t f with None => None | Some f' => result r f' end
  end.

(* ---- basic facts ---- *)
Lemma write_all_out f os cs x : ~ In x os -> write_all f os cs x = f x.
Proof.
  revert f cs; induction os as [|o os IH]; intros f [|c cs] H; simpl; auto.
  rewrite IH by (intros H'; apply H; right; exact H').
  destruct (Nat.eqb_spec x o); auto. subst. exfalso. apply H. left; reflexivity.
Qed.

Lemma run_task_frame t f f' x : run_task t f = Some f' -> ~ In x (tout t) -> f' x = f x.
Proof.
  unfold run_task. destruct (any_exists f (tout t)).
  - intros H; inversion H; auto.
  - destruct (sem t (map f (tin t))); [|discriminate]. intros H Hx; inversion H; subst.
    apply write_all_out; auto.
Qed.

Definition agree_on (l : list nat) (f g : fs) := forall x, In x l -> f x = g x.

Lemma map_agree l (f g : fs) : agree_on l f g -> map f l = map g l.
Proof. intros H. apply map_ext_in. exact H. Qed.

Lemma any_exists_agree l (f g : fs) : agree_on l f g -> any_exists f l = any_exists g l.
Proof.
  unfold any_exists. induction l as [|a l IH]; intros H; simpl; auto.
  rewrite (H a) by (left; reflexivity). f_equal. apply IH. intros x Hx. apply H. right; exact Hx.
Qed.

Lemma write_all_agree (f g : fs) os cs x :
  (f x = g x) -> write_all f os cs x = write_all g os cs x.
Proof.
  revert f g cs; induction os as [|o os IH]; intros f g [|c cs] H; simpl; auto.
  apply IH. destruct (Nat.eqb x o); auto.
Qed.

Lemma write_all_in_indep (f g : fs) os cs x : In x os -> length cs = length os ->
  write_all f os cs x = write_all g os cs x.
Proof.
  revert f g cs; induction os as [|o os IH]; intros f g [|c cs] Hin Hl; simpl in *; try lia; try tauto.
  destruct (in_dec Nat.eq_dec x os) as [Hi|Hn].
  - apply IH; auto.
  - rewrite !write_all_out by assumption. destruct Hin as [->|Hin]; [|tauto]. now rewrite Nat.eqb_refl.
Qed.

(* ---- well-formed task lists ---- *)
(* outputs of different tasks are disjoint; a task reads nothing that a later
   task (or itself) writes; sem returns one content per output *)
Fixpoint wf (ts : list task) : Prop :=
  match ts with
  | [] => True
  | t :: r =>
    (forall t', In t' r -> forall x, In x (tout t) -> ~ In x (tout t')) /\
    (forall t', In t' (t :: r) -> forall x, In x (tin t) -> ~ In x (tout t')) /\
    (forall xs cs, sem t xs = Some cs -> length cs = length (tout t)) /\
    wf r
  end.

(* f1 lies task-atomically between f0 and the result fR of running from f0 *)
Definition between (ts : list task) (f0 f1 fR : fs) : Prop :=
  (forall x, (forall t, In t ts -> ~ In x (tout t)) -> f1 x = f0 x) /\
  (forall t, In t ts -> agree_on (tout t) f1 f0 \/ agree_on (tout t) f1 fR).

Lemma write_all_in_some (f : fs) os cs x : In x os -> length cs = length os ->
  exists c, write_all f os cs x = Some c.
Proof.
  revert f cs; induction os as [|o os IH]; intros f [|c cs] Hin Hl; simpl in *; try lia; try tauto.
  destruct (in_dec Nat.eq_dec x os) as [Hi|Hn].
  - apply IH; auto.
  - rewrite write_all_out by assumption. destruct Hin as [->|Hin]; [|tauto]. rewrite Nat.eqb_refl. eauto.
Qed.

Lemma any_exists_true f l : any_exists f l = true <-> exists x c, In x l /\ f x = Some c.
Proof.
  unfold any_exists. rewrite existsb_exists. split.
  - intros [x [Hx Hs]]. destruct (f x) eqn:E; [|discriminate]. eauto.
  - intros [x [c [Hx Hs]]]. exists x. rewrite Hs. auto.
Qed.

Lemma result_frame ts : forall f fR x, result ts f = Some fR ->
  (forall t, In t ts -> ~ In x (tout t)) -> fR x = f x.
Proof.
  induction ts as [|t r IH]; intros f fR x H Hx; simpl in H.
  - inversion H; auto.
  - destruct (run_task t f) as [f'|] eqn:E; [|discriminate].
    rewrite (IH f' fR x H) by (intros t' Ht'; apply Hx; right; exact Ht').
    eapply run_task_frame; eauto. apply Hx. left; reflexivity.
Qed.

(* running from a state that differs from g0 only on outputs of the remaining
   tasks, task-atomically towards the result, reaches (pointwise) the same result *)
Lemma converge ts : wf ts -> forall g0 g1 fR,
  result ts g0 = Some fR -> between ts g0 g1 fR ->
  exists fR', result ts g1 = Some fR' /\ forall x, fR' x = fR x.
Proof.
  induction ts as [|t r IH]; intros Hwf g0 g1 fR Hres [Hout Hat]; simpl in *.
  - inversion Hres; subst. exists g1. split; [reflexivity|]. intros x. apply Hout. intros t [].
  - destruct Hwf as [Hdis [Hin [Hlen Hwf]]].
    destruct (run_task t g0) as [g0'|] eqn:E0; [|discriminate].
    (* values of fR and g0' on the outputs of t coincide *)
    assert (HfR : forall x, In x (tout t) -> fR x = g0' x).
    { intros x Hx. apply (result_frame r g0' fR x Hres). intros t' Ht' Hx'. eapply Hdis; eauto. }
    assert (Hin1 : agree_on (tin t) g1 g0).
    { intros x Hx. apply Hout. intros t' Ht'. eapply Hin; eauto. }
    unfold run_task in E0 |- *.
    destruct (any_exists g0 (tout t)) eqn:A0.
    + (* skipped in the reference run *)
      inversion E0; subst g0'.
      assert (Hag : agree_on (tout t) g1 g0).
      { destruct (Hat t (or_introl eq_refl)) as [H|H]; auto. intros x Hx. rewrite H, HfR; auto. }
      rewrite (any_exists_agree _ _ _ Hag), A0.
      apply (IH Hwf g0 g1 fR Hres). split.
      * intros x Hx. destruct (in_dec Nat.eq_dec x (tout t)) as [Hi|Hn]; [apply Hag; auto|].
        apply Hout. intros t' [<-|Ht']; auto.
      * intros t' Ht'. apply Hat. right; exact Ht'.
    + destruct (sem t (map g0 (tin t))) as [cs|] eqn:S0; [|discriminate]. inversion E0; subst g0'.
      pose proof (Hlen _ _ S0) as Hl.
      destruct (any_exists g1 (tout t)) eqn:A1.
      * (* already finalised in g1: must be the result's values *)
        assert (Hag : agree_on (tout t) g1 fR).
        { destruct (Hat t (or_introl eq_refl)) as [H|H]; auto.
          rewrite (any_exists_agree _ _ _ H), A0 in A1. discriminate. }
        apply (IH Hwf (write_all g0 (tout t) cs) g1 fR Hres). split.
        -- intros x Hx. destruct (in_dec Nat.eq_dec x (tout t)) as [Hi|Hn].
           ++ rewrite Hag, HfR; auto.
           ++ rewrite write_all_out by assumption. apply Hout. intros t' [<-|Ht']; auto.
        -- intros t' Ht'. destruct (Hat t' (or_intror Ht')) as [H|H]; [left|right; exact H].
           intros x Hx. rewrite H by assumption. symmetry. apply write_all_out.
           intros Hx'. eapply Hdis; eauto.
      * (* executes again, on the same inputs *)
        rewrite (map_agree _ _ _ Hin1), S0.
        apply (IH Hwf (write_all g0 (tout t) cs) (write_all g1 (tout t) cs) fR Hres). split.
        -- intros x Hx. destruct (in_dec Nat.eq_dec x (tout t)) as [Hi|Hn].
           ++ apply write_all_in_indep; auto.
           ++ rewrite !write_all_out by assumption. apply Hout. intros t' [<-|Ht']; auto.
        -- intros t' Ht'.
           assert (Hd : forall x, In x (tout t') -> ~ In x (tout t)).
           { intros x Hx Hx'. eapply Hdis; eauto. }
           destruct (Hat t' (or_intror Ht')) as [H|H]; [left|right].
           ++ intros x Hx. rewrite !write_all_out by (apply Hd; assumption). apply H; assumption.
           ++ intros x Hx. rewrite write_all_out by (apply Hd; assumption). apply H; assumption.
Qed.

(* C03 at task level: any task-atomic crash state between the initial files and
   the uninterrupted result converges to that result on re-run *)
Theorem C03_converges ts f0 f1 fR :
  wf ts -> result ts f0 = Some fR -> between ts f0 f1 fR ->
  exists fR', result ts f1 = Some fR' /\ forall x, fR' x = fR x.
Proof. intros. eapply converge; eauto. Qed.
Print Assumptions C03_converges.

(* the guard is necessary: a two-output task finalised half-way does not converge *)
Definition t2 : task := {| tin := []; tout := [0; 1]; sem := fun _ => Some [7; 8] |}.
Definition f_empty : fs := fun _ => None.
Definition f_half : fs := fun x => if Nat.eqb x 0 then Some 7 else None.
Example C03_midfinalize_refuted :
  exists fR fR', result [t2] f_empty = Some fR /\ result [t2] f_half = Some fR' /\ fR 1 = Some 8 /\ fR' 1 = None.
Proof. eexists; eexists; repeat split; reflexivity. Qed.
