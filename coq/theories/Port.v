(* One in-port fed by several out-ports (fan-in): InPort.Send from each remote, the shared bounded channel,
   InPort.CloseConnection (delete the remote, close the channel when none is left), and the receiver.
   C04: every item any upstream sends is delivered exactly once, nothing is sent after the port closed, the port closes
   exactly when its last upstream closed.  C08: items of one upstream keep their order through the merge.

   The channel is modelled by what the properties speak about: per sender, how many of its items have been sent and how
   many of those the receiver has taken.  The receiver may take the oldest queued item of ANY sender: that contains every
   behaviour of Go's FIFO channel (which additionally fixes the order between senders), so the theorems hold of the real
   channel. *)
From Coq Require Import List Arith Lia Bool PeanoNat.
Import ListNotations.

Local Arguments Nat.sub : simpl never.

Definition item := nat.

Record cfg := { ns : nat;                       (* number of remote out-ports (senders 0 .. ns-1) *)
                plan : nat -> list item;        (* what each sender will send, in order *)
                cap : nat }.

Record st := {
  sent : nat -> nat;        (* items sender r has put into the channel *)
  rcv  : nat -> nat;        (* ... of which the receiver has taken this many *)
  opn  : nat -> bool;       (* the remote is still in RemotePorts *)
  closed : bool;            (* close(pt.Chan) has happened *)
  seen : bool;              (* the receiver has seen the closed, empty channel *)
  hist : list (nat * item)  (* everything received, in order, tagged with its sender *)
}.

Definition upd {A} (f : nat -> A) (i : nat) (a : A) : nat -> A := fun j => if Nat.eqb j i then a else f j.

Definition init (c : cfg) : st :=
  {| sent := fun _ => 0; rcv := fun _ => 0; opn := fun r => Nat.ltb r (ns c); closed := false; seen := false; hist := [] |}.

Fixpoint sumto (f : nat -> nat) (n : nat) : nat := match n with O => 0 | S k => f k + sumto f k end.

Definition queued (c : cfg) (s : st) : nat := sumto (fun r => sent s r - rcv s r) (ns c).

Definition all_closed (c : cfg) (o : nat -> bool) : bool := forallb (fun r => negb (o r)) (seq 0 (ns c)).

Inductive act :=
| PSend (r : nat)         (* remote r: InPort.Send of its next item *)
| PClose (r : nat)        (* remote r: CloseConnection, after its last send *)
| PRecv (r : nat)         (* the receiver takes the oldest queued item of sender r *)
| PSeeClosed.             (* the receiver finds the channel closed and empty *)

Definition step (c : cfg) (s : st) (a : act) : option st :=
  match a with
  | PSend r =>
    if Nat.ltb r (ns c) && opn s r && Nat.ltb (sent s r) (length (plan c r)) && Nat.ltb (queued c s) (cap c)
    then Some {| sent := upd (sent s) r (S (sent s r)); rcv := rcv s; opn := opn s; closed := closed s; seen := seen s; hist := hist s |}
    else None
  | PClose r =>
    if Nat.ltb r (ns c) && opn s r && Nat.eqb (sent s r) (length (plan c r))
    then let o := upd (opn s) r false in
         Some {| sent := sent s; rcv := rcv s; opn := o; closed := all_closed c o; seen := seen s; hist := hist s |}
    else None
  | PRecv r =>
    if Nat.ltb r (ns c) && Nat.ltb (rcv s r) (sent s r) && negb (seen s)
    then Some {| sent := sent s; rcv := upd (rcv s) r (S (rcv s r)); opn := opn s; closed := closed s; seen := seen s;
                 hist := hist s ++ [(r, nth (rcv s r) (plan c r) 0)] |}
    else None
  | PSeeClosed =>
    if closed s && Nat.eqb (queued c s) 0 && negb (seen s)
    then Some {| sent := sent s; rcv := rcv s; opn := opn s; closed := closed s; seen := true; hist := hist s |}
    else None
  end.

Fixpoint run (c : cfg) (s : st) (l : list act) : option st :=
  match l with
  | [] => Some s
  | a :: r => match step c s a with Some s' => run c s' r | None => None end
  end.

(* what the receiver has got from sender r, in order *)
Definition from (r : nat) (h : list (nat * item)) : list item :=
  map snd (filter (fun x => Nat.eqb (fst x) r) h).

Lemma exists_open (o : nat -> bool) n : forallb (fun r => negb (o r)) (seq 0 n) = false -> exists r, r < n /\ o r = true.
Proof.
  induction n as [|n IH]; [simpl; discriminate|]. rewrite seq_S, forallb_app. simpl. intros H.
  destruct (forallb (fun r => negb (o r)) (seq 0 n)) eqn:F.
  - simpl in H. destruct (o n) eqn:On; [|discriminate]. exists n. split; [lia|exact On].
  - destruct (IH eq_refl) as [r [Hr Ho]]. exists r. split; [lia|exact Ho].
Qed.

Lemma exists_queued (f g : nat -> nat) n : sumto (fun r => f r - g r) n <> 0 -> exists r, r < n /\ g r < f r.
Proof.
  induction n as [|n IH]; simpl; intros H; [lia|].
  destruct (Nat.eq_dec (f n - g n) 0) as [E|E].
  - destruct IH as [r [Hr Hl]]; [lia|]. exists r. split; [lia|exact Hl].
  - exists n. split; lia.
Qed.

Section Proofs.
Variable c : cfg.
Hypothesis CAP : 1 <= cap c.
Hypothesis NS : 1 <= ns c.                 (* a connected port: at least one remote *)

Record Inv (s : st) : Prop := {
  i_le   : forall r, r < ns c -> rcv s r <= sent s r /\ sent s r <= length (plan c r);
  i_zero : forall r, ns c <= r -> sent s r = 0 /\ rcv s r = 0 /\ opn s r = false;
  i_cap  : queued c s <= cap c;
  i_hist : forall r, r < ns c -> from r (hist s) = firstn (rcv s r) (plan c r);          (* C08: per-sender order, C04: exactly once *)
  i_only : forall r, ns c <= r -> from r (hist s) = [];
  i_done : forall r, r < ns c -> opn s r = false -> sent s r = length (plan c r);        (* a remote closes after its last send *)
  i_clo  : closed s = true <-> (forall r, r < ns c -> opn s r = false);                  (* closes exactly when the last upstream closed *)
  i_seen : seen s = true -> closed s = true /\ queued c s = 0
}.

Lemma upd_same A (f : nat -> A) i a : upd f i a i = a.
Proof. unfold upd. now rewrite Nat.eqb_refl. Qed.
Lemma upd_other A (f : nat -> A) i a j : j <> i -> upd f i a j = f j.
Proof. unfold upd. intros H. destruct (Nat.eqb_spec j i); congruence. Qed.

Lemma sumto_ext f g n : (forall r, r < n -> f r = g r) -> sumto f n = sumto g n.
Proof. induction n as [|n IH]; simpl; intros H; auto. rewrite H by lia. rewrite IH; auto. Qed.

Lemma sumto_upd f n r v : r < n -> sumto (upd f r v) n + f r = sumto f n + v.
Proof.
  induction n as [|n IH]; intros H; [lia|]. simpl. destruct (Nat.eq_dec r n) as [->|Hne].
  - rewrite upd_same. rewrite (sumto_ext (upd f n v) f n); [lia|]. intros x Hx. apply upd_other. lia.
  - rewrite upd_other by lia. assert (r < n) by lia. specialize (IH H0). lia.
Qed.

Lemma sumto_zero f n : sumto f n = 0 -> forall r, r < n -> f r = 0.
Proof. induction n as [|n IH]; simpl; intros H r Hr; [lia|]. destruct (Nat.eq_dec r n) as [->|]; [lia|]. apply IH; lia. Qed.

Lemma all_closed_spec o : all_closed c o = true <-> (forall r, r < ns c -> o r = false).
Proof.
  unfold all_closed. rewrite forallb_forall. split.
  - intros H r Hr. specialize (H r). rewrite in_seq in H. assert (negb (o r) = true) by (apply H; lia). now apply negb_true_iff.
  - intros H r Hr. apply in_seq in Hr. apply negb_true_iff. apply H. lia.
Qed.

Lemma from_app r h1 h2 : from r (h1 ++ h2) = from r h1 ++ from r h2.
Proof. unfold from. now rewrite filter_app, map_app. Qed.

Lemma firstn_S_nth (l : list item) k : k < length l -> firstn (S k) l = firstn k l ++ [nth k l 0].
Proof.
  revert k; induction l as [|a l IH]; intros k H; simpl in H; [lia|].
  destruct k; simpl; auto. f_equal. apply IH. lia.
Qed.

Lemma init_inv : Inv (init c).
Proof.
  constructor; simpl; intros; auto; try lia.
  - repeat split; auto. apply Nat.ltb_ge. lia.
  - unfold queued. simpl. assert (Z : forall n, sumto (fun _ : nat => 0 - 0) n = 0) by (induction n; simpl; lia). rewrite Z. lia.
  - apply Nat.ltb_lt in H. congruence.
  - split; [discriminate|]. intros H. specialize (H 0). assert (E : (0 <? ns c) = false) by (apply H; lia).
    apply Nat.ltb_ge in E. lia.
Qed.

Ltac inv_some := match goal with H : Some _ = Some ?s' |- _ => injection H as H; subst s' end.

Lemma queued_send s r : r < ns c ->
  sumto (fun x => upd (sent s) r (S (sent s r)) x - rcv s x) (ns c) + (sent s r - rcv s r) = queued c s + (S (sent s r) - rcv s r).
Proof.
  intros Hr. unfold queued.
  pose proof (sumto_upd (fun x => sent s x - rcv s x) (ns c) r (S (sent s r) - rcv s r) Hr) as Q. cbv beta in Q.
  rewrite <- Q. f_equal. apply sumto_ext. intros x Hx. unfold upd. destruct (Nat.eqb x r) eqn:E; auto. apply Nat.eqb_eq in E. now subst.
Qed.

Lemma queued_recv s r : r < ns c ->
  sumto (fun x => sent s x - upd (rcv s) r (S (rcv s r)) x) (ns c) + (sent s r - rcv s r) = queued c s + (sent s r - S (rcv s r)).
Proof.
  intros Hr. unfold queued.
  pose proof (sumto_upd (fun x => sent s x - rcv s x) (ns c) r (sent s r - S (rcv s r)) Hr) as Q. cbv beta in Q.
  rewrite <- Q. f_equal. apply sumto_ext. intros x Hx. unfold upd. destruct (Nat.eqb x r) eqn:E; auto. apply Nat.eqb_eq in E. now subst.
Qed.

Lemma step_inv s a s' : Inv s -> step c s a = Some s' -> Inv s'.
Proof.
  intros [H1 H2 H3 H4 H5 H6 H7 H8] Hs. destruct a as [r|r|r|]; simpl in Hs.
  - (* PSend *)
    destruct (Nat.ltb r (ns c)) eqn:Er; simpl in Hs; [|discriminate]. apply Nat.ltb_lt in Er.
    destruct (opn s r) eqn:Eo; simpl in Hs; [|discriminate].
    destruct (Nat.ltb (sent s r) (length (plan c r))) eqn:El; simpl in Hs; [|discriminate]. apply Nat.ltb_lt in El.
    destruct (Nat.ltb (queued c s) (cap c)) eqn:Eq; [|discriminate]. apply Nat.ltb_lt in Eq. inv_some.
    pose proof (queued_send s r Er) as Q. destruct (H1 r Er) as [A B].
    constructor; simpl; auto.
    + intros x Hx. destruct (Nat.eq_dec x r) as [->|Hne]; [rewrite upd_same; lia|rewrite upd_other by assumption; auto].
    + intros x Hx. rewrite upd_other by lia. auto.
    + unfold queued. simpl. lia.
    + intros x Hx Ho. destruct (Nat.eq_dec x r) as [->|Hne]; [congruence|rewrite upd_other by assumption; auto].
    + intros Hse. destruct (H8 Hse) as [Hc Hq]. pose proof (proj1 H7 Hc r Er) as Hcl. rewrite Hcl in Eo. discriminate.
  - (* PClose *)
    destruct (Nat.ltb r (ns c)) eqn:Er; simpl in Hs; [|discriminate]. apply Nat.ltb_lt in Er.
    destruct (opn s r) eqn:Eo; simpl in Hs; [|discriminate].
    destruct (Nat.eqb (sent s r) (length (plan c r))) eqn:El; [|discriminate]. apply Nat.eqb_eq in El. inv_some.
    constructor; simpl; auto.
    + intros x Hx. rewrite upd_other by lia. auto.
    + intros x Hx Ho. destruct (Nat.eq_dec x r) as [->|Hne]; auto. rewrite upd_other in Ho by assumption. auto.
    + apply all_closed_spec.
    + intros Hse. destruct (H8 Hse) as [Hc Hq]. pose proof (proj1 H7 Hc r Er) as Hcl. rewrite Hcl in Eo. discriminate.
  - (* PRecv *)
    destruct (Nat.ltb r (ns c)) eqn:Er; simpl in Hs; [|discriminate]. apply Nat.ltb_lt in Er.
    destruct (Nat.ltb (rcv s r) (sent s r)) eqn:El; simpl in Hs; [|discriminate]. apply Nat.ltb_lt in El.
    destruct (seen s) eqn:Ese; simpl in Hs; [discriminate|]. inv_some.
    pose proof (queued_recv s r Er) as Q. destruct (H1 r Er) as [A B].
    constructor; simpl; auto.
    + intros x Hx. destruct (Nat.eq_dec x r) as [->|Hne]; [rewrite upd_same; lia|rewrite upd_other by assumption; auto].
    + intros x Hx. rewrite upd_other by lia. auto.
    + unfold queued. simpl. lia.
    + intros x Hx. rewrite from_app. unfold from at 2. simpl.
      destruct (Nat.eq_dec x r) as [->|Hne].
      * rewrite Nat.eqb_refl, upd_same. simpl. rewrite H4 by assumption. symmetry. apply firstn_S_nth. lia.
      * rewrite upd_other by assumption. destruct (Nat.eqb_spec r x); [congruence|]. simpl. rewrite app_nil_r. auto.
    + intros x Hx. rewrite from_app. unfold from at 2. simpl. destruct (Nat.eqb_spec r x); [lia|]. simpl. rewrite app_nil_r. auto.
    + discriminate.
  - (* PSeeClosed *)
    destruct (closed s) eqn:Ec; simpl in Hs; [|discriminate].
    destruct (Nat.eqb (queued c s) 0) eqn:Eq; simpl in Hs; [|discriminate]. apply Nat.eqb_eq in Eq.
    destruct (seen s); simpl in Hs; [discriminate|]. inv_some.
    constructor; simpl; auto.
Qed.

Lemma run_inv l : forall s s', Inv s -> run c s l = Some s' -> Inv s'.
Proof.
  induction l as [|a l IH]; simpl; intros s s' HI H; [inversion H; subst; exact HI|].
  destruct (step c s a) eqn:E; [|discriminate]. eapply IH; [eapply step_inv; eauto|exact H].
Qed.

(* C08 / C04 in every reachable state: what the receiver has from each upstream is a prefix of what that upstream sends,
   in its order; nothing else was received; at most [cap] items wait *)
Theorem merge_is_orderly l s : run c (init c) l = Some s ->
  (forall r, r < ns c -> from r (hist s) = firstn (rcv s r) (plan c r)) /\
  (forall r, ns c <= r -> from r (hist s) = []) /\ (queued c s <= cap c).
Proof. intros H. destruct (run_inv l _ _ init_inv H). auto. Qed.

(* the port closes exactly when its last upstream has closed, and an upstream closes only after its last send *)
Theorem closes_with_last l s : run c (init c) l = Some s ->
  (closed s = true <-> forall r, r < ns c -> opn s r = false) /\
  (forall r, r < ns c -> opn s r = false -> sent s r = length (plan c r)).
Proof. intros H. destruct (run_inv l _ _ init_inv H). auto. Qed.

(* C04 at the end: once the receiver has seen the port closed it holds, from every upstream, exactly the items that
   upstream was to send, each once, in order *)
Theorem complete_when_seen l s : run c (init c) l = Some s -> seen s = true ->
  forall r, r < ns c -> from r (hist s) = plan c r.
Proof.
  intros H Hse r Hr. destruct (run_inv l _ _ init_inv H) as [H1 H2 H3 H4 H5 H6 H7 H8].
  destruct (H8 Hse) as [Hc Hq]. rewrite H4 by assumption.
  pose proof (proj1 H7 Hc r Hr) as Ho. pose proof (H6 r Hr Ho) as Hs.
  pose proof (sumto_zero _ _ Hq r Hr) as Hz. simpl in Hz. destruct (H1 r Hr) as [A B].
  assert (rcv s r = length (plan c r)) by lia. rewrite H0. apply firstn_all.
Qed.

(* no deadlock: until the receiver has seen the end, something can always happen -- whatever the buffer size (>= 1),
   the number of upstreams and the lengths of their streams *)
Theorem port_progress l s : run c (init c) l = Some s -> seen s = false -> exists a, step c s a <> None.
Proof.
  intros H Hse. destruct (run_inv l _ _ init_inv H) as [H1 H2 H3 H4 H5 H6 H7 H8].
  (* an item is queued: the receiver can take it *)
  destruct (Nat.eq_dec (queued c s) 0) as [Hq|Hq].
  - (* nothing queued *)
    destruct (closed s) eqn:Ec.
    + exists PSeeClosed. simpl. rewrite Ec, Hq, Hse. simpl. discriminate.
    + (* some upstream is still open *)
      assert (Hex : exists r, r < ns c /\ opn s r = true).
      { apply exists_open. destruct (forallb (fun r => negb (opn s r)) (seq 0 (ns c))) eqn:F; auto.
        exfalso. assert (X : false = true); [|discriminate X]. apply (proj2 H7). apply all_closed_spec. exact F. }
      destruct Hex as [r [Hr Ho]]. destruct (H1 r Hr) as [A B].
      destruct (Nat.eq_dec (sent s r) (length (plan c r))) as [E|E].
      * exists (PClose r). simpl. apply Nat.ltb_lt in Hr. rewrite Hr, Ho. simpl. apply Nat.eqb_eq in E. rewrite E. discriminate.
      * exists (PSend r). simpl. pose proof Hr as Hr'. apply Nat.ltb_lt in Hr'. rewrite Hr', Ho. simpl.
        assert (L : (sent s r <? length (plan c r)) = true) by (apply Nat.ltb_lt; lia). rewrite L. simpl.
        assert (Q : (queued c s <? cap c) = true) by (apply Nat.ltb_lt; lia). rewrite Q. discriminate.
  - (* something queued: some sender has more sent than received *)
    assert (Hex : exists r, r < ns c /\ rcv s r < sent s r) by (apply exists_queued; exact Hq).
    destruct Hex as [r [Hr Hl]]. exists (PRecv r). simpl.
    apply Nat.ltb_lt in Hr. apply Nat.ltb_lt in Hl. rewrite Hr, Hl, Hse. simpl. discriminate.
Qed.

End Proofs.

(* non-vacuity: two upstreams with 2 and 1 items into a buffer of one *)
Definition ex_cfg : cfg := {| ns := 2; plan := fun r => if Nat.eqb r 0 then [10; 11] else [20]; cap := 1 |}.
Example ex_run :
  exists s, run ex_cfg (init ex_cfg) [PSend 0; PRecv 0; PSend 1; PRecv 1; PClose 1; PSend 0; PRecv 0; PClose 0; PSeeClosed] = Some s
            /\ hist s = [(0, 10); (1, 20); (0, 11)] /\ seen s = true.
Proof. eexists. split; [vm_compute; reflexivity|]. split; reflexivity. Qed.
