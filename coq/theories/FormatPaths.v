(* C15: output-path patterns (Process.SetOut) and the default output name (initDefaultPathFuncs):
   a missing value stops the expansion; the default name does not depend on the order in which Go enumerates the maps. *)
From Coq Require Import List Ascii String Arith Bool Permutation.
Import ListNotations.
From SP Require Import Str PathLex Format TempNames TempDirModel TempStable WfModel.

Definition estep (ins pars tags : list (str * str)) (acc : res) (m : str * str * str) : res :=
  match acc with
  | Fail => Fail
  | Ok cur =>
    let '(whole, kind, rest) := m in
    let parts := split_on pipe rest in
    let name := hd [] parts in
    let mods := tl parts in
    let v := if str_eqb kind (s2l "i") then lookup name ins
             else if str_eqb kind (s2l "p") then lookup name pars
             else if str_eqb kind (s2l "t") then lookup name tags else None in
    match v with
    | Some x => Ok (replace_all whole (match mods with [] => x | _ => apply_mods x mods end) cur)
    | None => Fail
    end
  end.

Lemma expand_fold pat ins pars tags : expand pat ins pars tags = fold_left (estep ins pars tags) (find_all pat 0) (Ok pat).
Proof. reflexivity. Qed.

Lemma efold_fail ins pars tags ms : fold_left (estep ins pars tags) ms Fail = Fail.
Proof. induction ms as [|m ms IH]; simpl; auto. Qed.

Definition value_of (ins pars tags : list (str * str)) (kind rest : str) : option str :=
  let name := hd [] (split_on pipe rest) in
  if str_eqb kind (s2l "i") then lookup name ins
  else if str_eqb kind (s2l "p") then lookup name pars
  else if str_eqb kind (s2l "t") then lookup name tags else None.

(* a placeholder of an output-path pattern that has no value (input, parameter or tag missing; any other kind) makes the
   whole expansion fail -- never a path with an unreplaced placeholder *)
Theorem setout_missing_fails pat ins pars tags whole kind rest :
  In (whole, kind, rest) (find_all pat 0) -> value_of ins pars tags kind rest = None -> expand pat ins pars tags = Fail.
Proof.
  intros Hin Hv. rewrite expand_fold. apply in_split in Hin. destruct Hin as [l1 [l2 E]]. rewrite E, fold_left_app.
  cbn [fold_left].
  assert (S1 : forall acc, estep ins pars tags acc (whole, kind, rest) = Fail).
  { intros [c|]; [|reflexivity]. unfold estep. fold (value_of ins pars tags kind rest). rewrite Hv. reflexivity. }
  rewrite S1. apply efold_fail.
Qed.

(* the default output name is a function of the task's inputs, parameters and tags as *maps*: enumerating them in another
   order gives the same name *)
Theorem default_path_order_independent pname pattern port (ins ins' pars pars' tags tags' : list (str * str)) :
  NoDup (map fst ins) -> NoDup (map fst pars) -> NoDup (map fst tags) ->
  Permutation ins ins' -> Permutation pars pars' -> Permutation tags tags' ->
  default_path pname pattern port ins pars tags = default_path pname pattern port ins' pars' tags'.
Proof.
  intros N1 N2 N3 P1 P2 P3. unfold default_path.
  pose proof (sort_kv_order_independent TempNames.str ins ins' N1 P1) as E1.
  pose proof (sort_kv_order_independent TempNames.str pars pars' N2 P2) as E2.
  pose proof (sort_kv_order_independent TempNames.str tags tags' N3 P3) as E3.
  cbv zeta. rewrite E1, E2, E3. reflexivity.
Qed.
