(* C05 -- Run returns exactly when all work is done: no deadlock, no early return. *)
From Coq Require Import List Arith Lia Bool PeanoNat String.
Import ListNotations.
Notation length := List.length.
From SP Require Import Skel Gen Expected ExpectedCones NetA Inv Pres Dead Top Ghost GhostPres Term Early NetTop.
From SP Require Result TaskFS TmpInv Slots NetSlots FanIn StreamReg.

(* T1: runProcs starts every selected process except the driver, runs the driver in the caller and waits for all;
   Process.Run closes its out-ports on return; the select loop and the port protocol are the modelled ones *)
Theorem C05_code_conforms :
  skel_eqb skel_Workflow_runProcs exp_Workflow_runProcs
  && skel_eqb skel_Workflow_Run exp_Workflow_Run
  && skel_eqb skel_Workflow_reconnectDeadEndConnections exp_Workflow_reconnectDeadEndConnections
  && skel_eqb skel_Sink_Run exp_Sink_Run
  && skel_eqb skel_Process_Run exp_Process_Run
  && skel_eqb skel_Process_createTasks exp_Process_createTasks
  && skel_eqb skel_BaseProcess_CloseOutPorts exp_BaseProcess_CloseOutPorts
  && skel_eqb skel_OutPort_Close exp_OutPort_Close
  && skel_eqb skel_InPort_CloseConnection exp_InPort_CloseConnection
  && skel_eqb skel_Task_Execute exp_Task_Execute
  && skel_eqb skel_Workflow_IncConcurrentTasks exp_Workflow_IncConcurrentTasks
  && skel_eqb skel_Workflow_DecConcurrentTasks exp_Workflow_DecConcurrentTasks
  && skel_eqb skel_FinalizePaths exp_FinalizePaths = true.
Proof. vm_compute. reflexivity. Qed.

(* deadlock freedom: no reachable state of a merge-free, balanced, acyclic network with capacity >= 1 is stuck
   while some process is unfinished -- for every stream length relative to the buffer size, every schedule *)
Theorem C05_no_deadlock : forall (c : cfg) (len : nat -> nat), wf c len ->
  forall sched s, sched_ok c sched -> run c (init c) sched = Some s ->
  (exists v, v < nn c /\ rn (ns s v) <> RFin) ->
  exists a, node_of a < nn c /\ step c s a <> None.
Proof. exact Top.reachable_not_stuck. Qed.

(* termination: every action strictly decreases a natural-number potential, so every execution is finite *)
Theorem C05_terminates : forall (c : cfg) (len : nat -> nat) (s : st) (a : act) (s' : st),
  Inv c len s -> node_of a < nn c -> step c s a = Some s' -> Phi c len s' < Phi c len s.
Proof. exact Term.step_decreases. Qed.

(* no early return: a finished process has no task in flight and all producers of its files are finished; so when
   the sink (the driver, which consumes from every leaf) has finished, every process upstream of it that executes
   tasks has.  The statement is about file edges: the feeder of a parameter port may still be about to close its
   port when its consumer has finished ([C05_param_feeder_may_lag]); such a feeder executes no task, and the repaired
   runProcs waits for every started process before Run returns (C05_code_conforms, the WaitGroup in the skeleton) *)
Theorem C05_not_early : forall (c : cfg) (len : nat -> nat) (gc : gcfg),
  wf c len -> (forall v L, slen c v = Some L -> length (sitems gc v) = L) ->
  forall sched s g, sched_ok c sched -> grun c gc (init c) ginit sched = Some (s, g) ->
  forall v, v < nn c -> rn (ns s v) = RFin ->
  fl (ns s v) = [] /\ (forall y, In y (ins c v) -> epar c y = false -> rn (ns s (esrc c y)) = RFin).
Proof.
  intros c len gc WF SL sched s g Hok Hrun v Hv HF.
  destruct (reachable_inv c len gc WF sched s g Hok Hrun) as [I1 [I2 _]].
  exact (finished_upward c len s v I1 I2 Hv HF).
Qed.

(* when all have finished, every task was created, executed and its output emitted and received *)
Theorem C05_all_done_at_return : forall (c : cfg) (len : nat -> nat) (gc : gcfg),
  wf c len -> (forall v L, slen c v = Some L -> length (sitems gc v) = L) ->
  forall sched s g, sched_ok c sched -> grun c gc (init c) ginit sched = Some (s, g) -> final c s ->
  (forall v, v < nn c -> cN (ns s v) = len v /\ eN (ns s v) = len v /\ fl (ns s v) = []) /\
  (forall e, e < E c -> snt (es s e) = len (esrc c e) /\ rcv (es s e) = snt (es s e)).
Proof.
  intros c len gc WF SL sched s g Hok Hrun HF.
  destruct (reachable_inv c len gc WF sched s g Hok Hrun) as [I _].
  exact (final_complete c len WF s I HF).
Qed.

(* when Run returns no temp directory of the run is left: in the task / file-store machine, for every task DAG and every
   schedule of a run that did not start on left-overs, a task that is done (executed or skipped) has no temp directory
   and nothing in it *)
Theorem C05_no_leftovers : forall (c : TaskFS.cfg) (f0 : Result.fs) (left0 : nat -> bool) (l : list TaskFS.act) (s : TaskFS.st),
  (forall t, left0 t = false) -> TaskFS.run c (TaskFS.init c f0 left0) l = Some s ->
  forall t, TaskFS.is_done (TaskFS.pcs s t) = true -> TaskFS.tdir s t = false /\ forall x, TaskFS.tmp s t x = None.
Proof. exact TmpInv.no_leftovers. Qed.

(* a process with a file port (edge 0, from source 0) and a parameter port (edge 1, from feeder 1), empty streams:
   the process sees its file port closed, leaves the loop without reading the parameter port and finishes while
   the feeder has not yet closed *)
Definition lagcfg : cfg := {| nn := 3; edges := [(0,2);(1,2)]; slen := fun v => if Nat.ltb v 2 then Some 0 else None;
                              cap := 1; epar := fun e => Nat.eqb e 1 |}.
Theorem C05_param_feeder_may_lag :
  wf lagcfg (fun _ => 0) /\
  exists sched s, run lagcfg (init lagcfg) sched = Some s /\ rn (ns s 2) = RFin /\ rn (ns s 1) <> RFin.
Proof.
  split.
  - constructor; simpl.
    + intros e He. unfold E in He; simpl in He. unfold esrc, edst; simpl. destruct e as [|[|e]]; simpl; lia.
    + lia.
    + intros v L. destruct v as [|[|v]]; simpl; intros H; inversion H; subst; split; reflexivity.
    + intros v Hv. destruct v as [|[|[|v]]]; simpl in *; try discriminate; try lia.
    + reflexivity.
  - exists [ABegin 0 []; AFin 0; ABegin 2 [0; 1]; ARecv 2; AEndRound 2; AFin 2]. eexists. split; [vm_compute; reflexivity|].
    split; [reflexivity|discriminate].
Qed.

Theorem C05_nonvacuous : wf dia (fun _ => 2).
Proof. exact dia_wf. Qed.

(* ---- "whatever the stream lengths relative to buffer sizes and slot counts": the network composed with the task-slot
   machine (NetSlots).  A task handed over by createTasks is spawned into the slot machine, where it competes with every
   other task of the workflow for the maxConcurrentTasks tokens; the process sees its Done only once the slot machine has
   finished it.  For every network as above, every slot count, every cores-per-task assignment that the start-up check
   admits (cores <= slots), every schedule of the product: ---- *)

(* no reachable state is stuck while some process is unfinished *)
Theorem C05_with_slots_no_deadlock : forall (p : NetSlots.pcfg) (len : nat -> nat),
  Inv.wf (NetSlots.ncfg p) len -> (forall v, v < nn (NetSlots.ncfg p) -> NetSlots.pcores p v <= NetSlots.pcap p) ->
  forall (l : list NetSlots.pact) (s : NetSlots.pst),
  NetSlots.prun p (NetSlots.pinit p) l = Some s ->
  (exists v, v < nn (NetSlots.ncfg p) /\ rn (ns (NetSlots.net s) v) <> RFin) ->
  exists a, NetSlots.pstep p s a <> None.
Proof. exact NetSlots.product_not_stuck. Qed.

(* every step strictly decreases a natural-number measure: every execution of the product is finite *)
Theorem C05_with_slots_terminates : forall (p : NetSlots.pcfg) (len : nat -> nat),
  Inv.wf (NetSlots.ncfg p) len -> (forall v, v < nn (NetSlots.ncfg p) -> NetSlots.pcores p v <= NetSlots.pcap p) ->
  forall (l : list NetSlots.pact) (s : NetSlots.pst) (a : NetSlots.pact) (s' : NetSlots.pst),
  NetSlots.prun p (NetSlots.pinit p) l = Some s -> NetSlots.pstep p s a = Some s' ->
  NetSlots.pmeasure p len s' < NetSlots.pmeasure p len s.
Proof.
  intros p len WF FIT l s a s' R H.
  apply (NetSlots.product_step_decreases p len FIT s a s'); [|exact H].
  apply (NetSlots.prun_inv p len WF FIT l (NetSlots.pinit p) s); [|exact R].
  apply (NetSlots.pinit_inv p len).
Qed.

(* when every process has finished, every task that was spawned has gone through the slot machine to its end and all
   tokens are back: Run does not return with a task still holding or waiting for a slot *)
Theorem C05_with_slots_all_done : forall (p : NetSlots.pcfg) (len : nat -> nat),
  Inv.wf (NetSlots.ncfg p) len -> (forall v, v < nn (NetSlots.ncfg p) -> NetSlots.pcores p v <= NetSlots.pcap p) ->
  forall (l : list NetSlots.pact) (s : NetSlots.pst),
  NetSlots.prun p (NetSlots.pinit p) l = Some s ->
  (forall v, v < nn (NetSlots.ncfg p) -> rn (ns (NetSlots.net s) v) = RFin) ->
  (forall k t, nth_error (Slots.tasks (NetSlots.sl s)) k = Some t -> Slots.st t = Slots.Finished)
  /\ Slots.tokens (NetSlots.sl s) = 0.
Proof. exact NetSlots.product_all_done. Qed.

(* a run of the product that cannot be extended has finished everything -- with C05_with_slots_terminates: every execution
   is finite and ends exactly when all work is done *)
Theorem C05_with_slots_maximal : forall (p : NetSlots.pcfg) (len : nat -> nat),
  Inv.wf (NetSlots.ncfg p) len -> (forall v, v < nn (NetSlots.ncfg p) -> NetSlots.pcores p v <= NetSlots.pcap p) ->
  forall (l : list NetSlots.pact) (s : NetSlots.pst),
  NetSlots.prun p (NetSlots.pinit p) l = Some s -> (forall a, NetSlots.pstep p s a = None) ->
  (forall v, v < nn (NetSlots.ncfg p) -> rn (ns (NetSlots.net s) v) = RFin) /\
  (forall k t, nth_error (Slots.tasks (NetSlots.sl s)) k = Some t -> Slots.st t = Slots.Finished) /\
  Slots.tokens (NetSlots.sl s) = 0.
Proof. exact NetSlots.product_maximal_run_completes. Qed.

(* non-vacuity of the product: the diamond with two slots and a process that asks for both *)
Theorem C05_with_slots_nonvacuous :
  Inv.wf (NetSlots.ncfg NetSlots.pdia) (fun _ => 2)
  /\ (forall v, v < nn (NetSlots.ncfg NetSlots.pdia) -> NetSlots.pcores NetSlots.pdia v <= NetSlots.pcap NetSlots.pdia).
Proof. split; [exact Top.dia_wf|exact NetSlots.pdia_fit]. Qed.

(* ---- fan-in into the in-ports of one process (FanIn.v).  The network theorems above are about merge-free graphs.  With
   several producers feeding the same in-ports, the sequential blocking sends of the producers and the sequential blocking
   receives of the consumer can wait for each other.  For every number of producers and channels, every choice of send and
   receive orders (a new one in every round, as Go's map iteration gives), every number of rounds and every schedule: if
   the buffer has room for one item per producer, no reachable state is stuck before everything has been sent and
   received ... *)
Theorem C05_fanin_no_deadlock : forall (m : nat) (ps : list (list nat * nat)) (co : list nat) (cp : nat) (l : list FanIn.act) (s : FanIn.st),
  FanIn.wf_in m ps co -> length ps <= cp -> FanIn.run (FanIn.init m ps co cp) l = Some s -> ~ FanIn.finished m s ->
  exists a, FanIn.step s a <> None.
Proof. exact FanIn.fanin_no_deadlock. Qed.

(* ... every step strictly decreases the number of sends and receives still to come, so every execution is finite, and a run
   that cannot be extended has sent and received everything *)
Theorem C05_fanin_terminates : forall (m : nat) (s : FanIn.st) (a : FanIn.act) (s' : FanIn.st),
  FanIn.Inv m s -> FanIn.step s a = Some s' -> FanIn.measure m s' < FanIn.measure m s.
Proof. exact FanIn.fanin_step_decreases. Qed.

Theorem C05_fanin_maximal : forall (m : nat) (ps : list (list nat * nat)) (co : list nat) (cp : nat) (l : list FanIn.act) (s : FanIn.st),
  FanIn.wf_in m ps co -> length ps <= cp -> FanIn.run (FanIn.init m ps co cp) l = Some s -> (forall a, FanIn.step s a = None) ->
  Forall (fun p => FanIn.left p = 0) (FanIn.prods s) /\ forall ch, ch < m -> FanIn.q s ch = 0.
Proof. exact FanIn.fanin_maximal_run_completes. Qed.

(* ... and with a smaller buffer the statement is false (finding D21): two producers, three shared in-ports, buffer size 1 --
   a reachable state in which a producer still has items and no action is possible, whatever order it proposes (replayed on
   the real library with SCIPIPE_BUFSIZE=1) *)
Theorem C05_fanin_small_buffer_refuted :
  exists sched s, FanIn.run (FanIn.d21 1) sched = Some s /\ (forall a, FanIn.step s a = None)
                  /\ Exists (fun p => FanIn.left p <> 0) (FanIn.prods s).
Proof. exact FanIn.fanin_deadlock. Qed.

(* the hypotheses of C05_fanin_no_deadlock are satisfiable: the configuration of the finding, with buffer size 2 *)
Theorem C05_fanin_nonvacuous :
  FanIn.wf_in 3 [([0; 1; 2], 1); ([1; 0; 2], 1)] [2; 0; 1] /\ length [([0; 1; 2], 1); ([1; 0; 2], 1)] <= 2.
Proof. exact FanIn.fanin_wf_example. Qed.

(* ---- a streamed and a regular output of one task into one consumer (finding D23, recorded) ----
   StreamReg: Process.Run sends a task's streamed out-IPs before the task executes and its regular ones after it has
   finished; the consumer forms its task when every in-port has delivered; a command writing a FIFO ends only after a reader
   opened it.  With the stream alone every state short of the end can move and every run is at most 7 steps long ... *)
Theorem C05_stream_only_progress : forall l s,
  StreamReg.run false StreamReg.init l = Some s -> StreamReg.final s = false -> StreamReg.stuck false s = false.
Proof. exact StreamReg.stream_only_progress. Qed.

Theorem C05_stream_reg_step_decreases : forall both s a s',
  StreamReg.step both s a = Some s' -> StreamReg.measure s' < StreamReg.measure s.
Proof. exact StreamReg.step_decreases. Qed.

Theorem C05_stream_only_nonvacuous :
  exists s, StreamReg.run false StreamReg.init
              [StreamReg.SendStream; StreamReg.StartCmd; StreamReg.Form; StreamReg.WriteAll; StreamReg.ReadAll;
               StreamReg.Finish; StreamReg.SendReg] = Some s /\ StreamReg.final s = true.
Proof. exact StreamReg.stream_only_example. Qed.

(* ... with the regular output read by the same consumer the property fails for this wiring: no run ever completes (the
   consumer never forms its task, the producer's command never gets past open()), and after two steps nothing can move *)
Theorem C05_stream_and_regular_refuted :
  (forall l s, StreamReg.run true StreamReg.init l = Some s -> StreamReg.final s = false) /\
  (exists s, StreamReg.run true StreamReg.init [StreamReg.SendStream; StreamReg.StartCmd] = Some s
             /\ StreamReg.stuck true s = true /\ StreamReg.final s = false).
Proof. split; [exact StreamReg.both_refuted | exact StreamReg.both_is_stuck]. Qed.

(* T1, call cones: every function of scipipe that the functions above can reach (calls and function values, interface calls
   resolved to every implementation) is one the models were compared with -- a helper that is new to the cone, or a new call
   of an old one, changes a list (the lists are regenerated from /repo on every run; ExpectedCones.v holds the accepted ones) *)
Theorem C05_cone_conforms :
  strs_eqb cone_Workflow_runProcs exp_cone_Workflow_runProcs
  && strs_eqb cone_Workflow_Run exp_cone_Workflow_Run
  && strs_eqb cone_Workflow_reconnectDeadEndConnections exp_cone_Workflow_reconnectDeadEndConnections
  && strs_eqb cone_Sink_Run exp_cone_Sink_Run
  && strs_eqb cone_Process_Run exp_cone_Process_Run
  && strs_eqb cone_Process_createTasks exp_cone_Process_createTasks
  && strs_eqb cone_BaseProcess_CloseOutPorts exp_cone_BaseProcess_CloseOutPorts
  && strs_eqb cone_OutPort_Close exp_cone_OutPort_Close
  && strs_eqb cone_InPort_CloseConnection exp_cone_InPort_CloseConnection
  && strs_eqb cone_Task_Execute exp_cone_Task_Execute
  && strs_eqb cone_Workflow_IncConcurrentTasks exp_cone_Workflow_IncConcurrentTasks
  && strs_eqb cone_Workflow_DecConcurrentTasks exp_cone_Workflow_DecConcurrentTasks
  && strs_eqb cone_FinalizePaths exp_cone_FinalizePaths = true.
Proof. vm_compute. reflexivity. Qed.

Print Assumptions C05_code_conforms.
Print Assumptions C05_no_deadlock.
Print Assumptions C05_terminates.
Print Assumptions C05_not_early.
Print Assumptions C05_all_done_at_return.
Print Assumptions C05_no_leftovers.
Print Assumptions C05_param_feeder_may_lag.
Print Assumptions C05_nonvacuous.
Print Assumptions C05_with_slots_no_deadlock.
Print Assumptions C05_with_slots_terminates.
Print Assumptions C05_with_slots_all_done.
Print Assumptions C05_with_slots_maximal.
Print Assumptions C05_with_slots_nonvacuous.
Print Assumptions C05_fanin_no_deadlock.
Print Assumptions C05_fanin_terminates.
Print Assumptions C05_fanin_maximal.
Print Assumptions C05_fanin_small_buffer_refuted.
Print Assumptions C05_fanin_nonvacuous.
Print Assumptions C05_stream_only_progress.
Print Assumptions C05_stream_reg_step_decreases.
Print Assumptions C05_stream_only_nonvacuous.
Print Assumptions C05_stream_and_regular_refuted.
Print Assumptions C05_cone_conforms.
