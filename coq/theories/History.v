(* C03 for every history: any finite sequence of runs, each killed at an arbitrary instant at which no task is strictly
   between two of its renames (and started with or without left-over temp dirs), followed by a run that completes,
   ends with the files of the uninterrupted run. *)
From Coq Require Import List Arith Lia Bool PeanoNat.
Import ListNotations.
From SP Require Import Result TaskFS TInv TPres Glue Cor TaskTop.

Section History.
Variable c : cfg.
Hypothesis WF : wfc c.
Variable f0 fR : fs.
Hypothesis HR : pre c f0 (nt c) = Some fR.

(* the stores a history of interrupted runs can leave behind *)
Inductive hist : fs -> Prop :=
| H_start : hist f0
| H_crash f left s : hist f -> reachable c f left s -> finalize_atomic c s -> hist (fin s).

Lemma between_refl : between (tl c (nt c)) f0 f0 fR.
Proof. split; [reflexivity|]. intros t _. left. intros x _. reflexivity. Qed.

Lemma hist_between f : hist f -> between (tl c (nt c)) f0 f fR.
Proof.
  induction 1 as [|f left s Hh IH R FA]; [apply between_refl|].
  destruct (C03_converges (tl c (nt c)) f0 f fR (wfc_wf c WF) HR IH) as [fR' [HR' Eq]].
  destruct (crash_between c f left WF fR' HR' s R FA) as [Hout Hbt].
  destruct IH as [I1 I2]. split.
  - intros x Hx. rewrite Hout.
    + apply I1. exact Hx.
    + intros t Ht Hin. apply (Hx (tk c t)); [apply in_tl; exists t; split; auto|exact Hin].
  - intros t Ht. pose proof Ht as Ht'. apply in_tl in Ht'. destruct Ht' as [i [Hi ->]].
    destruct (Hbt i Hi) as [A|A].
    + destruct (I2 _ Ht) as [B|B]; [left|right]; intros x Hx; rewrite A by assumption; apply B; assumption.
    + right. intros x Hx. rewrite A by assumption. apply Eq.
Qed.

(* whatever the history, the next run that is allowed to finish computes the uninterrupted result ... *)
Theorem any_history_converges f : hist f ->
  exists fR', result (tl c (nt c)) f = Some fR' /\ forall x, fR' x = fR x.
Proof. intros H. exact (C03_converges (tl c (nt c)) f0 f fR (wfc_wf c WF) HR (hist_between f H)). Qed.

(* ... and so does every concurrent execution of it: when all its tasks are done, every declared output holds the
   content of the uninterrupted run *)
Theorem any_history_run_completes f left s : hist f -> reachable c f left s ->
  (forall t, t < nt c -> is_done (pcs s t) = true) ->
  forall t x, t < nt c -> In x (tout (tk c t)) -> fin s x = fR x.
Proof.
  intros H R HD t x Ht Hx. destruct (any_history_converges f H) as [fR' [HR' Eq]].
  rewrite (complete_is_result c f left WF fR' HR' s R HD t x Ht Hx). apply Eq.
Qed.

End History.
