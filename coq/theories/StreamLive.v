(* C17 liveness: with at least two slots and a pipe of capacity >= 1 the streaming pair never gets stuck before both
   tasks are done and the pipe is removed -- for every payload and every schedule. *)
From Coq Require Import List Arith Lia Bool.
Import ListNotations.
From SP Require Import Stream.

Definition hp (p : ppc) : nat := match p with POpening | PWriting _ | PExited | PAudited => 1 | _ => 0 end.
Definition hc (q : cpc) : nat := match q with COpening | CReading | CExited | CAudited _ | CFinal => 1 | _ => 0 end.
Definition c_opened (q : cpc) : bool := match q with CReading | CDraining | CExited | CAudited _ | CFinal | CReleased | CDone => true | _ => false end.
Definition c_exited (q : cpc) : bool := match q with CExited | CAudited _ | CFinal | CReleased | CDone => true | _ => false end.
Definition p_opened (p : ppc) : bool := match p with PWaitSlot | POpening => false | _ => true end.
Definition p_exited (p : ppc) : bool := match p with PExited | PAudited | PReleased | PDone => true | _ => false end.

(* what the pair holds of the shared slot tokens *)
Definition held (s : st) : nat := hp (pp s) + hc (cp s).
(* what it may hold at most: the producer's slot, and the consumer's unless the consumer is skipped *)
Definition demand (c : cfg) : nat := if skip c then 1 else 2.

(* the part of the invariant that does not mention the tokens *)
Record LInvO (s : st) : Prop := {
  l_open : c_opened (cp s) = p_opened (pp s);
  l_closed : wclosed s = p_exited (pp s);
  l_cexit : c_exited (cp s) = true -> wclosed s = true
}.
Record LInv (s : st) : Prop := { l_tok : tokens s = held s; l_o : LInvO s }.

Lemma init_linvO c : LInvO (init c).
Proof. constructor; simpl; auto; discriminate. Qed.
Lemma init_linv c : LInv (init c).
Proof. constructor; [reflexivity|apply init_linvO]. Qed.

Ltac step_cases H s :=
  unfold step in H;
  destruct (pp s) eqn:P; destruct (cp s) eqn:Q; simpl in *; try discriminate;
    repeat match type of H with
           | (if ?b then _ else _) = _ => destruct b eqn:?; try discriminate
           | match ?l with [] => _ | _ :: _ => _ end = _ => destruct l eqn:?; try discriminate
           end;
    injection H as <-.

Lemma step_linvO c s a s' : LInvO s -> step c s a = Some s' -> LInvO s'.
Proof.
  intros [I2 I3 I4] H.
  destruct a; step_cases H s; constructor; simpl; rewrite ?P, ?Q; simpl; auto; try discriminate; try congruence;
    try (destruct (skip c); simpl; auto; try discriminate; fail);
    try (intros _; rewrite I3 in *; simpl in *; congruence).
Qed.

(* token accounting: a step changes the shared counter by exactly what the pair's holding changes *)
Lemma step_tokens c s a s' : held s <= tokens s -> step c s a = Some s' -> tokens s' + held s = tokens s + held s'.
Proof.
  unfold held. intros G H.
  destruct a; step_cases H s; simpl; rewrite ?P, ?Q; simpl; try lia;
    try (destruct (skip c); simpl; lia).
Qed.

Lemma step_linv c s a s' : LInv s -> step c s a = Some s' -> LInv s'.
Proof.
  intros [T O] H. constructor; [|eapply step_linvO; eauto].
  pose proof (step_tokens c s a s' ltac:(lia) H). lia.
Qed.

Lemma run_linv c l : forall s s', LInv s -> run c s l = Some s' -> LInv s'.
Proof.
  induction l as [|a l IH]; simpl; intros s s' I H.
  - injection H as <-. exact I.
  - destruct (step c s a) as [s1|] eqn:E; [|discriminate]. apply (IH s1 s'); auto. eapply step_linv; eauto.
Qed.

Definition finished (s : st) : Prop := pp s = PDone /\ cp s = CDone /\ fifo s = false.

(* progress of one pair, given that a task of the pair that waits for a slot can get one *)
Lemma pair_progress c s :
  LInvO s -> 1 <= pipecap c ->
  (pp s = PWaitSlot \/ cp s = CWaitSlot -> tokens s < slots c) ->
  fifo s = true \/ pp s <> PDone \/ cp s <> CDone ->
  exists a, step c s a <> None.
Proof.
  intros [I2 I3 I4] Hc Tok Hun.
  assert (rd : cp s = CReading \/ cp s = CDraining -> exists a, step c s a <> None).
  { intros Q. destruct (buf s) as [|b r] eqn:B.
    - destruct (pp s) as [| |rest| | | |] eqn:P; try (destruct Q as [Q|Q]; rewrite Q in I2; simpl in I2; discriminate).
      + destruct rest as [|x rest].
        * exists PExit. simpl. rewrite P. discriminate.
        * exists PWrite. simpl. rewrite P, B. simpl.
          assert (T : 0 < pipecap c) by lia. apply Nat.ltb_lt in T. rewrite T. discriminate.
      + exists CEof. simpl. destruct Q as [Q|Q]; rewrite Q, B, I3; simpl; discriminate.
      + exists CEof. simpl. destruct Q as [Q|Q]; rewrite Q, B, I3; simpl; discriminate.
      + exists CEof. simpl. destruct Q as [Q|Q]; rewrite Q, B, I3; simpl; discriminate.
      + exists CEof. simpl. destruct Q as [Q|Q]; rewrite Q, B, I3; simpl; discriminate.
    - exists CRead. simpl. destruct Q as [Q|Q]; rewrite Q, B; discriminate. }
  assert (op : cp s = COpening \/ cp s = CSkipOpen -> exists a, step c s a <> None).
  { intros Q. destruct (pp s) eqn:P; try (destruct Q as [Q|Q]; rewrite Q in I2; simpl in I2; discriminate).
    - exists PAcquire. simpl. rewrite P.
      assert (T : tokens s < slots c) by (apply Tok; auto). apply Nat.ltb_lt in T. rewrite T. discriminate.
    - exists AOpenBoth. simpl. rewrite P. destruct Q as [Q|Q]; rewrite Q; discriminate. }
  destruct (cp s) eqn:Q; auto.
  - (* CNone *) exists AForward. simpl. rewrite Q. discriminate.
  - (* CWaitSlot *) exists CAcquire. simpl. rewrite Q.
    assert (T : tokens s < slots c) by (apply Tok; auto). apply Nat.ltb_lt in T. rewrite T. discriminate.
  - exists CAudit. simpl. rewrite Q. discriminate.
  - exists CFinalize. simpl. rewrite Q. discriminate.
  - exists CRelease. simpl. rewrite Q. discriminate.
  - exists CDoneA. simpl. rewrite Q. discriminate.
  - (* CDone *) destruct (pp s) as [| |rest| | | |] eqn:P; simpl in I2; try discriminate.
    + specialize (I4 eq_refl). rewrite I3 in I4. simpl in I4. discriminate.
    + exists PSetAudit. simpl. rewrite P. discriminate.
    + exists PRelease. simpl. rewrite P. discriminate.
    + exists PDoneA. simpl. rewrite P. discriminate.
    + destruct Hun as [F|[F|F]]; try congruence.
      exists ARemoveFifo. simpl. rewrite P, F. discriminate.
Qed.

(* a pair never holds more than its demand, and strictly less while one of its tasks waits for a slot *)
Lemma held_le_demand c s : DInv c s -> held s <= demand c.
Proof.
  intros [_ [_ [_ [H4 _]]]]. unfold held, demand. destruct (skip c).
  - destruct H4 as [_ K]. destruct (cp s); simpl in *; try discriminate; destruct (pp s); simpl; lia.
  - destruct (cp s); destruct (pp s); simpl; lia.
Qed.

Lemma held_lt_demand c s : DInv c s -> pp s = PWaitSlot \/ cp s = CWaitSlot -> held s < demand c.
Proof.
  intros [_ [_ [_ [H4 _]]]] W. unfold held, demand. destruct (skip c).
  - destruct H4 as [_ K]. destruct W as [W|W]; rewrite W in *; simpl in *; try discriminate.
    destruct (cp s); simpl in *; try discriminate; lia.
  - destruct W as [W|W]; rewrite W; simpl; [destruct (cp s)|destruct (pp s)]; simpl; lia.
Qed.

(* progress *)
Theorem stream_progress c l s :
  demand c <= slots c -> 1 <= pipecap c ->
  run c (init c) l = Some s -> fifo s = true \/ pp s <> PDone \/ cp s <> CDone ->
  exists a, step c s a <> None.
Proof.
  intros Hs Hc R Hun. pose proof (run_linv c l _ _ (init_linv c) R) as [T O].
  pose proof (run_dinv c l _ _ (init_dinv c) R) as D.
  apply pair_progress; auto. intros W. pose proof (held_lt_demand c s D W). lia.
Qed.

(* termination: a natural-number measure strictly decreases with every action *)
Definition prank (p : ppc) : nat :=
  match p with PWaitSlot => 6 | POpening => 5 | PWriting _ => 4 | PExited => 3 | PAudited => 2 | PReleased => 1 | PDone => 0 end.
Definition crank (q : cpc) : nat :=
  match q with CNone => 8 | CWaitSlot => 7 | COpening => 6 | CSkipOpen => 6 | CReading => 5 | CDraining => 5 | CExited => 4 | CAudited _ => 3 | CFinal => 2 | CReleased => 1 | CDone => 0 end.
Definition measure (c : cfg) (s : st) : nat :=
  2 * length (prest (pp s) c) + length (buf s) + prank (pp s) + crank (cp s) + (if fifo s then 1 else 0).

Theorem stream_step_decreases c s a s' : step c s a = Some s' -> measure c s' < measure c s.
Proof.
  intros H. unfold step in H.
  destruct a; destruct (pp s) eqn:P; destruct (cp s) eqn:Q; simpl in *; try discriminate;
    repeat match type of H with
           | (if ?b then _ else _) = _ => destruct b eqn:?; try discriminate
           | match ?l with [] => _ | _ :: _ => _ end = _ => destruct l eqn:?; try discriminate
           end;
    injection H as <-; unfold measure; simpl; rewrite ?P, ?Q; simpl; rewrite ?app_length; simpl;
    repeat match goal with E : buf s = _ |- _ => rewrite E; clear E end;
    repeat match goal with E : fifo s = _ |- _ => rewrite E; clear E end; simpl; try lia;
    destruct (skip c); simpl; lia.
Qed.
