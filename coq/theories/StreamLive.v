(* C17 liveness: with at least two slots and a pipe of capacity >= 1 the streaming pair never gets stuck before both
   tasks are done and the pipe is removed -- for every payload and every schedule. *)
From Coq Require Import List Arith Lia Bool.
Import ListNotations.
From SP Require Import Stream.

Definition hp (p : ppc) : nat := match p with POpening | PWriting _ | PExited | PAudited => 1 | _ => 0 end.
Definition hc (q : cpc) : nat := match q with COpening | CReading | CExited | CAudited _ | CFinal => 1 | _ => 0 end.
Definition c_opened (q : cpc) : bool := match q with CReading | CExited | CAudited _ | CFinal | CReleased | CDone => true | _ => false end.
Definition c_exited (q : cpc) : bool := match q with CExited | CAudited _ | CFinal | CReleased | CDone => true | _ => false end.
Definition p_opened (p : ppc) : bool := match p with PWaitSlot | POpening => false | _ => true end.
Definition p_exited (p : ppc) : bool := match p with PExited | PAudited | PReleased | PDone => true | _ => false end.

Record LInv (s : st) : Prop := {
  l_tok : tokens s = hp (pp s) + hc (cp s);
  l_open : c_opened (cp s) = p_opened (pp s);
  l_closed : wclosed s = p_exited (pp s);
  l_cexit : c_exited (cp s) = true -> wclosed s = true
}.

Lemma init_linv c : LInv (init c).
Proof. constructor; simpl; auto; discriminate. Qed.

Lemma step_linv c s a s' : LInv s -> step c s a = Some s' -> LInv s'.
Proof.
  intros [I1 I2 I3 I4] H. unfold step in H.
  destruct a; destruct (pp s) eqn:P; destruct (cp s) eqn:Q; simpl in *; try discriminate;
    repeat match type of H with
           | (if ?b then _ else _) = _ => destruct b eqn:?; try discriminate
           | match ?l with [] => _ | _ :: _ => _ end = _ => destruct l eqn:?; try discriminate
           end;
    injection H as <-; constructor; simpl; rewrite ?P, ?Q; simpl; auto; try lia; try discriminate; try congruence;
    try (intros _; rewrite I3 in *; simpl in *; congruence).
Qed.

Lemma run_linv c l : forall s s', LInv s -> run c s l = Some s' -> LInv s'.
Proof.
  induction l as [|a l IH]; simpl; intros s s' I H.
  - injection H as <-. exact I.
  - destruct (step c s a) as [s1|] eqn:E; [|discriminate]. apply (IH s1 s'); auto. eapply step_linv; eauto.
Qed.

Definition finished (s : st) : Prop := pp s = PDone /\ cp s = CDone /\ fifo s = false.

(* progress *)
Theorem stream_progress c l s :
  2 <= slots c -> 1 <= pipecap c ->
  run c (init c) l = Some s -> fifo s = true \/ pp s <> PDone \/ cp s <> CDone ->
  exists a, step c s a <> None.
Proof.
  intros Hs Hc R Hun. pose proof (run_linv c l _ _ (init_linv c) R) as [I1 I2 I3 I4].
  destruct (cp s) eqn:Q.
  - (* CNone *) exists AForward. simpl. rewrite Q. discriminate.
  - (* CWaitSlot *) exists CAcquire. simpl. rewrite Q.
    assert (T : tokens s < slots c) by (rewrite I1; simpl; destruct (pp s); simpl; lia).
    apply Nat.ltb_lt in T. rewrite T. discriminate.
  - (* COpening *) destruct (pp s) eqn:P; simpl in I2; try discriminate.
    + exists PAcquire. simpl. rewrite P.
      assert (T : tokens s < slots c) by (rewrite I1; simpl; lia). apply Nat.ltb_lt in T. rewrite T. discriminate.
    + exists AOpenBoth. simpl. rewrite P, Q. discriminate.
  - (* CReading *) destruct (buf s) as [|b r] eqn:B.
    + destruct (pp s) as [| |rest| | | |] eqn:P; simpl in I2; try discriminate.
      * destruct rest as [|x rest].
        -- exists PExit. simpl. rewrite P. discriminate.
        -- exists PWrite. simpl. rewrite P, B. simpl.
           assert (T : 0 < pipecap c) by lia. apply Nat.ltb_lt in T. rewrite T. discriminate.
      * exists CEof. simpl. rewrite Q, B, I3. simpl. discriminate.
      * exists CEof. simpl. rewrite Q, B, I3. simpl. discriminate.
      * exists CEof. simpl. rewrite Q, B, I3. simpl. discriminate.
      * exists CEof. simpl. rewrite Q, B, I3. simpl. discriminate.
    + exists CRead. simpl. rewrite Q, B. discriminate.
  - exists CAudit. simpl. rewrite Q. discriminate.
  - exists CFinalize. simpl. rewrite Q. discriminate.
  - exists CRelease. simpl. rewrite Q. discriminate.
  - exists CDoneA. simpl. rewrite Q. discriminate.
  - (* CDone *) destruct (pp s) as [| |rest| | | |] eqn:P; simpl in I2; try discriminate.
    + specialize (I4 eq_refl). rewrite I3 in I4. simpl in I4. discriminate.
    + exists PSetAudit. simpl. rewrite P. discriminate.
    + exists PRelease. simpl. rewrite P. discriminate.
    + exists PDoneA. simpl. rewrite P. discriminate.
    + destruct Hun as [F|[F|F]]; try congruence.
      exists ARemoveFifo. simpl. rewrite P, F. discriminate.
Qed.

(* termination: a natural-number measure strictly decreases with every action *)
Definition prank (p : ppc) : nat :=
  match p with PWaitSlot => 6 | POpening => 5 | PWriting _ => 4 | PExited => 3 | PAudited => 2 | PReleased => 1 | PDone => 0 end.
Definition crank (q : cpc) : nat :=
  match q with CNone => 8 | CWaitSlot => 7 | COpening => 6 | CReading => 5 | CExited => 4 | CAudited _ => 3 | CFinal => 2 | CReleased => 1 | CDone => 0 end.
Definition measure (c : cfg) (s : st) : nat :=
  2 * length (prest (pp s) c) + length (buf s) + prank (pp s) + crank (cp s) + (if fifo s then 1 else 0).

Theorem stream_step_decreases c s a s' : step c s a = Some s' -> measure c s' < measure c s.
Proof.
  intros H. unfold step in H.
  destruct a; destruct (pp s) eqn:P; destruct (cp s) eqn:Q; simpl in *; try discriminate;
    repeat match type of H with
           | (if ?b then _ else _) = _ => destruct b eqn:?; try discriminate
           | match ?l with [] => _ | _ :: _ => _ end = _ => destruct l eqn:?; try discriminate
           end;
    injection H as <-; unfold measure; simpl; rewrite ?P, ?Q; simpl; rewrite ?app_length; simpl;
    repeat match goal with E : buf s = _ |- _ => rewrite E; clear E end;
    repeat match goal with E : fifo s = _ |- _ => rewrite E; clear E end; simpl; try lia.
Qed.
