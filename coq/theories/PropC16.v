(* C16 -- Only fully wired workflows run; RunTo executes exactly the upstream closure. *)
From Coq Require Import List Arith Lia Bool String.
Import ListNotations.
From SP Require Import Skel Gen Expected ExpectedCones Wiring Wiring2 Ready.
From SP Require SinkDrain.

(* T1: the wiring code *)
Theorem C16_code_conforms :
  skel_eqb skel_Workflow_runProcs exp_Workflow_runProcs
  && skel_eqb skel_Workflow_readyToRun exp_Workflow_readyToRun
  && skel_eqb skel_Workflow_reconnectDeadEndConnections exp_Workflow_reconnectDeadEndConnections
  && skel_eqb skel_Workflow_RunToProcs exp_Workflow_RunToProcs
  && skel_eqb skel_Workflow_Run exp_Workflow_Run
  && skel_eqb skel_upstreamProcsForProc exp_upstreamProcsForProc
  && skel_eqb skel_collectUpstreamProcs exp_collectUpstreamProcs
  && skel_eqb skel_BaseProcess_Ready exp_BaseProcess_Ready
  && skel_eqb skel_InPort_From exp_InPort_From && skel_eqb skel_OutPort_To exp_OutPort_To
  && skel_eqb skel_OutPort_Disconnect exp_OutPort_Disconnect && skel_eqb skel_InPort_Disconnect exp_InPort_Disconnect = true.
Proof. vm_compute. reflexivity. Qed.

(* the readiness check (which fails the program) comes after the reconnection of dangling out-ports and before any process is started *)
Theorem C16_refuses_before_start :
  match exp_Workflow_runProcs with
  | SCall r :: SIf c [SFail] [] :: SFunc f _ :: SRange _ _ :: _ =>
      String.eqb r "wf.reconnectDeadEndConnections" && String.eqb c "!wf.readyToRun(procs)" && String.eqb f "startProc"
  | _ => false
  end = true.
Proof. vm_compute. reflexivity. Qed.

(* the readiness check covers every process that is started, the process that replaces the sink as driver included
   (readyToRun tests it explicitly: it may have been deleted from the map the check ranges over) *)
Theorem C16_driver_is_checked :
  existsb (fun s => match s with
                    | SIf c [SReturn r] [] => String.eqb c "wf.driver != nil && wf.driver != WorkflowProcess(wf.sink) && !wf.driver.Ready()" && String.eqb r "false"
                    | _ => false end) exp_Workflow_readyToRun = true.
Proof. vm_compute. reflexivity. Qed.

Theorem C16_started_are_checked : forall (noout : nat -> bool) (aliased : bool) (sel : list nat) (p : nat),
  In p (started noout aliased sel) -> In p (checked noout aliased sel).
Proof. intros noout aliased sel p. exact (Ready.started_are_checked noout (fun _ => true) aliased sel p). Qed.

Theorem C16_unready_refused : forall (noout ready : nat -> bool) (aliased : bool) (sel : list nat) (p : nat),
  In p (started noout aliased sel) -> ready p = false -> run_starts noout ready (checked noout aliased sel) aliased sel = [].
Proof. exact Ready.unready_refused. Qed.

Theorem C16_ready_runs : forall (noout ready : nat -> bool) (aliased : bool) (sel : list nat),
  (forall p, In p sel -> ready p = true) -> run_starts noout ready (checked noout aliased sel) aliased sel = started noout aliased sel.
Proof. exact Ready.ready_runs. Qed.

Theorem C16_driver_unchecked_refuted_before_repair :
  let noout := fun p => Nat.eqb p 1 in
  let ready := fun p => negb (Nat.eqb p 1) in
  run_starts noout ready (checked_before noout true [0; 1]) true [0; 1] = [0; 1] /\
  run_starts noout ready (checked noout true [0; 1]) true [0; 1] = [].
Proof. exact Ready.driver_unchecked_before_repair. Qed.

(* the ready flag of a port means exactly "has a remote port", after any sequence of connect / disconnect operations *)
Theorem C16_ready_flag : forall ops : list wop,
  let w := fold_left apply_op ops Wiring2.empty in OutInv w /\ InInv w.
Proof. exact Wiring2.ready_flag_invariant. Qed.

(* out-ports that nobody (selected) consumes are drained automatically: after the reconnection step the port is ready and
   has a consumer -- the sink if nobody else -- and the flags are still exact *)
Theorem C16_dangling_drained : forall (sel : nat -> bool) (w : wiring) (o : nat), OutInv w -> InInv w ->
  let w' := reconnect_port sel w o in oready w' o = true /\ orem w' o <> [] /\ OutInv w' /\ InInv w'.
Proof. exact Wiring2.dangling_drained. Qed.

(* the recursive upstream collection is exactly the transitive closure of the producer relation, on every acyclic graph,
   and fuel = number of processes suffices *)
Theorem C16_closure : forall (preds : nat -> list nat), (forall v u, In u (preds v) -> u < v) ->
  forall fuel v, v <= fuel -> forall u, In u (up preds fuel v) <-> reach preds u v.
Proof. exact Wiring.up_is_closure. Qed.

(* RunTo: the set of started processes is the targets plus everything upstream of a target -- nothing else *)
Theorem C16_runto_exact : forall (preds : nat -> list nat), (forall v u, In u (preds v) -> u < v) ->
  forall fuel targets, (forall t, In t targets -> t <= fuel) ->
  forall p, In p (run_set preds fuel targets) <-> exists t, In t targets /\ (p = t \/ reach preds p t).
Proof. exact Wiring.C16_run_set. Qed.

(* every producer of a started process is started: started processes keep all their upstream connections *)
Theorem C16_closed_upward : forall (preds : nat -> list nat), (forall v u, In u (preds v) -> u < v) ->
  forall fuel targets p u, (forall t, In t targets -> t <= fuel) ->
  In p (run_set preds fuel targets) -> In u (preds p) -> In u (run_set preds fuel targets).
Proof. exact Wiring.C16_closed_upward. Qed.

(* non-vacuity: a diamond 0 -> {1,2} -> 3 plus an unrelated 4; RunTo(1) selects {1,0} *)
Definition ex_preds (v : nat) : list nat := match v with 1 => [0] | 2 => [0] | 3 => [1; 2] | _ => [] end.
Theorem C16_example : run_set ex_preds 5 [1] = [1; 0] /\ run_set ex_preds 5 [3] = [3; 1; 0; 2; 0].
Proof. split; reflexivity. Qed.

(* T1, call cones: every function of scipipe that the functions above can reach (calls and function values, interface calls
   resolved to every implementation) is one the models were compared with -- a helper that is new to the cone, or a new call
   of an old one, changes a list (the lists are regenerated from /repo on every run; ExpectedCones.v holds the accepted ones) *)
Theorem C16_cone_conforms :
  strs_eqb cone_Workflow_runProcs exp_cone_Workflow_runProcs
  && strs_eqb cone_Workflow_readyToRun exp_cone_Workflow_readyToRun
  && strs_eqb cone_Workflow_reconnectDeadEndConnections exp_cone_Workflow_reconnectDeadEndConnections
  && strs_eqb cone_Workflow_RunToProcs exp_cone_Workflow_RunToProcs
  && strs_eqb cone_Workflow_Run exp_cone_Workflow_Run
  && strs_eqb cone_upstreamProcsForProc exp_cone_upstreamProcsForProc
  && strs_eqb cone_collectUpstreamProcs exp_cone_collectUpstreamProcs
  && strs_eqb cone_BaseProcess_Ready exp_cone_BaseProcess_Ready
  && strs_eqb cone_InPort_From exp_cone_InPort_From
  && strs_eqb cone_OutPort_To exp_cone_OutPort_To
  && strs_eqb cone_OutPort_Disconnect exp_cone_OutPort_Disconnect
  && strs_eqb cone_InPort_Disconnect exp_cone_InPort_Disconnect = true.
Proof. vm_compute. reflexivity. Qed.

(* ---- the sink: out-ports nobody consumes (dangling, or cut off by RunTo) are drained ----
   SinkDrain: Sink.Run reads its file in-port and its parameter in-port at the same time; an upstream that feeds both (a
   combinator with dangling out-ports) sends in an order of its own and closes only after its last send.  With both ports read
   concurrently every state short of the end can move, whatever the order and the buffer sizes, and every step uses up the
   measure ... *)
Theorem C16_sink_concurrent_progress : forall capf capp s, 1 <= capf -> 1 <= capp ->
  SinkDrain.qf s <= capf -> SinkDrain.qp s <= capp -> (SinkDrain.closed s = true -> SinkDrain.plan s = []) ->
  SinkDrain.final s = false -> SinkDrain.enabled capf capp true s = true.
Proof. exact SinkDrain.concurrent_progress. Qed.

Theorem C16_sink_terminates : forall capf capp s a s', (SinkDrain.closed s = true -> SinkDrain.plan s = []) ->
  SinkDrain.step capf capp true s a = Some s' ->
  SinkDrain.measure s' < SinkDrain.measure s /\ (SinkDrain.closed s' = true -> SinkDrain.plan s' = []).
Proof. exact SinkDrain.concurrent_step_decreases. Qed.

Theorem C16_sink_nonvacuous :
  exists s, SinkDrain.run 1 1 true (SinkDrain.init [false; false; true; false])
              [SinkDrain.Send; SinkDrain.RecvP; SinkDrain.Send; SinkDrain.RecvP; SinkDrain.Send; SinkDrain.Send; SinkDrain.RecvF; SinkDrain.RecvP; SinkDrain.Close] = Some s
            /\ SinkDrain.final s = true.
Proof. exact SinkDrain.concurrent_example. Qed.

(* ... a sink that read the file port to its end before turning to the parameter port would be stuck, for every buffer size, under
   an upstream that sends one more parameter value than the buffer holds before its first file *)
Theorem C16_sink_in_turn_refuted : forall capp, exists l s,
  SinkDrain.run 1 capp false (SinkDrain.init (repeat false (S capp) ++ [true])) l = Some s
  /\ SinkDrain.enabled 1 capp false s = false /\ SinkDrain.final s = false.
Proof. exact SinkDrain.in_turn_stuck. Qed.

Print Assumptions C16_code_conforms.
Print Assumptions C16_refuses_before_start.
Print Assumptions C16_ready_flag.
Print Assumptions C16_dangling_drained.
Print Assumptions C16_closure.
Print Assumptions C16_runto_exact.
Print Assumptions C16_closed_upward.
Print Assumptions C16_example.
Print Assumptions C16_driver_is_checked.
Print Assumptions C16_started_are_checked.
Print Assumptions C16_unready_refused.
Print Assumptions C16_ready_runs.
Print Assumptions C16_driver_unchecked_refuted_before_repair.
Print Assumptions C16_cone_conforms.
Print Assumptions C16_sink_concurrent_progress.
Print Assumptions C16_sink_terminates.
Print Assumptions C16_sink_nonvacuous.
Print Assumptions C16_sink_in_turn_refuted.
