(* The window between a failure and the end of the program.

   TaskFS lets a failure end the program in the same step (`fail s` sets `exited`, after which no step exists).  The code
   does not: `Fail` first writes the report -- which contains everything the command printed, through a logger whose writer
   may be slow or blocked -- and calls os.Exit only then; meanwhile every other task goes on, finalizes its outputs, or
   fails too and waits for the logger.  This file gives the refined system: a failing task is marked `failed` and never
   takes another step (Fail does not return), every other task keeps stepping, and the program ends at some later WExit.

   window_simulated: whatever the refined system does, its file store, temp areas and program counters are those of a
   TaskFS run made of the non-failing steps, in the same order -- so every invariant of TaskFS (C01, C02, C09, C13) holds
   throughout the window, and a failed task is still at the phase in which it failed.

   returning_fail_refuted: drop "Fail does not return" for one later caller (as a change that reports only the first of
   several simultaneous failures does) and a command that exited non-zero gets its partial file renamed to the final path. *)
From Coq Require Import List Arith Lia Bool PeanoNat.
Import ListNotations.
Require Import Result TaskFS TInv TPres Glue Cor.

Record wst := { base : st; failed : nat -> bool; gone : bool }.

Inductive wact :=
| WTask (a : act)        (* a step of a task's goroutine *)
| WExit.                 (* os.Exit(1) at the end of the first Fail that gets there *)

Definition any_failed (c : cfg) (w : wst) : bool := existsb (failed w) (seq 0 (nt c)).

Definition winit (c : cfg) (f0 : fs) (left0 : nat -> bool) : wst :=
  {| base := init c f0 left0; failed := fun _ => false; gone := false |}.

(* the second component is the TaskFS action the step amounts to, if any *)
Definition wstep (c : cfg) (w : wst) (a : wact) : option (wst * option act) :=
  if gone w then None else
  match a with
  | WExit => if any_failed c w then Some ({| base := base w; failed := failed w; gone := true |}, None) else None
  | WTask a =>
    if failed w (node_of a) then None else
    match step c (base w) a with
    | None => None
    | Some s' =>
      if exited s'
      then Some ({| base := base w; failed := upd (failed w) (node_of a) true; gone := false |}, None)
      else Some ({| base := s'; failed := failed w; gone := false |}, Some a)
    end
  end.

Fixpoint wrun (c : cfg) (w : wst) (l : list wact) : option (wst * list act) :=
  match l with
  | [] => Some (w, [])
  | a :: r =>
    match wstep c w a with
    | None => None
    | Some (w', oa) =>
      match wrun c w' r with
      | None => None
      | Some (w'', tr) => Some (w'', match oa with Some b => b :: tr | None => tr end)
      end
    end
  end.

(* phases in which a task can fail *)
Definition failing_phase (p : pc) : bool := match p with ChkTemp | Cmd | Ensure => true | _ => false end.

Section Window.
Variable c : cfg.

Lemma step_exited_base s a s' : step c s a = Some s' -> exited s' = true ->
  exited s = false /\ fin s' = fin s /\ tmp s' = tmp s /\ tdir s' = tdir s /\ pcs s' = pcs s /\
  failing_phase (pcs s (node_of a)) = true.
Proof.
  unfold step. destruct (exited s) eqn:E; [discriminate|]. destruct (negb _); [discriminate|].
  intros H X.
  destruct a; simpl in *;
    repeat match type of H with
           | match ?d with _ => _ end = _ => let Q := fresh "Q" in destruct d eqn:Q; try discriminate
           | (if ?d then _ else _) = _ => let Q := fresh "Q" in destruct d eqn:Q; try discriminate
           end;
    injection H as <-; simpl in X; try discriminate; try (rewrite E in X; discriminate);
    repeat split; reflexivity.
Qed.

Lemma step_other_pc s a s' t : step c s a = Some s' -> node_of a <> t -> pcs s' t = pcs s t.
Proof.
  unfold step. destruct (exited s) eqn:E; [discriminate|]. destruct (negb _); [discriminate|].
  intros H N.
  destruct a; simpl in *;
    repeat match type of H with
           | match ?d with _ => _ end = _ => let Q := fresh "Q" in destruct d eqn:Q; try discriminate
           | (if ?d then _ else _) = _ => let Q := fresh "Q" in destruct d eqn:Q; try discriminate
           end;
    injection H as <-; simpl; try reflexivity; apply upd_other; congruence.
Qed.

(* what holds of the refined state: the program has not ended in the underlying system, and each failed task stands
   in a phase in which tasks fail *)
Definition WInv (w : wst) : Prop :=
  exited (base w) = false /\ forall t, failed w t = true -> failing_phase (pcs (base w) t) = true.

Lemma wstep_inv w a w' oa : WInv w -> wstep c w a = Some (w', oa) ->
  WInv w' /\ run c (base w) (match oa with Some b => [b] | None => [] end) = Some (base w').
Proof.
  intros [E F]. unfold wstep. destruct (gone w); [discriminate|]. destruct a as [a|].
  - destruct (failed w (node_of a)) eqn:Fa; [discriminate|].
    destruct (step c (base w) a) as [s'|] eqn:S; [|discriminate].
    destruct (exited s') eqn:X; intros H; injection H as <- <-; simpl.
    + destruct (step_exited_base _ _ _ S X) as [_ [_ [_ [_ [_ P]]]]].
      split; [split; [exact E|]|reflexivity].
      intros t. simpl. unfold upd. destruct (Nat.eqb_spec t (node_of a)) as [->|N]; auto.
    + rewrite S. split; [split; [exact X|]|reflexivity].
      intros t Ft. simpl in *. assert (N : node_of a <> t) by (intros Q; rewrite Q in Fa; congruence).
      rewrite (step_other_pc _ _ _ t S N). auto.
  - destruct (any_failed c w); [|discriminate]. intros H; injection H as <- <-; simpl. split; [split; auto|reflexivity].
Qed.

Lemma run_app l1 : forall s s1 l2 s2, run c s l1 = Some s1 -> run c s1 l2 = Some s2 -> run c s (l1 ++ l2) = Some s2.
Proof.
  induction l1 as [|a r IH]; simpl; intros s s1 l2 s2 H1 H2.
  - injection H1 as <-. exact H2.
  - destruct (step c s a) as [s'|]; [|discriminate]. eapply IH; eauto.
Qed.

Theorem window_simulated l : forall w w' tr, WInv w -> wrun c w l = Some (w', tr) ->
  WInv w' /\ run c (base w) tr = Some (base w').
Proof.
  induction l as [|a r IH]; simpl; intros w w' tr I H.
  - injection H as <- <-. split; [exact I|reflexivity].
  - destruct (wstep c w a) as [[w1 oa]|] eqn:S; [|discriminate].
    destruct (wrun c w1 r) as [[w2 tr2]|] eqn:R; [|discriminate]. injection H as <- <-.
    destruct (wstep_inv _ _ _ _ I S) as [I1 R1]. destruct (IH _ _ _ I1 R) as [I2 R2]. split; [exact I2|].
    destruct oa as [b|]; simpl in R1.
    + change (b :: tr2) with ([b] ++ tr2). eapply run_app; eauto.
    + injection R1 as R1. rewrite R1. exact R2.
Qed.

Variable f0 : fs.
Variable left0 : nat -> bool.
Hypothesis WF : wfc c.

Definition wreachable (w : wst) := exists l tr, wrun c (winit c f0 left0) l = Some (w, tr).

Lemma winit_inv : WInv (winit c f0 left0).
Proof. split; [reflexivity|]. intros t H. discriminate. Qed.

(* every state of the window is a state of TaskFS *)
Theorem window_states_are_taskfs_states w : wreachable w -> reachable c f0 left0 (base w).
Proof. intros [l [tr H]]. exists tr. exact (proj2 (window_simulated l _ _ _ winit_inv H)). Qed.

(* C01 throughout the window *)
Theorem window_atomic w : wreachable w -> forall t x, t < nt c -> In x (tout (tk c t)) ->
  fin (base w) x = f0 x \/
  (past_cmd (pcs (base w) t) = true /\ sem (tk c t) (map (fin (base w)) (tin (tk c t))) = Some (val (base w) t) /\
   fin (base w) x = TInv.lookup x (tout (tk c t)) (val (base w) t) /\ fin (base w) x <> None).
Proof.
  intros R. exact (TInv.C01_atomic c f0 left0 (base w) (reach_inv c f0 left0 WF _ (window_states_are_taskfs_states w R))).
Qed.

(* the outputs of a task that failed hold what they held before the run, however long the program lives on and whatever
   the other tasks do meanwhile *)
Theorem window_failed_leaves_nothing w : wreachable w -> forall t x, t < nt c -> failed w t = true ->
  In x (tout (tk c t)) -> fin (base w) x = f0 x.
Proof.
  intros R t x Ht Ft Hx. destruct R as [l [tr H]].
  destruct (window_simulated l _ _ _ winit_inv H) as [[_ FP] RN].
  assert (I : Inv c f0 (base w)) by (apply (reach_inv c f0 left0 WF); exists tr; exact RN).
  destruct I as [HT _]. destruct (HT t Ht) as [a1 _ _ _ _ _ _]. destruct (a1 x Hx) as [_ N]. apply N.
  specialize (FP t Ft). destruct (pcs (base w) t); simpl in *; try discriminate; tauto.
Qed.

(* no task that reads an output of a failed task ever starts *)
Theorem window_no_dependants w : wreachable w -> forall t d, t < nt c -> d < t -> failed w d = true ->
  shares (tout (tk c d)) (tin (tk c t)) = true -> pcs (base w) t = Wait.
Proof.
  intros R t d Ht Hd Fd Sh. destruct R as [l [tr H]].
  destruct (window_simulated l _ _ _ winit_inv H) as [[_ FP] RN].
  destruct (pcs (base w) t) eqn:P; try reflexivity; exfalso;
    (assert (NW : pcs (base w) t <> Wait) by (rewrite P; discriminate);
     pose proof (Cor.C09_no_dependants c f0 left0 WF (base w) t d (ex_intro _ tr RN) Ht Hd Sh NW) as D;
     specialize (FP d Fd); destruct (pcs (base w) d); simpl in *; discriminate).
Qed.

(* once the program is gone nothing moves *)
Theorem window_gone_is_final w a : gone w = true -> wstep c w a = None.
Proof. intros G. unfold wstep. rewrite G. reflexivity. Qed.

End Window.

(* ---- the window is real: two tasks, the first fails, the second completes before the program ends ---- *)
Definition w_cfg : cfg :=
  {| nt := 2; tk := fun t => if Nat.eqb t 0 then {| tin := []; tout := [0]; sem := fun _ => None |}
                              else {| tin := []; tout := [1]; sem := fun _ => Some [5] |} |}.

Definition w_sched : list wact :=
  [WTask (AStart 0); WTask (AChkTemp 0); WTask (AChkOut 0); WTask (AMkTemp 0);
   WTask (AStart 1); WTask (AChkTemp 1); WTask (AChkOut 1); WTask (AMkTemp 1);
   WTask (AWrite 0 0 9); WTask (ACmdFail 0);                                  (* task 0 fails; its report is being written *)
   WTask (ACmdOk 1 []); WTask (AEnsure 1 [1]); WTask (ARename 1); WTask (AEndRen 1); WTask (ARmTemp 1);
   WExit].

Theorem window_example :
  exists w tr, wrun w_cfg (winit w_cfg (fun _ => None) (fun _ => false)) w_sched = Some (w, tr)
    /\ gone w = true /\ failed w 0 = true /\ fin (base w) 0 = None /\ fin (base w) 1 = Some 5 /\ pcs (base w) 1 = DoneRan.
Proof. eexists. eexists. split; [vm_compute; reflexivity|]. repeat split. Qed.

(* ---- what the theorems rely on: a task that called Fail takes no further step ---- *)
(* the same system, except that a failure reported while another one is already being reported returns to its caller,
   which carries on as if the command had succeeded with whatever it left in its temp area *)
Definition returning_step (c : cfg) (w : wst) (a : wact) : option wst :=
  match a with
  | WTask (ACmdFail t) =>
    if gone w then None else
    if failed w t then None else
    match pcs (base w) t with
    | Cmd =>
      if any_failed c w
      then Some {| base := set_pc (base w) t Ensure; failed := failed w; gone := false |}     (* Fail returned *)
      else Some {| base := base w; failed := upd (failed w) t true; gone := false |}
    | _ => None
    end
  | _ => match wstep c w a with Some (w', _) => Some w' | None => None end
  end.

Fixpoint returning_run (c : cfg) (w : wst) (l : list wact) : option wst :=
  match l with
  | [] => Some w
  | a :: r => match returning_step c w a with Some w' => returning_run c w' r | None => None end
  end.

Definition r_cfg : cfg :=
  {| nt := 2; tk := fun t => if Nat.eqb t 0 then {| tin := []; tout := [0]; sem := fun _ => None |}
                              else {| tin := []; tout := [1]; sem := fun _ => None |} |}.

Definition r_sched : list wact :=
  [WTask (AStart 0); WTask (AChkTemp 0); WTask (AChkOut 0); WTask (AMkTemp 0);
   WTask (AStart 1); WTask (AChkTemp 1); WTask (AChkOut 1); WTask (AMkTemp 1);
   WTask (ACmdFail 0);                                                          (* first failure: being reported *)
   WTask (AWrite 1 1 77); WTask (ACmdFail 1);                                   (* second command wrote part of its output, exits 1 *)
   WTask (AEnsure 1 [1]); WTask (ARename 1); WTask (AEndRen 1); WTask (ARmTemp 1);
   WExit].

(* both commands fail (sem = None: no successful execution exists), yet a file is at the final path of the second *)
Theorem returning_fail_refuted :
  exists w, returning_run r_cfg (winit r_cfg (fun _ => None) (fun _ => false)) r_sched = Some w
    /\ gone w = true /\ sem (tk r_cfg 1) [] = None /\ fin (base w) 1 = Some 77.
Proof. eexists. split; [vm_compute; reflexivity|]. repeat split. Qed.
