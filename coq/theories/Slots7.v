(* Prototype: C07 on the Slots model: progress (no deadlock) and work conservation. *)
From Coq Require Import List Arith Lia Bool.
Import ListNotations.
Require Import Slots.

Local Arguments Nat.sub : simpl never.

Definition contender (t : task) : bool :=
  match st t with Idle | WaitLock | Depositing _ => true | _ => false end.

Definition is_dep (t : task) : bool := match st t with Depositing _ => true | _ => false end.

(* mutex discipline *)
Definition MInv (s : state) : Prop :=
  (forall i t, nth_error (tasks s) i = Some t -> is_dep t = true -> mutex s = Some i) /\
  (forall i, mutex s = Some i -> exists t, nth_error (tasks s) i = Some t /\ is_dep t = true) /\
  (forall i t k, nth_error (tasks s) i = Some t -> st t = Depositing k -> k <= cores t).

Lemma nth_upd_same l i t t' : nth_error l i = Some t -> nth_error (upd l i t') i = Some t'.
Proof. revert i; induction l as [|a l IH]; intros [|i] H; simpl in *; try discriminate; auto. Qed.

Lemma nth_upd_other l i j t' : i <> j -> nth_error (upd l i t') j = nth_error l j.
Proof.
  revert i j; induction l as [|a l IH]; intros [|i] [|j] H; simpl; auto; try congruence.
Qed.

Lemma step_minv s i s' : MInv s -> step s i = Some s' -> MInv s'.
Proof.
  unfold MInv, step. intros [M1 [M2 M3]].
  destruct (nth_error (tasks s) i) as [t|] eqn:Hn; [|discriminate].
  assert (Hsame : forall p, nth_error (upd (tasks s) i (set_pc t p)) i = Some (set_pc t p))
    by (intros; eapply nth_upd_same; eauto).
  assert (Hoth : forall p j, i <> j -> nth_error (upd (tasks s) i (set_pc t p)) j = nth_error (tasks s) j)
    by (intros; apply nth_upd_other; auto).
  destruct (st t) eqn:Hst.
  - (* Idle -> WaitLock *)
    intros H; injection H as <-; simpl. repeat split.
    + intros j u Hj Hd. destruct (Nat.eq_dec i j) as [<-|Hne].
      * rewrite Hsame in Hj. injection Hj as <-. discriminate.
      * rewrite Hoth in Hj by assumption. eauto.
    + intros j Hm. destruct (M2 j Hm) as [u [Hu Hd]]. destruct (Nat.eq_dec i j) as [<-|Hne].
      * rewrite Hn in Hu. injection Hu as <-. unfold is_dep in Hd. rewrite Hst in Hd. discriminate.
      * exists u. rewrite Hoth by assumption. auto.
    + intros j u k Hj Hk. destruct (Nat.eq_dec i j) as [<-|Hne].
      * rewrite Hsame in Hj. injection Hj as <-. discriminate.
      * rewrite Hoth in Hj by assumption. eauto.
  - (* WaitLock -> Depositing 0 *)
    destruct (mutex s) eqn:Hm; [discriminate|]. intros H; injection H as <-; simpl. repeat split.
    + intros j u Hj Hd. destruct (Nat.eq_dec i j) as [<-|Hne]; auto.
      rewrite Hoth in Hj by assumption. specialize (M1 j u Hj Hd). discriminate.
    + intros j Hj. injection Hj as <-. exists (set_pc t (Depositing 0)). rewrite Hsame. auto.
    + intros j u k Hj Hk. destruct (Nat.eq_dec i j) as [<-|Hne].
      * rewrite Hsame in Hj. injection Hj as <-. simpl in Hk. injection Hk as <-. lia.
      * rewrite Hoth in Hj by assumption. eauto.
  - (* Depositing *)
    pose proof (M1 i t Hn) as Hmi. unfold is_dep in Hmi. rewrite Hst in Hmi. specialize (Hmi eq_refl).
    pose proof (M3 i t k Hn Hst) as Hk.
    destruct (Nat.eqb k (cores t)) eqn:Ek.
    + intros H; injection H as <-; simpl. repeat split.
      * intros j u Hj Hd. destruct (Nat.eq_dec i j) as [<-|Hne].
        -- rewrite Hsame in Hj. injection Hj as <-. discriminate.
        -- rewrite Hoth in Hj by assumption. specialize (M1 j u Hj Hd). congruence.
      * intros j Hj. discriminate.
      * intros j u k' Hj Hk'. destruct (Nat.eq_dec i j) as [<-|Hne].
        -- rewrite Hsame in Hj. injection Hj as <-. discriminate.
        -- rewrite Hoth in Hj by assumption. eauto.
    + apply Nat.eqb_neq in Ek. destruct (Nat.ltb (tokens s) (cap s)); [|discriminate].
      intros H; injection H as <-; simpl. repeat split.
      * intros j u Hj Hd. destruct (Nat.eq_dec i j) as [<-|Hne]; auto.
        rewrite Hoth in Hj by assumption. eauto.
      * intros j Hj. rewrite Hmi in Hj. injection Hj as <-. exists (set_pc t (Depositing (S k))). rewrite Hsame. auto.
      * intros j u k' Hj Hk'. destruct (Nat.eq_dec i j) as [<-|Hne].
        -- rewrite Hsame in Hj. injection Hj as <-. simpl in Hk'. injection Hk' as <-. simpl. lia.
        -- rewrite Hoth in Hj by assumption. eauto.
  - (* Running -> Releasing *)
    intros H; injection H as <-; simpl. repeat split.
    + intros j u Hj Hd. destruct (Nat.eq_dec i j) as [<-|Hne].
      * rewrite Hsame in Hj. injection Hj as <-. discriminate.
      * rewrite Hoth in Hj by assumption. eauto.
    + intros j Hm. destruct (M2 j Hm) as [u [Hu Hd]]. destruct (Nat.eq_dec i j) as [<-|Hne].
      * rewrite Hn in Hu. injection Hu as <-. unfold is_dep in Hd. rewrite Hst in Hd. discriminate.
      * exists u. rewrite Hoth by assumption. auto.
    + intros j u k Hj Hk. destruct (Nat.eq_dec i j) as [<-|Hne].
      * rewrite Hsame in Hj. injection Hj as <-. discriminate.
      * rewrite Hoth in Hj by assumption. eauto.
  - (* Releasing *)
    assert (Hgen : forall p, (forall k, p <> Depositing k) ->
      forall s'', tasks s'' = upd (tasks s) i (set_pc t p) -> mutex s'' = mutex s ->
      (forall j u, nth_error (tasks s'') j = Some u -> is_dep u = true -> mutex s'' = Some j) /\
      (forall j, mutex s'' = Some j -> exists u, nth_error (tasks s'') j = Some u /\ is_dep u = true) /\
      (forall j u k0, nth_error (tasks s'') j = Some u -> st u = Depositing k0 -> k0 <= cores u)).
    { intros p Hp s'' Ht Hm. rewrite Ht, Hm. repeat split.
      - intros j u Hj Hd. destruct (Nat.eq_dec i j) as [<-|Hne].
        + rewrite Hsame in Hj. injection Hj as <-. unfold is_dep in Hd. simpl in Hd. destruct p; try discriminate. exfalso; eapply Hp; eauto.
        + rewrite Hoth in Hj by assumption. eauto.
      - intros j Hmj. destruct (M2 j Hmj) as [u [Hu Hd]]. destruct (Nat.eq_dec i j) as [<-|Hne].
        + rewrite Hn in Hu. injection Hu as <-. unfold is_dep in Hd. rewrite Hst in Hd. discriminate.
        + exists u. rewrite Hoth by assumption. auto.
      - intros j u k0 Hj Hk0. destruct (Nat.eq_dec i j) as [<-|Hne].
        + rewrite Hsame in Hj. injection Hj as <-. simpl in Hk0. exfalso; eapply Hp; eauto.
        + rewrite Hoth in Hj by assumption. eauto. }
    destruct k.
    + intros H; injection H as <-. apply (Hgen Finished); simpl; auto. discriminate.
    + destruct (tokens s); [discriminate|]. intros H; injection H as <-. apply (Hgen (Releasing k)); simpl; auto. discriminate.
  - discriminate.
Qed.

Lemma tsum_pos_ex l : 0 < tsum held l -> exists i u, nth_error l i = Some u /\ 0 < held u.
Proof.
  induction l as [|b l IH]; simpl; intros H; [lia|].
  destruct (Nat.eq_dec (held b) 0) as [E|E].
  - destruct IH as [i [u [Hi Hu]]]; [lia|]. exists (S i), u. auto.
  - exists 0, b. split; auto. lia.
Qed.

Lemma tsum_other l : forall j t, nth_error l j = Some t -> held t < tsum held l ->
  exists i u, i <> j /\ nth_error l i = Some u /\ 0 < held u.
Proof.
  induction l as [|a l IH]; intros [|j] t H Hlt; simpl in *; try discriminate.
  - injection H as ->.
    destruct (tsum_pos_ex l) as [i [u [Hi Hu]]]; [lia|]. exists (S i), u. repeat split; auto.
  - destruct (Nat.eq_dec (held a) 0) as [E|E].
    + destruct (IH j t H) as [i [u [Hne [Hi Hu]]]]; [lia|]. exists (S i), u. repeat split; auto.
    + exists 0, a. repeat split; auto; lia.
Qed.

Lemma enabled_running s i t : nth_error (tasks s) i = Some t -> st t = Running -> step s i <> None.
Proof. intros H Hs. unfold step. rewrite H, Hs. discriminate. Qed.

Theorem C07_progress s :
  Inv s -> MInv s -> (forall i t, nth_error (tasks s) i = Some t -> cores t <= cap s) ->
  (exists i t, nth_error (tasks s) i = Some t /\ st t <> Finished) ->
  exists i, step s i <> None.
Proof.
  intros [Hcap Hsum] [M1 [M2 M3]] Hfit [i [t [Hn Hnf]]].
  (* what a depositing mutex holder can do *)
  assert (Hdep : forall j u k, nth_error (tasks s) j = Some u -> st u = Depositing k -> exists i', step s i' <> None).
  { intros j u k Hj Hu.
    destruct (Nat.eqb k (cores u)) eqn:Ek.
    { exists j. unfold step. rewrite Hj, Hu, Ek. discriminate. }
    destruct (Nat.ltb (tokens s) (cap s)) eqn:El.
    { exists j. unfold step. rewrite Hj, Hu, Ek, El. discriminate. }
    apply Nat.eqb_neq in Ek. apply Nat.ltb_ge in El.
    pose proof (M3 j u k Hj Hu) as Hk. pose proof (Hfit j u Hj) as Hc.
    assert (Hh : held u < tsum held (tasks s)) by (unfold held at 1; rewrite Hu; lia).
    destruct (tsum_other _ j u Hj Hh) as [i' [w [Hne [Hi' Hw]]]].
    unfold held in Hw. destruct (st w) eqn:Sw; try lia.
    - (* another depositor: impossible *)
      assert (mutex s = Some i') by (apply (M1 i' w Hi'); unfold is_dep; rewrite Sw; auto).
      assert (mutex s = Some j) by (apply (M1 j u Hj); unfold is_dep; rewrite Hu; auto).
      congruence.
    - exists i'. eapply enabled_running; eauto.
    - exists i'. unfold step. rewrite Hi', Sw. destruct k0; [lia|].
      destruct (tokens s) eqn:Tk; [lia|discriminate]. }
  destruct (st t) eqn:St.
  - exists i. unfold step. rewrite Hn, St. discriminate.
  - destruct (mutex s) as [j|] eqn:Hm.
    + destruct (M2 j eq_refl) as [u [Hu Hd]]. unfold is_dep in Hd. destruct (st u) eqn:Su; try discriminate. eauto.
    + exists i. unfold step. rewrite Hn, St, Hm. discriminate.
  - eauto.
  - exists i. eapply enabled_running; eauto.
  - exists i. unfold step. rewrite Hn, St. destruct k; [discriminate|].
    assert (0 < tokens s).
    { assert (held t <= tsum held (tasks s)).
      { clear -Hn. revert i Hn. induction (tasks s) as [|a l IH]; intros [|i] H; simpl in *; try discriminate.
        - injection H as ->. lia.
        - specialize (IH i H). lia. }
      unfold held in H at 1. rewrite St in H. lia. }
    destruct (tokens s); [lia|discriminate].
  - congruence.
Qed.
Print Assumptions C07_progress.

(* ---------------- work conservation ---------------- *)
Definition want (t : task) : nat := if contender t then cores t - held t else 0.
Definition acq (s : state) (i : nat) : bool :=
  match nth_error (tasks s) i with Some t => contender t | None => false end.

Definition Fits (s : state) : Prop := tsum want (tasks s) + tokens s <= cap s.

Lemma want_le_sum l : forall i t, nth_error l i = Some t -> want t <= tsum want l.
Proof.
  induction l as [|a l IH]; intros [|i] t H; simpl in *; try discriminate.
  - injection H as ->. lia.
  - specialize (IH i t H). lia.
Qed.

Lemma want_of t : want t =
  match st t with Idle | WaitLock => cores t | Depositing k => cores t - k | _ => 0 end.
Proof. unfold want, contender, held. destruct (st t); auto; lia. Qed.

Lemma acq_step_fits s i s' : MInv s -> Fits s -> acq s i = true -> step s i = Some s' -> Fits s'.
Proof.
  unfold Fits, acq, step. intros [M1 [M2 M3]] HF.
  destruct (nth_error (tasks s) i) as [t|] eqn:Hn; [|discriminate].
  pose proof (fun t' => sum_upd want (tasks s) i t t' Hn) as Hu.
  intros Hc. unfold contender in Hc.
  pose proof (want_of t) as W0.
  destruct (st t) eqn:Hst; try discriminate.
  - intros H; injection H as <-; simpl. specialize (Hu (set_pc t WaitLock)).
    rewrite (want_of (set_pc t WaitLock)) in Hu. simpl in Hu. lia.
  - destruct (mutex s); [discriminate|]. intros H; injection H as <-; simpl.
    specialize (Hu (set_pc t (Depositing 0))).
    rewrite (want_of (set_pc t (Depositing 0))) in Hu. simpl in Hu. lia.
  - pose proof (M3 i t k Hn Hst) as Hk.
    destruct (Nat.eqb k (cores t)) eqn:Ek.
    + apply Nat.eqb_eq in Ek. intros H; injection H as <-; simpl. specialize (Hu (set_pc t Running)).
      rewrite (want_of (set_pc t Running)) in Hu. simpl in Hu. lia.
    + apply Nat.eqb_neq in Ek. destruct (Nat.ltb (tokens s) (cap s)) eqn:El; [|discriminate].
      apply Nat.ltb_lt in El.
      intros H; injection H as <-; simpl. specialize (Hu (set_pc t (Depositing (S k)))).
      rewrite (want_of (set_pc t (Depositing (S k)))) in Hu. simpl in Hu. lia.
Qed.

(* acquire-only schedules *)
Fixpoint run_acq (s : state) (sched : list nat) : option state :=
  match sched with
  | [] => Some s
  | i :: r => if acq s i then match step s i with Some s' => run_acq s' r | None => None end else None
  end.

Lemma run_acq_inv sched : forall s s', Inv s -> MInv s -> Fits s -> run_acq s sched = Some s' ->
  Inv s' /\ MInv s' /\ Fits s'.
Proof.
  induction sched as [|i r IH]; simpl; intros s s' HI HM HF H.
  - injection H as <-. auto.
  - destruct (acq s i) eqn:A; [|discriminate]. destruct (step s i) as [s1|] eqn:E; [|discriminate].
    apply (IH s1 s'); auto; [eapply step_inv; eauto | eapply step_minv; eauto | eapply acq_step_fits; eauto].
Qed.

(* C07 work conservation: if everything that is waiting fits into the free slots,
   then with no release and no command exit at all, acquisition can only stop
   when every waiting task is executing *)
Theorem C07_work_conserving s sched s' :
  Inv s -> MInv s -> Fits s -> run_acq s sched = Some s' ->
  (forall i, acq s' i = true -> step s' i = None) ->
  forall i t, nth_error (tasks s') i = Some t -> contender t = false.
Proof.
  intros HI HM HF Hrun Hq.
  destruct (run_acq_inv sched s s' HI HM HF Hrun) as [[Hcap Hsum] [[M1 [M2 M3]] HF']].
  assert (Hdep : forall j u k, nth_error (tasks s') j = Some u -> st u = Depositing k -> False).
  { intros j u k Hj Hu.
    assert (A : acq s' j = true) by (unfold acq; rewrite Hj; unfold contender; rewrite Hu; auto).
    specialize (Hq j A). unfold step in Hq. rewrite Hj, Hu in Hq.
    destruct (Nat.eqb k (cores u)) eqn:Ek; [discriminate|]. apply Nat.eqb_neq in Ek.
    destruct (Nat.ltb (tokens s') (cap s')) eqn:El; [discriminate|]. apply Nat.ltb_ge in El.
    pose proof (M3 j u k Hj Hu) as Hk.
    pose proof (want_le_sum _ j u Hj) as Hw. rewrite want_of, Hu in Hw.
    unfold Fits in HF'. lia. }
  intros i t Hn. destruct (contender t) eqn:C; auto. exfalso.
  assert (A : acq s' i = true) by (unfold acq; rewrite Hn; auto).
  specialize (Hq i A). unfold step in Hq. rewrite Hn in Hq. unfold contender in C.
  destruct (st t) eqn:St; try discriminate.
  - destruct (mutex s') as [j|] eqn:Hm; [|discriminate].
    destruct (M2 j eq_refl) as [u [Hu Hd]]. unfold is_dep in Hd. destruct (st u) eqn:Su; try discriminate.
    eapply Hdep; eauto.
  - eapply Hdep; eauto.
Qed.
Print Assumptions C07_work_conserving.
