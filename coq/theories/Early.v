(* Prototype: a finished node has only finished ancestors (C05_not_early core):
   when the sink/driver returns, everything upstream has finished and has no task in flight. *)
From Coq Require Import List Arith Lia Bool PeanoNat.
Import ListNotations.
Require Import NetA Inv Pres.

Local Arguments Nat.sub : simpl never.

Section Early.
Variable c : cfg.
Variable len : nat -> nat.
Hypothesis WF : wf c len.

Definition Closed2 (s : st) (v : nat) : Prop :=
  (ct (ns s v) = CtDone -> forall y, In y (ins c v) -> epar c y = false -> clo (es s y) = true) /\
  (forall todo, ct (ns s v) = CtRecv todo true -> forall y, In y (ins c v) -> ~ In y todo -> clo (es s y) = true).

Definition Inv2 (s : st) : Prop := forall v, v < nn c -> Closed2 s v.

Lemma init_inv2 : Inv2 (init c).
Proof. intros v Hv. split; simpl; intros; discriminate. Qed.

Ltac inv_some := match goal with H : Some _ = Some ?s' |- _ => injection H as H; subst s' end.

(* closing only ever sets flags, and a step at v only changes node v *)
Lemma step_inv2 s a s' : Inv c len s -> Inv2 s -> node_of a < nn c -> step c s a = Some s' -> Inv2 s'.
Proof.
  intros HI H2 Hv Hstep. pose proof HI as [HN HE].
  (* generic transfer for nodes other than the acting one, when closed flags only grow *)
  assert (Hmono : forall v0 n',
     (forall w, ns s' w = if Nat.eqb w v0 then n' else ns s w) ->
     (forall y, clo (es s y) = true -> clo (es s' y) = true) ->
     Closed2 s' v0 -> Inv2 s').
  { intros v0 n' Hns Hclo Hnew w Hw. destruct (Nat.eq_dec w v0) as [->|Hne]; auto.
    destruct (H2 w Hw) as [A B]. unfold Closed2. rewrite Hns.
    destruct (Nat.eqb_spec w v0); [congruence|]. split.
    - intros Hd y Hy Hf. apply Hclo. apply A; auto.
    - intros todo Hc y Hy Hn. apply Hclo. eapply B; eauto. }
  destruct a as [v perm|v|v|v|v i|v perm|v|v|v]; simpl in Hv, Hstep;
    pose proof (HN v Hv) as NI; unfold NodeInv in NI; destruct NI as [n1 n2 n3 n4 n5 n6 n7];
    destruct (H2 v Hv) as [A B].
  - (* ABegin *)
    destruct (ct (ns s v)) eqn:Ct; try discriminate.
    destruct (slen c v) as [L|] eqn:Sl.
    + destruct (wf_src _ _ WF v L Sl) as [_ Hins].
      destruct (Nat.ltb (cN (ns s v)) L); inv_some;
        (eapply Hmono; [reflexivity|auto|]; split; simpl; unfold upd; rewrite Nat.eqb_refl; simpl;
         intros; try discriminate; rewrite Hins in *; simpl in *; tauto).
    + destruct (is_perm perm (ins c v)); [|discriminate]. destruct (par_sorted c perm); [|discriminate]. cbn [andb] in *. inv_some.
      eapply Hmono; [reflexivity|auto|]. split; simpl; unfold upd; rewrite Nat.eqb_refl; simpl; intros; discriminate.
  - (* ARecv *)
    destruct (ct (ns s v)) as [|todo0 saw| |] eqn:Ct; try discriminate.
    destruct todo0 as [|y todo]; try discriminate.
    destruct (n6 _ _ eq_refl) as [ND [Hsub Hsl]].
    assert (Hy : In y (ins c v)) by (apply Hsub; left; reflexivity).
    apply in_ins in Hy. destruct Hy as [HyE Hyd].
    pose proof (HE y HyE) as EY. unfold EdgeInv in EY. rewrite Hyd in EY. destruct EY as [y1 y2 y3 y4].
    unfold hand, rx in y2. rewrite Ct in y2.
    pose proof (snt_le_len c len WF s y HI HyE) as Hsl'. rewrite (wf_bal _ _ WF y HyE), Hyd in Hsl'.
    destruct (Nat.ltb (rcv (es s y)) (snt (es s y))) eqn:Hq.
    + apply Nat.ltb_lt in Hq. inv_some.
      destruct saw. { specialize (n5 _ eq_refl). simpl in y2. lia. }
      eapply Hmono with (v0 := v); [reflexivity| |].
      * intros z Hz. simpl. unfold upd. destruct (Nat.eqb_spec z y) as [->|]; simpl; auto.
      * split; simpl; unfold upd at 1; rewrite Nat.eqb_refl; simpl; intros; discriminate.
    + apply Nat.ltb_ge in Hq. destruct (clo (es s y)) eqn:Hc; [|discriminate]. inv_some.
      eapply Hmono with (v0 := v); [reflexivity|auto|].
      split; simpl; unfold upd; rewrite Nat.eqb_refl; simpl; [intros; discriminate|].
      intros todo' E z Hz Hn. injection E as <-.
      destruct (Nat.eq_dec z y) as [->|Hzy]; auto.
      destruct saw.
      * eapply B; eauto. intros [E|E]; [congruence|tauto].
      * (* z was received in this round: impossible, because the stream of y is exhausted *)
        exfalso. apply in_ins in Hz. destruct Hz as [HzE Hzd].
        pose proof (HE z HzE) as EZ. unfold EdgeInv in EZ. rewrite Hzd in EZ. destruct EZ as [z1 z2 z3 z4].
        unfold hand, rx in z2. rewrite Ct in z2.
        assert (Hex : existsb (Nat.eqb z) (y :: todo) = false).
        { apply existsb_eqb_false. intros [E|E]; [congruence|tauto]. }
        rewrite Hex in z2.
        pose proof (snt_le_len c len WF s z HI HzE) as Hsz. rewrite (wf_bal _ _ WF z HzE), Hzd in Hsz.
        (* cN v = len v because y is closed and empty *)
        assert (Hfin : rn (ns s (esrc c y)) = RFin) by (apply y4; reflexivity).
        assert (Hu : esrc c y < nn c) by (destruct (wf_topo _ _ WF y HyE); lia).
        pose proof (HN _ Hu) as NU. unfold NodeInv in NU. destruct NU as [u1 u2 u3 u4 u5 u6 u7].
        destruct (u2 Hfin) as [Hd [Hf He]]. specialize (u4 Hd).
        unfold sx in y1. rewrite Hfin in y1. rewrite (wf_bal _ _ WF y HyE), Hyd in u4.
        simpl in y2. rewrite Nat.eqb_refl in y2. simpl in y2. lia.
  - (* AEndRound *)
    destruct (ct (ns s v)) as [|todo0 saw| |] eqn:Ct; try discriminate.
    destruct saw; [destruct (forallb (epar c) todo0) eqn:Hfa; try discriminate|destruct todo0; try discriminate];
    cbn [andb] in *; inv_some;
    (eapply Hmono with (v0 := v); [reflexivity|auto|]);
    split; simpl; unfold upd; rewrite Nat.eqb_refl; simpl.
    + intros _ y Hy Hf. eapply B; eauto. intros Hin.
      rewrite forallb_forall in Hfa. rewrite (Hfa y Hin) in Hf. discriminate.
    + intros; discriminate.
    + discriminate.
    + intros; discriminate.
  - (* AHand *)
    destruct (ct (ns s v)) eqn:Ct; try discriminate. destruct (rn (ns s v)); try discriminate. inv_some.
    eapply Hmono with (v0 := v); [reflexivity|auto|].
    split; simpl; unfold upd; rewrite Nat.eqb_refl; simpl; intros; discriminate.
  - (* AExit *)
    destruct (nth_error (fl (ns s v)) i) as [[|]|]; try discriminate. inv_some.
    eapply Hmono with (v0 := v); [reflexivity|auto|].
    split; simpl; unfold upd; rewrite Nat.eqb_refl; simpl; auto.
  - (* APop *)
    destruct (rn (ns s v)); try discriminate. destruct (fl (ns s v)) as [|[|] r]; try discriminate.
    destruct (is_perm perm (outs c v)); [|discriminate]. inv_some.
    eapply Hmono with (v0 := v); [reflexivity|auto|].
    split; simpl; unfold upd; rewrite Nat.eqb_refl; simpl; auto.
  - (* ASend *)
    destruct (rn (ns s v)) as [|todo0|]; try discriminate. destruct todo0 as [|x todo]; try discriminate.
    destruct (Nat.ltb _ _); [|discriminate]. inv_some.
    eapply Hmono with (v0 := v); [reflexivity| |].
    + intros z Hz. simpl. unfold upd. destruct (Nat.eqb_spec z x) as [->|]; simpl; auto.
    + split; simpl; unfold upd at 1; rewrite Nat.eqb_refl; simpl.
      * intros Hd y Hy. unfold upd. destruct (Nat.eqb_spec y x) as [->|]; simpl; auto.
      * intros td Hc y Hy Hn. unfold upd. destruct (Nat.eqb_spec y x) as [->|]; simpl; eauto.
  - (* AEndSend *)
    destruct (rn (ns s v)) as [|todo0|]; try discriminate. destruct todo0; try discriminate. inv_some.
    eapply Hmono with (v0 := v); [reflexivity|auto|].
    split; simpl; unfold upd; rewrite Nat.eqb_refl; simpl; auto.
  - (* AFin *)
    destruct (rn (ns s v)); try discriminate. destruct (ct (ns s v)) eqn:Ct; try discriminate.
    destruct (fl (ns s v)); try discriminate. inv_some.
    eapply Hmono with (v0 := v).
    + intros w. rewrite close_all_ns. reflexivity.
    + intros z Hz. rewrite close_all_es. simpl. destruct (existsb _ _); simpl; auto.
    + split; rewrite close_all_ns; simpl; unfold upd; rewrite Nat.eqb_refl; simpl; [|intros; discriminate].
      intros _ y Hy. rewrite close_all_es. simpl. destruct (existsb _ _); simpl; auto.
Qed.

(* a finished node has no task in flight, and the producers of its files -- the processes that execute tasks -- are
   finished; the feeder of a parameter port need not be: createTasks stops reading parameters once a file port closed *)
Theorem finished_upward s v : Inv c len s -> Inv2 s -> v < nn c -> rn (ns s v) = RFin ->
  fl (ns s v) = [] /\ forall y, In y (ins c v) -> epar c y = false -> rn (ns s (esrc c y)) = RFin.
Proof.
  intros [HN HE] H2 Hv Hf.
  pose proof (HN v Hv) as NI. unfold NodeInv in NI. destruct NI as [n1 n2 n3 n4 n5 n6 n7].
  destruct (n2 Hf) as [Hd [Hfl _]]. split; auto.
  intros y Hy Hfile. destruct (H2 v Hv) as [A _]. specialize (A Hd y Hy Hfile).
  apply in_ins in Hy. destruct Hy as [HyE _].
  pose proof (HE y HyE) as EY. unfold EdgeInv in EY. destruct EY as [_ _ _ y4]. apply y4. exact A.
Qed.

End Early.
Print Assumptions finished_upward.
