From Coq Require Import List Arith Lia Bool PeanoNat.
Import ListNotations.
Require Import NetA Inv Pres Ghost.

Local Arguments Nat.sub : simpl never.

Section GP.
Variable c : cfg.
Variable len : nat -> nat.
Variable gc : gcfg.
Hypothesis WF : wf c len.
Hypothesis SL : forall v L, slen c v = Some L -> length (sitems gc v) = L.

Notation GInv := (GInv c gc).
Notation Inv := (Inv c len).

Lemma firstn_app_le {A} n (l1 l2 : list A) : n <= length l1 -> firstn n (l1 ++ l2) = firstn n l1.
Proof. intros H. rewrite firstn_app. replace (n - length l1) with 0 by lia. simpl. apply app_nil_r. Qed.

Lemma firstn_S_nth {A} n (l : list A) d : n < length l -> firstn (S n) l = firstn n l ++ [nth n l d].
Proof.
  revert l; induction n as [|n IH]; intros [|a l] H; simpl in *; try lia; auto.
  f_equal. apply IH. lia.
Qed.

Lemma nth_app_lt {A} k (l1 l2 : list A) d : k < length l1 -> nth k (l1 ++ l2) d = nth k l1 d.
Proof. intros. apply app_nth1; auto. Qed.

(* facts extracted from the counting invariant *)
Lemma snt_le_cN s e : Inv s -> e < E c -> snt (es s e) <= cN (ns s (esrc c e)).
Proof.
  intros [HN HE] He. destruct (wf_topo _ _ WF e He) as [Hlt Hd].
  assert (Hu : esrc c e < nn c) by lia.
  pose proof (HN _ Hu) as NI. unfold NodeInv in NI. destruct NI as [n1 n2 n3 n4 n5 n6 n7].
  pose proof (HE _ He) as EI. unfold EdgeInv in EI. destruct EI as [e1 e2 e3 e4].
  rewrite e1. unfold sx, sending in *.
  destruct (rn (ns s (esrc c e))) eqn:R.
  - assert (H : RSel <> RFin) by congruence. specialize (n1 H). simpl in n1. lia.
  - assert (H : RSend todo <> RFin) by congruence. specialize (n1 H). simpl in n1.
    destruct (existsb (Nat.eqb e) todo); lia.
  - destruct (n2 eq_refl) as [_ [_ Heq]]. lia.
Qed.

Lemma cN_le_rcv s e : Inv s -> e < E c -> cN (ns s (edst c e)) <= rcv (es s e) /\ rcv (es s e) <= snt (es s e).
Proof.
  intros [HN HE] He. pose proof (HE _ He) as EI. unfold EdgeInv in EI. destruct EI as [e1 e2 e3 e4]. lia.
Qed.

Ltac inv_some := match goal with H : Some _ = Some ?s' |- _ => injection H as H; subst s' end.

(* actions that leave the ghost state alone and only move control: the ghost
   invariant survives as long as the counters it mentions are unchanged and the
   g_cur premise can only become harder to satisfy *)
Lemma ghost_frame s s' g :
  GInv s g ->
  (forall e, snt (es s' e) = snt (es s e)) ->
  (forall v, cN (ns s' v) = cN (ns s v)) ->
  (forall v y, v < nn c -> In y (ins c v) ->
     match ct (ns s' v) with CtRecv todo false => ~ In y todo | CtHand => slen c v = None | _ => False end ->
     match ct (ns s v) with CtRecv todo false => ~ In y todo | CtHand => slen c v = None | _ => False end) ->
  GInv s' g.
Proof.
  intros [g1 g2 g3 g4 g5] Hs Hc Hcur. constructor.
  - intros e He. rewrite Hs. auto.
  - intros e He. rewrite Hs. auto.
  - intros v Hv. rewrite Hc. auto.
  - intros v k Hv Hk. rewrite Hc in Hk. auto.
  - intros v y Hv Hy Hp. rewrite Hc. apply g5; auto. apply Hcur; auto.
Qed.

Theorem gstep_inv s a s' g :
  Inv s -> GInv s g -> node_of a < nn c -> step c s a = Some s' -> GInv s' (gstep c gc s g a).
Proof.
  intros HI HG Hv Hstep. pose proof HI as [HN HE].
  destruct a as [v perm|v|v|v|v i|v perm|v|v|v]; simpl in Hv, Hstep;
    pose proof (HN v Hv) as NI; unfold NodeInv in NI; destruct NI as [n1 n2 n3 n4 n5 n6 n7].
  - (* ABegin *)
    simpl. destruct (ct (ns s v)) eqn:Ct; try discriminate.
    destruct (slen c v) as [L|] eqn:Sl.
    + destruct (Nat.ltb (cN (ns s v)) L); inv_some;
        (apply ghost_frame with (s := s); auto; simpl;
         [intros w; unfold upd; destruct (Nat.eqb w v) eqn:Ew; simpl; auto; apply Nat.eqb_eq in Ew; subst; auto
         |intros w y Hw Hy; unfold upd; destruct (Nat.eqb_spec w v) as [->|Hne]; simpl; auto;
          rewrite ?Ct; intros Hp; try congruence; try tauto]).
    + destruct (is_perm perm (ins c v)) eqn:Hp; [|discriminate]. destruct (par_sorted c perm); [|discriminate]. cbn [andb] in *. inv_some.
      destruct (is_perm_in _ _ Hp (nodup_ins c v)) as [Hin _].
      apply ghost_frame with (s := s); auto; simpl.
      * intros w; unfold upd; destruct (Nat.eqb w v) eqn:Ew; simpl; auto; apply Nat.eqb_eq in Ew; subst; auto.
      * intros w y Hw Hy; unfold upd; destruct (Nat.eqb_spec w v) as [->|Hne]; simpl; auto.
        intros Hn. exfalso. apply Hn. apply Hin. exact Hy.
  - (* ARecv *)
    destruct (ct (ns s v)) as [|todo0 saw| |] eqn:Ct; try discriminate.
    destruct todo0 as [|y todo]; try discriminate.
    destruct (n6 _ _ eq_refl) as [ND [Hsub Hsl]].
    assert (Hy : In y (ins c v)) by (apply Hsub; left; reflexivity).
    apply in_ins in Hy. destruct Hy as [HyE Hyd].
    apply NoDup_cons_iff in ND. destruct ND as [Hnin ND'].
    simpl gstep. rewrite Ct.
    destruct (Nat.ltb (rcv (es s y)) (snt (es s y))) eqn:Hq.
    + inv_some. destruct HG as [g1 g2 g3 g4 g5].
      pose proof (HE y HyE) as EY. unfold EdgeInv in EY. rewrite Hyd in EY. destruct EY as [y1 y2 y3 y4].
      unfold hand, rx in y2. rewrite Ct in y2.
      constructor; simpl.
      * intros e He. unfold upd. destruct (Nat.eqb_spec e y) as [->|Hne]; simpl; auto.
      * intros e He. unfold upd. destruct (Nat.eqb_spec e y) as [->|Hne]; simpl; auto.
      * intros w Hw. unfold upd. destruct (Nat.eqb w v) eqn:Ew; simpl; auto. apply Nat.eqb_eq in Ew; subst; auto.
      * intros w k Hw Hk. apply (g4 w k Hw).
        unfold upd in Hk. destruct (Nat.eqb w v) eqn:Ew; simpl in Hk; auto. apply Nat.eqb_eq in Ew; subst; auto.
      * intros w y' Hw Hy'. unfold upd at 1 2 3. destruct (Nat.eqb_spec w v) as [->|Hne]; simpl.
        -- destruct saw; [tauto|]. intros Hn.
           destruct (Nat.eqb_spec y y') as [<-|Hyy].
           ++ (* the item just received *)
              simpl in y2. rewrite Nat.eqb_refl in y2. simpl in y2.
              replace (cN (ns s v)) with (rcv (es s y)) by lia. reflexivity.
           ++ apply g5; auto. rewrite Ct. intros [E|E]; [congruence|tauto].
        -- apply g5; auto.
    + destruct (clo (es s y)); [|discriminate]. inv_some.
      apply ghost_frame with (s := s); auto; simpl.
      * intros w; unfold upd; destruct (Nat.eqb w v) eqn:Ew; simpl; auto; apply Nat.eqb_eq in Ew; subst; auto.
      * intros w y' Hw Hy'; unfold upd; destruct (Nat.eqb_spec w v) as [->|Hne]; simpl; auto. tauto.
  - (* AEndRound *)
    simpl. destruct (ct (ns s v)) as [|todo0 saw| |] eqn:Ct; try discriminate.
    destruct (n6 _ _ eq_refl) as [_ [_ Hsl]].
    destruct saw; [destruct (forallb (epar c) todo0); try discriminate|destruct todo0; try discriminate]; cbn [andb] in *; inv_some;
    (apply ghost_frame with (s := s); auto; simpl;
     [ intros w; unfold upd; destruct (Nat.eqb w v) eqn:Ew; simpl; auto; apply Nat.eqb_eq in Ew; subst; auto
     | intros w y Hw Hy; unfold upd; destruct (Nat.eqb_spec w v) as [->|Hne]; simpl; auto;
       rewrite Ct; simpl; tauto ]).
  - (* AHand *)
    destruct (ct (ns s v)) eqn:Ct; try discriminate.
    destruct (rn (ns s v)) eqn:Rn; try discriminate. inv_some.
    destruct HG as [g1 g2 g3 g4 g5].
    constructor; simpl.
    + auto.
    + intros e He. unfold upd at 1. destruct (Nat.eqb_spec (esrc c e) v) as [Es|Es]; auto.
      rewrite firstn_app_le.
      * rewrite <- Es. auto.
      * rewrite g3 by exact Hv. rewrite <- Es. apply snt_le_cN; auto.
    + intros w Hw. unfold upd. destruct (Nat.eqb_spec w v) as [->|Hne]; simpl; auto.
      rewrite app_length, g3; simpl; auto. lia.
    + intros w k Hw Hk. unfold upd in *. destruct (Nat.eqb_spec w v) as [->|Hne]; simpl in *.
      * destruct (Nat.eq_dec k (cN (ns s v))) as [->|Hk'].
        -- rewrite app_nth2 by (rewrite g3; auto). rewrite g3 by auto. rewrite Nat.sub_diag. simpl.
           unfold tuple_of; simpl. destruct (slen c v) eqn:Sl; auto.
           apply map_ext_in. intros y Hy. apply g5; auto. rewrite Ct. exact Sl.
        -- rewrite nth_app_lt by (rewrite g3; auto; lia). apply g4; auto. lia.
      * apply g4; auto.
    + intros w y Hw Hy. unfold upd. destruct (Nat.eqb_spec w v) as [->|Hne]; simpl; [tauto|]. apply g5; auto.
  - (* AExit *)
    simpl. destruct (nth_error (fl (ns s v)) i) as [[|]|]; try discriminate. inv_some.
    apply ghost_frame with (s := s); auto; simpl.
    + intros w; unfold upd; destruct (Nat.eqb w v) eqn:Ew; simpl; auto; apply Nat.eqb_eq in Ew; subst; auto.
    + intros w y Hw Hy; unfold upd; destruct (Nat.eqb_spec w v) as [->|Hne]; simpl; auto.
  - (* APop *)
    simpl. destruct (rn (ns s v)) eqn:Rn; try discriminate.
    destruct (fl (ns s v)) as [|[|] rest]; try discriminate.
    destruct (is_perm perm (outs c v)); [|discriminate]. inv_some.
    apply ghost_frame with (s := s); auto; simpl.
    + intros w; unfold upd; destruct (Nat.eqb w v) eqn:Ew; simpl; auto; apply Nat.eqb_eq in Ew; subst; auto.
    + intros w y Hw Hy; unfold upd; destruct (Nat.eqb_spec w v) as [->|Hne]; simpl; auto.
  - (* ASend *)
    destruct (rn (ns s v)) as [|todo0|] eqn:Rn; try discriminate.
    destruct todo0 as [|x todo]; try discriminate.
    destruct (Nat.ltb (snt (es s x) - rcv (es s x)) (cap c)) eqn:Hq; [|discriminate]. inv_some.
    destruct (n7 _ eq_refl) as [ND Hsub].
    assert (Hx : In x (outs c v)) by (apply Hsub; left; reflexivity).
    apply in_outs in Hx. destruct Hx as [HxE Hxs].
    pose proof (HE x HxE) as EX. unfold EdgeInv in EX. rewrite Hxs in EX. destruct EX as [x1 x2 x3 x4].
    unfold sx in x1. rewrite Rn in x1. simpl in x1. rewrite Nat.eqb_refl in x1. simpl in x1.
    assert (HeN : eN (ns s v) < cN (ns s v)).
    { assert (H : RSend (x :: todo) <> RFin) by congruence. specialize (n1 H). unfold sending in n1. rewrite Rn in n1. lia. }
    destruct HG as [g1 g2 g3 g4 g5].
    simpl gstep. rewrite Rn.
    constructor; simpl.
    + intros e He. unfold upd. destruct (Nat.eqb_spec e x) as [->|Hne]; simpl; auto.
      rewrite app_length, g1; simpl; auto. lia.
    + intros e He. unfold upd. destruct (Nat.eqb_spec e x) as [->|Hne]; simpl; auto.
      change (match crt g (esrc c x) with [] => [] | a :: l => a :: firstn (snt (es s x)) l end)
        with (firstn (S (snt (es s x))) (crt g (esrc c x))).
      rewrite Hxs. rewrite (firstn_S_nth _ _ []) by (rewrite g3; auto; lia).
      rewrite map_app. simpl. rewrite (g2 x HxE), Hxs. f_equal. f_equal. f_equal. f_equal. lia.
    + intros w Hw. unfold upd. destruct (Nat.eqb w v) eqn:Ew; simpl; auto. apply Nat.eqb_eq in Ew; subst; auto.
    + intros w k Hw Hk.
      assert (Hk' : k < cN (ns s w)).
      { unfold upd in Hk. destruct (Nat.eqb_spec w v) as [->|Hne]; simpl in Hk; auto. }
      rewrite g4 by auto. unfold tuple_of; simpl. destruct (slen c w); auto.
      apply map_ext_in. intros y Hy. unfold upd. destruct (Nat.eqb_spec y x) as [->|Hne]; auto.
      apply in_ins in Hy. destruct Hy as [_ Hyd].
      rewrite nth_app_lt; auto. rewrite g1 by auto.
      pose proof (cN_le_rcv s x HI HxE) as [A B]. rewrite Hyd in A. lia.
    + intros w y Hw Hy Hpre.
      assert (Hpre' : match ct (ns s w) with CtRecv todo false => ~ In y todo | CtHand => slen c w = None | _ => False end).
      { unfold upd in Hpre. destruct (Nat.eqb_spec w v) as [->|Hne]; simpl in Hpre; auto. }
      assert (HcN : cN (upd (ns s) v {| ct := ct (ns s v); rn := RSend todo; cN := cN (ns s v); eN := eN (ns s v); fl := fl (ns s v) |} w) = cN (ns s w)).
      { unfold upd. destruct (Nat.eqb_spec w v) as [->|Hne]; auto. }
      rewrite HcN. rewrite g5 by auto.
      unfold upd. destruct (Nat.eqb_spec y x) as [->|Hne]; auto.
      apply in_ins in Hy. destruct Hy as [_ Hyd].
      rewrite nth_app_lt; auto. rewrite g1 by auto.
      (* the item was already received this round, or the node is at hand-off: cN w < rcv x *)
      pose proof (HE x HxE) as EX. unfold EdgeInv in EX. rewrite Hyd in EX. destruct EX as [_ z2 z3 _].
      unfold hand, rx in z2.
      destruct (ct (ns s w)) as [|td sw| |] eqn:Cw; try tauto.
      * destruct sw; [tauto|]. apply existsb_eqb_false in Hpre'. rewrite Hpre' in z2. lia.
      * lia.
  - (* AEndSend *)
    simpl. destruct (rn (ns s v)) as [|todo0|]; try discriminate.
    destruct todo0; try discriminate. inv_some.
    apply ghost_frame with (s := s); auto; simpl.
    + intros w; unfold upd; destruct (Nat.eqb w v) eqn:Ew; simpl; auto; apply Nat.eqb_eq in Ew; subst; auto.
    + intros w y Hw Hy; unfold upd; destruct (Nat.eqb_spec w v) as [->|Hne]; simpl; auto.
  - (* AFin *)
    simpl. destruct (rn (ns s v)); try discriminate.
    destruct (ct (ns s v)) eqn:Ct; try discriminate.
    destruct (fl (ns s v)); try discriminate. inv_some.
    apply ghost_frame with (s := s); auto.
    + intros e. rewrite close_all_es. simpl. destruct (existsb (Nat.eqb e) (outs c v)); reflexivity.
    + intros w. rewrite close_all_ns. simpl. unfold upd; destruct (Nat.eqb w v) eqn:Ew; simpl; auto; apply Nat.eqb_eq in Ew; subst; auto.
    + intros w y Hw Hy. rewrite close_all_ns. simpl. unfold upd; destruct (Nat.eqb_spec w v) as [->|Hne]; simpl; auto. tauto.
Qed.

End GP.
Print Assumptions gstep_inv.
